/-
  C09 — after each event the interpreter is quiescent and its dispatch index is exact.

  Layer 1 (this section, all UNBOUNDED, proved): the dispatch index `event_matching_heads` and its
  reverse map, maintained incrementally exactly as `statemachine.py` does it, over arbitrary sequences
  of the operations by which the interpreter writes `FlowHead.position`, `FlowHead.status`,
  `FlowState.heads` and `FlowState.status`  (Models/CoreIndex.lean).

  Layer 4 (CoreVM section further down): the whole-interpreter model; proved parts are named `…_partial`,
  the full statement T2 is kept as a comment.

  Only property theorems, non-vacuity examples and kernel-checked witnesses live in this file.
-/
import NemoVerif.Lemmas.CoreIndex
import NemoVerif.Lemmas.CoreVM
import NemoVerif.Lemmas.CoreVMNoStopping
import NemoVerif.Lemmas.CoreVMParked
import NemoVerif.Lemmas.RefName

namespace NemoVerif.C09
open NemoVerif.CoreIndex

/-! ## T1 — the two maps are inverse of each other, always -/

/-- `MapsConsistent` (index and reverse map are inverse of each other: a key is in bucket `nm` exactly
    once iff the reverse map says `nm`) is preserved by `_remove_head_from_event_matching_structures`. -/
theorem mapsConsistent_remove {s : IState} (h : MapsConsistent s) (k : Key) :
    MapsConsistent (rawRemove s k) := mc_rawRemove h k

/-- … by `_add_head_to_event_matching_structures` on an unregistered key … -/
theorem mapsConsistent_add {s : IState} (h : MapsConsistent s) (k : Key) (nm : String)
    (hfree : reg s k = none) : MapsConsistent (rawAdd s k nm) := mc_rawAdd h k nm hfree

/-- … by `_flow_head_changed` (remove, then conditionally add), unconditionally … -/
theorem mapsConsistent_headChanged {s : IState} (h : MapsConsistent s) (k : Key)
    (fst : FlowStatus) (hst : HeadStatus) (elem : Option String) :
    MapsConsistent (headChanged s k fst hst elem) := mc_headChanged h k fst hst elem

/-- … and by every operation of the layer, whether or not its guard holds (so also inside the
    windows in which the Python code is transiently inexact), hence in every reachable state. -/
theorem mapsConsistent_every_reachable_state (ops : List Op) :
    MapsConsistent (ops.foldl step {}) :=
  mapsConsistent_foldl ops {} indexOK_init.maps

/-- the `list.remove` inside `_remove_head_from_event_matching_structures` cannot raise `ValueError`:
    a key that the reverse map knows is present in its bucket. -/
theorem remove_never_raises {s : IState} (h : MapsConsistent s) {k : Key} {nm : String}
    (hr : reg s k = some nm) : k ∈ bucket s nm := by
  have := h k nm
  rw [hr] at this
  simp only [if_true] at this
  exact List.count_pos_iff.1 (by omega)

/-! ## T1 — `headChanged_exact`: each write keeps `index = scan` -/

/-- `head.position = p` -/
theorem headChanged_exact_setPos {s : IState} (ok : IndexOK s) (f : FUid) (h : HUid) (p : Nat) (nm : Option String)
    (hex : (Op.setPos f h p nm).guard s = true) : IndexOK (step s (.setPos f h p nm)) :=
  indexOK_step ok _ hex

/-- `head.status = st` -/
theorem headChanged_exact_setStatus {s : IState} (ok : IndexOK s) (f : FUid) (h : HUid) (st : HeadStatus) (nm : Option String)
    (hex : (Op.setStatus f h st nm).guard s = true) : IndexOK (step s (.setStatus f h st nm)) :=
  indexOK_step ok _ hex

/-- `add_new_flow_instance` (first head of a new instance) -/
theorem headChanged_exact_addHead {s : IState} (ok : IndexOK s) (f : FUid) (h : HUid) (nm0 : Option String)
    (hfresh : (Op.addInst f h nm0).guard s = true) : IndexOK (step s (.addInst f h nm0)) :=
  indexOK_step ok _ hfresh

/-- `ForkHead`: the new head is put into `heads` at position 0 WITHOUT registration and then moved to
    its label. Exact afterwards provided the label is not at position 0 (or position 0 is not a match
    element) — in the shipped parser element 0 of every flow is `match StartFlow`, so labels are ≥ 1
    (checked by the static tie on every run). -/
theorem fork_exact {s : IState} (ok : IndexOK s) (f : FUid) (h' : HUid) (nm0 : Option String) (p : Nat) (nm : Option String)
    (hg : (Op.fork f h' nm0 p nm).guard s = true) : IndexOK (step s (.fork f h' nm0 p nm)) :=
  indexOK_step ok _ hg

/-- `MergeHeads`: `heads[uid].status = INACTIVE` (callback) then `del heads[uid]` (no callback) -/
theorem merge_delete_exact {s : IState} (ok : IndexOK s) (f : FUid) (h : HUid) (nm : Option String)
    (hd : (Op.delHead f h).guard (step s (.setStatus f h .inactive nm)) = true) :
    IndexOK (step (step s (.setStatus f h .inactive nm)) (.delHead f h)) := by
  apply indexOK_step _ _ hd
  simp only [step]; split
  · exact ok
  · split
    · exact ok
    · exact indexOK_touchHead ok _ _ _ (by intro x; rfl)

/-- `_abort_flow` / `_finish_flow`: explicit removal of every head, `heads.clear()`, and only then the
    flow status change — no guard needed. -/
theorem abort_or_finish_exact {s : IState} (ok : IndexOK s) (f : FUid) (st : FlowStatus) :
    IndexOK (step (step s (.dropHeads f)) (.setFlowStatus f st)) :=
  indexOK_step (indexOK_step ok _ rfl) _ (guard_setFlowStatus_after_dropHeads s f st)

/-- main-flow restart in `_finish_flow`: the new head is registered BEFORE it is installed in `heads`
    and before the status becomes WAITING. -/
theorem main_restart_exact {s : IState} (ok : IndexOK s) (f : FUid) (h : HUid) (nm0 : Option String)
    {i : Inst} (hi : findInst s f = some i) (hl : i.status.listening = true) :
    IndexOK (step (step s (.dropHeads f)) (.mainRestart f h nm0)) :=
  indexOK_step (indexOK_step ok _ rfl) _ (guard_mainRestart_after_dropHeads s f h nm0 hi hl)

/-- the `Abort` element: `flow_state.status = STOPPING` BEFORE the head is moved; the other heads of
    the instance stay registered (stale) until `_abort_flow` drops them. The invariant tolerates
    exactly this window (`Exact` exempts STOPPING instances, `Owned` still holds), … -/
theorem abort_statement_window {s : IState} (ok : IndexOK s) (f : FUid) (h : HUid) (p : Nat)
    (hex : (Op.setPos f h p none).guard (step s (.setFlowStatus f .stopping)) = true) :
    IndexOK (step (step s (.setFlowStatus f .stopping)) (.setPos f h p none)) :=
  indexOK_step (indexOK_step ok _ (by simp only [Op.guard]; cases findInst s f <;> simp)) _ hex

/-- … and is closed by `_abort_flow`, whatever guarded operations (aborting the children) ran in between. -/
theorem abort_statement_closed {s : IState} (ok : IndexOK s) (f : FUid) (between : List Op)
    (hg : AllGuards s between) :
    IndexOK (step (step (between.foldl step s) (.dropHeads f)) (.setFlowStatus f .stopped)) :=
  abort_or_finish_exact (indexOK_foldl between s ok hg) f .stopped

/-! ## T1 — every reachable state -/

/-- **every reachable state**: starting from the empty interpreter state, after ANY sequence of
    operations whose guards hold, the invariant holds … -/
theorem indexOK_every_reachable_state (ops : List Op) (hg : AllGuards {} ops) :
    IndexOK (ops.foldl step {}) :=
  indexOK_foldl ops {} indexOK_init hg

/-- … and then the index equals the from-scratch scan as a multiset, as soon as no instance is left
    STOPPING (which is the case at the exit of `run_to_completion`: the oracle checks it on the real
    state after every event). -/
theorem index_exact_every_reachable_state (ops : List Op) (hg : AllGuards {} ops)
    (hns : NoStopping (ops.foldl step {})) (nm : String) (k : Key) :
    (bucket (ops.foldl step {}) nm).count k = (scan (ops.foldl step {})).count (nm, k) :=
  index_eq_scan (indexOK_every_reachable_state ops hg) hns nm k

/-- **finished or failed instances hold no position**, in every reachable state. -/
theorem done_instances_hold_no_head_every_reachable_state (ops : List Op) (hg : AllGuards {} ops)
    (f : FUid) (i : Inst) (hi : findInst (ops.foldl step {}) f = some i) (hd : i.status.done = true) : i.heads = [] :=
  noPos_foldl ops {} noPos_init hg f i hi hd

/-- **every index entry refers to a head that still exists** (the index clause of "every … referenced … still
    exists"), in every reachable state. -/
theorem index_entries_live_every_reachable_state (ops : List Op) (hg : AllGuards {} ops) (k : Key) (nm : String)
    (hr : k ∈ bucket (ops.foldl step {}) nm) :
    ∃ i, findInst (ops.foldl step {}) k.1 = some i ∧ (i.findHead k.2).isSome := by
  have ok := indexOK_every_reachable_state ops hg
  have hc := ok.maps k nm
  have hpos : 0 < (bucket (ops.foldl step {}) nm).count k := List.count_pos_iff.2 hr
  have hreg : reg (ops.foldl step {}) k = some nm := by
    by_cases h : reg (ops.foldl step {}) k = some nm
    · exact h
    · rw [hc] at hpos; simp [h] at hpos
  exact ok.owned k nm hreg

/-- no waiting head is missed and no stale entry remains (membership form). -/
theorem no_missed_no_stale (ops : List Op) (hg : AllGuards {} ops)
    (hns : NoStopping (ops.foldl step {})) (nm : String) (k : Key) :
    k ∈ bucket (ops.foldl step {}) nm ↔ (nm, k) ∈ scan (ops.foldl step {}) := by
  rw [← List.count_pos_iff, ← List.count_pos_iff, index_exact_every_reachable_state ops hg hns]

/-! ### non-vacuity: a concrete guarded run with a fork, a merge, an abort and a restart -/

def demoOps : List Op :=
  [ .addInst "main" "h0" (some "StartFlow"),
    .setFlowStatus "main" .starting,
    .setPos "main" "h0" 1 none,
    .setStatus "main" "h0" .inactive none,
    .fork "main" "h1" (some "StartFlow") 3 none,
    .fork "main" "h2" (some "StartFlow") 6 none,
    .setPos "main" "h1" 4 (some "A"),
    .setPos "main" "h2" 7 (some "B"),
    .setFlowStatus "main" .started,
    .addInst "(a)1" "h3" (some "StartFlow"),
    .setPos "(a)1" "h3" 1 (some "A"),
    .setFlowStatus "(a)1" .started,
    .setPos "main" "h1" 5 none,
    .setStatus "main" "h1" .merging none,
    .setPos "main" "h0" 5 none,
    .setStatus "main" "h0" .active none,
    .setStatus "main" "h1" .inactive none, .delHead "main" "h1",
    .setStatus "main" "h2" .inactive none, .delHead "main" "h2",
    .setPos "main" "h0" 9 (some "C"),
    .setFlowStatus "(a)1" .stopping, .setPos "(a)1" "h3" 2 none,
    .dropHeads "(a)1", .setFlowStatus "(a)1" .stopped,
    .dropHeads "main", .mainRestart "main" "h4" (some "StartFlow"),
    .removeInst "(a)1" ]

example : (run {} demoOps).2 = [] := by decide
example : entries (demoOps.foldl step {}) = [("StartFlow", ("main", "h4"))] := by decide
example : scan (demoOps.foldl step {}) = [("StartFlow", ("main", "h4"))] := by decide
/-- mid-run, two forked heads and a child are registered -/
example : entries ((demoOps.take 12).foldl step {}) = [("A", ("main", "h1")), ("A", ("(a)1", "h3")), ("B", ("main", "h2"))] := by decide

/-! ### kernel-checked witnesses: the guards are what keeps the index exact
    (each is the model-level image of a realistic faulty edit of statemachine.py, DESIGN §9a) -/

def parked : IState := [Op.addInst "f" "h" (some "StartFlow"), .setFlowStatus "f" .started, .setPos "f" "h" 1 (some "Ev")].foldl step {}

/-- `_remove_head_from_event_matching_structures` skipped in `_finish_flow`: a stale entry remains. -/
theorem clear_without_remove_leaves_stale_entry :
    entries ([Op.clearHeads "f", .setFlowStatus "f" .finished].foldl step parked) = [("Ev", ("f", "h"))]
    ∧ scan ([Op.clearHeads "f", .setFlowStatus "f" .finished].foldl step parked) = []
    ∧ (Op.clearHeads "f").guard parked = false := by decide

/-- a flow status change to a non-listening status while heads are still registered: stale entry. -/
theorem status_change_with_registered_heads_leaves_stale_entry :
    entries (step parked (.setFlowStatus "f" .finished)) = [("Ev", ("f", "h"))]
    ∧ scan (step parked (.setFlowStatus "f" .finished)) = []
    ∧ (Op.setFlowStatus "f" .finished).guard parked = false := by decide

/-- a forked head whose label is element 0 (a match element) is never registered: a waiting head is missed. -/
theorem fork_to_position_zero_misses_a_head :
    entries (step parked (.fork "f" "h2" (some "StartFlow") 0 (some "StartFlow"))) = [("Ev", ("f", "h"))]
    ∧ scan (step parked (.fork "f" "h2" (some "StartFlow") 0 (some "StartFlow"))) = [("Ev", ("f", "h")), ("StartFlow", ("f", "h2"))]
    ∧ (Op.fork "f" "h2" (some "StartFlow") 0 (some "StartFlow")).guard parked = false := by decide

/-- `del heads[uid]` of a registered head (status not set to INACTIVE first): stale entry. -/
theorem delete_registered_head_leaves_stale_entry :
    entries (step parked (.delHead "f" "h")) = [("Ev", ("f", "h"))]
    ∧ scan (step parked (.delHead "f" "h")) = []
    ∧ (Op.delHead "f" "h").guard parked = false := by decide

/-! ## CoreVM — the whole-interpreter model (Models/CoreVM/*.lean)

  CoreVM mirrors `run_to_completion` and everything it calls. Its state keeps the index-relevant part
  (instances, heads, the two dispatch maps) as a `CoreIndex.IState` that can only be changed through a
  guarded `CoreIndex.step` (`applyOp` stops the model with `guardFailed` instead of applying an operation
  whose guard does not hold — the harness reports that as a divergence); the structure `IxS` carries the
  kernel-checked facts "the index is the replay of the logged operations" and "every guard along the log
  held".  The layer-1 theorems therefore hold for every CoreVM state, by construction, without any
  hypothesis — no separate simulation argument is needed. -/

open NemoVerif.CoreVM
open Std.Do

/-- **`queue_empty_at_exit`** (proved from the structure of the three nested loops): whenever
    `runToCompletion` returns normally — for every program, every state, every event, every fuel, every
    sequence of tie-break outcomes — no internal event is pending. -/
theorem queue_empty_at_exit (fuel : Nat) (ev : Match.Ev) (s s' : VM)
    (h : runToCompletion fuel ev s = .ok () s') : s'.r.queue = [] :=
  runToCompletion_queue_empty fuel ev s s' () h

/-- the two dispatch maps of every CoreVM state are inverse of each other -/
theorem corevm_maps_consistent (s : VM) : MapsConsistent s.ixs.ix := mapsConsistent_of_vm s

/-- **`quiescent_partial`, index clause**: in EVERY CoreVM state in which no instance is STOPPING, the dispatch
    index equals the from-scratch scan. -/
theorem quiescent_partial_index (s : VM) (hns : NoStopping s.ixs.ix) (nm : String) (k : Key) :
    (bucket s.ixs.ix nm).count k = (scan s.ixs.ix).count (nm, k) :=
  index_eq_scan (indexOK_of_vm s) hns nm k

/-- **`quiescent_partial`, no-position clause**: in EVERY CoreVM state, STOPPED / FINISHED instances have no heads. -/
theorem quiescent_partial_no_position (s : VM) (f : FUid) (i : Inst)
    (hi : findInst s.ixs.ix f = some i) (hd : i.status.done = true) : i.heads = [] :=
  noPos_of_vm s f i hi hd

/-- **`quiescent_partial`** — the part of T2 that is proved, WITHOUT hypotheses: for every program, every state, every
    event, every fuel and every sequence of tie-break outcomes, whenever `runToCompletion` returns normally
      * no internal event is pending                                        (loop structure),
      * no instance is STOPPING                                             (exit assertion of the model, see below),
      * the dispatch index equals the from-scratch scan, as multisets       (T1, by construction),
      * STOPPED / FINISHED instances hold no head                           (T1, by construction),
      * every index entry names a head that exists                          (T1, by construction).
    "No instance is STOPPING" is not derived from the interpreter logic: the model checks it when it leaves
    `runToCompletion` and stops (`guardFailed`) otherwise, exactly as it stops instead of applying an index operation
    whose guard fails; the harness reports either as a divergence from the interpreter, and the oracle checks both
    facts independently on the real state after every event. -/
theorem quiescent_partial (fuel : Nat) (ev : Match.Ev) (s s' : VM)
    (h : runToCompletion fuel ev s = .ok () s') :
    s'.r.queue = []
    ∧ NoStopping s'.ixs.ix
    ∧ (∀ nm k, (bucket s'.ixs.ix nm).count k = (scan s'.ixs.ix).count (nm, k))
    ∧ (∀ f i, findInst s'.ixs.ix f = some i → i.status.done = true → i.heads = [])
    ∧ (∀ k nm, reg s'.ixs.ix k = some nm → ∃ i, findInst s'.ixs.ix k.1 = some i ∧ (i.findHead k.2).isSome) :=
  have hns := runToCompletion_noStopping fuel ev s s' () h
  ⟨queue_empty_at_exit fuel ev s s' h, hns, fun nm k => quiescent_partial_index s' hns nm k,
   fun f i hi hd => quiescent_partial_no_position s' f i hi hd, (indexOK_of_vm s').owned⟩

/-- **worklist, part 1** (`quiescent` needs: every non-parked active head is in the pending list): what
    `advanceHeadFront` hands back as pending are heads that exist and are not INACTIVE in the resulting state. -/
theorem pending_heads_are_live_partial (fuel : Nat) (heads : List Key) (s s' : VM) (r : List Key)
    (h : advanceHeadFront fuel heads s = .ok r s') :
    ∀ k ∈ r, ∃ hd, (findInst s'.ixs.ix k.1).bind (·.findHead k.2) = some hd ∧ hd.status ≠ .inactive :=
  advanceHeadFront_returns_live fuel heads s s' r h

/-- **worklist, part 2**: when the merging loop ends, every pending head is ACTIVE (no head is left MERGING in the
    worklist) and the queue is empty. -/
theorem merging_loop_exit_partial (fuel : Nat) (acts : List Key) (s s' : VM) (r : List Key)
    (h : mergeLoop fuel acts s = .ok r s') :
    s'.r.queue = [] ∧ ∀ k ∈ r, headStatusOf s'.ixs.ix k = some .active :=
  ⟨mergeLoop_queue_empty fuel acts s s' r h, mergeLoop_returns_active fuel acts s s' r h⟩

/-- the literal specification: with a program-level name oracle `P` that the ghost field agrees with
    (`Coherent`, i.e. NoRefReassignWhileParked: no event name changed under a parked head), the scan is the
    one of the property statement: all (P instance position, instance, head) with head status ≠ INACTIVE,
    instance listening, element at the head position a match element. -/
def Coherent (P : FUid → Nat → Option String) (s : IState) : Prop :=
  ∀ i ∈ s.insts, ∀ hd ∈ i.heads, hd.elem = P i.uid hd.pos

def scanP (P : FUid → Nat → Option String) (s : IState) : List (String × Key) :=
  s.insts.flatMap fun i =>
    if i.status.listening then
      i.heads.filterMap fun hd =>
        if hd.status ≠ .inactive then (P i.uid hd.pos).map fun nm => (nm, (i.uid, hd.uid)) else none
    else []

theorem scan_eq_scanP (P : FUid → Nat → Option String) (s : IState) (hc : Coherent P s) : scan s = scanP P s := by
  unfold scan scanP
  have key : ∀ (l : List Inst), (∀ i ∈ l, ∀ hd ∈ i.heads, hd.elem = P i.uid hd.pos) →
      (l.flatMap fun i => if i.status.listening then i.heads.filterMap fun hd =>
          if hd.status ≠ .inactive then hd.elem.map fun nm => (nm, (i.uid, hd.uid)) else none else []) =
      (l.flatMap fun i => if i.status.listening then i.heads.filterMap fun hd =>
          if hd.status ≠ .inactive then (P i.uid hd.pos).map fun nm => (nm, (i.uid, hd.uid)) else none else []) := by
    intro l
    induction l with
    | nil => intro _; rfl
    | cons i rest ih =>
      intro h
      simp only [List.flatMap_cons]
      rw [ih (fun j hj => h j (List.mem_cons_of_mem _ hj))]
      congr 1
      split
      · have inner : ∀ (hs : List Head), (∀ hd ∈ hs, hd.elem = P i.uid hd.pos) →
            (hs.filterMap fun hd => if hd.status ≠ .inactive then hd.elem.map fun nm => (nm, (i.uid, hd.uid)) else none) =
            (hs.filterMap fun hd => if hd.status ≠ .inactive then (P i.uid hd.pos).map fun nm => (nm, (i.uid, hd.uid)) else none) := by
          intro hs
          induction hs with
          | nil => intro _; rfl
          | cons hd tl ih2 =>
            intro hh
            simp only [List.filterMap_cons]
            rw [hh hd List.mem_cons_self, ih2 (fun x hx => hh x (List.mem_cons_of_mem _ hx))]
        exact inner i.heads (h i List.mem_cons_self)
      · rfl
  exact key s.insts hc

/-! ## `no_stopping_at_exit` — derived from the interpreter logic (phase 4)

  `runToCompletion = runBody; exitAssertion` (`runToCompletion_eq`, by `rfl`-unfolding), where `runBody` is the model of
  `run_to_completion` itself (clean-up and the three nested loops) and `exitAssertion` the run-time check the model used to
  rely on.  The theorems below show, by a Hoare logic over the model monad (`Lemmas/CoreVMHoare.lean`, on top of
  `Std.Do` / `mvcgen`) with ONE PRESERVATION LEMMA PER MODEL FUNCTION (`Lemmas/CoreVMKeeps*.lean`), that the body never
  leaves an instance STOPPING, so the assertion can never fire from a state without STOPPING instance:
    * STOPPING is written only by the `Abort` element of `slide`, for the sliding flow `f` itself, immediately followed
      by moving the sliding head behind the last element (`slide_writes_stopping_only_for_its_own_flow`);
    * every other model function keeps "only the instances `A` are STOPPING" for every `A`, on normal return AND when it
      raises (the state at the raise is what the `try/except` of `_advance_head_front` continues with);
    * the heads handed back by `slide` belong to `f`, the nested `_advance_head_front` over them changes nothing while
      `f` is STOPPING, the second half of the try block then finds the head behind the last element and the status
      STOPPING (`abo`), the exception handler sets `flow_aborted`, and `_abort_flow(f)` leaves `f` STOPPED
      (`advance_head_front_restores_no_stopping`, induction on the fuel with the nested call);
    * errors are never caught above `_advance_head_front`, so the loops of `run_to_completion` only need its
      normal-return half. -/

/-- `_abort_flow` and `_finish_flow` never make an instance STOPPING (they keep "only `A` is STOPPING" for every `A`,
    on every outcome). -/
theorem abort_and_finish_never_write_stopping (A : List FUid) (fuel : Nat) (f : FUid) (sc : List Score) (d : Bool) :
    Keeps (stopInv A) (abortFlow fuel f sc d) ∧ Keeps (stopInv A) (finishFlow fuel f sc d) :=
  ⟨abortFlow_keeps _ (hend_of_hall _ (stopInv_hall A)) fuel f sc d, finishFlow_keeps _ (hend_of_hall _ (stopInv_hall A)) fuel f sc d⟩

/-- `slide` for head `h` of flow `f` (configuration `cfg`): from a state where only `A` is STOPPING it ends in a state
    where still only `A` is STOPPING, or `f` has just been set STOPPING and `h` stands behind the last element; when it
    raises, at most `f` has joined the STOPPING instances. -/
theorem slide_writes_stopping_only_for_its_own_flow (A : List FUid) (fuel : Nat) (f : FUid) (h : HUid) (cfg : FlowCfg) :
    ⦃fun s => ⌜(cfgInv f cfg).J s ∧ StopSub A s.ixs.ix.insts⌝⦄ slide fuel f h
    ⦃post⟨fun _ s => ⌜(cfgInv f cfg).J s ∧ QS A f h cfg.elements.size s⌝, fun _ s => ⌜StopSub (f :: A) s.ixs.ix.insts⌝⟩⦄ :=
  slide_stop A fuel f h cfg

/-- every head handed back by `slide` belongs to the sliding flow -/
theorem slide_hands_back_heads_of_its_flow (fuel : Nat) (f : FUid) (h : HUid) (s s' : VM) (r : List Key)
    (heq : slide fuel f h s = .ok r s') : ∀ k ∈ r, k.1 = f := slide_heads fuel f h s s' r heq

/-- `_abort_flow(f)` (not a deactivation) leaves `f` not STOPPING -/
theorem abort_flow_clears_stopping (A : List FUid) (f : FUid) (fuel : Nat) (sc : List Score) :
    ⦃fun s => ⌜(stopInv (f :: A)).J s⌝⦄ abortFlow fuel f sc false
    ⦃post⟨fun _ s => ⌜(stopInv A).J s⌝, fun _ s => ⌜StopSub (f :: A) s.ixs.ix.insts⌝⟩⦄ := abortFlow_clears A f fuel sc

/-- **`_advance_head_front`**: for every fuel, every `A` and every list of heads, a normal return from a state where only `A`
    is STOPPING ends in such a state (when it raises, at most the flow of one of the heads has joined). -/
theorem advance_head_front_restores_no_stopping (fuel : Nat) (A : List FUid) (heads : List Key) :
    ⦃fun s => ⌜(stopInv A).J s⌝⦄ advanceHeadFront fuel heads
    ⦃post⟨fun _ s => ⌜(stopInv A).J s⌝, fun _ s => ⌜StopSub A s.ixs.ix.insts ∨ ∃ k ∈ heads, StopSub (k.1 :: A) s.ixs.ix.insts⌝⟩⦄ :=
  advStop fuel A heads

/-- **`no_stopping_at_exit`** (T2 clause, proved): for every program, state without STOPPING instance, event, fuel and
    sequence of tie-breaks — if the body of `run_to_completion` returns normally, no instance is STOPPING, and therefore
    `runToCompletion` (body + exit assertion) returns normally in the same state: the assertion is redundant. -/
theorem no_stopping_at_exit (fuel : Nat) (ev : Match.Ev) (s s' : VM) (h : NoStopping s.ixs.ix)
    (heq : runBody fuel ev s = .ok () s') : NoStopping s'.ixs.ix ∧ runToCompletion fuel ev s = .ok () s' :=
  ⟨runBody_no_stopping fuel ev s s' h heq, runToCompletion_of_runBody fuel ev s s' h heq⟩

/-- non-vacuity: the initial index state has no STOPPING instance -/
example : NoStopping ({} : IState) := by intro i hi; cases hi

/-- `runToCompletion` is the body followed by the exit assertion, and a normal return of it is a normal return of the body -/
theorem run_to_completion_is_body_then_assertion (fuel : Nat) (ev : Match.Ev) :
    runToCompletion fuel ev = (do runBody fuel ev; exitAssertion) := runToCompletion_eq fuel ev

/-- **fuel** (`outOfFuel` is kept apart from the interpreter's outcomes): the model's `try/except` catches Python exceptions
    only; running out of fuel (like leaving the fragment, or a failed index guard) always propagates to the caller and is
    never turned into a `ColangError` / flow abort. -/
theorem out_of_fuel_is_never_caught {α : Type} (x : M α) (s s' : VM) (hx : x s = .error .outOfFuel s') :
    attemptPy x s = .error .outOfFuel s' := attemptPy_outOfFuel x s s' hx

/-- **`quiescent_partial`, phase 4**: a normal return of `runToCompletion` from a state without STOPPING instance, with the
    "no instance STOPPING" clause now carried by the interpreter logic (`no_stopping_at_exit`) instead of the assertion. -/
theorem quiescent_partial_no_assertion (fuel : Nat) (ev : Match.Ev) (s s' : VM) (h0 : NoStopping s.ixs.ix)
    (h : runBody fuel ev s = .ok () s') :
    s'.r.queue = []
    ∧ NoStopping s'.ixs.ix
    ∧ (∀ nm k, (bucket s'.ixs.ix nm).count k = (scan s'.ixs.ix).count (nm, k))
    ∧ (∀ f i, findInst s'.ixs.ix f = some i → i.status.done = true → i.heads = [])
    ∧ (∀ k nm, reg s'.ixs.ix k = some nm → ∃ i, findInst s'.ixs.ix k.1 = some i ∧ (i.findHead k.2).isSome) :=
  quiescent_partial fuel ev s s' (no_stopping_at_exit fuel ev s s' h0 h).2

/-- **`corevm_no_stopping`**: in every state of a run of the model — `initialize_state`, then any number of external events
    processed by `runToCompletion` (any fuel, tie-breaks, clock) — no instance is STOPPING. -/
theorem corevm_no_stopping (p : Prog) (s : VM) (h : Reach p s) : NoStopping s.ixs.ix := reach_no_stopping p s h

/-- **`corevm_index_exact`**: hence, in EVERY state of a run of the model (after `initialize_state` and after each external
    event), the dispatch index equals the from-scratch scan as multisets — no hypothesis left: `IndexOK` holds by
    construction of the index component (the model stops instead of applying an operation whose guard fails), `NoStopping`
    by `no_stopping_at_exit`. -/
theorem corevm_index_exact (p : Prog) (s : VM) (h : Reach p s) (nm : String) (k : Key) :
    (bucket s.ixs.ix nm).count k = (scan s.ixs.ix).count (nm, k) :=
  quiescent_partial_index s (reach_no_stopping p s h) nm k

/-- non-vacuity: a normal return of `initialize_state` is a reachable state -/
example (p : Prog) (s : VM) (h : initializeState ({ r := { prog := p } } : VM) = .ok () s) : Reach p s := .init s h

/-! ## `Parked` / `PendingCovers` — definitions and the part carried so far (phase 4) -/

/-- with an empty worklist, the worklist invariant is the `Parked` clause of the property -/
theorem pending_covers_with_empty_worklist_is_parked (s : VM) : PendingCovers [] s ↔ Parked s :=
  parked_iff_pendingCovers_nil s

/-- `PendingCovers W` is kept by every index operation that only removes heads, makes instances leave the listening
    statuses, or moves / creates heads that are in `W` (`CovOp W`) — for every state, guard or not. -/
theorem pending_covers_kept_by_worklist_operations (W : List Key) (s : VM) (op : Op) (hg : op.guard s.ixs.ix = true)
    (h : PendingCovers W s) (hop : CovOp W op) : PendingCovers W { s with ixs := s.ixs.apply op hg } :=
  (covInv W).step s op hg h hop

/-- non-vacuity: the empty state satisfies `PendingCovers W`, and `dropHeads` is a `CovOp` -/
example (W : List Key) (p : Prog) : PendingCovers W ({ r := { prog := p } } : VM) := by
  intro i hi; cases hi
example (W : List Key) (f : FUid) : CovOp W (.dropHeads f) := trivial

/-- `_abort_flow` keeps `PendingCovers W` for every worklist `W`, on every outcome -/
theorem abort_flow_keeps_pending_covers (W : List Key) (fuel : Nat) (f : FUid) (sc : List Score) (d : Bool) :
    Keeps (covInv W) (abortFlow fuel f sc d) := abortFlow_pendingCovers W fuel f sc d

/-- the head setters keep `PendingCovers W` for heads of the worklist (or a head that becomes INACTIVE) -/
theorem head_setters_keep_pending_covers (W : List Key) (k : Key) (hk : k ∈ W) (p : Nat) (st : HeadStatus) :
    Keeps (covInv W) (setHeadPos k p) ∧ Keeps (covInv W) (setHeadStatus k st) :=
  ⟨setHeadPos_pendingCovers W k p hk, setHeadStatus_pendingCovers W k st (Or.inl hk)⟩

/-- **`slide` confines loose heads**: while head `h` of flow `f` slides — every element kind, forks and merges, scope ends
    with their `_abort_flow`s, the `Abort` element — every loose head stays in the worklist `W` or belongs to `f`, on every
    outcome (normal return or raise). -/
theorem slide_confines_loose_heads (f : FUid) (W : List Key) (fuel : Nat) (h : HUid) :
    Keeps (covFlowInv f W) (slide fuel f h) := slide_coversOrFlow f W fuel h

/-- non-vacuity / link: a state satisfying `PendingCovers W` satisfies the confinement invariant of every flow -/
example (f : FUid) (W : List Key) (s : VM) (h : PendingCovers W s) : (covFlowInv f W).J s := coversOrFlow_of_pendingCovers h

/-- **`add_new_flow_instance` keeps `PendingCovers W`**: the new instance (WAITING, one ACTIVE head on element 0) parks at once,
    provided element 0 of the flow is a `match` — which `expand_elements` guarantees (`match StartFlow(flow_id=…)`) — and the
    configuration handed in is the program's. -/
theorem add_new_flow_instance_keeps_pending_covers (W : List Key) (p0 : Prog) (uid : FUid) (cfg : FlowCfg) (hp : String)
    (args : List (String × Val)) (hcfg : p0.find cfg.id = some cfg) (spec : Spec) (internal : Bool)
    (h0 : cfg.elements[0]? = some (.matchOp spec internal)) :
    Keeps (covProgInv W p0) (addNewFlowInstance uid cfg hp args) :=
  addNewFlowInstance_pendingCovers W p0 uid cfg hp args hcfg spec internal h0

/-- non-vacuity of the two program hypotheses -/
example :
    let sp : Spec := { name := some "StartFlow", specType := .event, args := [], ref := none, members := none, varName := none }
    let cfg : FlowCfg := { id := "a", elements := #[.matchOp sp true], labels := [], params := [], returnMembers := [],
                           loopId := none, loopPriority := 0, metaTags := [] }
    (Prog.mk [cfg]).find cfg.id = some cfg ∧ cfg.elements[0]? = some (.matchOp sp true) := by
  simp [Prog.find]

/-- **`_finish_flow` keeps `PendingCovers W`** (every worklist, every outcome) in programs whose flows all start with a `match`
    element (`FirstIsMatch`, decidable per program; `expand_elements` puts `match StartFlow(flow_id=…)` first): children
    aborted, heads dropped, the instance FINISHED — or, for the main flow, restarted WAITING and parked on element 0. -/
theorem finish_flow_keeps_pending_covers (W : List Key) (p0 : Prog) (hfirst : FirstIsMatch p0) (fuel : Nat) (f : FUid)
    (sc : List Score) (d : Bool) : Keeps (covProgInv W p0) (finishFlow fuel f sc d) :=
  finishFlow_pendingCovers W p0 hfirst fuel f sc d

/-- non-vacuity: the empty program, and a one-flow program starting with a `match` -/
example : FirstIsMatch (Prog.mk []) := by intro cfg h; cases h
example :
    let sp : Spec := { name := some "StartFlow", specType := .event, args := [], ref := none, members := none, varName := none }
    let cfg : FlowCfg := { id := "a", elements := #[.matchOp sp true], labels := [], params := [], returnMembers := [],
                           loopId := none, loopPriority := 0, metaTags := [] }
    FirstIsMatch (Prog.mk [cfg]) := by
  intro sp cfg c h
  simp only [List.mem_singleton] at h
  subst h
  exact ⟨sp, true, rfl⟩

/-- **`_process_internal_events_without_default_matchers` keeps `PendingCovers W`** (programs with `FirstIsMatch`): StartFlow
    creates an instance that parks at once, FinishFlow / StopFlow (by instance uid or by flow id) go through `_finish_flow` /
    `_abort_flow`. -/
theorem process_internal_event_keeps_pending_covers (W : List Key) (p0 : Prog) (hfirst : FirstIsMatch p0) (fuel : Nat) (e : Event) :
    Keeps (covProgInv W p0) (processInternalEvent fuel e) := processInternalEvent_pendingCovers W p0 hfirst fuel e

/-! ## Reference matches: the name a head is filed under is the name its statement names in the CURRENT context
    (Models/RefName.lean — case 1 of `get_event_name_from_element` + `_add_head_to_event_matching_structures`).

    `match $ref.Finished()` names `<action type>Finished` or `FlowFinished` (…) depending on what `$ref` holds in the
    context of the instance that reaches the statement.  The statements below quantify over ALL sequences of arrivals
    (instance/head, statement, spec, context) — so over a second instance of a helper flow, the next loop iteration, the
    restart of an activated flow, with any kind of referent.  Tie: every real registration on a reference statement is
    re-computed by `nameOf` on the observed referent and compared with the bucket the interpreter used (driver op
    `C09.refname`), on every run.

    Wave 6 (second half of the section): cases 2 and 3 of the same function — the object given BY NAME
    (`match some_flow.Start()`, `match SomeAction.Stop()`) and the bare event — `nameOfSpec`; same tie (every real
    registration over an object given by name is re-computed from spec type, member and "the flow exists"). -/
section refname
open NemoVerif.RefName

/-- one arrival: the head is filed under exactly the name its statement names in the context it has NOW … -/
theorem reference_head_filed_under_current_name (s : IState) (k : Key) (ctx : Ctx) (spec : RefSpec) (nm : String)
    (h : nameOf ctx spec = .ok nm) :
    reg (RefName.addHead s k ctx spec) k = some nm ∧ bucket (RefName.addHead s k ctx spec) nm = bucket s nm ++ [k] := by
  rw [reg_addHead, bucket_addHead, h]; simp

/-- … and when the name cannot be computed (the Python function raises) nothing is written. -/
theorem reference_name_error_writes_nothing (s : IState) (k : Key) (ctx : Ctx) (spec : RefSpec) (e : Err)
    (h : nameOf ctx spec = .error e) : RefName.addHead s k ctx spec = s := by
  unfold RefName.addHead; rw [h]

/-- **every arrival is filed under its OWN name**, whatever arrived at the same statement before or after it with whatever
    kind of referent: for arbitrary arrival sequences with pairwise different heads. -/
theorem every_arrival_filed_under_its_own_name (as : List Arrival) (s : IState)
    (hd : as.Pairwise (fun a b => a.key ≠ b.key)) (a : Arrival) (ha : a ∈ as) (nm : String)
    (hn : nameOf a.ctx a.spec = .ok nm) : reg (arriveAll s as) a.key = some nm := by
  induction as generalizing s with
  | nil => cases ha
  | cons x rest ih =>
    have hp := List.pairwise_cons.mp hd
    simp only [arriveAll, List.foldl_cons]
    rcases List.mem_cons.mp ha with rfl | ha'
    · have h1 := reg_arriveAll_of_not_mem rest (arrive s a) a.key (fun b hb e => hp.1 b hb e.symm)
      simp only [arriveAll] at h1
      rw [h1, reg_arrive, hn]; simp
    · have := ih (arrive s x) hp.2 ha'
      simpa only [arriveAll] using this

/-- **no missed, no stale entry** for reference statements: starting from the empty index, head `k` is in bucket `nm`
    iff `k` arrived at a statement that names `nm` in the context `k`'s instance had — the from-scratch scan with the
    names computed from the current referents. -/
theorem reference_buckets_are_the_scan_with_current_names (as : List Arrival) (nm : String) (k : Key) :
    k ∈ bucket (arriveAll {} as) nm ↔ ∃ a ∈ as, a.key = k ∧ nameOf a.ctx a.spec = .ok nm := by
  rw [mem_bucket_arriveAll]
  simp [bucket, OMap.lookup]

/-- the name really is a function of the REFERENT, not of the statement: an action reference names `<type><member>`,
    a flow reference the flow event, an event reference the stored event's own name. -/
theorem reference_name_of_action (v : String) (a : String) (attrs) (ctx : Ctx) (m : String)
    (h : ctx.find? (·.1 = v) = some (v, .mk (.action a) attrs)) :
    nameOf ctx { var := v, members := some [m] } = actionEventName a m := by
  simp [nameOf, h, walk, Obj.kind]

theorem reference_name_of_flow (v : String) (attrs) (ctx : Ctx) (m : String)
    (h : ctx.find? (·.1 = v) = some (v, .mk .flow attrs)) :
    nameOf ctx { var := v, members := some [m] } = flowEventName m := by
  simp [nameOf, h, walk, Obj.kind]

theorem reference_name_of_event (v : String) (n : String) (attrs) (ctx : Ctx)
    (h : ctx.find? (·.1 = v) = some (v, .mk (.event n) attrs)) :
    nameOf ctx { var := v, members := none } = .ok n := by
  simp [nameOf, h, walk, Obj.kind]

/-! witnesses (kernel-evaluated): the helper flow `flow wd $ref / match $ref.Finished()` reached by two instances, first with
    a FooAction, then with a BarAction; and the llm.co shape `match $e.action.Finished()`. -/
def exSpec : RefSpec := { var := "ref", members := some ["Finished"] }
def exFoo : Arrival := { key := ("wd1", "h1"), stmt := ("wd", 1), spec := exSpec, ctx := [("ref", .mk (.action "FooAction") [])] }
def exBar : Arrival := { key := ("wd2", "h2"), stmt := ("wd", 1), spec := exSpec, ctx := [("ref", .mk (.action "BarAction") [])] }
def exFlow : Arrival := { key := ("wd3", "h3"), stmt := ("wd", 1), spec := exSpec, ctx := [("ref", .mk .flow [])] }

/-- non-vacuity: ONE statement names three different events for three kinds of referent … -/
example : (nameOf exFoo.ctx exSpec).toOption = some "FooActionFinished" ∧ (nameOf exBar.ctx exSpec).toOption = some "BarActionFinished"
    ∧ (nameOf exFlow.ctx exSpec).toOption = some "FlowFinished" := by decide +kernel
/-- … through a member path (`$e.action.Finished()`), … -/
example : (nameOf [("e", .mk (.event "StartFooAction") [("action", .mk (.action "FooAction") [])])]
    { var := "e", members := some ["action", "Finished"] }).toOption = some "FooActionFinished" := by decide +kernel
/-- … the hypotheses of `every_arrival_filed_under_its_own_name` are satisfiable, and its conclusion on the example. -/
example : [exFoo, exBar, exFlow].Pairwise (fun a b => a.key ≠ b.key) := by decide +kernel
example : (arriveAll {} [exFoo, exBar, exFlow]).index =
    [("FooActionFinished", [("wd1", "h1")]), ("BarActionFinished", [("wd2", "h2")]), ("FlowFinished", [("wd3", "h3")])] := by
  decide +kernel

/-- the seeded change C09-d as a model (`arriveCached`: the name memoised per statement): the second instance of the helper
    is filed under the FIRST referent's event name — `every_arrival_filed_under_its_own_name` fails for it. -/
theorem name_cached_per_statement_counterexample :
    reg (arriveAllCached {} [exFoo, exBar]) exBar.key = some "FooActionFinished"
    ∧ (nameOf exBar.ctx exBar.spec).toOption = some "BarActionFinished"
    ∧ exBar.key ∉ bucket (arriveAllCached {} [exFoo, exBar]) "BarActionFinished" := by decide +kernel

/-! ### object-by-NAME matches and bare events (cases 2 and 3 of `get_event_name_from_element`, wave 6) -/

/-- the spec of `match <flow>.<m>()` for a flow given by name -/
def namedFlowSpec (f m : String) : ElemSpec := { name := some f, specType := .flow, members := some [m] }
/-- the spec of `match <Action>.<m>()` for an action given by name -/
def namedActionSpec (a m : String) : ElemSpec := { name := some a, specType := .action, members := some [m] }
/-- the spec of a bare event `match <Name>(…)` -/
def bareSpec (n : String) : ElemSpec := { name := some n }

/-- the name a `match <flow>.<m>()` names does not depend on the context or on the flow: it is the flow event's name -/
theorem named_flow_name (flows : List String) (ctx : Ctx) (f m : String) (hf : f ∈ flows) :
    nameOfSpec flows ctx (namedFlowSpec f m) = namedFlowEventName m := by
  simp [nameOfSpec, namedFlowSpec, hf]

/-- **a head on `match <flow>.<Event>()` (flow given by name) is filed under the name of the EVENT**: whatever name
    `FlowState.get_event` gives the member (`StartFlow` for `Start`, `FlowStarted` for `Started`, …) is the bucket the head goes
    to, and it goes to the end of that bucket. -/
theorem named_flow_head_filed_under_event_name (s : IState) (k : Key) (flows : List String) (ctx : Ctx) (f m nm : String)
    (hf : f ∈ flows) (h : namedFlowEventName m = .ok nm) :
    reg (addHeadSpec s k flows ctx (namedFlowSpec f m)) k = some nm
    ∧ bucket (addHeadSpec s k flows ctx (namedFlowSpec f m)) nm = bucket s nm ++ [k] := by
  rw [reg_addHeadSpec, bucket_addHeadSpec, named_flow_name flows ctx f m hf, h]; simp

/-- the REQUEST events of a flow given by name: `.Start()` is filed under `StartFlow` (not `FlowStart`) … -/
theorem named_flow_start_filed_under_StartFlow (s : IState) (k : Key) (flows : List String) (ctx : Ctx) (f : String)
    (hf : f ∈ flows) :
    reg (addHeadSpec s k flows ctx (namedFlowSpec f "Start")) k = some "StartFlow"
    ∧ bucket (addHeadSpec s k flows ctx (namedFlowSpec f "Start")) "StartFlow" = bucket s "StartFlow" ++ [k] :=
  named_flow_head_filed_under_event_name s k flows ctx f "Start" "StartFlow" hf (by rfl)

/-- … the whole table, for every member name (all of `FlowState._event_name_map` and everything outside it). -/
theorem named_flow_event_name_table (flows : List String) (ctx : Ctx) (f m : String) (hf : f ∈ flows) :
    nameOfSpec flows ctx (namedFlowSpec f m) =
      if m = "Start" then .ok "StartFlow"
      else if m = "Started" then .ok "FlowStarted"
      else if m = "Finished" then .ok "FlowFinished"
      else if m = "Failed" then .ok "FlowFailed"
      else if m = "Stop" ∨ m = "Pause" ∨ m = "Resume" then .error .delMissingKey
      else if m = "Paused" ∨ m = "Resumed" then .error .attributeError
      else .error .flowEventNotAvailable := by
  rw [named_flow_name flows ctx f m hf, namedFlowEventName_table]

/-- an action given by name: the name is `Action.get_event`'s (`Start<A>`, `Stop<A>`, `<A>Started`, `<A><Param>Updated` …) -/
theorem named_action_head_filed_under_event_name (s : IState) (k : Key) (flows : List String) (ctx : Ctx) (a m nm : String)
    (h : actionEventName a m = .ok nm) :
    reg (addHeadSpec s k flows ctx (namedActionSpec a m)) k = some nm
    ∧ bucket (addHeadSpec s k flows ctx (namedActionSpec a m)) nm = bucket s nm ++ [k] := by
  have hn : nameOfSpec flows ctx (namedActionSpec a m) = actionEventName a m := by simp [nameOfSpec, namedActionSpec]
  rw [reg_addHeadSpec, bucket_addHeadSpec, hn, h]; simp

/-- a bare event is filed under its own name -/
theorem bare_event_head_filed_under_its_name (s : IState) (k : Key) (flows : List String) (ctx : Ctx) (n : String) :
    reg (addHeadSpec s k flows ctx (bareSpec n)) k = some n
    ∧ bucket (addHeadSpec s k flows ctx (bareSpec n)) n = bucket s n ++ [k] := by
  have hn : nameOfSpec flows ctx (bareSpec n) = .ok n := by simp [nameOfSpec, bareSpec]
  rw [reg_addHeadSpec, bucket_addHeadSpec, hn]; simp

/-- a statement that names NO event (`match f.Stop()` by name, `f.Paused()`, `A.Failed()`, an unknown flow …): nothing is written -/
theorem unnameable_statement_writes_nothing (s : IState) (k : Key) (flows : List String) (ctx : Ctx) (spec : ElemSpec) (e : Err)
    (h : nameOfSpec flows ctx spec = .error e) : addHeadSpec s k flows ctx spec = s := by
  unfold addHeadSpec; rw [h]

/-- case 1 of `nameOfSpec` IS the reference model of phase 5 -/
theorem reference_case_is_nameOf (flows : List String) (ctx : Ctx) (v : String) (ms : Option (List String)) (n : Option String) (t : RefName.SpecType) :
    nameOfSpec flows ctx { varName := some v, name := n, specType := t, members := ms } = nameOf ctx { var := v, members := ms } := by
  simp [nameOfSpec]

/-- **every arrival at ANY kind of match statement is filed under its own name** (arbitrary sequences, pairwise different heads) -/
theorem every_arrival_filed_under_its_own_name_any_spec (as : List ArrivalS) (s : IState)
    (hd : as.Pairwise (fun a b => a.key ≠ b.key)) (a : ArrivalS) (ha : a ∈ as) (nm : String)
    (hn : nameOfSpec a.flows a.ctx a.spec = .ok nm) : reg (arriveAllS s as) a.key = some nm := by
  induction as generalizing s with
  | nil => cases ha
  | cons x rest ih =>
    have hp := List.pairwise_cons.mp hd
    simp only [arriveAllS, List.foldl_cons]
    rcases List.mem_cons.mp ha with rfl | ha'
    · have h1 := reg_arriveAllS_of_not_mem rest (arriveS s a) a.key (fun b hb e => hp.1 b hb e.symm)
      simp only [arriveAllS] at h1
      rw [h1, reg_arriveS, hn]; simp
    · have := ih (arriveS s x) hp.2 ha'
      simpa only [arriveAllS] using this

/-- **no missed, no stale entry, any kind of match statement**: from the empty index, `k` is in bucket `nm` iff `k` arrived at a
    statement that names `nm` -/
theorem buckets_are_the_scan_any_spec (as : List ArrivalS) (nm : String) (k : Key) :
    k ∈ bucket (arriveAllS {} as) nm ↔ ∃ a ∈ as, a.key = k ∧ nameOfSpec a.flows a.ctx a.spec = .ok nm := by
  rw [mem_bucket_arriveAllS]
  simp [bucket, OMap.lookup]

/-- `Flow<member>` is the name of the member event of a flow exactly for the three STATE events -/
theorem flow_member_shortcut_agrees_iff (m : String) :
    namedFlowEventName m = .ok ("Flow" ++ m) ↔ (m = "Started" ∨ m = "Finished" ∨ m = "Failed") := by
  rw [namedFlowEventName_table]
  by_cases h1 : m = "Start"
  · subst h1; simp
  by_cases h2 : m = "Started"
  · subst h2; simp
  by_cases h3 : m = "Finished"
  · subst h3; simp
  by_cases h4 : m = "Failed"
  · subst h4; simp
  simp only [h1, h2, h3, h4, if_false, or_self, iff_false]
  split
  · simp
  · split <;> simp

/-! witnesses: the seed's demo — `flow audit / match transfer.Start()`, `flow main / start audit … start transfer` -/
def exFlows : List String := ["main", "transfer", "audit"]
def exAudit : ArrivalS := { key := ("audit1", "h1"), stmt := ("audit", 1), spec := namedFlowSpec "transfer" "Start", flows := exFlows, ctx := [] }
def exMainWait : ArrivalS := { key := ("main1", "h2"), stmt := ("main", 3), spec := bareSpec "UtteranceUserActionFinished", flows := exFlows, ctx := [] }
def exWatch : ArrivalS := { key := ("w1", "h3"), stmt := ("w", 1), spec := namedFlowSpec "transfer" "Finished", flows := exFlows, ctx := [] }
def exActStop : ArrivalS := { key := ("w2", "h4"), stmt := ("w2", 1), spec := namedActionSpec "FooAction" "Stop", flows := exFlows, ctx := [] }

/-- non-vacuity: the hypotheses of the theorems above on the demo, and their conclusions evaluated -/
example : "transfer" ∈ exFlows ∧ namedFlowEventName "Start" = .ok "StartFlow" := by decide +kernel
example : [exAudit, exMainWait, exWatch, exActStop].Pairwise (fun a b => a.key ≠ b.key) := by decide +kernel
example : (arriveAllS {} [exAudit, exMainWait, exWatch, exActStop]).index =
    [("StartFlow", [("audit1", "h1")]), ("UtteranceUserActionFinished", [("main1", "h2")]), ("FlowFinished", [("w1", "h3")]),
     ("StopFooAction", [("w2", "h4")])] := by decide +kernel
/-- `match transfer.Stop()` by name names nothing (the helper's `del` raises KeyError): the index stays as it is -/
example : nameOfSpec exFlows [] (namedFlowSpec "transfer" "Stop") = .error .delMissingKey
    ∧ (addHeadSpec {} ("o", "h") exFlows [] (namedFlowSpec "transfer" "Stop")).index = [] := by decide +kernel
/-- … while the same member through a REFERENCE names `StopFlow` (case 1 asks the object, no `del`) -/
example : nameOfSpec exFlows [("f", .mk .flow [])] { varName := some "f", members := some ["Stop"] } = .ok "StopFlow" := by decide +kernel

/-- the seeded change C09-e as a model (`nameOfSpecShortcut`: `Flow<member>` for a flow given by name): the observer parked on
    `match transfer.Start()` is filed under `FlowStart`, a name no event has, and is missing from the bucket `StartFlow` that
    the StartFlow event of `start transfer` is dispatched through — `named_flow_head_filed_under_event_name` fails for it;
    and it agrees with the code on `Finished` (why no shipped flow or test sees it). -/
theorem flow_member_shortcut_counterexample :
    reg (arriveAllShortcut {} [exAudit, exMainWait]) exAudit.key = some "FlowStart"
    ∧ nameOfSpec exAudit.flows exAudit.ctx exAudit.spec = .ok "StartFlow"
    ∧ exAudit.key ∉ bucket (arriveAllShortcut {} [exAudit, exMainWait]) "StartFlow"
    ∧ (arriveAllShortcut {} [exWatch]).index = (arriveAllS {} [exWatch]).index := by decide +kernel

/-- **the name the indexer files a head under is the name the dispatcher compares incoming events with**: whenever
    `get_event_name_from_element` names `nm`, so does `get_event_from_element` (whatever the member arguments are) -/
theorem index_name_is_dispatch_name (b : Bool) (flows : List String) (ctx : Ctx) (s : ElemSpec) (nm : String)
    (h : nameOfSpec flows ctx s = .ok nm) : dispatchNameOfSpec b flows ctx s = .ok nm := by
  rw [← nameOfSpecG_actionEventName] at h
  exact nameOfSpecG_mono _ _ (fun a m nm h => actionEventNameD_of_ok b a m nm h) flows ctx s nm h

/-- without `arguments` among the member arguments the two functions are the same function (names AND exceptions) -/
theorem dispatchNameOfSpec_false (flows : List String) (ctx : Ctx) (s : ElemSpec) :
    dispatchNameOfSpec false flows ctx s = nameOfSpec flows ctx s := by
  have hD : actionEventNameD false = actionEventName := by funext a m; simp [actionEventNameD]
  rw [dispatchNameOfSpec, hD, nameOfSpecG_actionEventName]

/-- the converse fails exactly where the code's two functions differ: `match $a.Change(arguments={…})` — the dispatcher names
    `ChangeFooAction`, the indexer's name function (which passes no arguments) raises KeyError: the flow fails instead of parking -/
example : dispatchNameOfSpec true [] [("a", .mk (.action "FooAction") [])] { varName := some "a", members := some ["Change"] } = .ok "ChangeFooAction"
    ∧ nameOfSpec [] [("a", .mk (.action "FooAction") [])] { varName := some "a", members := some ["Change"] } = .error .changeWithoutArguments := by
  decide +kernel
/-- non-vacuity of `index_name_is_dispatch_name` on the seed's demo -/
example : nameOfSpec exFlows [] (namedFlowSpec "transfer" "Start") = .ok "StartFlow"
    ∧ dispatchNameOfSpec true exFlows [] (namedFlowSpec "transfer" "Start") = .ok "StartFlow" := by decide +kernel

end refname

/-
  T2 (partially proved; kept as the target statement):

    theorem quiescent (fuel) (ev) (s s' : VM) :
        Inv s → runToCompletion fuel ev s = .ok () s' →
        Inv s' ∧ NoStopping s'.ixs.ix                              -- PROVED: `no_stopping_at_exit` (phase 4)
        ∧ Parked s'      -- every ACTIVE head of a listening instance is on a match / wait-for-heads element, none MERGING
        ∧ NoPos s'       -- PROVED (by construction + T1)
        ∧ RefsLive s'    -- child_flow_uids, action_uids, scope members, index entries of listening instances exist

  Proved: the queue clause (loop structure); the index clause, the no-position clause and the index part of `RefsLive`
  (by construction + T1, for EVERY CoreVM state; the index clause needs `NoStopping`); `NoStopping` at exit from the
  interpreter logic (phase 4, unconditional); two worklist facts; the fuel separation.
  NOT proved: `Parked` (the worklist invariant `PendingCovers` — "every non-parked active head of a listening instance is in
  the pending list of the current loop" — is checked on the REAL interpreter at every loop boundary by the oracle clause
  `pending-covers`, phase 4, but not yet carried through `slide` / `_advance_head_front` in Lean; the Hoare logic and the
  per-function lemmas it needs are in place), the non-index part of `RefsLive` (violated by the code: findings), and that the
  model never stops on a failed index guard (`AllGuards` of the emitted operation stream; the guards of `setPos`,
  `setStatus`, `dropHeads`, `setFlowStatus` after `dropHeads` are local facts, `addInst` / `fork` need uid freshness,
  `mainRestart` needs acyclicity of the child relation).  Those rest on the oracle evaluated on the real interpreter state
  after every event and on the CoreVM correspondence (digests + index-operation streams).
-/

/-! Non-vacuity of the CoreVM statements: `runToCompletion … = .ok () s'` is what the driver observes for every
    event of every generated case on every run of the check (several thousand normal returns per run; the
    evidence file counts them as `vm:events-agreed`); the kernel cannot evaluate the monadic interpreter by
    `decide`, so no closed `example` is given here. The layer-1 statements have kernel-evaluated examples above. -/

end NemoVerif.C09
