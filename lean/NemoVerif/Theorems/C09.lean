/-
  C09 — after each event the interpreter is quiescent and its dispatch index is exact.

  Layer 1 (this section, all UNBOUNDED, proved): the dispatch index `event_matching_heads` and its
  reverse map, maintained incrementally exactly as `statemachine.py` does it, over arbitrary sequences
  of the operations by which the interpreter writes `FlowHead.position`, `FlowHead.status`,
  `FlowState.heads` and `FlowState.status`  (Models/CoreIndex.lean).

  Layer 4 (CoreVM section further down): the whole-interpreter model; proved parts are named `…_partial`,
  the full statement T2 is kept as a comment.

  Only property theorems, non-vacuity examples and kernel-checked witnesses live in this file.
-/
import NemoVerif.Lemmas.CoreIndex

namespace NemoVerif.C09
open NemoVerif.CoreIndex

/-! ## T1 — the two maps are inverse of each other, always -/

/-- `MapsConsistent` (index and reverse map are inverse of each other: a key is in bucket `nm` exactly
    once iff the reverse map says `nm`) is preserved by `_remove_head_from_event_matching_structures`. -/
theorem mapsConsistent_remove {s : IState} (h : MapsConsistent s) (k : Key) :
    MapsConsistent (rawRemove s k) := mc_rawRemove h k

/-- … by `_add_head_to_event_matching_structures` on an unregistered key … -/
theorem mapsConsistent_add {s : IState} (h : MapsConsistent s) (k : Key) (nm : String)
    (hfree : reg s k = none) : MapsConsistent (rawAdd s k nm) := mc_rawAdd h k nm hfree

/-- … by `_flow_head_changed` (remove, then conditionally add), unconditionally … -/
theorem mapsConsistent_headChanged {s : IState} (h : MapsConsistent s) (k : Key)
    (fst : FlowStatus) (hst : HeadStatus) (elem : Option String) :
    MapsConsistent (headChanged s k fst hst elem) := mc_headChanged h k fst hst elem

/-- … and by every operation of the layer, whether or not its guard holds (so also inside the
    windows in which the Python code is transiently inexact), hence in every reachable state. -/
theorem mapsConsistent_every_reachable_state (ops : List Op) :
    MapsConsistent (ops.foldl step {}) :=
  mapsConsistent_foldl ops {} indexOK_init.maps

/-- the `list.remove` inside `_remove_head_from_event_matching_structures` cannot raise `ValueError`:
    a key that the reverse map knows is present in its bucket. -/
theorem remove_never_raises {s : IState} (h : MapsConsistent s) {k : Key} {nm : String}
    (hr : reg s k = some nm) : k ∈ bucket s nm := by
  have := h k nm
  rw [hr] at this
  simp only [if_true] at this
  exact List.count_pos_iff.1 (by omega)

/-! ## T1 — `headChanged_exact`: each write keeps `index = scan` -/

/-- `head.position = p` -/
theorem headChanged_exact_setPos {s : IState} (ok : IndexOK s) (f : FUid) (h : HUid) (p : Nat) (nm : Option String)
    (hex : (Op.setPos f h p nm).guard s = true) : IndexOK (step s (.setPos f h p nm)) :=
  indexOK_step ok _ hex

/-- `head.status = st` -/
theorem headChanged_exact_setStatus {s : IState} (ok : IndexOK s) (f : FUid) (h : HUid) (st : HeadStatus) (nm : Option String)
    (hex : (Op.setStatus f h st nm).guard s = true) : IndexOK (step s (.setStatus f h st nm)) :=
  indexOK_step ok _ hex

/-- `add_new_flow_instance` (first head of a new instance) -/
theorem headChanged_exact_addHead {s : IState} (ok : IndexOK s) (f : FUid) (h : HUid) (nm0 : Option String)
    (hfresh : (Op.addInst f h nm0).guard s = true) : IndexOK (step s (.addInst f h nm0)) :=
  indexOK_step ok _ hfresh

/-- `ForkHead`: the new head is put into `heads` at position 0 WITHOUT registration and then moved to
    its label. Exact afterwards provided the label is not at position 0 (or position 0 is not a match
    element) — in the shipped parser element 0 of every flow is `match StartFlow`, so labels are ≥ 1
    (checked by the static tie on every run). -/
theorem fork_exact {s : IState} (ok : IndexOK s) (f : FUid) (h' : HUid) (nm0 : Option String) (p : Nat) (nm : Option String)
    (hg : (Op.fork f h' nm0 p nm).guard s = true) : IndexOK (step s (.fork f h' nm0 p nm)) :=
  indexOK_step ok _ hg

/-- `MergeHeads`: `heads[uid].status = INACTIVE` (callback) then `del heads[uid]` (no callback) -/
theorem merge_delete_exact {s : IState} (ok : IndexOK s) (f : FUid) (h : HUid) (nm : Option String)
    (hd : (Op.delHead f h).guard (step s (.setStatus f h .inactive nm)) = true) :
    IndexOK (step (step s (.setStatus f h .inactive nm)) (.delHead f h)) := by
  apply indexOK_step _ _ hd
  simp only [step]; split
  · exact ok
  · split
    · exact ok
    · exact indexOK_touchHead ok _ _ _ (by intro x; rfl)

/-- `_abort_flow` / `_finish_flow`: explicit removal of every head, `heads.clear()`, and only then the
    flow status change — no guard needed. -/
theorem abort_or_finish_exact {s : IState} (ok : IndexOK s) (f : FUid) (st : FlowStatus) :
    IndexOK (step (step s (.dropHeads f)) (.setFlowStatus f st)) :=
  indexOK_step (indexOK_step ok _ rfl) _ (guard_setFlowStatus_after_dropHeads s f st)

/-- main-flow restart in `_finish_flow`: the new head is registered BEFORE it is installed in `heads`
    and before the status becomes WAITING. -/
theorem main_restart_exact {s : IState} (ok : IndexOK s) (f : FUid) (h : HUid) (nm0 : Option String)
    {i : Inst} (hi : findInst s f = some i) (hl : i.status.listening = true) :
    IndexOK (step (step s (.dropHeads f)) (.mainRestart f h nm0)) :=
  indexOK_step (indexOK_step ok _ rfl) _ (guard_mainRestart_after_dropHeads s f h nm0 hi hl)

/-- the `Abort` element: `flow_state.status = STOPPING` BEFORE the head is moved; the other heads of
    the instance stay registered (stale) until `_abort_flow` drops them. The invariant tolerates
    exactly this window (`Exact` exempts STOPPING instances, `Owned` still holds), … -/
theorem abort_statement_window {s : IState} (ok : IndexOK s) (f : FUid) (h : HUid) (p : Nat)
    (hex : (Op.setPos f h p none).guard (step s (.setFlowStatus f .stopping)) = true) :
    IndexOK (step (step s (.setFlowStatus f .stopping)) (.setPos f h p none)) :=
  indexOK_step (indexOK_step ok _ (by simp only [Op.guard]; cases findInst s f <;> simp)) _ hex

/-- … and is closed by `_abort_flow`, whatever guarded operations (aborting the children) ran in between. -/
theorem abort_statement_closed {s : IState} (ok : IndexOK s) (f : FUid) (between : List Op)
    (hg : AllGuards s between) :
    IndexOK (step (step (between.foldl step s) (.dropHeads f)) (.setFlowStatus f .stopped)) :=
  abort_or_finish_exact (indexOK_foldl between s ok hg) f .stopped

/-! ## T1 — every reachable state -/

/-- **every reachable state**: starting from the empty interpreter state, after ANY sequence of
    operations whose guards hold, the invariant holds … -/
theorem indexOK_every_reachable_state (ops : List Op) (hg : AllGuards {} ops) :
    IndexOK (ops.foldl step {}) :=
  indexOK_foldl ops {} indexOK_init hg

/-- … and then the index equals the from-scratch scan as a multiset, as soon as no instance is left
    STOPPING (which is the case at the exit of `run_to_completion`: the oracle checks it on the real
    state after every event). -/
theorem index_exact_every_reachable_state (ops : List Op) (hg : AllGuards {} ops)
    (hns : NoStopping (ops.foldl step {})) (nm : String) (k : Key) :
    (bucket (ops.foldl step {}) nm).count k = (scan (ops.foldl step {})).count (nm, k) :=
  index_eq_scan (indexOK_every_reachable_state ops hg) hns nm k

/-- no waiting head is missed and no stale entry remains (membership form). -/
theorem no_missed_no_stale (ops : List Op) (hg : AllGuards {} ops)
    (hns : NoStopping (ops.foldl step {})) (nm : String) (k : Key) :
    k ∈ bucket (ops.foldl step {}) nm ↔ (nm, k) ∈ scan (ops.foldl step {}) := by
  rw [← List.count_pos_iff, ← List.count_pos_iff, index_exact_every_reachable_state ops hg hns]

/-! ### non-vacuity: a concrete guarded run with a fork, a merge, an abort and a restart -/

def demoOps : List Op :=
  [ .addInst "main" "h0" (some "StartFlow"),
    .setFlowStatus "main" .starting,
    .setPos "main" "h0" 1 none,
    .setStatus "main" "h0" .inactive none,
    .fork "main" "h1" (some "StartFlow") 3 none,
    .fork "main" "h2" (some "StartFlow") 6 none,
    .setPos "main" "h1" 4 (some "A"),
    .setPos "main" "h2" 7 (some "B"),
    .setFlowStatus "main" .started,
    .addInst "(a)1" "h3" (some "StartFlow"),
    .setPos "(a)1" "h3" 1 (some "A"),
    .setFlowStatus "(a)1" .started,
    .setPos "main" "h1" 5 none,
    .setStatus "main" "h1" .merging none,
    .setPos "main" "h0" 5 none,
    .setStatus "main" "h0" .active none,
    .setStatus "main" "h1" .inactive none, .delHead "main" "h1",
    .setStatus "main" "h2" .inactive none, .delHead "main" "h2",
    .setPos "main" "h0" 9 (some "C"),
    .setFlowStatus "(a)1" .stopping, .setPos "(a)1" "h3" 2 none,
    .dropHeads "(a)1", .setFlowStatus "(a)1" .stopped,
    .dropHeads "main", .mainRestart "main" "h4" (some "StartFlow"),
    .removeInst "(a)1" ]

example : (run {} demoOps).2 = [] := by decide
example : entries (demoOps.foldl step {}) = [("StartFlow", ("main", "h4"))] := by decide
example : scan (demoOps.foldl step {}) = [("StartFlow", ("main", "h4"))] := by decide
/-- mid-run, two forked heads and a child are registered -/
example : entries ((demoOps.take 12).foldl step {}) = [("A", ("main", "h1")), ("A", ("(a)1", "h3")), ("B", ("main", "h2"))] := by decide

/-! ### kernel-checked witnesses: the guards are what keeps the index exact
    (each is the model-level image of a realistic faulty edit of statemachine.py, DESIGN §9a) -/

def parked : IState := [Op.addInst "f" "h" (some "StartFlow"), .setFlowStatus "f" .started, .setPos "f" "h" 1 (some "Ev")].foldl step {}

/-- `_remove_head_from_event_matching_structures` skipped in `_finish_flow`: a stale entry remains. -/
theorem clear_without_remove_leaves_stale_entry :
    entries ([Op.clearHeads "f", .setFlowStatus "f" .finished].foldl step parked) = [("Ev", ("f", "h"))]
    ∧ scan ([Op.clearHeads "f", .setFlowStatus "f" .finished].foldl step parked) = []
    ∧ (Op.clearHeads "f").guard parked = false := by decide

/-- a flow status change to a non-listening status while heads are still registered: stale entry. -/
theorem status_change_with_registered_heads_leaves_stale_entry :
    entries (step parked (.setFlowStatus "f" .finished)) = [("Ev", ("f", "h"))]
    ∧ scan (step parked (.setFlowStatus "f" .finished)) = []
    ∧ (Op.setFlowStatus "f" .finished).guard parked = false := by decide

/-- a forked head whose label is element 0 (a match element) is never registered: a waiting head is missed. -/
theorem fork_to_position_zero_misses_a_head :
    entries (step parked (.fork "f" "h2" (some "StartFlow") 0 (some "StartFlow"))) = [("Ev", ("f", "h"))]
    ∧ scan (step parked (.fork "f" "h2" (some "StartFlow") 0 (some "StartFlow"))) = [("Ev", ("f", "h")), ("StartFlow", ("f", "h2"))]
    ∧ (Op.fork "f" "h2" (some "StartFlow") 0 (some "StartFlow")).guard parked = false := by decide

/-- `del heads[uid]` of a registered head (status not set to INACTIVE first): stale entry. -/
theorem delete_registered_head_leaves_stale_entry :
    entries (step parked (.delHead "f" "h")) = [("Ev", ("f", "h"))]
    ∧ scan (step parked (.delHead "f" "h")) = []
    ∧ (Op.delHead "f" "h").guard parked = false := by decide

end NemoVerif.C09
