/-
  C06 — flow and action lifetimes are bounded by the parent flow.
  Property theorems only (helper lemmas live in Lemmas/Lifetime.lean).  The model `Models/Lifetime.lean`
  mirrors `_abort_flow`, `_finish_flow`, the `EndScope` branch of `slide`, `_update_action_status_by_event`
  and the activation bookkeeping statement by statement; it is tied to the source by record/replay of
  every outermost call (harness/props/C06.py).  All theorems are unbounded: for every state, every
  hierarchy (the children graph may even be cyclic — results are conditional on the model call
  returning `.ok`, i.e. on the Python call returning normally), every fuel value.
-/
import NemoVerif.Lemmas.LifetimeT2
import NemoVerif.Lemmas.LifetimeLinked
import NemoVerif.Lemmas.LifetimeCount
import NemoVerif.Lemmas.LifetimeV
import NemoVerif.Lemmas.LifetimeVEq
import NemoVerif.Lemmas.LifetimeVInv
import NemoVerif.Lemmas.LifetimeCoreVM9
import NemoVerif.Lemmas.LifetimeCoreVM9b
import NemoVerif.Lemmas.LifetimeAct
import NemoVerif.Lemmas.LifetimeActCoreVM
namespace NemoVerif.C06
open NemoVerif.Lifetime

/-! ## T1 `no_stop_unless_running` -/

/-- A `Stop…` event generated anywhere inside an `_abort_flow` call (including all nested calls) is for
    an action that was STARTING/STARTED with a positive scope count when the call began.  Hence actions
    that are INITIALIZED (never started), STOPPING (already stopped) or FINISHED get no `Stop`. -/
theorem no_stop_unless_running_abort (n : Nat) (s : State) (u : Nat) (d : Bool) (s' : State)
    (h : abortFlow n s u d = .ok s') (a : Nat) (hs : stops a s.out < stops a s'.out) :
    ∃ x, s.actions a = some x ∧ x.status.running = true ∧ 1 ≤ x.count :=
  ((abortFlow_steps n s u d s' h).RanInv (RanInv.refl s) a).1 hs

theorem no_stop_unless_running_finish (n : Nat) (s : State) (u : Nat) (d : Bool) (s' : State)
    (h : finishFlow n s u d = .ok s') (a : Nat) (hs : stops a s.out < stops a s'.out) :
    ∃ x, s.actions a = some x ∧ x.status.running = true ∧ 1 ≤ x.count :=
  ((finishFlow_steps n s u d s' h).RanInv (RanInv.refl s) a).1 hs

theorem no_stop_unless_running_endScope (n : Nat) (s : State) (u nm : Nat) (s' : State)
    (h : endScope n s u nm = .ok s') (a : Nat) (hs : stops a s.out < stops a s'.out) :
    ∃ x, s.actions a = some x ∧ x.status.running = true ∧ 1 ≤ x.count :=
  ((endScope_steps n s u nm s' h).RanInv (RanInv.refl s) a).1 hs

/-- the three excluded statuses, spelled out -/
theorem no_stop_for_idle_action (n : Nat) (s : State) (u : Nat) (d : Bool) (s' : State)
    (h : abortFlow n s u d = .ok s') (a : Nat) (x : Action) (hx : s.actions a = some x)
    (hst : x.status = .initialized ∨ x.status = .stopping ∨ x.status = .finished) :
    stops a s'.out ≤ stops a s.out := by
  apply Nat.le_of_not_lt
  intro hs
  obtain ⟨y, hy, hr, _⟩ := no_stop_unless_running_abort n s u d s' h a hs
  rw [hx] at hy; cases hy
  rcases hst with e | e | e <;> rw [e] at hr <;> cases hr

/-! ## T1 `stop_at_most_once` — along ANY sequence of operations -/

/-- One operation of the interpreter as far as actions and outgoing events are concerned. -/
inductive OpStep : State → State → Prop
  | abort {s s' : State} (n u : Nat) (d : Bool) : abortFlow n s u d = .ok s' → OpStep s s'
  | finish {s s' : State} (n u : Nat) (d : Bool) : finishFlow n s u d = .ok s' → OpStep s s'
  | endScope {s s' : State} (n u nm : Nat) : endScope n s u nm = .ok s' → OpStep s s'
  /-- any prefix of such an operation (a Python exception leaves the partial effects behind) -/
  | partialOp {s s' : State} : Steps true s s' → OpStep s s'
  /-- an action event from outside (`…ActionStarted`, `…ActionUpdated`, `…ActionFinished`, echoes of `Stop…`) -/
  | event {s : State} (e : AEv) : e.isStartEvent = false → OpStep s (updateActionStatusByEvent s e)
  /-- `_new_action_instance` for a fresh uid -/
  | newAction {s : State} (a : Nat) : s.actions a = none → stops a s.out = 0 → OpStep s (setAction s a ⟨.initialized, 0⟩)
  /-- the `send $ref.Start()` element of an action that has not been started yet -/
  | startAction {s : State} (a : Nat) (x : Action) : s.actions a = some x → x.status = .initialized →
      OpStep s (generateUmim s (.start a) (AEv.startOf a))
  /-- a co-winning head adopts the winner's action while it is being started (`flow_scope_count += 1`) -/
  | coWin {s : State} (a : Nat) (x : Action) : s.actions a = some x → x.status = .starting →
      OpStep s (setAction s a { x with count := x.count + 1 })
  /-- anything that touches neither the action table nor the `Stop` events -/
  | other {s s' : State} : s'.actions = s.actions → (∀ a, stops a s'.out = stops a s.out) → OpStep s s'
  /-- `del state.actions[b]` (the co-winner's own, never started action instance) -/
  | delAction {s : State} (b : Nat) : OpStep s { s with actions := fun v => if v = b then none else s.actions v }

inductive OpSteps : State → State → Prop
  | refl (s : State) : OpSteps s s
  | cons {s t r : State} : OpStep s t → OpSteps t r → OpSteps s r

theorem OpStep.stopInv {s t : State} (hi : StopInv s) (h : OpStep s t) : StopInv t := by
  cases h with
  | abort n u d h => exact (abortFlow_steps n s u d t h).StopInv hi
  | finish n u d h => exact (finishFlow_steps n s u d t h).StopInv hi
  | endScope n u nm h => exact (endScope_steps n s u nm t h).StopInv hi
  | partialOp h => exact h.StopInv hi
  | event e he => exact update_StopInv hi e he
  | newAction a hn h0 =>
    intro b
    by_cases hb : b = a
    · subst hb; exact Or.inl h0
    · rw [setAction_actions_ne _ _ _ _ hb]; exact hi b
  | startAction a x hx hs => exact startAction_StopInv hi a x hx hs
  | coWin a x hx hs =>
    intro b
    by_cases hb : b = a
    · subst hb
      rcases hi b with h0 | ⟨_, h2⟩
      · exact Or.inl h0
      · exact absurd hs (h2 x hx).2.2
    · rw [setAction_actions_ne _ _ _ _ hb]; exact hi b
  | other ha ho => exact hi.of_frame ha ho
  | delAction b =>
    intro a
    rcases hi a with h0 | ⟨h1, h2⟩
    · exact Or.inl h0
    · refine Or.inr ⟨h1, fun x hx => ?_⟩
      simp only at hx
      split at hx
      · cases hx
      · exact h2 x hx

theorem OpSteps.stopInv {s t : State} (hi : StopInv s) (h : OpSteps s t) : StopInv t := by
  induction h with
  | refl => exact hi
  | cons hs _ ih => exact ih (hs.stopInv hi)

/-- `stop_at_most_once`: starting from a state in which no `Stop` has been sent, after any sequence of
    aborts / finishes / scope ends (complete or interrupted), external action events, action creations,
    starts and co-wins, every action has been sent at most one `Stop`
    (invariant: once stopped, the scope count stays ≤ 0 and the status never returns to INITIALIZED/STARTING). -/
theorem stop_at_most_once (s t : State) (h0 : ∀ a, stops a s.out = 0) (h : OpSteps s t) (a : Nat) :
    stops a t.out ≤ 1 := by
  have hi : StopInv t := OpSteps.stopInv (fun a => Or.inl (h0 a)) h
  rcases hi a with e | ⟨e, _⟩ <;> omega

/-- non-vacuity: a two-operation history (start an action, abort its flow) produces exactly one `Stop` -/
def exState : State :=
  { flows := fun u => if u = 0 then some ⟨0, none, [], .started, 0, false, [7], [], 1, false⟩ else none,
    actions := fun a => if a = 7 then some ⟨.initialized, 0⟩ else none,
    order := [0], queue := [], out := [] }

example : (match abortFlow 3 (generateUmim exState (.start 7) (AEv.startOf 7)) 0 false with
    | .ok s2 => decide (stops 7 s2.out = 1) && (s2.actions 7).map (·.status) == some .stopping &&
        (s2.flows 0).map (·.status) == some .stopped
    | .error _ => false) = true := by decide

/-! ### every operation of the operation-sequence semantics is covered by `stop_at_most_once` -/

theorem OpSteps.single {s t : State} (h : OpStep s t) : OpSteps s t := .cons h (.refl _)

/-- each `applyOp` step (Models/LifetimeOps.lean, repaired co-win: the winner's action is still STARTING) is a
    sequence of `OpStep`s -/
theorem applyOp_opSteps (s : State) (op : IOp) : OpSteps s (applyOp s op) := by
  cases op with
  | abort n u d =>
    simp only [applyOp]
    cases h : abortFlow n s u d with
    | error e => exact .refl _
    | ok s' => exact .single (.abort n u d h)
  | finish n u d =>
    simp only [applyOp]
    cases h : finishFlow n s u d with
    | error e => exact .refl _
    | ok s' => exact .single (.finish n u d h)
  | endScope n u nm =>
    simp only [applyOp]
    cases h : endScope n s u nm with
    | error e => exact .refl _
    | ok s' => exact .single (.endScope n u nm h)
  | startChild c fid p k =>
    simp only [applyOp]
    split
    · split
      · exact .single (.other rfl (fun _ => rfl))
      · exact .refl _
    · exact .refl _
  | reactivate fid known act hasInst source pm =>
    simp only [applyOp]
    split
    · next s' r h =>
      rcases processStartFlow_effect s fid known act hasInst source _ s' r h with e | ⟨_, _, _, _, _, _, _, _, e⟩
      · rw [e]; exact .refl _
      · rw [e]; exact .single (.other (by simp) (fun _ => by simp))
    · exact .refl _
  | status u st =>
    simp only [applyOp]
    split
    · split
      · exact .single (.other rfl (fun _ => rfl))
      · exact .refl _
    · exact .refl _
  | newAction u a =>
    simp only [applyOp]
    split
    · next f hf ha =>
      split
      · next h0 =>
        refine .cons (.other (s' := setFlow s u { f with actionUids := f.actionUids ++ [a] }) rfl (fun _ => rfl)) ?_
        exact .single (.newAction a ha (by simpa [stops] using h0))
      · exact .refl _
    · exact .refl _
  | startAction a =>
    simp only [applyOp]
    split
    · next x hx =>
      split
      · next hini => exact .single (.startAction a x hx (by simpa using hini))
      · exact .refl _
    · exact .refl _
  | coWin loser a b =>
    simp only [applyOp]
    split
    · next f x hf hx =>
      split
      · next hg =>
        simp only [Bool.and_eq_true, beq_iff_eq] at hg
        refine .cons (.other (s' := setFlow s loser { f with actionUids := f.actionUids.map fun y => if y == b then a else y }) rfl (fun _ => rfl)) ?_
        refine .cons (.coWin a x hx hg.2) ?_
        exact .single (.delAction b)
      · exact .refl _
    · exact .refl _
  | event e =>
    by_cases hg : eventOk s e = true
    · have happ : applyOp s (.event e) = updateActionStatusByEvent s e := by simp only [applyOp, hg, if_true]
      rw [happ]
      simp only [eventOk, Bool.and_eq_true] at hg
      refine .single (.event e ?_)
      have h1 := hg.1
      simp only [AEv.isStartEvent]
      cases hs : e.started <;> cases hu : e.updated <;> cases hf : e.finished <;> simp [hs, hu, hf] at h1 ⊢
    · have happ : applyOp s (.event e) = s := by simp only [applyOp, hg]; rfl
      rw [happ]; exact .refl _
  | label u =>
    simp only [applyOp]
    cases h : labelRestart s u with
    | error e => exact .refl _
    | ok s' =>
      have hfr : s'.actions = s.actions ∧ s'.out = s.out := by
        unfold labelRestart at h
        split at h
        · cases h
        · split at h
          · cases h; exact ⟨rfl, rfl⟩
          · cases h; simp
      show OpSteps s s'
      exact .single (.other hfr.1 (fun _ => by rw [hfr.2]))
  | frame u heads scopes =>
    simp only [applyOp]
    split
    · exact .single (.other rfl (fun _ => rfl))
    · exact .refl _
  | noRestart u =>
    simp only [applyOp]
    exact .single (.other (by simp) (fun _ => by simp))

theorem OpSteps.trans {s t r : State} (h1 : OpSteps s t) (h2 : OpSteps t r) : OpSteps s r := by
  induction h1 with
  | refl => exact h2
  | cons hs _ ih => exact .cons hs (ih h2)

/-- **`stop_at_most_once` over the whole operation-sequence semantics**: in every state reachable from the initial
    state by `applyOp` every action has been sent at most one `Stop`.  (This is where the co-win guard "the winner's
    action is still STARTING" is needed: see `cowin_stopped_action_as_is_counterexample`.) -/
theorem stop_at_most_once_run (ops : List IOp) (a : Nat) : stops a (run ops).out ≤ 1 := by
  have h : OpSteps initState (run ops) := by
    unfold run
    suffices h : ∀ (l : List IOp) (s : State), OpSteps s (l.foldl applyOp s) from h ops _
    intro l
    induction l with
    | nil => intro s; exact .refl _
    | cons op l ih => intro s; exact (applyOp_opSteps s op).trans (ih _)
  exact stop_at_most_once initState (run ops) (fun _ => rfl) h a

/-- The co-win of the UNPATCHED `_resolve_action_conflicts`: no check that the winner's action is still STARTING
    (nor that the loser's flow is still alive). -/
def coWinAsIs (s : State) (loser a b : Nat) : State :=
  match s.flows loser, s.actions a with
  | some f, some x =>
    if a != b then
      let s1 := setFlow s loser { f with actionUids := f.actionUids.map fun y => if y == b then a else y }
      { setAction s1 a { x with count := x.count + 1 } with actions := fun v => if v = b then none else (setAction s1 a { x with count := x.count + 1 }).actions v }
    else s
  | _, _ => s

/-- main(0) starts l(1) and c(3); l starts w(2).  All three reach a `send Start` in the same round: w's action 7 wins
    (Start 7), l loses and is aborted — together with its child w: Stop 7 —, then c's head still co-wins onto action 7. -/
def cowinPrefix : List IOp :=
  [.status 0 .starting, .status 0 .started, .startChild 1 1 0 0, .status 1 .starting, .status 1 .started,
   .startChild 2 2 1 0, .status 2 .starting, .status 2 .started, .startChild 3 3 0 0, .status 3 .starting, .status 3 .started,
   .newAction 2 7, .newAction 1 8, .newAction 3 9, .startAction 7, .abort 5 1 false]

/-- **as-is counterexample** (finding `cowin-after-abort-in-conflict`, replayed on the real interpreter by
    harness/corpus/C06/cowin_after_abort.json): with the unguarded co-win, a late `…ActionStarted` and the end of
    the co-winner produce a SECOND `Stop` for the same action; the guarded (repaired) step refuses the co-win. -/
theorem cowin_stopped_action_as_is_counterexample :
    stops 7 (run cowinPrefix).out = 1 ∧
    stops 7 (applyOp (applyOp (coWinAsIs (run cowinPrefix) 3 7 9) (.event ⟨7, true, true, false, false, false, false⟩))
      (.finish 5 3 false)).out = 2 ∧
    applyOp (run cowinPrefix) (.coWin 3 7 9) = run cowinPrefix := by
  refine ⟨by decide, by decide, ?_⟩
  have h : ((run cowinPrefix).actions 7).map (·.status) = some .stopping := by decide
  simp only [applyOp]
  split
  · next f x hf hx =>
    rw [hx] at h
    simp only [Option.map_some, Option.some.injEq] at h
    simp [h]
  · rfl

/-! ## T1 `abort_post` / `finish_post` -/

/-- After `_abort_flow(f)` (not as a deactivation): `f` is STOPPED and has no heads; its children were handled
    by the child loop (state `s1`), then — relative to `s1` — every action of `f` (each listed once):
    INITIALIZED/STOPPING/FINISHED ⇒ untouched, no event; STARTING/STARTED ⇒ scope count − 1, and exactly when it
    reaches 0 one `Stop` is appended and the status is STOPPING. Nothing else touches actions or outgoing events. -/
theorem abort_post (n : Nat) (s : State) (u : Nat) (s' : State) (f : Flow) (hf : s.flows u = some f)
    (hl : f.status.listening = true ∨ f.status = .stopping) (h : abortFlow (n + 1) s u false = .ok s') :
    ∃ f' s1 f1, s'.flows u = some f' ∧ f'.status = .stopped ∧ f'.heads = 0 ∧
      childLoop (fun s c => abortFlow n s c true) (markNoRestart s u) f.children = .ok s1 ∧ s1.flows u = some f1 ∧
      (∀ a, a ∉ f1.actionUids → s'.actions a = s1.actions a ∧ stops a s'.out = stops a s1.out) ∧
      (f1.actionUids.Nodup → ∀ a ∈ f1.actionUids, ∃ x, s1.actions a = some x ∧ StopEffect a x s1 s') := by
  simp only [abortFlow, deactivatePhase, hf] at h
  obtain ⟨s1, f1, s2, s6, f6, h1, hf1, h2, a6, o6, _, hf6, st6, hd6, _, _, _, _, hr⟩ :=
    abortBody_post _ s u false s' f hf hl h
  obtain ⟨g, hg, hcase⟩ := restart_spec _ _ _ _ hr
  obtain ⟨ra, ro, _⟩ := restart_frame _ _ _ _ hr
  rw [hf6] at hg; cases hg
  have hfu : ∃ f', s'.flows u = some f' ∧ f'.status = .stopped ∧ f'.heads = 0 := by
    rcases hcase with ⟨_, _, _, _, hu, _⟩ | ⟨_, e⟩
    · exact ⟨_, hu, st6, hd6⟩
    · rw [e]; exact ⟨_, hf6, st6, hd6⟩
  obtain ⟨f', hf', e1, e2⟩ := hfu
  refine ⟨f', s1, f1, hf', e1, e2, h1, hf1, ?_, ?_⟩
  · intro a ha
    obtain ⟨b1, b2⟩ := stopActions_not_mem _ _ _ h2 a ha
    rw [ra, ro, a6, o6]; exact ⟨b1, b2⟩
  · intro hnd a ha
    obtain ⟨x, hx, c1, c2, c3⟩ := stopActions_mem _ hnd _ _ h2 a ha
    refine ⟨x, hx, ?_, ?_, ?_⟩ <;> rw [ra, ro, a6, o6]
    · exact c1
    · exact c2
    · exact c3

/-- non-vacuity of `abort_post`: a flow with one child and one running action -/
example : ∃ s', abortFlow 2
    { flows := fun u => if u = 0 then some ⟨0, none, [1], .started, 0, false, [7], [], 1, false⟩
                        else if u = 1 then some ⟨1, some 0, [], .started, 0, false, [], [], 1, false⟩ else none,
      actions := fun a => if a = 7 then some ⟨.started, 1⟩ else none, order := [0, 1], queue := [], out := [] } 0 false = .ok s' := by
  exact ⟨_, rfl⟩

/-- `_finish_flow(f)` of a flow other than `main`: FINISHED, no heads, same action clause. -/
theorem finish_post (n : Nat) (s : State) (u : Nat) (s' : State) (f : Flow) (hf : s.flows u = some f)
    (hl : f.status.listening = true) (h : finishFlow n s u false = .ok s') :
    ∃ f' s1 f1, s'.flows u = some f' ∧ f'.heads = (if f1.isMain then 1 else 0) ∧
      f'.status = (if f1.isMain then .waiting else .finished) ∧
      childLoop (fun s c => abortFlow n s c true) s f.children = .ok s1 ∧ s1.flows u = some f1 ∧
      (∀ a, a ∉ f1.actionUids → s'.actions a = s1.actions a ∧ stops a s'.out = stops a s1.out) ∧
      (f1.actionUids.Nodup → ∀ a ∈ f1.actionUids, ∃ x, s1.actions a = some x ∧ StopEffect a x s1 s') := by
  simp only [finishFlow, deactivatePhase, hf] at h
  obtain ⟨s1, f1, s2, h1, hf1, h2, hcase⟩ := finishBody_post _ s u false s' f hf hl h
  have key : ∃ f', s'.flows u = some f' ∧ f'.heads = (if f1.isMain then 1 else 0) ∧
      f'.status = (if f1.isMain then .waiting else .finished) ∧ s'.actions = s2.actions ∧ s'.out = s2.out := by
    rcases hcase with ⟨hm, a', o', _, hu⟩ | ⟨hm, s6, f6, a6, o6, _, hf6, st6, hd6, _, _, _, _, hr⟩
    · exact ⟨_, hu, by simp [hm], by simp [hm], a', o'⟩
    · obtain ⟨g, hg, hc⟩ := restart_spec _ _ _ _ hr
      obtain ⟨ra, ro, _⟩ := restart_frame _ _ _ _ hr
      rw [hf6] at hg; cases hg
      rcases hc with ⟨_, _, _, _, hu, _⟩ | ⟨_, e⟩
      · exact ⟨_, hu, by simp [hm, hd6], by simp [hm, st6], by rw [ra, a6], by rw [ro, o6]⟩
      · rw [e]; exact ⟨_, hf6, by simp [hm, hd6], by simp [hm, st6], a6, o6⟩
  obtain ⟨f', hf', e1, e2, ea, eo⟩ := key
  refine ⟨f', s1, f1, hf', e1, e2, h1, hf1, ?_, ?_⟩
  · intro a ha
    obtain ⟨b1, b2⟩ := stopActions_not_mem _ _ _ h2 a ha
    rw [ea, eo]; exact ⟨b1, b2⟩
  · intro hnd a ha
    obtain ⟨x, hx, c1, c2, c3⟩ := stopActions_mem _ hnd _ _ h2 a ha
    refine ⟨x, hx, ?_, ?_, ?_⟩ <;> rw [ea, eo]
    · exact c1
    · exact c2
    · exact c3

/-! ## T1 `activated_restart` / `immediate_finish_guard` -/

/-- Failing an instance: let `f1` be its record after its children have been stopped (`new_instance_started` is
    only ever set: it is set already when the restart was issued before, and — since /repo a75cc62 — when the instance
    fails while still STARTING, i.e. before it was started).  If `activated > 0` and `f1.nis` is not set, ONE `StartFlow`
    for the same flow (arguments = those of the instance, carried by `inst := u`) is pushed at the FRONT of the internal
    queue — ahead of everything that was queued and of the `FlowFailed` events appended by the call — and the flag is
    set; otherwise the queue only grows at the back by `FlowFailed`/`FlowFinished` events. -/
theorem activated_restart (n : Nat) (s : State) (u : Nat) (s' : State) (f : Flow) (hf : s.flows u = some f)
    (hl : f.status.listening = true ∨ f.status = .stopping) (h : abortFlow (n + 1) s u false = .ok s') :
    ∃ f' f1 s1 l, s'.flows u = some f' ∧
      childLoop (fun s c => abortFlow n s c true) (markNoRestart s u) f.children = .ok s1 ∧ s1.flows u = some f1 ∧
      (∀ e ∈ l, e.isEnd = true) ∧
      (f.nis = true → f1.nis = true) ∧ (f.status = .starting → 0 < f.activated → f1.nis = true) ∧
      ((0 < f'.activated ∧ f1.nis = false) →
        f'.nis = true ∧ ∃ src, s'.queue = .startFlow f.flowId src f'.activated u :: (s.queue ++ l)) ∧
      (¬(0 < f'.activated ∧ f1.nis = false) → f'.nis = f1.nis ∧ s'.queue = s.queue ++ l) := by
  simp only [abortFlow, deactivatePhase, hf] at h
  obtain ⟨s1, f1, s2, s6, f6, h1, hf1, h2, _, _, q6, hf6, _, _, ac6, n6, i6, _, hr⟩ :=
    abortBody_post _ s u false s' f hf hl h
  have hst := childLoop_steps _ (abortFlow_rec_steps n) _ _ _ h1
  obtain ⟨l, hq, hle⟩ := hst.queue_append
  obtain ⟨_, _, hfr⟩ := hst.flows_rel
  obtain ⟨f0, hf0, _, _, _, _, id0, _, _, nis0, nst0, _⟩ := markNoRestart_self s u f hf
  obtain ⟨_, _, qm, _, _⟩ := markNoRestart_frame s u
  obtain ⟨f1', hf1', hu⟩ := hfr u f0 hf0
  rw [hf1] at hf1'; cases hf1'
  obtain ⟨g, hg, hcase⟩ := restart_spec _ _ _ _ hr
  rw [hf6] at hg; cases hg
  have hl' : ∀ e ∈ l ++ [IEv.flowFailed u], e.isEnd = true := by
    intro e he
    rcases List.mem_append.1 he with h | h
    · exact hle e h
    · simp at h; subst h; rfl
  rcases hcase with ⟨_, ha, hn, hq', hu', _⟩ | ⟨hn, e⟩
  · refine ⟨_, f1, s1, l ++ [.flowFailed u], hu', h1, hf1, hl', fun h => hu.nis (nis0 h), fun a b => hu.nis (nst0 a b), ?_, ?_⟩
    · intro _
      refine ⟨rfl, restartSource s6 u f6, ?_⟩
      rw [hq', q6, hq, qm, i6, hu.flowId, id0]; simp
    · intro hc
      exact absurd ⟨ha, by rw [← n6]; exact hn⟩ hc
  · subst e
    refine ⟨_, f1, s1, l ++ [.flowFailed u], hf6, h1, hf1, hl', fun h => hu.nis (nis0 h), fun a b => hu.nis (nst0 a b), ?_, ?_⟩
    · intro hc
      exact absurd ⟨rfl, hc.1, by rw [n6]; exact hc.2⟩ hn
    · intro _
      exact ⟨n6, by rw [q6, hq, qm]; simp⟩

/-- at most once per instance: an instance whose `new_instance_started` is set is never restarted again
    (no `StartFlow` is pushed; the flag is only ever set, see `FlowUpd.nis`); likewise an activated instance that
    fails while still STARTING (before it was started) is not restarted -/
theorem restart_at_most_once (n : Nat) (s : State) (u : Nat) (s' : State) (f : Flow) (hf : s.flows u = some f)
    (hl : f.status.listening = true ∨ f.status = .stopping)
    (hn : f.nis = true ∨ (f.status = .starting ∧ 0 < f.activated))
    (h : abortFlow (n + 1) s u false = .ok s') :
    ∃ l, s'.queue = s.queue ++ l ∧ ∀ e ∈ l, e.isEnd = true := by
  obtain ⟨f', f1, s1, l, _, _, _, hl', m1, m2, _, h2⟩ := activated_restart n s u s' f hf hl h
  have : f1.nis = true := by
    rcases hn with h | ⟨a, b⟩
    · exact m1 h
    · exact m2 a b
  exact ⟨l, (h2 (by simp [this])).2, hl'⟩

/-- `start_new_flow_instance` label: restarts only a STARTED instance, from itself, at the front of the queue -/
theorem label_restart_spec (s : State) (u : Nat) (f : Flow) (hf : s.flows u = some f) :
    labelRestart s u = .ok (if f.status = .started then
      modFlow (pushLeft s (.startFlow f.flowId u f.activated u)) u (fun f => { f with nis := true }) else s) := by
  unfold labelRestart
  rw [hf]
  by_cases h : f.status = .started <;> simp [h]

/-- immediate-finish guard: an activated instance that reaches its end before ever waiting (status still
    STARTING) is parked — it becomes STARTED, its head INACTIVE, neither `_finish_flow` nor `_abort_flow` is
    called, hence no restart; a non-activated one is finished; an instance that has waited before (STARTED)
    is finished (and then restarted by `_finish_flow` if activated). -/
theorem immediate_finish_guard (k : Nat) :
    endDecision .starting (k + 1) = (.started, true, .park) ∧
    endDecision .starting 0 = (.started, true, .finish) ∧
    endDecision .started k = (.started, false, .finish) ∧
    endDecision .stopping k = (.stopping, false, .abort) := by
  simp [endDecision]


/-! ## activation bookkeeping -/

/-- (repaired behaviour, fixes/C06-start-after-parent-ended.diff) a `StartFlow` event never creates an instance
    under a sender that has already finished or failed — except the restart of an activated flow, whose sender
    is the ended instance of the same flow.  On the unpatched tree this is the open finding
    `start-after-parent-ended` (a child whose StartFlow was still queued when its parent was aborted runs forever). -/
theorem start_not_under_ended_parent (s : State) (fid : Nat) (known act hasInst : Bool) (source : Nat) (pm : Nat → Bool)
    (s' : State) (src : Nat) (h : processStartFlow s fid known act hasInst source pm = .ok (s', .create src)) :
    ∃ sf, s.flows source = some sf ∧
      (((sf.status ≠ .stopped ∧ sf.status ≠ .finished) ∧ (sf.flowId = fid → act = true → 0 < sf.activated)) ∨
       (sf.flowId = fid ∧ act = true ∧ 0 < sf.activated)) := by
  unfold processStartFlow at h
  split at h
  · cases h
  · dsimp only at h
    split at h
    · cases h
    · next sf hsf =>
      refine ⟨sf, hsf, ?_⟩
      split at h
      · cases h
      · next hc =>
        simp only [Bool.or_eq_true, Bool.and_eq_true, Bool.not_eq_true', beq_iff_eq, not_or, not_and] at hc
        obtain ⟨hc1, hc2⟩ := hc
        by_cases hid : sf.flowId = fid
        · by_cases ha : act = true
          · right
            have : 0 < sf.activated := by
              have := hc2 ⟨hid.symm, ha⟩
              omega
            exact ⟨hid, ha, this⟩
          · left
            refine ⟨?_, fun _ h => absurd h ha⟩
            have hnr : ¬(fid = sf.flowId ∧ act = true) := fun h => ha h.2
            by_cases h1 : sf.status = .stopped
            · have := hc1 (Or.inl h1); simp at this; exact absurd ⟨this.1, this.2⟩ hnr
            · by_cases h2 : sf.status = .finished
              · have := hc1 (Or.inr h2); simp at this; exact absurd ⟨this.1, this.2⟩ hnr
              · exact ⟨h1, h2⟩
        · left
          refine ⟨?_, fun h => absurd h hid⟩
          have hnr : ¬(fid = sf.flowId ∧ act = true) := fun h => hid h.1.symm
          by_cases h1 : sf.status = .stopped
          · have := hc1 (Or.inl h1); simp at this; exact absurd ⟨this.1, this.2⟩ hnr
          · by_cases h2 : sf.status = .finished
            · have := hc1 (Or.inr h2); simp at this; exact absurd ⟨this.1, this.2⟩ hnr
            · exact ⟨h1, h2⟩

/-- re-activating an already activated flow only increments the reference count of the reference instance,
    registers it as a child of the new activator and announces `FlowStarted`; no instance is created -/
theorem activate_existing (s : State) (fid : Nat) (known act hasInst : Bool) (source : Nat) (pm : Nat → Bool)
    (s' : State) (r : Nat) (h : processStartFlow s fid known act hasInst source pm = .ok (s', .reused r)) :
    s'.queue = s.queue ++ [.flowStarted r] ∧ s'.out = s.out ∧ s'.actions = s.actions ∧
    ∃ rf, s.flows r = some rf ∧ 0 < rf.activated ∧ rf.flowId = fid := by
  unfold processStartFlow at h
  split at h
  · cases h
  · dsimp only at h
    split at h
    · cases h
    · next sf hsf =>
      split at h
      · cases h
      · split at h
        · next r' hr' =>
          split at h
          · split at h
            · cases h
            · next rf hrf =>
              cases h
              refine ⟨by simp, by simp, by simp, rf, hrf, ?_⟩
              -- the reference instance was selected by `getRefActivated`
              have key : ∀ (l : List Nat) (r : Nat), getRefActivated s fid pm l = some r →
                  ∃ f, s.flows r = some f ∧ 0 < f.activated ∧ f.flowId = fid := by
                intro l
                induction l with
                | nil => intro r h; simp [getRefActivated] at h
                | cons u us ih =>
                  intro r h
                  simp only [getRefActivated] at h
                  split at h
                  · exact ih r h
                  · next f hf =>
                    split at h
                    · next hc =>
                      cases h
                      simp only [Bool.and_eq_true, beq_iff_eq] at hc
                      refine ⟨f, hf, ?_, hc.1.1⟩
                      have := hc.1.2
                      unfold isReferenceCandidate at this
                      simp at this
                      omega
                    · exact ih r h
              split at hr'
              · obtain ⟨f, hf, h1, h2⟩ := key _ _ hr'
                rw [hrf] at hf; cases hf
                exact ⟨h1, h2⟩
              · cases hr'
          · cases h
        · cases h

/-! ## monotonicity facts used by T2 -/

/-- an ended (or never-listening) instance is never brought back by abort/deactivation steps, and its identity
    (flow id, parent, `new_instance_started`, action list) is kept; children are only removed -/
theorem ended_stays_ended (n : Nat) (s : State) (u : Nat) (s' : State) (h : abortFlow n s u true = .ok s')
    (v : Nat) (f : Flow) (hv : s.flows v = some f) :
    ∃ f', s'.flows v = some f' ∧ FlowUpd f f' ∧ (f.status.listening = false → f'.status.listening = false) := by
  obtain ⟨_, _, hr⟩ := (abortFlow_true_steps n s u s' h).flows_rel
  obtain ⟨f', hf', hu⟩ := hr v f hv
  exact ⟨f', hf', hu, hu.not_listening⟩


/-- `_abort_flow` ends the instance unless it is a deactivation of a reference instance that other activators
    still hold (then ONLY the reference count changes): afterwards the instance is not listening, for every
    `deactivate_flow` value, every hierarchy and every fuel. -/
theorem abort_ends_instance (n : Nat) (s : State) (u : Nat) (d : Bool) (s' : State) (f : Flow) (hf : s.flows u = some f)
    (h : abortFlow n s u d = .ok s') :
    (d = true ∧ s' = setFlow s u { f with activated := f.activated - 1 } ∧ f.activated - 1 ≠ 0) ∨
    ∃ f', s'.flows u = some f' ∧ f'.status.listening = false := by
  rcases Lifetime.abort_ends_instance n s u d s' f hf h with ⟨a, _, b, c⟩ | ⟨g, h1, h2, _⟩
  · exact Or.inl ⟨a, b, c⟩
  · exact Or.inr ⟨g, h1, h2⟩

/-- the child loop of `_abort_flow` / `_finish_flow` stops every non-activated child that is listed -/
theorem children_stopped (n : Nat) (l : List Nat) (s s1 : State)
    (h : childLoop (fun s c => abortFlow n s c true) s l = .ok s1) (c : Nat) (hc : c ∈ l) (cf : Flow)
    (hcf : s.flows c = some cf) (ha : cf.activated = 0) :
    ∃ cf', s1.flows c = some cf' ∧ cf'.status.listening = false ∧ cf'.activated = 0 :=
  Lifetime.children_stopped n l s s1 h c hc cf hcf ha


/-! ## T2 `lifetime_invariant` over the operation-sequence semantics (`Models/LifetimeOps.lean`) -/

/-- The invariant.  `flow.dc`: every listening non-activated instance that a parent lists as its child has a
    parent that is listening (or is just executing `abort`: STOPPING);  `flow.sfc`: a child of the same flow as its
    parent is a restarted instance of that parent;  nobody lists the main flow, which has no parent; every live
    instance is in the iteration order.  `act.act1`: a STARTING/STARTED action that has not been sent a `Stop` has
    scope count ≥ 1;  `act.act0`: a STOPPING action has been sent its `Stop`. -/
structure LifetimeInv0 (s : State) : Prop where
  flow : FlowInv s
  act : ActInv s

theorem lifetime_inv0_init : LifetimeInv0 initState := by
  refine ⟨⟨?_, ?_, ?_, ?_, ?_⟩, ⟨?_, ?_⟩⟩
  · intro p pf c cf hp hc
    simp only [initState] at hp
    split at hp
    · cases hp; simp [freshFlow] at hc
    · cases hp
  · intro p pf c cf hp hc
    simp only [initState] at hp
    split at hp
    · cases hp; simp [freshFlow] at hc
    · cases hp
  · intro p pf c cf hp hc
    simp only [initState] at hp
    split at hp
    · cases hp; simp [freshFlow] at hc
    · cases hp
  · intro v f hv _
    simp only [initState] at hv
    split at hv
    · cases hv; rfl
    · cases hv
  · intro v f hv
    simp only [initState] at hv
    split at hv
    · next e => subst e; simp [initState]
    · cases hv
  · intro a x hx; simp [initState] at hx
  · intro a x hx; simp [initState] at hx

theorem labelRestart_core (s : State) (u : Nat) (s' : State) (h : labelRestart s u = .ok s') :
    s'.order = s.order ∧ s'.actions = s.actions ∧ s'.out = s.out ∧ ∀ v, (s'.flows v).map core = (s.flows v).map core := by
  unfold labelRestart at h
  split at h
  · cases h
  · next f hf =>
    split at h
    · cases h; exact ⟨rfl, rfl, rfl, fun _ => rfl⟩
    · cases h
      have hf' : (pushLeft s (.startFlow f.flowId u f.activated u)).flows u = some f := hf
      rw [modFlow_some _ _ _ _ hf']
      refine ⟨rfl, rfl, rfl, ?_⟩
      intro v
      have := core_setFlow (pushLeft s (.startFlow f.flowId u f.activated u)) u f { f with nis := true } hf' rfl v
      simpa using this

/-- every operation preserves the invariant -/
theorem lifetime_inv0_step (s : State) (op : IOp) (hi : LifetimeInv0 s) : LifetimeInv0 (applyOp s op) := by
  cases op with
  | abort n u d =>
    simp only [applyOp]
    cases h : abortFlow n s u d with
    | error e => exact hi
    | ok s' => exact ⟨abort_flowInv hi.flow n u d s' h, (abortFlow_steps n s u d s' h).actInv hi.act⟩
  | finish n u d =>
    simp only [applyOp]
    cases h : finishFlow n s u d with
    | error e => exact hi
    | ok s' => exact ⟨finish_flowInv hi.flow n u d s' h, (finishFlow_steps n s u d s' h).actInv hi.act⟩
  | endScope n u nm =>
    simp only [applyOp]
    cases h : endScope n s u nm with
    | error e => exact hi
    | ok s' => exact ⟨endScope_flowInv hi.flow n u nm s' h, (endScope_steps n s u nm s' h).actInv hi.act⟩
  | startChild c fid p k =>
    simp only [applyOp]
    split
    · next hc hp =>
      split
      · next hg =>
        simp only [Bool.and_eq_true, Bool.or_eq_true, bne_iff_ne, ne_eq, decide_eq_true_eq, beq_iff_eq] at hg
        refine ⟨startChild_flowInv hi.flow c fid p k _ hc hp hg.1.1 hg.1.2 ?_, hi.act.congr rfl (fun _ => rfl)⟩
        rcases hg.2 with h | h
        · exact Or.inl h
        · exact Or.inr h.1.1
      · exact hi
    · exact hi
  | reactivate fid known act hasInst source pm =>
    simp only [applyOp]
    split
    · next s' r h =>
      refine ⟨reactivate_flowInv hi.flow fid known act hasInst source _ s' r h, ?_⟩
      rcases processStartFlow_effect s fid known act hasInst source _ s' r h with e | ⟨_, _, _, _, _, _, _, _, e⟩
      · rw [e]; exact hi.act
      · rw [e]; exact hi.act.congr (by simp) (fun _ => by simp)
    · exact hi
  | status u st =>
    simp only [applyOp]
    split
    · next f hf =>
      split
      · next hok => exact ⟨status_flowInv hi.flow u f st hf hok, hi.act.congr rfl (fun _ => rfl)⟩
      · exact hi
    · exact hi
  | newAction u a =>
    simp only [applyOp]
    split
    · next f hf ha =>
      split
      · next h0 =>
        refine ⟨hi.flow.of_core rfl (core_setFlow s u f _ hf rfl), ?_, ?_⟩
        · intro b y hy hr hs
          by_cases hb : b = a
          · subst hb; rw [setAction_actions_same] at hy; cases hy; simp [AStatus.running] at hr
          · rw [setAction_actions_ne _ _ _ _ hb] at hy; exact hi.act.act1 b y hy hr hs
        · intro b y hy hs
          by_cases hb : b = a
          · subst hb; rw [setAction_actions_same] at hy; cases hy; cases hs
          · rw [setAction_actions_ne _ _ _ _ hb] at hy; exact hi.act.act0 b y hy hs
      · exact hi
    · exact hi
  | startAction a =>
    simp only [applyOp]
    split
    · split
      · obtain ⟨hf, _, _, ho, _⟩ := update_rel (AEv.startOf a) (emit s (.start a))
        exact ⟨hi.flow.of_flows_eq ho hf, startAction_actInv hi.act a⟩
      · exact hi
    · exact hi
  | coWin loser a b =>
    simp only [applyOp]
    split
    · next f x hf hx =>
      split
      · next hg =>
        refine ⟨hi.flow.of_core rfl (core_setFlow s loser f _ hf rfl), ?_, ?_⟩
        · intro v y hy hr hs
          simp only at hy
          split at hy
          · cases hy
          · next hvb =>
            by_cases hva : v = a
            · subst hva
              rw [setAction_actions_same] at hy; cases hy
              have := hi.act.act1 v x hx hr hs
              simp; omega
            · rw [setAction_actions_ne _ _ _ _ hva] at hy; exact hi.act.act1 v y hy hr hs
        · intro v y hy hs
          simp only at hy
          split at hy
          · cases hy
          · by_cases hva : v = a
            · subst hva
              rw [setAction_actions_same] at hy; cases hy
              exact hi.act.act0 v x hx hs
            · rw [setAction_actions_ne _ _ _ _ hva] at hy; exact hi.act.act0 v y hy hs
      · exact hi
    · exact hi
  | event e =>
    by_cases hg : eventOk s e = true
    · have happ : applyOp s (.event e) = updateActionStatusByEvent s e := by simp only [applyOp, hg, if_true]
      rw [happ]
      simp only [eventOk, Bool.and_eq_true] at hg
      obtain ⟨hf, _, _, ho, _⟩ := update_rel e s
      refine ⟨hi.flow.of_flows_eq ho hf, update_actInv hi.act e hg.1 ?_⟩
      intro x hx
      have := hg.2
      rw [hx] at this
      simpa using this
    · have happ : applyOp s (.event e) = s := by simp only [applyOp, hg]; rfl
      rw [happ]; exact hi
  | label u =>
    simp only [applyOp]
    cases h : labelRestart s u with
    | error e => exact hi
    | ok s' =>
      obtain ⟨ho, ha, hout, hc⟩ := labelRestart_core s u s' h
      show LifetimeInv0 s'
      exact ⟨hi.flow.of_core ho hc, hi.act.congr ha (fun _ => by rw [hout])⟩
  | frame u heads scopes =>
    simp only [applyOp]
    split
    · next f hf => exact ⟨hi.flow.of_core rfl (core_setFlow s u f _ hf rfl), hi.act.congr rfl (fun _ => rfl)⟩
    · exact hi
  | noRestart u =>
    simp only [applyOp]
    cases hf : s.flows u with
    | none => rw [modFlow_none _ _ _ hf]; exact hi
    | some f =>
      rw [modFlow_some _ _ _ _ hf]
      exact ⟨hi.flow.of_core rfl (core_setFlow s u f _ hf rfl), hi.act.congr rfl (fun _ => rfl)⟩

/-- The full invariant (phase 4).  `base` as above; `link` (clause iv): every listening instance is listed in the
    `child_flow_uids` of its parent, parent pointers are live, the main flow is a root; `cnt` (clause iii): the iteration
    order lists exactly the live instances once, and every STARTING/STARTED action that has not been sent a `Stop` has
    `flow_scope_count ≤` number of its occurrences in the `action_uids` of listening-or-STOPPING instances. -/
structure LifetimeInv (s : State) : Prop where
  base : LifetimeInv0 s
  link : LinkInv s
  cnt : CountInv s

theorem LifetimeInv.flow {s : State} (h : LifetimeInv s) : FlowInv s := h.base.flow
theorem LifetimeInv.act {s : State} (h : LifetimeInv s) : ActInv s := h.base.act

theorem lifetime_inv_init : LifetimeInv initState := ⟨lifetime_inv0_init, LinkInv.init, CountInv.init⟩

/-- every operation preserves the invariant -/
theorem lifetime_inv_step (s : State) (op : IOp) (hi : LifetimeInv s) : LifetimeInv (applyOp s op) :=
  ⟨lifetime_inv0_step s op hi.base, LinkInv.step s op hi.link, CountInv.step s op hi.base.act hi.cnt⟩

/-- **T2**: the invariant holds in every state the operation-sequence semantics can reach. -/
theorem lifetime_invariant (ops : List IOp) : LifetimeInv (run ops) := by
  unfold run
  suffices h : ∀ (l : List IOp) (s : State), LifetimeInv s → LifetimeInv (l.foldl applyOp s) from h ops _ lifetime_inv_init
  intro l
  induction l with
  | nil => intro s hs; exact hs
  | cons op l ih => intro s hs; exact ih _ (lifetime_inv_step s op hs)

/-- children-form reading: wherever the parent still lists the child (`child_flow_uids`), a listening
    non-activated instance has a listening (or STOPPING) parent -/
theorem lifetime_parent_form (ops : List IOp) (c p : Nat) (cf pf : Flow) (hc : (run ops).flows c = some cf)
    (hp : (run ops).flows p = some pf) (hlisted : c ∈ pf.children) (hl : cf.status.listening = true) (ha : cf.activated = 0) :
    pf.status.listening = true ∨ pf.status = .stopping :=
  (lifetime_invariant ops).flow.dc p pf c cf hp hlisted hc (fun h => h) ha hl

/-- **clause (iv), parent-pointer form**: in every reachable state a listening non-activated instance whose
    `parent_uid` is `p` has a parent that is listening or STOPPING (= executing `abort`; its `_abort_flow` is the next
    operation).  (`LinkInv.linked` supplies "the parent still lists the child"; note the statement order in
    `_abort_flow`: the removal from the parent's list comes BEFORE the STOPPED mark, both in the straight-line tail.) -/
theorem lifetime_parent_pointer_form (ops : List IOp) (c p : Nat) (cf pf : Flow) (hc : (run ops).flows c = some cf)
    (hp : (run ops).flows p = some pf) (hpar : cf.parent = some p) (hl : cf.status.listening = true) (ha : cf.activated = 0) :
    pf.status.listening = true ∨ pf.status = .stopping :=
  parent_pointer_form (run ops) (lifetime_invariant ops).flow (lifetime_invariant ops).link c p cf pf hc hp hpar hl ha

/-- the parent of a live instance is a live instance (no dangling `parent_uid` inside a case: no clean-up) -/
theorem lifetime_parent_live (ops : List IOp) (c p : Nat) (cf : Flow) (hc : (run ops).flows c = some cf) (hpar : cf.parent = some p) :
    ∃ pf, (run ops).flows p = some pf :=
  (lifetime_invariant ops).link.parentLive c cf p hc hpar

/-- `q` is reachable from `c` along `parent_uid` through listening non-activated instances -/
inductive UpChain (s : State) (c : Nat) : Nat → Prop
  | refl : UpChain s c c
  | step {q p : Nat} {qf : Flow} : UpChain s c q → s.flows q = some qf → qf.status.listening = true → qf.activated = 0 →
      qf.parent = some p → UpChain s c p

/-- **transitive parent-pointer form** (the oracle's O2 as a theorem): walking up from a listening instance along
    `parent_uid` through listening non-activated instances one never meets a FINISHED / STOPPED / WAITING-less ancestor:
    every instance on the chain is listening or STOPPING.  Contrapositive: below an ended instance nothing that it
    started (transitively, along non-activated instances) is still listening. -/
theorem ancestors_listening (ops : List IOp) (c : Nat) (cf : Flow) (hc : (run ops).flows c = some cf)
    (hl : cf.status.listening = true) (q : Nat) (h : UpChain (run ops) c q) (qf : Flow) (hq : (run ops).flows q = some qf) :
    qf.status.listening = true ∨ qf.status = .stopping := by
  induction h generalizing qf with
  | refl => rw [hc] at hq; cases hq; exact Or.inl hl
  | step _ hq' hl' ha' hpar _ => exact lifetime_parent_pointer_form ops _ _ _ qf hq' hq hpar hl' ha'

/-- non-vacuity of `UpChain` / the parent-pointer form: main (0) starts flow 1 which starts flow 2 -/
example : UpChain (run [.status 0 .starting, .status 0 .started, .startChild 1 1 0 0, .status 1 .starting,
    .status 1 .started, .startChild 2 2 1 0]) 2 0 :=
  .step (.step .refl (qf := { freshFlow 2 with parent := some 1 }) rfl (by decide) (by decide) rfl)
    (qf := { freshFlow 1 with parent := some 0, status := .started, children := [2] }) rfl (by decide) (by decide) rfl

/-- **clause (iii)**: in every reachable state a STARTING/STARTED action that has not been sent a `Stop` has
    `1 ≤ flow_scope_count ≤ holders`, hence is in the `action_uids` of an instance that is listening or STOPPING. -/
theorem running_action_has_holder (ops : List IOp) (a : Nat) (x : Action) (hx : (run ops).actions a = some x)
    (hr : x.status.running = true) (h0 : stops a (run ops).out = 0) :
    1 ≤ x.count ∧ x.count ≤ (holders (run ops) a : Int) ∧
    ∃ v f, v ∈ (run ops).order ∧ (run ops).flows v = some f ∧ (f.status.listening = true ∨ f.status = .stopping) ∧
      a ∈ f.actionUids :=
  ⟨(lifetime_invariant ops).act.act1 a x hx hr h0, (lifetime_invariant ops).cnt.le a x hx hr (by simpa using h0) |> (by simpa using ·),
   count_has_holder (lifetime_invariant ops).cnt (lifetime_invariant ops).act a x hx hr h0⟩

/-- the equality `flow_scope_count = holders` does NOT hold in the code as it is: `EndScope` decrements the count of a
    shared action without removing it from `action_uids` (the second decrement comes when the flow ends).  History:
    main starts action 7; flow 1 co-wins onto it (count 2); main's scope that registered 7 ends (count 1, no Stop):
    the action is running, not stopped, count 1, held by two listening instances. -/
def cexOps : List IOp :=
  [.status 0 .starting, .status 0 .started, .newAction 0 7, .startAction 7,
   .startChild 1 1 0 0, .status 1 .starting, .status 1 .started, .newAction 1 8, .coWin 1 7 8,
   .frame 0 1 [(5, [], [7])], .endScope 3 0 5]

theorem count_eq_as_is_counterexample :
    (run cexOps).actions 7 = some ⟨.starting, 1⟩ ∧ holders (run cexOps) 7 = 2 ∧ stops 7 (run cexOps).out = 0 := by
  decide

/-! ## fuel: `abort_fuel_sufficient`, and what happens on a cyclic child graph -/

/-- On an acyclic child graph (a rank `r` decreases along `child_flow_uids`) any fuel above the rank of the instance
    suffices — in particular the number of instances —: the model never answers `Err.fuel`, i.e. the Python
    recursion is bounded by the depth of the hierarchy. -/
theorem abort_fuel_sufficient (r : Nat → Nat) (n : Nat) (s : State) (u : Nat) (d : Bool) (hr : Ranked r s) (hu : r u < n) :
    abortFlow n s u d ≠ .error .fuel :=
  abortFlow_no_fuel r n s u d hr hu

theorem finish_fuel_sufficient (r : Nat → Nat) (n : Nat) (s : State) (u : Nat) (d : Bool) (hr : Ranked r s) (hu : r u ≤ n) :
    finishFlow n s u d ≠ .error .fuel :=
  finishFlow_no_fuel r n s u d hr hu

/-- two listening instances that list each other as children (what two mutually activating flows look like once
    both reference counts have reached 0) -/
def cyc : State :=
  { flows := fun u => if u = 0 then some ⟨0, none, [1], .started, 0, false, [], [], 1, false⟩
                      else if u = 1 then some ⟨1, some 0, [0], .started, 0, false, [], [], 1, false⟩ else none,
    actions := fun _ => none, order := [0, 1], queue := [], out := [] }

/-- **as-is counterexample (open finding `activation-cycle-recursion`)**: on a cyclic child graph NO fuel suffices —
    the Python recursion of `_abort_flow` does not terminate (RecursionError escapes `run_to_completion`). -/
theorem abort_cyclic_as_is_counterexample : ∀ n : Nat,
    abortFlow n cyc 0 true = .error .fuel ∧ abortFlow n cyc 1 true = .error .fuel
  | 0 => ⟨rfl, rfl⟩
  | n + 1 => by
    obtain ⟨h0, h1⟩ := abort_cyclic_as_is_counterexample n
    constructor
    · simp [abortFlow, deactivatePhase, abortBody, markNoRestart, childLoop, isRefActivated, isChildActivated, cyc, FStatus.listening]
      have : abortFlow n cyc 1 true = .error .fuel := h1
      simp [cyc] at this
      simp [this]
    · simp [abortFlow, deactivatePhase, abortBody, markNoRestart, childLoop, isRefActivated, isChildActivated, cyc, FStatus.listening]
      have : abortFlow n cyc 0 true = .error .fuel := h0
      simp [cyc] at this
      simp [this]

/-! ## the transitive statement -/

/-! ## the repaired recursion (finding `activation-cycle-recursion`, fixes/C06-activation-cycle.diff)

`Models/LifetimeV.lean`: `_abort_flow` threads the set `in_progress` (field `State.busy`) of the instances that are
being aborted / finished further up the call stack and does not enter them again.  This is the recursion the driver
replays (`C06.abort|finish|endscope`); the as-is recursion is replayed next to it and must give the same answer on
every recorded call whose hierarchy is acyclic. -/

/-- **`abort_fuel_sufficient` at full strength for the repaired recursion**: NO acyclicity hypothesis — for every
    state whose live instances are in the iteration order, an outermost repaired `_abort_flow` never exhausts fuel
    `2·#instances + 1`: the Python recursion terminates on every hierarchy, mutually activating flows included. -/
theorem abort_repaired_fuel_sufficient (n : Nat) (s : State) (u : Nat) (d : Bool)
    (hd : ∀ v, (s.flows v).isSome = true → v ∈ s.order) (hn : 2 * s.order.length < n) :
    abortTopV n s u d ≠ .error .fuel :=
  abortTopV_fuel_sufficient n s u d hd hn

theorem finish_repaired_fuel_sufficient (n : Nat) (s : State) (u : Nat) (d : Bool)
    (hd : ∀ v, (s.flows v).isSome = true → v ∈ s.order) (hn : 2 * s.order.length < n) :
    finishFlowV n s u d ≠ .error .fuel :=
  finishFlowV_fuel_sufficient n s u d hd hn

/-- on the 2-cycle where the as-is recursion never terminates (`abort_cyclic_as_is_counterexample`) the repaired one
    stops both instances (non-vacuity of the two theorems above: `cyc` satisfies their hypotheses with `n = 5`) -/
theorem abort_cyclic_repaired :
    (match abortTopV 5 cyc 0 true with
     | .ok s' => (s'.flows 0).map (·.status) == some .stopped && (s'.flows 1).map (·.status) == some .stopped
     | .error _ => false) = true := by decide

/-- the clauses that go through the repaired recursion by the generic skeleton (`Closed`): clause (iv) `LinkInv`,
    clause (iii) `CountInv`, the action clauses `ActInv`.  (The children-form clause `FlowInv.dc` needs the `Good E`
    induction: `lifetime_inv_step_repaired` below.) -/
structure RepairedInv (s : State) : Prop where
  link : LinkInv s
  cnt : CountInv s
  act : ActInv s

theorem repaired_inv_step (s : State) (op : IOp) (hi : RepairedInv s) : RepairedInv (applyOpV s op) := by
  have henv : applyOpV s op = applyOp s op → RepairedInv (applyOpV s op) := fun e => by
    rw [e]; exact ⟨LinkInv.step s op hi.link, CountInv.step s op hi.act hi.cnt, ActInv.step s op hi.act⟩
  cases op with
  | abort n u d =>
    simp only [applyOpV]
    cases h : abortTopV n s u d with
    | error e => exact hi
    | ok s' =>
      exact ⟨abortTopV_closed linkInv_closed linkInv_busy n s u d s' hi.link h,
        abortTopV_closed countInv_closed countInv_busy n s u d s' hi.cnt h,
        abortTopV_closed actInv_closed.1 actInv_closed.2 n s u d s' hi.act h⟩
  | finish n u d =>
    simp only [applyOpV]
    cases h : finishFlowV n s u d with
    | error e => exact hi
    | ok s' =>
      exact ⟨finishFlowV_closed linkInv_closed linkInv_busy n s u d s' hi.link h,
        finishFlowV_closed countInv_closed countInv_busy n s u d s' hi.cnt h,
        finishFlowV_closed actInv_closed.1 actInv_closed.2 n s u d s' hi.act h⟩
  | endScope n u nm =>
    simp only [applyOpV]
    cases h : endScopeV n s u nm with
    | error e => exact hi
    | ok s' =>
      exact ⟨endScopeV_closed linkInv_closed linkInv_busy n s u nm s' hi.link h,
        endScopeV_closed countInv_closed countInv_busy n s u nm s' hi.cnt h,
        endScopeV_closed actInv_closed.1 actInv_closed.2 n s u nm s' hi.act h⟩
  | startChild c fid p k => exact henv rfl
  | reactivate fid known act hasInst source pm => exact henv rfl
  | status u st => exact henv rfl
  | newAction u a => exact henv rfl
  | startAction a => exact henv rfl
  | coWin loser a b => exact henv rfl
  | event e => exact henv rfl
  | label u => exact henv rfl
  | noRestart u => exact henv rfl
  | frame u heads scopes => exact henv rfl

/-- clauses (iii), (iv) and the action clauses along every run of the repaired machine (a corollary of
    `lifetime_invariant_repaired` below, kept because it is proved by the generic skeleton alone) -/
theorem lifetime_invariant_repaired_partial (ops : List IOp) : RepairedInv (runV ops) := by
  unfold runV
  suffices h : ∀ (l : List IOp) (s : State), RepairedInv s → RepairedInv (l.foldl applyOpV s) from
    h ops _ ⟨LinkInv.init, CountInv.init, lifetime_inv0_init.act⟩
  intro l
  induction l with
  | nil => intro s hs; exact hs
  | cons op l ih => intro s hs; exact ih _ (repaired_inv_step s op hs)

/-- **on an acyclic hierarchy the repaired recursion IS the as-is recursion** (`Ranked r s`: a rank decreases along
    `child_flow_uids`): same answer — state or Python exception — up to the content of `in_progress` (`wbE b'`).  Hence
    every theorem about `abortFlow` / `finishFlow` / `endScope` above speaks about the repaired interpreter on acyclic
    hierarchies; inside a cycle the as-is functions are the finding `activation-cycle-recursion`. -/
theorem repaired_abort_eq_as_is_of_acyclic (r : Nat → Nat) (n : Nat) (s : State) (u : Nat) (d : Bool) (hr : Ranked r s) :
    ∃ b', abortTopV n s u d = wbE b' (abortFlow n s u d) := abortTopV_eq_of_ranked r n s u d hr

theorem repaired_finish_eq_as_is_of_acyclic (r : Nat → Nat) (n : Nat) (s : State) (u : Nat) (d : Bool) (hr : Ranked r s) :
    ∃ b', finishFlowV n s u d = wbE b' (finishFlow n s u d) := finishFlowV_eq_of_ranked r n s u d hr

theorem repaired_endScope_eq_as_is_of_acyclic (r : Nat → Nat) (n : Nat) (s : State) (u nm : Nat) (hr : Ranked r s) :
    ∃ b', endScopeV n s u nm = wbE b' (endScope n s u nm) := endScopeV_eq_of_ranked r n s u nm hr

theorem LifetimeInv.wb {s : State} (hi : LifetimeInv s) (b : List Nat) : LifetimeInv (wb b s) :=
  ⟨⟨hi.flow.of_flows_eq rfl rfl, hi.act.congr rfl (fun _ => rfl)⟩, hi.link.of_flows_eq rfl,
   hi.cnt.of_hk (HkEq.of_flows_eq rfl) rfl rfl rfl⟩

/-- one step of the REPAIRED machine from a state with an acyclic hierarchy preserves the FULL invariant -/
theorem lifetime_inv_step_repaired_of_acyclic (s : State) (op : IOp) (hr : ∃ r, Ranked r s) (hi : LifetimeInv s) :
    LifetimeInv (applyOpV s op) := by
  obtain ⟨r, hr⟩ := hr
  have henv : applyOpV s op = applyOp s op → LifetimeInv (applyOpV s op) := fun e => by
    rw [e]; exact lifetime_inv_step s op hi
  cases op with
  | abort n u d =>
    obtain ⟨b', e⟩ := abortTopV_eq_of_ranked r n s u d hr
    have h0 := lifetime_inv_step s (.abort n u d) hi
    simp only [applyOpV, applyOp, e] at h0 ⊢
    cases h : abortFlow n s u d with
    | error e' => exact hi
    | ok s' => rw [h] at h0; exact LifetimeInv.wb h0 b'
  | finish n u d =>
    obtain ⟨b', e⟩ := finishFlowV_eq_of_ranked r n s u d hr
    have h0 := lifetime_inv_step s (.finish n u d) hi
    simp only [applyOpV, applyOp, e] at h0 ⊢
    cases h : finishFlow n s u d with
    | error e' => exact hi
    | ok s' => rw [h] at h0; exact LifetimeInv.wb h0 b'
  | endScope n u nm =>
    obtain ⟨b', e⟩ := endScopeV_eq_of_ranked r n s u nm hr
    have h0 := lifetime_inv_step s (.endScope n u nm) hi
    simp only [applyOpV, applyOp, e] at h0 ⊢
    cases h : endScope n s u nm with
    | error e' => exact hi
    | ok s' => rw [h] at h0; exact LifetimeInv.wb h0 b'
  | startChild c fid p k => exact henv rfl
  | reactivate fid known act hasInst source pm => exact henv rfl
  | status u st => exact henv rfl
  | newAction u a => exact henv rfl
  | startAction a => exact henv rfl
  | coWin loser a b => exact henv rfl
  | event e => exact henv rfl
  | label u => exact henv rfl
  | noRestart u => exact henv rfl
  | frame u heads scopes => exact henv rfl

/-- one step of the REPAIRED machine preserves the FULL invariant — on EVERY hierarchy, activation cycles included
    (the children-form clause through the repaired recursion: Lemmas/LifetimeVInv.lean, `abortFlowV_good` — the
    `Good E` induction of the as-is recursion with one more invariant: every uid in `in_progress` is exempt or not
    listening; a skipped re-entered instance is exempt because its own call is in progress further up the stack) -/
theorem lifetime_inv_step_repaired (s : State) (op : IOp) (hi : LifetimeInv s) : LifetimeInv (applyOpV s op) := by
  have hr := repaired_inv_step s op ⟨hi.link, hi.cnt, hi.act⟩
  have henv : applyOpV s op = applyOp s op → FlowInv (applyOpV s op) := fun e => by
    rw [e]; exact (lifetime_inv_step s op hi).flow
  have hf : FlowInv (applyOpV s op) := by
    cases op with
    | abort n u d =>
      simp only [applyOpV]
      cases h : abortTopV n s u d with
      | error e => exact hi.flow
      | ok s' => exact abortTopV_flowInv hi.flow n u d s' h
    | finish n u d =>
      simp only [applyOpV]
      cases h : finishFlowV n s u d with
      | error e => exact hi.flow
      | ok s' => exact finishFlowV_flowInv hi.flow n u d s' h
    | endScope n u nm =>
      simp only [applyOpV]
      cases h : endScopeV n s u nm with
      | error e => exact hi.flow
      | ok s' => exact endScopeV_flowInv hi.flow n u nm s' h
    | startChild c fid p k => exact henv rfl
    | reactivate fid known act hasInst source pm => exact henv rfl
    | status u st => exact henv rfl
    | newAction u a => exact henv rfl
    | startAction a => exact henv rfl
    | coWin loser a b => exact henv rfl
    | event e => exact henv rfl
    | label u => exact henv rfl
    | noRestart u => exact henv rfl
    | frame u heads scopes => exact henv rfl
  exact ⟨⟨hf, hr.act⟩, hr.link, hr.cnt⟩

/-- **T2 for the repaired interpreter, at full strength**: the complete `LifetimeInv` (children form, parent-pointer
    form, counting clause, action clauses) holds in EVERY state the operation-sequence semantics with the repaired
    recursion can reach — no acyclicity hypothesis: with mutually activating flows every recursive operation completes
    (`abort_repaired_fuel_sufficient`) and preserves the invariant. -/
theorem lifetime_invariant_repaired (ops : List IOp) : LifetimeInv (runV ops) := by
  unfold runV
  suffices h : ∀ (l : List IOp) (s : State), LifetimeInv s → LifetimeInv (l.foldl applyOpV s) from h ops _ lifetime_inv_init
  intro l
  induction l with
  | nil => intro s hs; exact hs
  | cons op l ih => intro s hs; exact ih _ (lifetime_inv_step_repaired s op hs)

/-- every operation of the repaired machine is a sequence of `OpStep`s (the recursive ones through `partialOp`:
    they are sequences of primitive steps) -/
theorem applyOpV_opSteps (s : State) (op : IOp) : OpSteps s (applyOpV s op) := by
  have henv : applyOpV s op = applyOp s op → OpSteps s (applyOpV s op) := fun e => by
    rw [e]; exact applyOp_opSteps s op
  cases op with
  | abort n u d =>
    simp only [applyOpV]
    cases h : abortTopV n s u d with
    | error e => exact .refl _
    | ok s' => exact .single (.partialOp (abortTopV_steps n s u d s' h))
  | finish n u d =>
    simp only [applyOpV]
    cases h : finishFlowV n s u d with
    | error e => exact .refl _
    | ok s' => exact .single (.partialOp (finishFlowV_steps n s u d s' h))
  | endScope n u nm =>
    simp only [applyOpV]
    cases h : endScopeV n s u nm with
    | error e => exact .refl _
    | ok s' => exact .single (.partialOp (endScopeV_steps n s u nm s' h))
  | startChild c fid p k => exact henv rfl
  | reactivate fid known act hasInst source pm => exact henv rfl
  | status u st => exact henv rfl
  | newAction u a => exact henv rfl
  | startAction a => exact henv rfl
  | coWin loser a b => exact henv rfl
  | event e => exact henv rfl
  | label u => exact henv rfl
  | noRestart u => exact henv rfl
  | frame u heads scopes => exact henv rfl

/-- **`stop_at_most_once` for the repaired interpreter**: at most one `Stop` per action in every state the machine
    with the repaired recursion (and the repaired co-win) can reach -/
theorem stop_at_most_once_repaired (ops : List IOp) (a : Nat) : stops a (runV ops).out ≤ 1 := by
  have h : OpSteps initState (runV ops) := by
    unfold runV
    suffices h : ∀ (l : List IOp) (s : State), OpSteps s (l.foldl applyOpV s) from h ops _
    intro l
    induction l with
    | nil => intro s; exact .refl _
    | cons op l ih => intro s; exact (applyOpV_opSteps s op).trans (ih _)
  exact stop_at_most_once initState (runV ops) (fun _ => rfl) h a

/-- in every reachable state of the repaired machine every outermost `_abort_flow` / `_finish_flow` terminates with
    fuel `2·#instances + 1` (the domain hypothesis of `abort_repaired_fuel_sufficient` is part of the invariant) -/
theorem repaired_calls_terminate (ops : List IOp) (n u : Nat) (d : Bool) (hn : 2 * (runV ops).order.length < n) :
    abortTopV n (runV ops) u d ≠ .error .fuel ∧ finishFlowV n (runV ops) u d ≠ .error .fuel :=
  ⟨abort_repaired_fuel_sufficient n _ u d (lifetime_invariant_repaired ops).cnt.ord.dom hn,
   finish_repaired_fuel_sufficient n _ u d (lifetime_invariant_repaired ops).cnt.ord.dom hn⟩

/-- every state along the run (before each operation) has an acyclic `child_flow_uids` graph -/
def AcyclicRun : State → List IOp → Prop
  | _, [] => True
  | s, op :: rest => (∃ r, Ranked r s) ∧ AcyclicRun (applyOpV s op) rest

/-- **T2 for the repaired interpreter, full invariant, on runs without activation cycles**: the complete
    `LifetimeInv` (children form, parent-pointer form, counting clause, action clauses) holds in every state of a run
    of the repaired machine along which the hierarchy stays acyclic.  (With cycles: `lifetime_invariant_repaired_partial`.) -/
theorem lifetime_invariant_repaired_of_acyclic (ops : List IOp) (h : AcyclicRun initState ops) : LifetimeInv (runV ops) := by
  unfold runV
  suffices hs : ∀ (l : List IOp) (s : State), LifetimeInv s → AcyclicRun s l → LifetimeInv (l.foldl applyOpV s) from
    hs ops _ lifetime_inv_init h
  intro l
  induction l with
  | nil => intro s hs _; exact hs
  | cons op l ih => intro s hs ha; exact ih _ (lifetime_inv_step_repaired_of_acyclic s op ha.1 hs) ha.2

/-- non-vacuity of `AcyclicRun`: the main flow alone, aborted -/
example : AcyclicRun initState [.abort 3 0 false] :=
  ⟨⟨fun _ => 0, fun p pf c hp hc _ => by
      simp only [initState] at hp
      split at hp
      · cases hp; simp [freshFlow] at hc
      · cases hp⟩, trivial⟩

/-- non-vacuity: a run of the repaired machine through the mutual-activation cycle (main activates a, a activates b,
    b re-activates a; main deactivates a twice): the last `abort` completes and stops both instances -/
example : let s := runV [.status 0 .starting, .status 0 .started, .startChild 1 1 0 1, .status 1 .starting, .status 1 .started,
      .startChild 2 2 1 1, .status 2 .starting, .status 2 .started, .reactivate 1 true true true 2 [1],
      .abort 9 1 true, .abort 9 1 true]
    (s.flows 1).map (·.status) = some .stopped ∧ (s.flows 2).map (·.status) = some .stopped := by decide

/-- `c` is reachable from `u` through `child_flow_uids` (any depth) along non-activated instances -/
inductive Desc (s : State) (u : Nat) : Nat → Prop
  | child {c : Nat} {pf cf : Flow} : s.flows u = some pf → c ∈ pf.children → s.flows c = some cf → cf.activated = 0 → Desc s u c
  | step {m c : Nat} {mf cf : Flow} : Desc s u m → s.flows m = some mf → c ∈ mf.children → s.flows c = some cf →
      cf.activated = 0 → Desc s u c

/-- in a state satisfying the lifetime clause, below an ended instance nothing non-activated is listening -/
theorem descendants_of_ended (s : State) (hd : DC NoEx s) (hns : ∀ v g, s.flows v = some g → g.status ≠ .stopping)
    (u : Nat) (f : Flow) (hf : s.flows u = some f) (hu : f.status.listening = false) (c : Nat) (h : Desc s u c) :
    ∃ cf, s.flows c = some cf ∧ cf.status.listening = false := by
  induction h with
  | @child c pf cf hp hc hcf ha =>
    rw [hf] at hp; cases hp
    refine ⟨cf, hcf, ?_⟩
    cases hl : cf.status.listening with
    | false => rfl
    | true =>
      rcases hd u f c cf hf hc hcf (fun h => h) ha hl with h | h
      · rw [hu] at h; cases h
      · exact absurd h (hns u f hf)
  | @step m c mf cf _ hm hc hcf ha ih =>
    obtain ⟨mf', hm', hml⟩ := ih
    rw [hm] at hm'; cases hm'
    refine ⟨cf, hcf, ?_⟩
    cases hl : cf.status.listening with
    | false => rfl
    | true =>
      rcases hd m mf c cf hm hc hcf (fun h => h) ha hl with h | h
      · rw [hml] at h; cases h
      · exact absurd h (hns m mf hm)

/-- **the transitive statement as ONE theorem.**  In a state satisfying the hierarchy invariant (every reachable
    state does: `lifetime_invariant`) in which no instance other than `u` is STOPPING: after `_abort_flow(u)` returns —
    unless it was the deactivation of a reference instance that other activators still hold — EVERY instance reachable
    from `u` through child uids, at any depth, along non-activated instances is not listening; the invariant holds again. -/
theorem abort_descendants_stopped (n : Nat) (s : State) (u : Nat) (d : Bool) (s' : State) (f : Flow)
    (hi : FlowInv s) (hf : s.flows u = some f)
    (hns : ∀ v g, s.flows v = some g → g.status = .stopping → v = u)
    (h : abortFlow n s u d = .ok s') :
    FlowInv s' ∧
    ((d = true ∧ s' = setFlow s u { f with activated := f.activated - 1 } ∧ f.activated - 1 ≠ 0) ∨
     ∀ c, Desc s' u c → ∃ cf, s'.flows c = some cf ∧ cf.status.listening = false) := by
  have hi' := abort_flowInv hi n u d s' h
  refine ⟨hi', ?_⟩
  rcases Lifetime.abort_ends_instance n s u d s' f hf h with ⟨a, _, b, c⟩ | ⟨f', hf', hl', hns0⟩
  · exact Or.inl ⟨a, b, c⟩
  · right
    -- no instance is STOPPING afterwards
    have hns' : ∀ v g, s'.flows v = some g → g.status ≠ .stopping := by
      intro v g hv hst
      obtain ⟨s6, gd, tail⟩ := abortFlow_good_any n NoEx s u d s' hi.sfc h
      have hv6 : ∃ g6, s6.flows v = some g6 ∧ g6.status = .stopping := by
        rcases tail with e | hr
        · subst e; exact ⟨g, hv, hst⟩
        · obtain ⟨_, hc⟩ := restart_core _ _ _ _ hr
          obtain ⟨g6, h6, e6⟩ := core_back hc v g hv
          simp only [core, Prod.mk.injEq] at e6
          exact ⟨g6, h6, by rw [e6.2.2.2.1]; exact hst⟩
      obtain ⟨g6, h6, hst6⟩ := hv6
      obtain ⟨g0, h0, hu0⟩ := gd.steps.flows_back v g6 h6
      have hs0 : g0.status = .stopping := by
        rcases hu0.status with e | e | e
        · rw [← e]; exact hst6
        · rw [e] at hst6; cases hst6
        · rw [e] at hst6; cases hst6
      have hvu := hns v g0 h0 hs0
      subst hvu
      rw [hf'] at hv; cases hv
      exact hns0 hst
    intro c hc
    exact descendants_of_ended s' hi'.dc hns' u f' hf' hl' c hc

/-! ## T3 refinement `CoreVM → Lifetime` (function by function; lemmas in `Lemmas/LifetimeCoreVM*.lean`)

  `Refine.absVM ν φ : CoreVM.VM → Lifetime.State` for injective numberings `ν` (uids, scope names) and `φ` (flow ids); status and
  head count of an instance come from the index component; queue and outgoing events are NOT abstracted (`Refine.cs` forgets
  them).  `Refine.WF` : action table keyed by uid, index instances = instance table, well-behaved `Stop…` names, `activated ≥ 0`.
  Every theorem is about NORMALLY terminating CoreVM runs (`= .ok …`).  The statements about `slideStep` and
  `processInternalEvent` are about those CoreVM functions themselves (the branch is isolated by unfolding them). -/

section T3
variable (ν φ : String → Nat)

/-- `CoreVM.abortFlow` IS `Lifetime.abortFlow` on the abstraction: same fuel, all nested calls, every hierarchy -/
theorem corevm_abort_is_op (hν : Function.Injective ν) (hφ : Function.Injective φ) (n : Nat) (vm : CoreVM.VM) (f : CoreIndex.FUid)
    (sc : List CoreVM.Score) (d : Bool) (vm' : CoreVM.VM) (hw : Refine.WF vm) (h : CoreVM.abortFlow n f sc d vm = .ok () vm') :
    ∃ t, Lifetime.abortFlow n (Refine.absVM ν φ vm) (ν f) d = .ok t ∧ Refine.absVM ν φ vm' = Refine.cs t ∧ Refine.WF vm' :=
  Refine.corevm_abort_is_op ν φ hν hφ n vm f sc d vm' hw h

-- non-vacuity: injective numberings exist; a well-formed state on which the call returns normally
example : Function.Injective Refine.enc := Refine.enc_inj
example : Refine.WF Refine.vmEx := Refine.vmEx_wf
example : (match CoreVM.abortFlow 3 "a" [] false Refine.vmEx with | .ok _ _ => true | .error _ _ => false) = true := Refine.vmEx_abort_ok

/-- `CoreVM.finishFlow` IS `Lifetime.finishFlow`; `LogInvisible`: `_log_action_or_intents` only pushes log events
    (`Refine.logInvisible_of_noMeta`: true for flows without `@meta` tags) -/
theorem corevm_finish_is_op (hν : Function.Injective ν) (hφ : Function.Injective φ) (n : Nat) (vm : CoreVM.VM) (f : CoreIndex.FUid)
    (sc : List CoreVM.Score) (d : Bool) (vm' : CoreVM.VM) (hlog : Refine.LogInvisible n f sc) (hw : Refine.WF vm)
    (h : CoreVM.finishFlow n f sc d vm = .ok () vm') :
    ∃ t, Lifetime.finishFlow n (Refine.absVM ν φ vm) (ν f) d = .ok t ∧ Refine.absVM ν φ vm' = Refine.cs t ∧ Refine.WF vm' :=
  Refine.corevm_finish_is_op ν φ hν hφ n vm f sc d vm' hlog hw h

-- non-vacuity of `LogInvisible`: it follows from a condition on the flow configs
example (fuel : Nat) (f : CoreIndex.FUid) (sc : List CoreVM.Score)
    (hmeta : ∀ vm cfg vm', CoreVM.cfgOfInst f vm = .ok cfg vm' → cfg.metaTags = []) : Refine.LogInvisible fuel f sc :=
  Refine.logInvisible_of_noMeta fuel f sc hmeta

/-- the `EndScope` element of `slide` IS `Lifetime.endScope` (stated on `CoreVM.slideStep`); the scope dict has unique keys (a Python
    dict); `NameRO`: evaluating the event name of the next element leaves index, instance table and action table alone -/
theorem corevm_endscope_is_op (hν : Function.Injective ν) (hφ : Function.Injective φ) (fuel : Nat) (f : CoreIndex.FUid) (h : CoreIndex.HUid)
    (vm vm' : CoreVM.VM) (cfg : CoreVM.FlowCfg) (hd : CoreIndex.Head) (name : String) (r : Bool × List CoreIndex.Key)
    (hcfg : CoreVM.cfgOfInst f vm = .ok cfg vm) (hhd : CoreVM.getHead? (f, h) vm = .ok (some hd) vm)
    (hpos : ¬ (hd.pos ≥ cfg.elements.size ∨ hd.status = .inactive))
    (hel : cfg.elements[hd.pos]! = .endScope name) (hw : Refine.WF vm)
    (hsn : ∀ x, OMap.lookup f vm.r.fx = some x → (x.scopes.map (·.1)).Nodup)
    (hro : Refine.NameRO f (hd.pos + 1))
    (hrun : CoreVM.slideStep fuel f h vm = .ok r vm') :
    r = (false, []) ∧ ∃ t, Lifetime.endScope fuel (Refine.absVM ν φ vm) (ν f) (ν name) = .ok t ∧
      Refine.absVM ν φ vm' = Refine.cs t ∧ Refine.WF vm' :=
  Refine.corevm_slideStep_endScope_is_op ν φ hν hφ fuel f h vm vm' cfg hd name r hcfg hhd hpos hel hw hsn hro hrun

-- non-vacuity: a well-formed state whose head stands on an `EndScope` element, unique scope names, `slideStep` returns normally;
-- `NameRO` follows from a condition on the flow configs when the next element is not a `match`
example : Refine.WF Refine.vmEx5 := Refine.vmEx5_wf
example : CoreVM.cfgOfInst "a" Refine.vmEx5 = .ok Refine.cfgEx5 Refine.vmEx5 := Refine.vmEx5_cfg
example : ∀ x, OMap.lookup "a" Refine.vmEx5.r.fx = some x → (x.scopes.map (·.1)).Nodup := Refine.vmEx5_nodup
example : (match CoreVM.slideStep 3 "a" "h" Refine.vmEx5 with | .ok r _ => r == (false, []) | .error _ _ => false) = true :=
  Refine.vmEx5_slide_ok
example (f : CoreIndex.FUid) (p : Nat)
    (hnm : ∀ vm cfg vm', CoreVM.cfgOfInst f vm = .ok cfg vm' → ∀ spec b, CoreVM.elemAt cfg p ≠ some (.matchOp spec b)) : Refine.NameRO f p :=
  Refine.nameRO_of_not_match f p hnm

/-- processing `StopFlow(flow_instance_uid=u)` IS the inactive test followed by `Lifetime.abortFlow … (activated > 0)`
    (stated on `CoreVM.processInternalEvent`) -/
theorem corevm_stopflow_event_is_op (hν : Function.Injective ν) (hφ : Function.Injective φ) (fuel : Nat) (event : CoreVM.Event)
    (vm vm' : CoreVM.VM) (uid : String) (r : CoreVM.Event × List String)
    (hname : event.ev.name = "StopFlow") (huid : CoreVM.lookupArg "flow_instance_uid" event.ev.args = some (.str uid)) (hw : Refine.WF vm)
    (hrun : CoreVM.processInternalEvent fuel event vm = .ok r vm') :
    r.1 = event ∧ ∃ t, Refine.stopEventOp fuel (Refine.absVM ν φ vm) (ν uid) false = .ok t ∧
      Refine.absVM ν φ vm' = Refine.cs t ∧ Refine.WF vm' :=
  Refine.corevm_stopflow_event_is_op ν φ hν hφ fuel event vm vm' uid r hname huid hw hrun

/-- processing `FinishFlow(flow_instance_uid=u)` IS the inactive test followed by `Lifetime.finishFlow … false` -/
theorem corevm_finishflow_event_is_op (hν : Function.Injective ν) (hφ : Function.Injective φ) (fuel : Nat) (event : CoreVM.Event)
    (vm vm' : CoreVM.VM) (uid : String) (r : CoreVM.Event × List String)
    (hname : event.ev.name = "FinishFlow") (huid : CoreVM.lookupArg "flow_instance_uid" event.ev.args = some (.str uid)) (hw : Refine.WF vm)
    (hlog : Refine.LogInvisible fuel uid event.scores)
    (hrun : CoreVM.processInternalEvent fuel event vm = .ok r vm') :
    r.1 = event ∧ ∃ t, Refine.stopEventOp fuel (Refine.absVM ν φ vm) (ν uid) true = .ok t ∧
      Refine.absVM ν φ vm' = Refine.cs t ∧ Refine.WF vm' :=
  Refine.corevm_finishflow_event_is_op ν φ hν hφ fuel event vm vm' uid r hname huid hw hlog hrun

/-- processing a `StartFlow` of a known flow that does NOT create an instance (dropped because the sender ended / was deactivated,
    or re-activation of an activated reference instance) IS `Lifetime.processStartFlow` with a result other than `create`;
    `RefAgree`: the reference-instance lookup (with its parameter comparison) agrees with `getRefActivated` under the oracle table
    `pm` — NOT refined -/
theorem corevm_startflow_nocreate_is_op (hν : Function.Injective ν) (hφ : Function.Injective φ) (fuel : Nat) (event : CoreVM.Event)
    (vm vm' : CoreVM.VM) (flowId src : String) (r : CoreVM.Event × List String) (pm : Nat → Bool)
    (hname : event.ev.name = "StartFlow")
    (hfid : CoreVM.lookupArg "flow_id" event.ev.args = some (.str flowId))
    (hsrc : CoreVM.lookupArg "source_flow_instance_uid" event.ev.args = some (.str src))
    (hknown : ((vm.r.prog.find flowId).isSome && decide (flowId ≠ "main")) = true)
    (hw : Refine.WF vm) (href : Refine.RefAgree ν φ vm flowId event.ev.args pm)
    (hrun : CoreVM.processInternalEvent fuel event vm = .ok r vm') (hr : r.2 ≠ []) :
    ∃ t res, processStartFlow (Refine.absVM ν φ vm) (φ flowId) true (Refine.actArg event.ev.args)
        (OMap.lookup flowId vm.r.idStates).isSome (ν src) pm = .ok (t, res) ∧ (∀ c, res ≠ .create c) ∧
      Refine.absVM ν φ vm' = Refine.cs t ∧ Refine.WF vm' :=
  Refine.corevm_startflow_nocreate_is_op ν φ hν hφ fuel event vm vm' flowId src r pm hname hfid hsrc hknown hw href hrun hr

-- non-vacuity of `RefAgree`: it holds (empty oracle table) when no instance of the flow is registered
example (vm : CoreVM.VM) (flowId : String) (args : List (String × Val))
    (hid : (OMap.lookup flowId vm.r.idStates).getD [] = []) : Refine.RefAgree ν φ vm flowId args (fun _ => false) :=
  Refine.refAgree_of_no_inst ν φ vm flowId args hid

/-- `add_new_flow_instance` (run when a `StartFlow` event creates an instance) IS `createInst` on the abstraction: exactly one fresh
    WAITING record (no parent, no children, one head, `activated = 0`) at a uid that was not in use, appended to the order.
    Hypotheses: no shared context, the parameter evaluation of `create_flow_instance` is a frame (`ArgsFrame`), not the main flow.
    The link to the parent (`_start_flow`) happens later: `corevm_startflow_link_is_op` (the Lifetime machine has both as ONE operation). -/
theorem corevm_create_is_op (hν : Function.Injective ν) (uid : CoreIndex.FUid) (cfg : CoreVM.FlowCfg) (hp : String)
    (args : List (String × Val)) (vm vm' : CoreVM.VM) (hw : Refine.WF vm) (hctx : CoreVM.lookupArg "context" args = none)
    (hargs : Refine.ArgsFrame cfg args) (hmain : cfg.id ≠ "main") (hrun : CoreVM.addNewFlowInstance uid cfg hp args vm = .ok () vm') :
    (Refine.absVM ν φ vm).flows (ν uid) = none ∧
      Refine.absVM ν φ vm' = Refine.createInst (Refine.absVM ν φ vm) (ν uid) (φ cfg.id) ∧ Refine.WF vm' :=
  Refine.corevm_addNewFlowInstance_is_create ν φ hν uid cfg hp args vm vm' hw hctx hargs hmain hrun

-- non-vacuity of `ArgsFrame`: flows without parameters and return members
example (cfg : CoreVM.FlowCfg) (evArgs : List (String × Val)) (hp : cfg.params = []) (hr : cfg.returnMembers = []) :
    Refine.ArgsFrame cfg evArgs := Refine.argsFrame_of_empty cfg evArgs hp hr

/-- `_start_flow` (run by `_handle_event_matching` when the head of a created instance matches its `StartFlow` event) IS `linkInst`
    on the abstraction: `parent_uid := parent`, `parent.child_flow_uids.append(f)`, `activated := n`.  For a `StartFlow` event as
    `flowStartEvent` builds it (`activated` an int ≥ 0, `source_head_uid` a string or None) and a flow without parameters. -/
theorem corevm_startflow_link_is_op (hν : Function.Injective ν) (f : CoreIndex.FUid) (args : List (String × Val))
    (vm vm' : CoreVM.VM) (n : Int) (parent : String) (osh : Option String) (hm : vm.r.mainUid ≠ some f)
    (hact : CoreVM.lookupArg "activated" args = some (.int n)) (hn0 : 0 ≤ n)
    (hsh : CoreVM.lookupArg "source_head_uid" args = some (CoreVM.optStrVal osh))
    (hsrc : CoreVM.lookupArg "source_flow_instance_uid" args = some (.str parent))
    (hw : Refine.WF vm) (hfp : f ≠ parent) (hnoargs : ∀ x, OMap.lookup f vm.r.fx = some x → x.arguments = [])
    (hrun : CoreVM.startFlow f args vm = .ok () vm') :
    (∃ x px, OMap.lookup f vm.r.fx = some x ∧ OMap.lookup parent vm.r.fx = some px) ∧
      Refine.absVM ν φ vm' = Refine.linkInst (Refine.absVM ν φ vm) (ν f) (ν parent) n.toNat ∧ Refine.WF vm' :=
  Refine.corevm_startFlow_is_link ν φ hν f args vm vm' n parent osh hm hact hn0 hsh hsrc hw hfp hnoargs hrun

/-- creation followed by the link IS the operation `startChild` of the Lifetime machine (when its guard holds): the two abstract
    steps that CoreVM performs separately compose to the one operation the T2 theorems are about -/
theorem create_then_link_is_startChild (s : State) (c fid p k : Nat) (pf : Flow) (hc : s.flows c = none) (hp : s.flows p = some pf)
    (hg : (unlisted s c && c != p && (pf.status.listening || (decide (k > 0) && pf.flowId == fid && decide (pf.activated > 0)))) = true) :
    Refine.linkInst (Refine.createInst s c fid) c p k = applyOp s (.startChild c fid p k) :=
  Refine.link_create_eq_startChild s c fid p k pf hc hp hg

-- non-vacuity: the main flow starts a child in the initial state
example : (unlisted initState 5 && (5 : Nat) != 0 && ((freshFlow 0).status.listening || false)) = true := by decide

/-- every refined CoreVM step (`Refine.RefinedStep`: outermost `abortFlow` / `finishFlow`; the `EndScope`, `BeginScope`,
    `start_new_flow_instance`-label, other-label, `send`, `goto`, `assign` and effect-free elements of `slideStep`; `StopFlow` / `FinishFlow` processing in all forms
    (`flow_instance_uid=…`, `flow_id=…` with the loop over `flow_id_states`); non-creating `StartFlow` processing; `setFlowStatus`
    along the status order; `updateActionStatusByEvent` for an admissible action event; the `_new_action_instance` element of
    `slideStep`; `addNewFlowInstance`; `startFlow`) IS a sequence of operations of the Lifetime machine (`abort`, `finish`,
    `endScope`, `label`, `reactivate`, `frame`, `status`, `event`, `newAction`; at most one except for the `flow_id=…` forms and
    `newAction ; frame`) on the abstraction, or the creation of an isolated instance (`createInst`), or the
    link of an isolated instance to its parent (`linkInst`; creation + link = `IOp.startChild`) -/
theorem corevm_refined_step_is_op (hν : Function.Injective ν) (hφ : Function.Injective φ) (vm vm' : CoreVM.VM) (hw : Refine.WF vm)
    (h : Refine.RefinedStep ν φ vm vm') :
    Refine.WF vm' ∧
      ((∃ ops : List IOp, (∀ op ∈ ops, Refine.Covered op) ∧
          Refine.absVM ν φ vm' = Refine.cs (ops.foldl applyOp (Refine.absVM ν φ vm))) ∨
       (∃ c fid, (Refine.absVM ν φ vm).flows c = none ∧ unlisted (Refine.absVM ν φ vm) c = true ∧
          Refine.absVM ν φ vm' = Refine.createInst (Refine.absVM ν φ vm) c fid) ∨
       (∃ c p k cf pf, (Refine.absVM ν φ vm).flows c = some cf ∧ (Refine.absVM ν φ vm).flows p = some pf ∧ cf.children = [] ∧
          cf.isMain = false ∧ unlisted (Refine.absVM ν φ vm) c = true ∧ c ≠ p ∧ (pf.status.listening = true ∨ 0 < k) ∧
          Refine.absVM ν φ vm' = Refine.linkInst (Refine.absVM ν φ vm) c p k)) :=
  Refine.refinedStep_is_op ν φ hν hφ vm vm' hw h

/-- PARTIAL (`corevm_lifetime_invariant` would quantify over ALL steps of `CoreVM.runToCompletion`; the `Start` / conflict-resolution
    sites, head movement in general and the decomposition of a whole run into steps are not refined, and the
    action clauses do not transfer because `absVM` forgets the outgoing events): the hierarchy part of the lifetime
    invariant — `FlowInv` (children form, restarted instances under their reference instance, main flow a root) and `LinkInv` (every
    listening instance is listed by its parent) — holds for the abstraction along every sequence of refined CoreVM steps. -/
theorem corevm_hierarchy_invariant_partial (hν : Function.Injective ν) (hφ : Function.Injective φ) (vm vm' : CoreVM.VM)
    (hw : Refine.WF vm) (hf : FlowInv (Refine.absVM ν φ vm)) (hl : LinkInv (Refine.absVM ν φ vm))
    (h : Refine.RefinedSteps ν φ vm vm') :
    Refine.WF vm' ∧ FlowInv (Refine.absVM ν φ vm') ∧ LinkInv (Refine.absVM ν φ vm') :=
  Refine.corevm_hierarchy_invariant_partial ν φ hν hφ vm vm' hw hf hl h

/-- consequence, the parent-pointer form of clause (iv) on CoreVM states: after any sequence of refined steps, an instance that is
    still listening and whose parent exists is in the parent's `child_flow_uids`, and its parent exists -/
theorem corevm_parent_pointer_form_partial (hν : Function.Injective ν) (hφ : Function.Injective φ) (vm vm' : CoreVM.VM)
    (hw : Refine.WF vm) (hf : FlowInv (Refine.absVM ν φ vm)) (hl : LinkInv (Refine.absVM ν φ vm))
    (h : Refine.RefinedSteps ν φ vm vm') (c : Nat) (cf : Flow) (p : Nat)
    (hc : (Refine.absVM ν φ vm').flows c = some cf) (hlis : cf.status.listening = true) (hp : cf.parent = some p) :
    ∃ pf, (Refine.absVM ν φ vm').flows p = some pf ∧ c ∈ pf.children := by
  obtain ⟨_, _, l'⟩ := Refine.corevm_hierarchy_invariant_partial ν φ hν hφ vm vm' hw hf hl h
  obtain ⟨pf, hpf⟩ := l'.parentLive c cf p hc hp
  exact ⟨pf, hpf, l'.linked c cf p pf hc hlis hp hpf⟩

-- non-vacuity: `vmEx` satisfies all hypotheses and a refined step leaves it
example : FlowInv (Refine.absVM ν φ Refine.vmEx) := Refine.vmEx_flowInv ν φ
example : LinkInv (Refine.absVM ν φ Refine.vmEx) := Refine.vmEx_linkInv ν φ
example : ∃ vm', Refine.RefinedSteps ν φ Refine.vmEx vm' ∧ Refine.RefinedStep ν φ Refine.vmEx vm' := Refine.vmEx_refined ν φ

end T3

/-! ## T4 (wave 4): the activation reference count never exceeds the number of LIVE activators

`liveRefs s [] r` (Models/LifetimeAdm.lean) counts the entries for `r` in the `child_flow_uids` of the instances that are
alive (neither STOPPED nor FINISHED).  Every `activate r` statement whose StartFlow event is processed WHILE ITS SENDER
IS ALIVE leaves exactly one such entry (first activation: `_start_flow`; later ones: the "already activated" branch,
`activated += 1` and `child_flow_uids.append` together); when the sender ends, its child loop gives every entry back
(`_abort_flow(child, deactivate_flow=True)`: `activated -= 1`) before the sender is marked STOPPED / FINISHED; nobody
ever walks the child list of an ended instance again.  Seed C06-e (re-activation tested before the ended-sender guard)
breaks exactly this: `dead_sender_reactivation_seeded_counterexample`. -/
section T4

/-- every admissible operation preserves the bound (the recursion of `_abort_flow` / `_finish_flow` / `EndScope` included:
    `abortFlow_actB`, one induction on the fuel with the instance being ended exempt and its unprocessed child-list
    entries as credit) -/
theorem activation_count_step (s : State) (op : IOp) (hi : LifetimeInv s) (hadm : opAdm s op = true) (hb : ActCount s) :
    ActCount (applyOp s op) :=
  ActCount.step s op hi.cnt.ord hi.link hadm hb

theorem activation_count_run : ∀ (l : List IOp) (s : State), LifetimeInv s → ActCount s → admFrom s l = true →
    ActCount (l.foldl applyOp s)
  | [], _, _, hb, _ => hb
  | op :: l, s, hi, hb, ha => by
    simp only [admFrom, Bool.and_eq_true] at ha
    exact activation_count_run l (applyOp s op) (lifetime_inv_step s op hi) (activation_count_step s op hi ha.1 hb) ha.2

/-- **PARTIAL** (full statement: `f.activated = liveRefs (run ops) [] r` — "the counter EQUALS the number of live
    activators".  The equality is false of the code by design, not by defect: an explicit `deactivate` /
    `StopFlow(deactivate=True)` decrements the counter of a reference instance while the flow that activated it lives
    on and keeps its child-list entry — `activation_count_strict_after_deactivate` —, and the main flow, when it ends,
    is reset to WAITING and keeps its list.  What the property needs — "an activated flow … stops when its last
    activator ends" — is the upper bound, and that is what seed C06-e breaks.)

    In EVERY state the operation machine reaches through admissible operations (`admFrom`: a first instance is created
    with `activated ≤ 1`; checked by the driver on every operation of every replayed real trace), the activation counter
    of every reference instance (an instance whose parent is an instance of another flow) is at most the number of
    child-list entries that LIVE instances hold for it.  In particular: when the last live activator has ended the
    counter is 0 (`activation_count_zero_without_live_activator`). -/
theorem activation_count_is_live_activators_partial (ops : List IOp) (hadm : admFrom initState ops = true) (r : Nat) (f : Flow)
    (hf : (run ops).flows r = some f) (hr : IsRef (run ops) f) : f.activated ≤ liveRefs (run ops) [] r := by
  have h := activation_count_run ops initState lifetime_inv_init ActCount.init hadm
  exact Nat.le_trans (h r f hf hr) (Nat.le_of_eq (Nat.add_zero _))

/-- no live instance lists `r` any more ⇒ the counter of `r` is 0: nothing keeps the activated flow running -/
theorem activation_count_zero_without_live_activator (ops : List IOp) (hadm : admFrom initState ops = true) (r : Nat) (f : Flow)
    (hf : (run ops).flows r = some f) (hr : IsRef (run ops) f) (h0 : liveRefs (run ops) [] r = 0) : f.activated = 0 := by
  have := activation_count_is_live_activators_partial ops hadm r f hf hr
  omega

/-- the executable form the driver evaluates on every replayed real state -/
theorem activation_count_checked (ops : List IOp) (hadm : admFrom initState ops = true) : actCountB (run ops) = true :=
  actCountB_of_actCount _ (activation_count_run ops initState lifetime_inv_init ActCount.init hadm)

/-- the step the seed breaks, on `processStartFlow` itself: a re-activation (`activated += 1`) happens only for a
    sender that is alive — and then the sender lists the instance once more -/
theorem reactivation_requires_live_sender (s : State) (fid : Nat) (known act hasInst : Bool) (source : Nat) (pm : Nat → Bool)
    (s' : State) (r : Nat) (h : processStartFlow s fid known act hasInst source pm = .ok (s', .reused r)) :
    ∃ sf, s.flows source = some sf ∧ sf.status.dead = false := by
  rcases processStartFlow_effect s fid known act hasInst source pm s' (.reused r) h with e | ⟨q, rf, sf, _, hsf, _, _, _, _⟩
  · -- unchanged state: impossible for a re-activation only if the sender record exists; read it off the definition
    cases hs : s.flows source with
    | none =>
      exfalso
      unfold processStartFlow at h
      split at h
      · cases h
      · dsimp only at h; rw [hs] at h; cases h
    | some sf =>
      refine ⟨sf, rfl, ?_⟩
      cases hd : sf.status.dead with
      | false => rfl
      | true => exact absurd rfl ((processStartFlow_dead_sender s fid known act hasInst source pm s' _ sf hs hd h).2 r)
  · refine ⟨sf, hsf, ?_⟩
    cases hd : sf.status.dead with
    | false => rfl
    | true => exact absurd rfl ((processStartFlow_dead_sender s fid known act hasInst source pm s' _ sf hsf hd h).2 r)

/-- scenario of seed C06-e in the operation machine: main (0) starts `sess` (1); `sess` activates `x` (2) and starts the
    helper `S` (3); `S` executes `activate x` while alive (re-activation: counter 2, two live entries) -/
def actOps : List IOp :=
  [.status 0 .starting, .status 0 .started, .startChild 1 1 0 0, .status 1 .starting, .status 1 .started,
   .startChild 2 2 1 1, .status 2 .starting, .status 2 .started,
   .startChild 3 3 1 0, .status 3 .starting, .status 3 .started,
   .reactivate 2 true true true 3 [2]]

-- non-vacuity of `activation_count_is_live_activators_partial`: an admissible run, a reference instance, bound attained
example : admFrom initState actOps = true ∧ isRefB (run actOps) ((run actOps).flows 2).get! = true ∧
    ((run actOps).flows 2).map (·.activated) = some 2 ∧ liveRefs (run actOps) [] 2 = 2 := by decide

-- … and when `S` is aborted its entry is given back: counter 1, one live entry
example : ((run (actOps ++ [.abort 5 3 false])).flows 2).map (·.activated) = some 1 ∧
    liveRefs (run (actOps ++ [.abort 5 3 false])) [] 2 = 1 := by decide

/-- the state of the seed's history in which `S` has been stopped BEFORE its queued `activate x` is processed -/
def deadSenderOps : List IOp :=
  [.status 0 .starting, .status 0 .started, .startChild 1 1 0 0, .status 1 .starting, .status 1 .started,
   .startChild 2 2 1 1, .status 2 .starting, .status 2 .started,
   .startChild 3 3 1 0, .status 3 .starting, .status 3 .started, .abort 5 3 false]

/-- **counterexample for the seeded StartFlow branch** (seed C06-e: re-activation tested before the ended-sender guard):
    from a reachable state satisfying the invariant, the queued StartFlow of the stopped sender 3 is dropped by the code as
    it is (`processStartFlow`: state unchanged), while the seeded branch counts it — counter 2 with ONE live entry: when
    the genuine activator (1) ends, the counter only drops to 1 and `x` keeps running with no live activator. -/
theorem dead_sender_reactivation_seeded_counterexample :
    admFrom initState deadSenderOps = true ∧ actCountB (run deadSenderOps) = true ∧
    (processStartFlow (run deadSenderOps) 2 true true true 3 (fun u => u == 2)).toOption.map (·.2) = some .ignored ∧
    (processStartFlowSeeded (run deadSenderOps) 2 true true true 3 (fun u => u == 2)).toOption.map (·.2) = some (.reused 2) ∧
    ((processStartFlowSeeded (run deadSenderOps) 2 true true true 3 (fun u => u == 2)).toOption.map fun x =>
      (actCountB x.1, (x.1.flows 2).map (·.activated), liveRefs x.1 [] 2)) = some (false, some 2, 1) := by
  decide

/-- why the statement is an inequality: an explicit deactivation (`abort … deactivate_flow=True` issued from outside, the
    `deactivate x` statement) lowers the counter while both activators live on (counter 1, two live entries) -/
theorem activation_count_strict_after_deactivate :
    ((run (actOps ++ [.abort 5 2 true])).flows 2).map (·.activated) = some 1 ∧
    liveRefs (run (actOps ++ [.abort 5 2 true])) [] 2 = 2 := by decide

end T4

/-! ### T4 on the shared interpreter model (CoreVM) -/
section T4c
variable (ν φ : String → Nat)

/-- PARTIAL (the full statement would quantify over all steps of `CoreVM.runToCompletion`; instance creation / `_start_flow`
    — `createInst` / `linkInst`, which would need the admissibility hypothesis `activated ≤ 1` on the event — and the steps that are
    not refined at all are not in the relation): the bound "activation counter of a reference instance ≤ number of child-list
    entries held by LIVE instances" holds for the abstraction along every sequence of refined CoreVM OPERATION steps — outermost
    `CoreVM.abortFlow` / `finishFlow`, the `EndScope` / label / effect-free elements of `slideStep`, the `StopFlow` / `FinishFlow`
    events and the processing of a `StartFlow` event that does not create an instance (`CoreVM.processInternalEvent`: the dropped
    event of an ended sender and the re-activation of an activated reference instance, the branch seed C06-e reorders) —,
    together with `WF`, `OrdInv` and `LinkInv`, which it needs. -/
theorem corevm_activation_count_partial (hν : Function.Injective ν) (hφ : Function.Injective φ) (vm vm' : CoreVM.VM)
    (hw : Refine.WF vm) (ho : OrdInv (Refine.absVM ν φ vm)) (hl : LinkInv (Refine.absVM ν φ vm)) (hb : ActCount (Refine.absVM ν φ vm))
    (h : Refine.RefinedOpSteps ν φ vm vm') :
    Refine.WF vm' ∧ OrdInv (Refine.absVM ν φ vm') ∧ LinkInv (Refine.absVM ν φ vm') ∧ ActCount (Refine.absVM ν φ vm') :=
  Refine.corevm_activation_count_partial ν φ hν hφ vm vm' hw ho hl hb h

-- non-vacuity: `vmEx` satisfies all hypotheses and a refined operation step leaves it
example : OrdInv (Refine.absVM ν φ Refine.vmEx) := Refine.vmEx_ordInv ν φ
example : LinkInv (Refine.absVM ν φ Refine.vmEx) := Refine.vmEx_linkInv ν φ
example : ActCount (Refine.absVM ν φ Refine.vmEx) := Refine.vmEx_actCount ν φ
example : ∃ vm', Refine.RefinedOpSteps ν φ Refine.vmEx vm' ∧ Refine.RefinedOpStep ν φ Refine.vmEx vm' := Refine.vmEx_opRefined ν φ

end T4c

end NemoVerif.C06
