/-
  C06 — flow and action lifetimes are bounded by the parent flow.  Property theorems only.
-/
import NemoVerif.Lemmas.Lifetime
namespace NemoVerif.C06
open NemoVerif.Lifetime

/-- immediate-finish guard: an activated instance that reaches its end while still STARTING is parked -/
theorem immediate_finish_guard (k : Nat) (h : k > 0) : endDecision .starting k = (.started, true, .park) := by
  simp [endDecision, h]

end NemoVerif.C06
