/-
  C13 — Parsing ignores meaningless layout and reports every bad file as a parsing error.   (PARTIAL by design)

  Property theorems only (helper lemmas: Lemmas/Layout.lean, Lemmas/NumberedLines.lean, Lemmas/NumberedScale.lean, Lemmas/PreExpand.lean).

  What is proved here, for ALL piece lists / texts / line lists / configurations (no bound):
    * Colang 2.x, pieces: the token stream that the lexer's layout rules + `lark.indenter.Indenter` hand to the LALR
      parser is unchanged by inserting blank lines, by trailing ignored blanks, by end-of-line comments, and
      (after erasing the text of `_`-terminals, which Lark drops from the tree) by scaling all indentation by k ≥ 1;
    * Colang 2.x, source text: the same four statements for CHARACTER text through the scanner `TextLayout.seg` (layout
      terminals concrete, body terminals an oracle), and for the RAW FILE CONTENT through the `...` pre-parsing expansion
      (`text_layout_*`, `source_*`), under explicit hypotheses about the oracle;
    * Colang 1.0: `get_numbered_lines` yields the same records (text, indentation, comment) under blank lines and trailing
      whitespace, and proportionally scaled indentation under scaling when multi-line-string openers are tight
      (`numbered_lines_scale_partial`; the unrestricted statement is false of the code, counterexample below);
    * the error wrapper of `_parse_colang_files_recursively` with the repaired formatter always raises
      `ColangParsingError` naming the file — instantiated at every raise site found by the static scan
      (`errwrap_total_raise_sites`); with the pinned formatter it does so exactly on `PositionOk`.

  What is NOT proved (handled by search/correspondence only, see design_notes/C13.md):
    * equal token streams ⇒ equal flows: rests on Lark's LALR engine + `ColangTransformer` being a function of
      the token stream (types, and texts of non-`_` terminals);
    * the tokenizer oracle itself (regexes of the body terminals, contextual lexer); edits *inside* a token (`_AND`/`_OR`
      absorb the preceding line break; multi-line strings) are outside these statements;
    * the 1 900-line Colang 1.0 parser only *comparing* indentation levels of `get_numbered_lines`' output;
    * "never a hang" inside the parsers (regex back-tracking of the lexer terminals, the Colang 1.0 line loop).  The comment stripper
      the transformer runs over every flow's source text IS proved linear (`remove_comments_total`, model `CommentStrip`).
      The LOADER's own loops are proved:
      `load_imports_terminates`, `config_load_terminates` (the import fix-point of `_load_imported_paths` and the parse loop of
      `_parse_colang_files_recursively` end for every finite import graph - cycles, self-imports, repeated imports included),
      with the exact role of the de-duplicating join (`load_imports_returns_only_if_nodup`, `seeded_join_never_returns`).

  Full statement kept visible (not provable from these models):
    theorem parse_layout_invariant : ∀ text edit, LayoutPreserving edit → parse (edit text) = parse text
    theorem load_total : ∀ text, from_path text = ok ∨ from_path text = raises ColangParsingError (naming the file)
-/
import NemoVerif.Lemmas.Layout
import NemoVerif.Lemmas.NumberedLines
import NemoVerif.Lemmas.NumberedScale
import NemoVerif.Lemmas.PreExpand
import NemoVerif.Lemmas.TextLayout
import NemoVerif.Models.ErrWrap
import NemoVerif.Lemmas.ImportLoop
import NemoVerif.Lemmas.CommentStrip

namespace NemoVerif.C13
open NemoVerif NemoVerif.Layout NemoVerif.ErrWrap

/-! ## Colang 2.x layout -/

/-- Adding blank lines (empty or blanks-only, "\n" or "\r\n") after any line — anywhere a line break already
    is, inside brackets or not — leaves the token stream (types, texts, indentation strings) unchanged. -/
theorem layout_blank (c : Cfg) (pre post : List Piece) (cr cr' : Bool) (blank : List Ws) :
    layout c (pre ++ .nl cr :: (wsPieces blank ++ .nl cr' :: post)) = layout c (pre ++ .nl cr' :: post) := by
  unfold layout
  apply go_congr
  intro rs st
  simp only [go, go_run_ws]

/-- A blank line before the first token of a file whose first line is not indented only adds one `_NEWLINE`
    token in front (which the grammar's `stmt: _NEWLINE` accepts — that last step rests on the grammar). -/
theorem layout_blank_at_start (c : Cfg) (blank : List Ws) (hb : ∀ w ∈ blank, c.ign w = true) (cr : Bool)
    (ty v : String) (post : List Piece) :
    layout c (wsPieces blank ++ .nl cr :: .tok ty v :: post) =
      (layout c (.tok ty v :: post)).map (fun ts => .nl [] :: ts) := by
  unfold layout
  rw [go_ign_ws c blank hb]
  simp only [go, flush, handleNL, St.init, width, top, popWhile]
  simp only [Nat.lt_irrefl, gt_iff_lt, if_false, bne_self_eq_false, Bool.false_eq_true, List.replicate_zero]
  simp only [Except.bind, Except.map]
  cases bump c { paren := 0, stack := [] } ty with
  | error e => rfl
  | ok st2 =>
    simp only []
    cases go c none st2 post <;> simp

/-- CRLF line ends: turning any set of `"\n"` into `"\r\n"` (or back) - the whole file, or any part of it - leaves the token stream
    unchanged (line-break pieces outside tokens; the `\r` is part of `_NEWLINE: (/\r?\n[\t ]*/)+`). -/
theorem layout_crlf (c : Cfg) (f : Bool → Bool) (ps : List Piece) : layout c (ps.map (setCR f)) = layout c ps :=
  go_setCR c f ps none St.init

/-- Trailing whitespace: blanks the lexer ignores (`%ignore`), appended to any line, change nothing. -/
theorem layout_trailing (c : Cfg) (pre post : List Piece) (cr : Bool) (trail : List Ws)
    (ht : ∀ w ∈ trail, c.ign w = true) :
    layout c (pre ++ (wsPieces trail ++ .nl cr :: post)) = layout c (pre ++ .nl cr :: post) := by
  unfold layout
  apply go_congr
  intro rs st
  cases rs with
  | none => rw [go_ign_ws c trail ht]
  | some ind => rw [go_run_ws]; simp only [go]

/-- … in particular spaces, in the current source tree (fails to build if `%ignore " "` goes away). -/
theorem current_ignores_space : curCfg.ign .sp = true := by decide

theorem current_tab_len_positive : 0 < curCfg.tabLen := by decide

/-- With a grammar that also ignores tabs (fixes/C13-trailing-tab.diff) every trailing blank is invisible. -/
theorem layout_trailing_any (c : Cfg) (hs : c.ignSp = true) (ht : c.ignTab = true) (pre post : List Piece)
    (cr : Bool) (trail : List Ws) :
    layout c (pre ++ (wsPieces trail ++ .nl cr :: post)) = layout c (pre ++ .nl cr :: post) :=
  layout_trailing c pre post cr trail (fun w _ => by cases w <;> simp [Cfg.ign, hs, ht])

/-- As-is region of the open finding "trailing-tab-v2": with a grammar that does not ignore tabs, ANY text in
    which a tab directly follows a body token is rejected — whatever the rest of the file is. -/
theorem trailing_tab_rejected_when_not_ignored (c : Cfg) (h : c.ignTab = false) (pre post : List Piece)
    (ty v : String) : ∃ e, layout c (pre ++ .tok ty v :: .ws .tab :: post) = .error e := by
  unfold layout
  have key : ∀ rs st, ∃ e, go c rs st (.tok ty v :: .ws .tab :: post) = .error e := by
    intro rs st
    simp only [go, Cfg.ign, h]
    cases flush c rs st with
    | error e => exact ⟨e, rfl⟩
    | ok p =>
      simp only [Except.bind]
      cases bump c p.2 ty with
      | error e => exact ⟨e, rfl⟩
      | ok st2 => exact ⟨.badChar, rfl⟩
  exact go_error_congr c _ key pre none St.init

/-- the configuration of the pinned commit (`%ignore " "` only, PythonIndenter) -/
def pinnedCfg : Cfg :=
  { ignSp := true, ignTab := false, tabLen := 8, opens := ["LPAR", "LSQB", "LBRACE"], closes := ["RPAR", "RSQB", "RBRACE"] }

/-- kernel-checked witness (finite fact): `flow a⏎  b⏎` is accepted, `flow a⏎  b⇥⏎` is not. -/
theorem trailing_tab_as_is_counterexample :
    (layout pinnedCfg [.tok "_FLOW" "flow", .ws .sp, .tok "NAME" "a", .nl false, .ws .sp, .ws .sp, .tok "NAME" "b", .nl false]).toBool = true ∧
    (layout pinnedCfg [.tok "_FLOW" "flow", .ws .sp, .tok "NAME" "a", .nl false, .ws .sp, .ws .sp, .tok "NAME" "b", .ws .tab, .nl false]).toBool = false := by
  constructor <;> simp [layout, go, flush, handleNL, bump, pinnedCfg, Cfg.ign, St.init, width, top, popWhile, finalDedents, Except.bind, Except.map, Except.toBool]

/-- End-of-line comments: a comment after the last token of a line (ignored blanks in between) is invisible. -/
theorem layout_comment_eol (c : Cfg) (pre post : List Piece) (ty v : String) (gap : List Ws)
    (hg : ∀ w ∈ gap, c.ign w = true) (s : String) :
    layout c (pre ++ .tok ty v :: (wsPieces gap ++ .comment s :: post)) =
      layout c (pre ++ .tok ty v :: (wsPieces gap ++ post)) := by
  unfold layout
  apply go_congr
  intro rs st
  simp only [go, go_ign_ws c gap hg, flush]
  congr; funext p; congr; funext st2
  cases h : go c none st2 post <;> simp [Except.bind, Except.map, h]

/-- Uniform scaling of the indentation by any k ≥ 1 (every leading blank repeated k times, tabs included, any
    `tab_len`): same token types, same texts; only the indentation strings carried by the layout tokens grow. -/
theorem layout_scale_tokens (c : Cfg) (k : Nat) (hk : 1 ≤ k) (ps : List Piece) :
    layout c (scaleP k false ps) = (layout c ps).map (List.map (scaleTok k)) := by
  have := go_scale c k hk ps none St.init
  simpa [layout, scaleSt, St.init] using this

/-- … hence what the parser can see is identical (errors included, by class). -/
theorem layout_scale (c : Cfg) (k : Nat) (hk : 1 ≤ k) (ps : List Piece) :
    layoutE c (scaleP k false ps) = layoutE c ps := by
  unfold layoutE
  rw [layout_scale_tokens c k hk ps]
  cases layout c ps with
  | error e => rfl
  | ok ts =>
    simp only [Except.map, List.map_map]
    congr 1
    apply List.map_congr_left
    intro t _
    cases t <;> simp [scaleTok, erase]

/-- Layout INSIDE a keyword token: `_AND` / `_OR` (and every other terminal whose name starts with `_`) absorb the line break in front of a
    continuation line (`(\r?\n[\t ]*)+and[ \t]`), so a blank line, trailing blanks, CRLF or a rescaled indentation there change only the TEXT of
    that token - which Lark filters out of the tree: what the LALR parser can see is the same, whatever the two texts are. -/
theorem layout_underscore_token_text (c : Cfg) (pre post : List Piece) (ty v v' : String) (h : ty.startsWith "_" = true) :
    layoutE c (pre ++ .tok ty v :: post) = layoutE c (pre ++ .tok ty v' :: post) := by
  rw [layoutE_eq_goE, layoutE_eq_goE]
  exact goE_congr c _ _ (goE_tok_text c ty v v' h post) pre none St.init

/-- non-vacuity: the continuation keywords are `_`-terminals. -/
example : "_AND".startsWith "_" = true ∧ "_OR".startsWith "_" = true := by simp

/-- non-vacuity / sanity: scaling by 0 is NOT harmless (the hypothesis k ≥ 1 is needed). -/
example : layoutE pinnedCfg (scaleP 0 false [.tok "_FLOW" "flow", .nl false, .ws .sp, .tok "NAME" "b", .nl false]) ≠
    layoutE pinnedCfg [.tok "_FLOW" "flow", .nl false, .ws .sp, .tok "NAME" "b", .nl false] := by
  simp [layoutE, layout, scaleP, go, flush, handleNL, bump, pinnedCfg, St.init, width, top, popWhile, finalDedents, Except.bind, Except.map, erase]

/-! ## Colang 2.x layout, stated for SOURCE TEXT (characters), the tokenizer of body terminals being an oracle

  `TextLayout.seg o` is the character-level scanner (`_NEWLINE` runs, blanks, `COMMENT`, CRLF concretely; body terminals by the
  oracle `o : remaining text → Option (type, length)`), `lexLayout c o text` = scanner, then lexer layout rules + indenter.
  Hypotheses of the theorems below, all about the oracle (= the real lexer's regex matching, tied by correspondence:
  `C13.textseg` vs the real lexer's segmentation on every 2.x case, original and edited text):
    * `hE` / `hO`: the part of the text in front of the edit (`pre`) is tokenized in the same way in the edited and in the original
      text, up to a token boundary (`skip = 0`) — the edit does not reach back into a token (`and` + blank → `_AND`, an open string);
    * `ho…`: no body terminal claims the line break at the edit (`_AND` / `_OR` absorb the line break in front of a continuation
      line — that case is inside a token, outside these theorems);
    * `NoBlankStart` / `NoHashStart`: no body terminal begins with a blank / with `#` (checked by the translator on the first-character
      sets of all terminals of colang.lark). -/

open NemoVerif.TextLayout in
/-- Source text: a blank line (any blanks, LF or CRLF, after a line ending in LF or CRLF) inserted where a line break is. -/
theorem text_layout_blank (c : Cfg) (o : Oracle) (pre post : TextLayout.Str) (cr1 cr2 cr3 : Bool) (blank : List Ws)
    (P : List Piece) (b : Bool)
    (hE : segPre o false 0 pre (eol cr1 ++ (wsChars blank ++ (eol cr2 ++ post))) = .ok (P, b, 0))
    (hO : segPre o false 0 pre (eol cr3 ++ post) = .ok (P, b, 0))
    (hoE : b = false → o (eol cr1 ++ (wsChars blank ++ (eol cr2 ++ post))) = none)
    (hoO : b = false → o (eol cr3 ++ post) = none) :
    lexLayout c o (pre ++ (eol cr1 ++ (wsChars blank ++ (eol cr2 ++ post)))) = lexLayout c o (pre ++ (eol cr3 ++ post)) := by
  unfold lexLayout
  rw [seg_append, seg_append, hE, hO]
  simp only [glue]
  have hb : ∀ (cr : Bool) (s : TextLayout.Str), (b = false → o (eol cr ++ s) = none) →
      seg o b 0 (eol cr ++ s) = (seg o true 0 s).map (.nl cr :: ·) := by
    intro cr s h
    cases b with
    | true => exact seg_run_eol o cr s
    | false => exact seg_start_eol o cr s (h rfl)
  rw [hb cr1 _ hoE, hb cr3 _ hoO, seg_run_ws, seg_run_eol]
  cases seg o true 0 post with
  | error e => rfl
  | ok R =>
    simp only [Except.map, Except.bind]
    rw [layout_blank, layout_nl_flag c P R cr2 cr3]

open NemoVerif.TextLayout in
/-- Source text: trailing blanks that the lexer ignores, before a line break. -/
theorem text_layout_trailing (c : Cfg) (o : Oracle) (hnb : NoBlankStart o) (pre post : TextLayout.Str) (cr : Bool) (trail : List Ws)
    (ht : ∀ w ∈ trail, c.ign w = true) (P : List Piece)
    (hE : segPre o false 0 pre (wsChars trail ++ (eol cr ++ post)) = .ok (P, false, 0))
    (hO : segPre o false 0 pre (eol cr ++ post) = .ok (P, false, 0))
    (ho : o (eol cr ++ post) = none) :
    lexLayout c o (pre ++ (wsChars trail ++ (eol cr ++ post))) = lexLayout c o (pre ++ (eol cr ++ post)) := by
  unfold lexLayout
  rw [seg_append, seg_append, hE, hO]
  simp only [glue]
  rw [seg_start_ws o hnb, seg_start_eol o cr post ho]
  cases seg o true 0 post with
  | error e => rfl
  | ok R =>
    simp only [Except.map, Except.bind]
    exact layout_trailing c P R cr trail ht

open NemoVerif.TextLayout in
/-- Source text: an end-of-line comment (`#` + anything but a line break) after the last token of a line, ignored blanks in between. -/
theorem text_layout_comment_eol (c : Cfg) (o : Oracle) (hnb : NoBlankStart o) (hnh : NoHashStart o) (pre post cmt : TextLayout.Str)
    (hc : ∀ ch ∈ cmt, ch ≠ '\n') (gap : List Ws) (hg : ∀ w ∈ gap, c.ign w = true) (P : List Piece) (ty v : String)
    (hE : segPre o false 0 pre (wsChars gap ++ ('#' :: cmt ++ '\n' :: post)) = .ok (P ++ [.tok ty v], false, 0))
    (hO : segPre o false 0 pre ('\n' :: post) = .ok (P ++ [.tok ty v], false, 0)) :
    lexLayout c o (pre ++ (wsChars gap ++ ('#' :: cmt ++ '\n' :: post))) = lexLayout c o (pre ++ '\n' :: post) := by
  unfold lexLayout
  rw [seg_append, seg_append, hE, hO]
  simp only [glue]
  rw [seg_start_ws o hnb, seg_start_comment o hnh cmt post hc]
  -- in the original text the blanks of `gap` are not there at all: `layout_comment_eol` + `layout_trailing`-style absorption
  cases seg o false 0 ('\n' :: post) with
  | error e => rfl
  | ok R =>
    simp only [Except.map, Except.bind]
    have h1 := layout_comment_eol c P R ty v gap hg (String.ofList ('#' :: cmt))
    have h2 : layout c (P ++ .tok ty v :: (wsPieces gap ++ R)) = layout c (P ++ .tok ty v :: R) := by
      unfold layout
      apply go_congr
      intro rs st
      simp only [go, go_ign_ws c gap hg]
    simpa [List.append_assoc] using h1.trans h2

open NemoVerif.TextLayout in
example : NoBlankStart toyOracle ∧ NoHashStart toyOracle := by
  constructor
  · intro w t; cases w <;> rfl
  · intro t; rfl

open NemoVerif.TextLayout in
/-- non-vacuity of `text_layout_blank` (and of `text_layout_trailing`): `a⏎·⏎a⏎` vs `a⏎a⏎` with the toy tokenizer -/
example : segPre toyOracle false 0 ['a'] (eol false ++ (wsChars [.sp] ++ (eol false ++ ['a', '\n']))) = .ok ([.tok "NAME" "a"], false, 0) ∧
    segPre toyOracle false 0 ['a'] (eol false ++ ['a', '\n']) = .ok ([.tok "NAME" "a"], false, 0) ∧
    segPre toyOracle false 0 ['a'] (wsChars [.sp] ++ (eol false ++ ['a', '\n'])) = .ok ([.tok "NAME" "a"], false, 0) ∧
    toyOracle (eol false ++ (wsChars [.sp] ++ (eol false ++ ['a', '\n']))) = none ∧ toyOracle (eol false ++ ['a', '\n']) = none := by
  refine ⟨by rfl, by rfl, by rfl, by rfl, by rfl⟩

open NemoVerif.TextLayout in
/-- non-vacuity of `text_layout_comment_eol`: `a·#c⏎` vs `a⏎` -/
example : segPre toyOracle false 0 ['a'] (wsChars [.sp] ++ ('#' :: ['c'] ++ '\n' :: [])) = .ok ([] ++ [.tok "NAME" "a"], false, 0) ∧
    segPre toyOracle false 0 ['a'] ('\n' :: []) = .ok ([] ++ [.tok "NAME" "a"], false, 0) := by
  refine ⟨by rfl, by rfl⟩

open NemoVerif.TextLayout in
/-- sanity: the whole character-level pipeline on `a⏎·⏎a⏎` -/
example : lexLayout pinnedCfg toyOracle ("a\n \na\n".toList) = .ok [.body "NAME" "a", .nl [], .body "NAME" "a", .nl []] := by
  rfl

/-! ## Colang 1.0: `get_numbered_lines` -/

open NemoVerif.NumberedLines in
/-- Blank lines (empty or made of any `str.isspace` characters) inserted at any loop boundary of
    `get_numbered_lines` — i.e. anywhere except inside a multi-line string or between a line ending in
    `\` / ` or` and its continuation — leave every record (text, indentation, comment) unchanged.
    `runPre` computes the state after the prefix; `atBoundary` is the decidable "not inside" condition. -/
theorem numbered_lines_blank (pre post : List Str) (b : Str) (hb : strip b = [])
    (st' : NumberedLines.St) (out : List Rec) (hpre : runPre NumberedLines.St.init pre = .ok (st', out)) (hB : st'.atBoundary = true) :
    numbered (pre ++ b :: post) = numbered (pre ++ post) := by
  unfold numbered
  rw [run_append, run_append, hpre]
  simp only [run, step_blank st' b hb hB]
  cases h : run st' post <;> simp [h]

open NemoVerif.NumberedLines in
/-- non-vacuity: after `define flow a` / `  user hi` the parser is at a boundary. -/
example : ∃ st' out, runPre NumberedLines.St.init [['d', 'e', 'f', ' ', 'a'], [' ', ' ', 'u', ' ', 'h']] = .ok (st', out) ∧ st'.atBoundary = true := by
  refine ⟨_, _, rfl, ?_⟩
  decide

open NemoVerif.NumberedLines in
/-- Positive specification of what the comment above a statement means: a `# c` line, then any number of blank lines (any `str.isspace`
    characters), then an ordinary statement - the statement's record carries the comment `c` (stripped), and the comment is used up.
    (`$v = ...` below a comment gets the comment as `instructions`; a bot step gets it as generation instructions.) -/
theorem numbered_lines_comment_attaches (pre post blanks : List Str) (cl c stmt : Str)
    (st' : NumberedLines.St) (out : List Rec) (hpre : runPre NumberedLines.St.init pre = .ok (st', out))
    (hB : st'.atBoundary = true) (hml : st'.mlComment = false) (hc0 : st'.comment = none)
    (hcl : strip cl = '#' :: c) (hb : ∀ b ∈ blanks, strip b = []) (hs : plainStmt (strip stmt) = true) :
    numbered (pre ++ cl :: (blanks ++ stmt :: post)) =
      (run { st' with comment := none, pending := none } post).map fun rest =>
        out ++ { text := firstPart (strip stmt), indentation := lead stmt, comment := some (strip c) } :: rest :=
  numbered_comment_attaches pre post blanks cl c stmt st' out hpre hB hml hc0 hcl hb hs

open NemoVerif.NumberedLines in
/-- non-vacuity: `define flow a` / `  # say hi` / `` / `  bot x` -/
example : ∃ st' out, runPre NumberedLines.St.init ["define flow a".toList] = .ok (st', out) ∧ st'.atBoundary = true ∧ st'.mlComment = false ∧ st'.comment = none ∧
    strip "  # say hi".toList = '#' :: " say hi".toList ∧ plainStmt (strip "  bot x".toList) = true := by
  refine ⟨_, _, rfl, ?_, ?_, ?_, ?_, ?_⟩ <;> decide


open NemoVerif.NumberedLines in
/-- Positive specification, general form: a block of `# …` comment lines and blank lines in ANY order, then an ordinary statement - the
    statement's record carries the gathered comment (`commentOf`: consecutive comment lines joined with `"\n"`), and by `commentOf_blank`
    the blank lines of the block are irrelevant for it. -/
theorem numbered_lines_comments_attach (pre post block : List Str) (stmt : Str)
    (st' : NumberedLines.St) (out : List Rec) (hpre : runPre NumberedLines.St.init pre = .ok (st', out))
    (hB : st'.atBoundary = true) (hml : st'.mlComment = false)
    (hblock : ∀ l ∈ block, strip l = [] ∨ ∃ c, strip l = '#' :: c) (hs : plainStmt (strip stmt) = true) :
    numbered (pre ++ (block ++ stmt :: post)) =
      (run { st' with comment := none, pending := none } post).map fun rest =>
        out ++ { text := firstPart (strip stmt), indentation := lead stmt, comment := commentOf st'.comment block } :: rest :=
  numbered_comments_attach pre post block stmt st' out hpre hB hml hblock hs

open NemoVerif.NumberedLines in
/-- non-vacuity + the gathered comment of `# Greet the user,` / `` / `# warmly.` (finite fact). -/
example : (∀ l ∈ ["  # Greet the user,".toList, [], "  # warmly.".toList], strip l = [] ∨ ∃ c, strip l = '#' :: c) ∧
    commentOf none ["  # Greet the user,".toList, [], "  # warmly.".toList] = some "Greet the user,\nwarmly.".toList := by
  refine ⟨?_, by decide⟩
  intro l hl
  simp only [List.mem_cons, List.mem_nil_iff, or_false] at hl
  rcases hl with rfl | rfl | rfl
  · exact Or.inr ⟨" Greet the user,".toList, by decide⟩
  · exact Or.inl (by decide)
  · exact Or.inr ⟨" warmly.".toList, by decide⟩

open NemoVerif.NumberedLines in
/-- … and with one-line `\"\"\"…\"\"\"` comments in the block as well (`commentOfB`: such a comment REPLACES what was gathered so far, `#` lines after
    it are appended) - again wherever the blank lines are. -/
theorem numbered_lines_comment_block_attach (pre post block : List Str) (stmt : Str)
    (st' : NumberedLines.St) (out : List Rec) (hpre : runPre NumberedLines.St.init pre = .ok (st', out))
    (hB : st'.atBoundary = true) (hml : st'.mlComment = false)
    (hblock : ∀ l ∈ block, strip l = [] ∨ (∃ c, strip l = '#' :: c) ∨ ∃ body, oneLineBlock (strip l) = some body)
    (hs : plainStmt (strip stmt) = true) :
    numbered (pre ++ (block ++ stmt :: post)) =
      (run { st' with comment := none, pending := none } post).map fun rest =>
        out ++ { text := firstPart (strip stmt), indentation := lead stmt, comment := commentOfB st'.comment block } :: rest :=
  numbered_comment_block_attach pre post block stmt st' out hpre hB hml hblock hs

open NemoVerif.NumberedLines in
/-- non-vacuity (finite facts): a one-line block is recognised and replaces the `#` comment gathered before it. -/
example : oneLineBlock "\"\"\"Greet warmly\"\"\"".toList = some "Greet warmly".toList ∧
    commentOfB none ["# old".toList, [], "  \"\"\"Greet warmly\"\"\"".toList, "# and briefly".toList] = some "Greet warmly\nand briefly".toList := by
  decide

open NemoVerif.NumberedLines in
/-- Positive specification with a multi-line `\"\"\"` comment block in front: opener `\"\"\"t`, middle lines, closer `u\"\"\"` - with blank lines anywhere
    inside the block - then a block of blank / `#` / one-line `\"\"\"` lines, then an ordinary statement: the statement's record carries
    `commentOfB (some (t ⏎ middle lines ⏎ u)) block`; the blank lines inside the multi-line block are dropped (`blockBody`). -/
theorem numbered_lines_ml_comment_attach (pre post mids block : List Str) (openL closeL t u stmt : Str)
    (st' : NumberedLines.St) (out : List Rec) (hpre : runPre NumberedLines.St.init pre = .ok (st', out))
    (hB : st'.atBoundary = true) (hml : st'.mlComment = false)
    (ho : openLine (strip openL) = some t) (hm : ∀ l ∈ mids, strip l = [] ∨ ∃ p, midLine (strip l) = some p)
    (hc : closeLine (strip closeL) = some u)
    (hblock : ∀ l ∈ block, strip l = [] ∨ (∃ c, strip l = '#' :: c) ∨ ∃ body, oneLineBlock (strip l) = some body)
    (hs : plainStmt (strip stmt) = true) :
    numbered ((pre ++ openL :: (mids ++ [closeL])) ++ (block ++ stmt :: post)) =
      (run { st' with mlComment := false, comment := none, pending := none } post).map fun rest =>
        out ++ { text := firstPart (strip stmt), indentation := lead stmt,
                 comment := commentOfB (some (blockBody t mids ++ '\n' :: u)) block } :: rest := by
  have hB' : ({ st' with mlComment := false, comment := some (blockBody t mids ++ '\n' :: u) } : NumberedLines.St).atBoundary = true := by
    simpa [NumberedLines.St.atBoundary] using hB
  have hpre' : runPre NumberedLines.St.init (pre ++ openL :: (mids ++ [closeL])) =
      .ok ({ st' with mlComment := false, comment := some (blockBody t mids ++ '\n' :: u) }, out) := by
    rw [runPre_append, hpre]
    simp only [runPre_mlBlock st' openL closeL t u mids hB hml ho hm hc, List.append_nil]
  exact numbered_lines_comment_block_attach _ post block stmt _ out hpre' hB' rfl hblock hs


open NemoVerif.NumberedLines in
/-- non-vacuity (finite facts) -/
example : openLine "\"\"\"First line".toList = some "First line".toList ∧ midLine "more".toList = some "more".toList ∧
    closeLine "end.\"\"\"".toList = some "end.".toList ∧
    blockBody "First line".toList ["  more".toList, [], "  text".toList] = "First line\nmore\ntext".toList := by decide


open NemoVerif.NumberedLines in
/-- kernel-checked witnesses (finite facts) that the hypothesis `atBoundary` of `numbered_lines_blank` is needed: a blank line between a line
    ending in ` or` and its continuation, or inside a multi-line string, changes the records. -/
theorem numbered_lines_blank_boundary_witness :
    (numbered [['a', ' ', 'o', 'r'], ['b']]).toOption.map (List.map Rec.text) = some [['a', ' ', 'o', 'r', ' ', 'b']] ∧
    (numbered [['a', ' ', 'o', 'r'], [], ['b']]).toOption.map (List.map Rec.text) = some [['a', ' ', 'o', 'r', ' '], ['b']] ∧
    (numbered [['"', 'a'], ['b', '"']]).toOption.map (List.map Rec.text) = some [['"', 'a', '\n', 'b', '"']] ∧
    (numbered [['"', 'a'], [], ['b', '"']]).toOption.map (List.map Rec.text) = some [['"', 'a', '\n', '\n', 'b', '"']] := by
  decide

open NemoVerif.NumberedLines in
/-- Trailing whitespace (any `str.isspace` characters, tabs and `\r` included) appended to any number of lines
    changes nothing, provided the line is not the first line of a multi-line string (`"…` without closing quote —
    there the blanks are inside the string, and `multiline_indentation` counts them). -/
theorem numbered_lines_trailing (ls ls' : List Str)
    (h : Pointwise (fun l l' => ∃ ws, (∀ c ∈ ws, isPyWs c = true) ∧ l' = l ++ ws ∧ isOpener (strip l) = false) ls ls') :
    numbered ls' = numbered ls := by
  unfold numbered
  symm
  apply run_pointwise _ _ ls ls' h
  intro st a b' hab
  obtain ⟨ws, hws, rfl, hno⟩ := hab
  exact (step_trailing st a ws hws hno).symm

open NemoVerif.NumberedLines in
/-- Trailing whitespace on ANY SUBSET of the lines (the others - first lines of multi-line strings included - untouched): same records. -/
theorem numbered_lines_trailing_some (ls ls' : List Str)
    (h : Pointwise (fun l l' => l' = l ∨ ∃ ws, (∀ c ∈ ws, isPyWs c = true) ∧ l' = l ++ ws ∧ isOpener (strip l) = false) ls ls') :
    numbered ls' = numbered ls := by
  unfold numbered
  symm
  apply run_pointwise _ _ ls ls' h
  intro st a b' hab
  rcases hab with rfl | ⟨ws, hws, rfl, hno⟩
  · rfl
  · exact (step_trailing st a ws hws hno).symm

open NemoVerif.NumberedLines in
/-- Colang 1.0, FILE CONTENT (`content.split("\n")` included): a blank line (any `str.isspace` characters but a line break) inserted after
    any line at a loop boundary leaves every record unchanged. -/
theorem numbered_content_blank (pre post b : Str) (hb : strip b = []) (hnl : ∀ ch ∈ b, ch ≠ '\n')
    (st' : NumberedLines.St) (out : List Rec) (hpre : runPre NumberedLines.St.init (splitNL pre) = .ok (st', out)) (hB : st'.atBoundary = true) :
    numberedText (pre ++ '\n' :: (b ++ '\n' :: post)) = numberedText (pre ++ '\n' :: post) := by
  unfold numberedText
  rw [splitNL_append, splitNL_append, splitNL_append, splitNL_noNL b hnl]
  exact numbered_lines_blank (splitNL pre) (splitNL post) b hb st' out hpre hB

open NemoVerif.NumberedLines in
/-- Colang 1.0, FILE CONTENT: trailing whitespace (no line break) appended to any line `l` that is not the first line of a multi-line string. -/
theorem numbered_content_trailing (x y l ws : Str) (hl : ∀ ch ∈ l, ch ≠ '\n') (hws : ∀ c ∈ ws, isPyWs c = true) (hwnl : ∀ ch ∈ ws, ch ≠ '\n')
    (hno : isOpener (strip l) = false) :
    numberedText (x ++ '\n' :: (l ++ ws ++ '\n' :: y)) = numberedText (x ++ '\n' :: (l ++ '\n' :: y)) := by
  unfold numberedText
  have h1 : ∀ ch ∈ l ++ ws, ch ≠ '\n' := by
    intro ch hch
    rcases List.mem_append.1 hch with h | h
    · exact hl ch h
    · exact hwnl ch h
  rw [splitNL_append, splitNL_append, splitNL_append, splitNL_append, splitNL_noNL _ h1, splitNL_noNL _ hl]
  apply numbered_lines_trailing_some
  exact pointwise_one _ (fun _ => Or.inl rfl) (splitNL x) (splitNL y) l (l ++ ws) (Or.inr ⟨ws, hws, rfl, hno⟩)

open NemoVerif.NumberedLines in
/-- non-vacuity of `numbered_content_blank` / `numbered_content_trailing`: content `def a⏎  u h` is at a boundary after its two lines;
    `  u h` is not the first line of a multi-line string. -/
example : (∃ st' out, runPre NumberedLines.St.init (splitNL ['d', 'e', 'f', ' ', 'a', '\n', ' ', ' ', 'u', ' ', 'h']) = .ok (st', out) ∧ st'.atBoundary = true) ∧
    isOpener (strip [' ', ' ', 'u', ' ', 'h']) = false := by
  refine ⟨⟨_, _, rfl, ?_⟩, ?_⟩ <;> decide

open NemoVerif.NumberedLines in
/-- Colang 1.0: CRLF line ends (a `"\r"` after every line, except after the first line of a multi-line string) change no record. -/
theorem numbered_lines_crlf (ls : List Str) : numbered (ls.map addCR) = numbered ls := by
  apply numbered_lines_trailing_some
  apply pointwise_map
  intro l
  unfold addCR
  by_cases h : isOpener (strip l) = true
  · simp [h]
  · right
    refine ⟨['\r'], by decide, by simp [h], by simpa using h⟩


open NemoVerif.NumberedLines in
/-- kernel-checked witness (finite fact) that the exclusion above is needed: trailing blanks on the first line of a
    multi-line string change the record's `indentation`. -/
theorem numbered_lines_trailing_opener_witness :
    (numbered [[' ', ' ', '"', 'a'], [' ', ' ', 'b', '"']]).toOption.map (List.map Rec.indentation) = some [2] ∧
    (numbered [[' ', ' ', '"', 'a', ' ', ' '], [' ', ' ', 'b', '"']]).toOption.map (List.map Rec.indentation) = some [4] := by
  decide

open NemoVerif.NumberedLines in
/-- Colang 1.0, indentation × k at the level of `get_numbered_lines` — the exact statement that is true of the code: for EVERY factor
    `k` (even 0) and every line list, scaling the leading spaces of every line multiplies every record's `indentation` by `k` and changes
    nothing else (texts, comments, number of records, the `IndexError` / `TypeError` raised), PROVIDED every line that could open a
    multi-line string is *tight* (`openerTight`: only spaces in front, nothing behind the text).
    Full statement (without the hypothesis) is FALSE of the code: `multiline_indentation = len(raw) - len(stripped)` also counts
    trailing blanks and leading tabs, which do not scale — see `numbered_lines_scale_as_is_counterexample`.
    What the 1 900-line parser does with the numbers (it compares them: `>`, `<`, `==` between records, `> 0`) is outside the model. -/
theorem numbered_lines_scale_partial (k : Nat) (ls : List Str) (h : ∀ l ∈ ls, openerTight l = true) :
    numbered (ls.map (scaleLine k)) = (numbered ls).map (List.map (scaleRec k)) :=
  numbered_scale k ls h

open NemoVerif.NumberedLines in
/-- Colang 1.0, indentation × k, UNCONDITIONAL part: for every factor and every line list, scaling never changes the texts, the comments, the
    number of records or the error raised - only the indentation NUMBERS can change (and `numbered_lines_scale_partial` says how: × k, when
    the first lines of multi-line strings are tight). -/
theorem numbered_lines_scale_erased (k : Nat) (ls : List Str) :
    eraseOut (numbered (ls.map (scaleLine k))) = eraseOut (numbered ls) :=
  numbered_scale_erased k ls

open NemoVerif.NumberedLines in
/-- non-vacuity: a two-line string whose first line is tight (`  "a` / `  b"`), scaled by 3: indentation 2 ↦ 6. -/
example : (∀ l ∈ [[' ', ' ', '"', 'a'], [' ', ' ', 'b', '"']], openerTight l = true) ∧
    (numbered ([[' ', ' ', '"', 'a'], [' ', ' ', 'b', '"']].map (scaleLine 3))).toOption.map (List.map Rec.indentation) = some [6] := by
  decide

open NemoVerif.NumberedLines in
/-- Colang 1.0, FILE CONTENT: scaling the leading spaces of every line by any `k` multiplies every record's indentation by `k` and changes
    nothing else, provided every possible first line of a multi-line string is tight (see `numbered_lines_scale_partial`). -/
theorem numbered_content_scale_partial (k : Nat) (content : Str) (h : ∀ l ∈ splitNL content, openerTight l = true) :
    numberedText (scaleContent k content) = (numberedText content).map (List.map (scaleRec k)) := by
  unfold numberedText scaleContent
  rw [splitNL_joinNL _ (by simp [splitNL_ne_nil]) (by
    intro l hl
    obtain ⟨l0, hl0, rfl⟩ := List.mem_map.1 hl
    exact scaleLine_noNL k l0 (splitNL_noNL_mem content l0 hl0))]
  exact numbered_scale k (splitNL content) h


open NemoVerif.NumberedLines in
/-- non-vacuity: content `def a⏎  "x⏎  y"` (a tight multi-line string) scaled by 2. -/
example : (∀ l ∈ splitNL "def a\n  \"x\n  y\"".toList, openerTight l = true) ∧
    scaleContent 2 "def a\n  \"x\n  y\"".toList = "def a\n    \"x\n    y\"".toList := by
  decide

open NemoVerif.NumberedLines in
/-- kernel-checked counterexample (finite fact) to the statement without `openerTight`: `  "a␠␠` / `  b"` has indentation 4
    (2 leading + 2 trailing blanks); scaled by 2 the code gives 6, the scaled record would need 8.  (Replayed on the real
    `get_numbered_lines` by the corpus case `v1_scale_opener_trailing`; the flows are the same - the 1.0 parser only compares.) -/
theorem numbered_lines_scale_as_is_counterexample :
    (numbered [[' ', ' ', '"', 'a', ' ', ' '], [' ', ' ', 'b', '"']]).toOption.map (List.map Rec.indentation) = some [4] ∧
    (numbered ([[' ', ' ', '"', 'a', ' ', ' '], [' ', ' ', 'b', '"']].map (scaleLine 2))).toOption.map (List.map Rec.indentation) = some [6] ∧
    ((numbered [[' ', ' ', '"', 'a', ' ', ' '], [' ', ' ', 'b', '"']]).map (List.map (scaleRec 2))).toOption.map (List.map Rec.indentation) = some [8] := by
  decide

/-! ## Colang 2.x: the line-based pre-parsing expansion of `...` (runs before the lexer) -/

open NemoVerif.NumberedLines NemoVerif.PreExpand in
/-- Trailing whitespace (any `str.isspace` characters) on ANY line — a stand-alone `...` statement, a docstring
    marker, anything, in any docstring state — changes the output of `_apply_pre_parsing_expansions` only by the same
    whitespace at the end of the last line that this line is rewritten to; the docstring state and every other line
    are untouched.  (Together with `layout_trailing` this is why trailing blanks are harmless; the composition
    character-level → piece-level is by correspondence.)  An end-anchored pattern `…\.\.\.$` breaks exactly this. -/
theorem preexpand_trailing (d : Bool) (pre post : List Str) (l ws : Str) (hws : ∀ c ∈ ws, isPyWs c = true) :
    PreExpand.run d (pre ++ (l ++ ws) :: post) =
      (PreExpand.runPre d pre).2 ++ appendLast ws (PreExpand.step (PreExpand.runPre d pre).1 l).2
        ++ PreExpand.run (PreExpand.step (PreExpand.runPre d pre).1 l).1 post ∧
    PreExpand.run d (pre ++ l :: post) =
      (PreExpand.runPre d pre).2 ++ (PreExpand.step (PreExpand.runPre d pre).1 l).2
        ++ PreExpand.run (PreExpand.step (PreExpand.runPre d pre).1 l).1 post := by
  constructor
  · rw [PreExpand.run_append]
    simp only [PreExpand.run, PreExpand.step_trailing _ l ws hws, List.append_assoc]
  · rw [PreExpand.run_append]
    simp only [PreExpand.run, List.append_assoc]

open NemoVerif.NumberedLines NemoVerif.PreExpand in
/-- A blank line (empty or whitespace only) inserted anywhere is passed through verbatim at the corresponding place
    of the output; nothing else changes (it is never mistaken for a `...` statement or a docstring marker). -/
theorem preexpand_blank (d : Bool) (pre post : List Str) (b : Str) (hb : strip b = []) :
    PreExpand.run d (pre ++ b :: post) = (PreExpand.runPre d pre).2 ++ b :: PreExpand.run (PreExpand.runPre d pre).1 post ∧
    PreExpand.run d (pre ++ post) = (PreExpand.runPre d pre).2 ++ PreExpand.run (PreExpand.runPre d pre).1 post := by
  constructor
  · rw [PreExpand.run_append]
    simp only [PreExpand.run, PreExpand.step_blank _ b hb, List.singleton_append]
  · rw [PreExpand.run_append]

open NemoVerif.PreExpand in
/-- kernel-checked witness (finite fact): `  ...` followed by two blanks IS expanded (8 output lines, the blanks end up alone on the last). -/
theorem preexpand_trailing_witness :
    (preExpand [[' ', ' ', '.', '.', '.', ' ', ' ']]).length = 8 ∧ (preExpand [[' ', ' ', '.', '.', '.', ' ', ' ']]).getLast? = some [' ', ' '] := by
  decide

open NemoVerif.TextLayout in
/-- Source text: uniform scaling of the indentation by any k ≥ 1 — every blank of the run of blanks directly after a line break repeated
    k times (`scaleText`) — gives the same token stream up to the text of `_`-terminals, errors included.  `ScaleOK` (explicit, about the two
    tokenizers along the text): at every suffix the tokenizer of the scaled text decides like the tokenizer of the original text, and no body
    token contains a line break or runs past the end (multi-line strings and `and`/`or` continuation tokens are outside). -/
theorem text_layout_scale (c : Cfg) (k : Nat) (hk : 1 ≤ k) (o o' : Oracle) (text : TextLayout.Str) (hok : ScaleOK k o o' text) :
    (seg o' false 0 (scaleText k false text)).bind (layoutE c) = (seg o false 0 text).bind (layoutE c) := by
  rw [seg_scale k o o' text.length text (Nat.le_refl _) false hok]
  cases seg o false 0 text with
  | error e => rfl
  | ok ps => simp only [Except.map, Except.bind]; exact layout_scale c k hk ps

open NemoVerif.TextLayout in
/-- non-vacuity: the toy tokenizer satisfies `ScaleOK` on every text; `a⏎·a⏎` scaled by 3 is `a⏎···a⏎`. -/
example : ScaleOK 3 toyOracle toyOracle "a\n a\n".toList ∧ scaleText 3 false "a\n a\n".toList = "a\n   a\n".toList :=
  ⟨toyOracle_scaleOK 3 _, by decide⟩

/-! ### … composed with the line-based pre-parsing expansion: statements about the RAW FILE CONTENT

  `TextLayout.source c o lines` = `_apply_pre_parsing_expansions` (on `content.split("\n")`) → `"\n".join` → `+ "\n"` (as
  `get_parsing_tree` does) → character-level scanner → lexer layout rules + indenter.  The hypotheses speak about the tokenizer oracle on
  the EXPANDED text (what the lexer really gets). -/

open NemoVerif.TextLayout in
/-- Raw file content: a blank line (blanks and tabs, optionally a `\r`: a CRLF file) inserted between two lines - after ANY line, be it a
    `...` statement that is rewritten into seven lines, a docstring line, anything - does not change the token stream.
    `hA`: the expanded text in front of the insertion point is `pre0` + LF/CRLF (i.e. there is at least one line in front). -/
theorem source_blank_line (c : Cfg) (o : Oracle) (preL postL : List TextLayout.Str) (blank : List Ws) (cr1 cr2 : Bool)
    (pre0 : TextLayout.Str) (P : List Piece) (b : Bool)
    (hA : unlines (PreExpand.runPre false preL).2 = pre0 ++ eol cr1)
    (hE : segPre o false 0 pre0 (eol cr1 ++ (wsChars blank ++ (eol cr2 ++ unlines (PreExpand.run (PreExpand.runPre false preL).1 postL)))) = .ok (P, b, 0))
    (hO : segPre o false 0 pre0 (eol cr1 ++ unlines (PreExpand.run (PreExpand.runPre false preL).1 postL)) = .ok (P, b, 0))
    (hoE : b = false → o (eol cr1 ++ (wsChars blank ++ (eol cr2 ++ unlines (PreExpand.run (PreExpand.runPre false preL).1 postL)))) = none)
    (hoO : b = false → o (eol cr1 ++ unlines (PreExpand.run (PreExpand.runPre false preL).1 postL)) = none) :
    source c o (preL ++ (wsChars blank ++ crChars cr2) :: postL) = source c o (preL ++ postL) := by
  have hne : (PreExpand.runPre false preL).2 ≠ [] := by
    intro h
    rw [h] at hA
    cases cr1 <;> simp [unlines, eol] at hA
  have hb := preexpand_blank false preL postL (wsChars blank ++ crChars cr2) (strip_blank_line blank cr2)
  unfold source PreExpand.preExpand
  rw [hb.1, hb.2, joinNL_nl _ (by simp), joinNL_nl _ (by simp [hne])]
  rw [unlines_append, unlines_append, hA]
  simp only [unlines]
  have := text_layout_blank c o pre0 (unlines (PreExpand.run (PreExpand.runPre false preL).1 postL)) cr1 cr2 cr1 blank P b hE hO hoE hoO
  rw [← crChars_nl cr2] at this
  simpa [List.append_assoc] using this


open NemoVerif.TextLayout in
/-- non-vacuity of `source_blank_line`: file `a⏎a` gets a blank line `·` in between (toy tokenizer). -/
example : unlines (PreExpand.runPre false [['a']]).2 = ['a'] ++ eol false ∧
    segPre toyOracle false 0 ['a'] (eol false ++ (wsChars [.sp] ++ (eol false ++ unlines (PreExpand.run (PreExpand.runPre false [['a']]).1 [['a']])))) = .ok ([.tok "NAME" "a"], false, 0) ∧
    segPre toyOracle false 0 ['a'] (eol false ++ unlines (PreExpand.run (PreExpand.runPre false [['a']]).1 [['a']])) = .ok ([.tok "NAME" "a"], false, 0) := by
  refine ⟨by rfl, by rfl, by rfl⟩

open NemoVerif.TextLayout in
/-- Raw file content: trailing blanks that the lexer ignores, appended to ANY line `l0` (in front of the `\r` of a CRLF file) - the
    `...` statement included: the blanks end up behind the last of the lines it is rewritten to - do not change the token stream.
    `hX`: `l0` is rewritten to the lines `X0 ++ [xl]` (such a decomposition always exists: `PreExpand.step_snd_split`). -/
theorem source_trailing (c : Cfg) (o : Oracle) (hnb : NoBlankStart o) (preL postL : List TextLayout.Str) (l0 : TextLayout.Str)
    (trail : List Ws) (cr : Bool) (ht : ∀ w ∈ trail, c.ign w = true)
    (X0 : List TextLayout.Str) (xl pre post : TextLayout.Str) (P : List Piece)
    (hX : (PreExpand.step (PreExpand.runPre false preL).1 l0).2 = X0 ++ [xl])
    (hpre : pre = unlines (PreExpand.runPre false preL).2 ++ (unlines X0 ++ xl))
    (hpost : post = unlines (PreExpand.run (PreExpand.step (PreExpand.runPre false preL).1 l0).1 postL))
    (hE : segPre o false 0 pre (wsChars trail ++ (eol cr ++ post)) = .ok (P, false, 0))
    (hO : segPre o false 0 pre (eol cr ++ post) = .ok (P, false, 0))
    (ho : o (eol cr ++ post) = none) :
    source c o (preL ++ (l0 ++ (wsChars trail ++ crChars cr)) :: postL) = source c o (preL ++ (l0 ++ crChars cr) :: postL) := by
  have h1 := (preexpand_trailing false preL postL l0 (wsChars trail ++ crChars cr) (ws_line_allws trail cr)).1
  have h2 := (preexpand_trailing false preL postL l0 (crChars cr) (by simpa [wsChars] using ws_line_allws [] cr)).1
  unfold source PreExpand.preExpand
  rw [h1, h2, hX, joinNL_nl _ (by simp [PreExpand.appendLast_append]), joinNL_nl _ (by simp [PreExpand.appendLast_append])]
  simp only [unlines_append, unlines_appendLast]
  have := text_layout_trailing c o hnb pre post cr trail ht P hE hO ho
  rw [hpre, hpost, ← crChars_nl cr] at this
  simpa [List.append_assoc] using this


open NemoVerif.TextLayout in
/-- Generated-data fact: the statements the stand-alone `...` is rewritten to (`Generated.C13.expansionLines`) contain no line break and
    begin with no blank (rebuilt on every run). -/
theorem expansion_ok : ExpansionOK := by
  intro e he
  simp only [PreExpand.expansion, Generated.C13.expansionLines, List.mem_map, List.mem_cons, List.mem_nil_iff, or_false] at he
  obtain ⟨s, hs, rfl⟩ := he
  rcases hs with rfl | rfl | rfl | rfl | rfl | rfl <;> decide

open NemoVerif.TextLayout in
/-- Raw file content: uniform scaling of the indentation of every line but the first (each line's leading run of blanks × k, k ≥ 1) through
    the `...` pre-parsing expansion: the erased token stream (what the LALR parser can see) is the same, errors included.
    Hypotheses: the first line is not an (indented) `...` statement; no line contains a line break (they come from `split("\n")`); on a
    `...` line what follows the dots does not begin with a blank (`ScaleLineOK` - the region of the open finding
    `eol-comment-pre-expansion-v2`, where the rest stays behind with ONE blank); `ExpansionOK` = `expansion_ok`; `ScaleOK` about the two
    tokenizers on the EXPANDED text. -/
theorem source_scale (c : Cfg) (k : Nat) (hk : 1 ≤ k) (o o' : Oracle) (hx : ExpansionOK) (l0 : TextLayout.Str) (ls : List TextLayout.Str)
    (h0 : (∀ ch ∈ l0, ch ≠ '\n') ∧ PreExpand.matchDots l0 = none)
    (hls : ∀ l ∈ ls, ScaleLineOK l)
    (hok : ScaleOK k o o' (joinNL (PreExpand.preExpand (l0 :: ls)) ++ ['\n'])) :
    (seg o' false 0 (joinNL (PreExpand.preExpand (l0 :: ls.map (scaleText k true))) ++ ['\n'])).bind (layoutE c) =
      (seg o false 0 (joinNL (PreExpand.preExpand (l0 :: ls)) ++ ['\n'])).bind (layoutE c) := by
  have hE : PreExpand.preExpand (l0 :: ls) = l0 :: PreExpand.run (PreExpand.step false l0).1 ls := by
    simp [PreExpand.preExpand, PreExpand.run, step_snd_of_noDots false l0 h0.2]
  have hE' : PreExpand.preExpand (l0 :: ls.map (scaleText k true)) = scaleLines k (l0 :: PreExpand.run (PreExpand.step false l0).1 ls) := by
    simp [PreExpand.preExpand, PreExpand.run, step_snd_of_noDots false l0 h0.2, run_scale k hk hx ls hls, scaleLines]
  have hnl : ∀ l ∈ l0 :: PreExpand.run (PreExpand.step false l0).1 ls, ∀ ch ∈ l, ch ≠ '\n' := by
    intro l hl
    rcases List.mem_cons.1 hl with h | h
    · subst h; exact h0.1
    · exact run_noNL hx ls (fun l' hl' => (hls l' hl').1) _ l h
  rw [hE] at hok
  rw [hE, hE', joinNL_nl _ (by simp [scaleLines]), joinNL_nl _ (by simp), ← scaleText_unlines k _ hnl]
  rw [joinNL_nl _ (by simp)] at hok
  exact text_layout_scale c k hk o o' _ hok


open NemoVerif.TextLayout in
/-- … with the generated-data hypothesis discharged for the current source tree. -/
theorem source_scale_current (c : Cfg) (k : Nat) (hk : 1 ≤ k) (o o' : Oracle) (l0 : TextLayout.Str) (ls : List TextLayout.Str)
    (h0 : (∀ ch ∈ l0, ch ≠ '\n') ∧ PreExpand.matchDots l0 = none)
    (hls : ∀ l ∈ ls, ScaleLineOK l)
    (hok : ScaleOK k o o' (joinNL (PreExpand.preExpand (l0 :: ls)) ++ ['\n'])) :
    (seg o' false 0 (joinNL (PreExpand.preExpand (l0 :: ls.map (scaleText k true))) ++ ['\n'])).bind (layoutE c) =
      (seg o false 0 (joinNL (PreExpand.preExpand (l0 :: ls)) ++ ['\n'])).bind (layoutE c) :=
  source_scale c k hk o o' expansion_ok l0 ls h0 hls hok

open NemoVerif.TextLayout in
/-- non-vacuity of `source_scale`: file `a⏎·a` (toy tokenizer); a `...` line with nothing behind the dots is fine too -/
example : ((∀ ch ∈ ['a'], ch ≠ '\n') ∧ PreExpand.matchDots ['a'] = none) ∧ (∀ l ∈ [[' ', 'a'], [' ', ' ', '.', '.', '.']], ScaleLineOK l) ∧
    ScaleOK 2 toyOracle toyOracle (joinNL (PreExpand.preExpand (['a'] :: [[' ', 'a']])) ++ ['\n']) := by
  refine ⟨⟨by decide, by decide⟩, ?_, toyOracle_scaleOK 2 _⟩
  intro l hl
  simp only [List.mem_cons, List.mem_nil_iff, or_false] at hl
  rcases hl with rfl | rfl
  · exact ⟨by decide, by intro sp rest h; simp [PreExpand.matchDots, PreExpand.splitSpaces, PreExpand.dropDots] at h⟩
  · refine ⟨by decide, ?_⟩
    intro sp rest h
    simp [PreExpand.matchDots, PreExpand.splitSpaces, PreExpand.dropDots] at h
    obtain ⟨_, rfl⟩ := h
    simp

open NemoVerif.TextLayout in
open NemoVerif.NumberedLines (lstrip) in
/-- Raw file content: an end-of-line comment appended (after ignored blanks) to an ordinary line `l` - outside docstrings (`hd`), first
    non-blank character not a quote, not a `...` statement: the lines where the line-based pre-parsing expansion does not look at the line end;
    the other lines are the region of the open finding `eol-comment-pre-expansion-v2` - does not change the token stream. -/
theorem source_comment_eol (c : Cfg) (o : Oracle) (hnb : NoBlankStart o) (hnh : NoHashStart o) (preL postL : List TextLayout.Str)
    (l cmt : TextLayout.Str) (gap : List Ws) (hg : ∀ w ∈ gap, c.ign w = true) (hc : ∀ ch ∈ cmt, ch ≠ '\n')
    (hd : (PreExpand.runPre false preL).1 = false)
    (hl : lstrip l ≠ []) (hq : (lstrip l).head? ≠ some '"') (hm : PreExpand.matchDots l = none)
    (pre post : TextLayout.Str) (P : List Piece) (ty v : String)
    (hpre : pre = unlines (PreExpand.runPre false preL).2 ++ l)
    (hpost : post = unlines (PreExpand.run false postL))
    (hE : segPre o false 0 pre (wsChars gap ++ ('#' :: cmt ++ '\n' :: post)) = .ok (P ++ [.tok ty v], false, 0))
    (hO : segPre o false 0 pre ('\n' :: post) = .ok (P ++ [.tok ty v], false, 0)) :
    source c o (preL ++ (l ++ (wsChars gap ++ '#' :: cmt)) :: postL) = source c o (preL ++ l :: postL) := by
  have hx : wsChars gap ++ '#' :: cmt = [] ∨ ((wsChars gap ++ '#' :: cmt).head? ≠ some '.' ∧ wsChars gap ++ '#' :: cmt ≠ []) := by
    right
    cases gap with
    | nil => simp [wsChars]
    | cons w g => cases w <;> simp [wsChars, wsChar]
  have s1 := step_plain l (wsChars gap ++ '#' :: cmt) hl hq hm hx
  have s2 := step_plain l [] hl hq hm (Or.inl rfl)
  rw [List.append_nil] at s2
  unfold source PreExpand.preExpand
  rw [PreExpand.run_append, PreExpand.run_append]
  simp only [PreExpand.run, hd, s1, s2]
  rw [joinNL_nl _ (by simp), joinNL_nl _ (by simp)]
  simp only [unlines_append, unlines]
  have := text_layout_comment_eol c o hnb hnh pre post cmt hc gap hg P ty v hE hO
  rw [hpre, hpost] at this
  simpa [List.append_assoc] using this


open NemoVerif.TextLayout in
/-- non-vacuity of `source_comment_eol`: file `a⏎a`, comment `·#c` appended to the first line (toy tokenizer). -/
example : (PreExpand.runPre false ([] : List TextLayout.Str)).1 = false ∧ NumberedLines.lstrip ['a'] ≠ [] ∧ (NumberedLines.lstrip ['a']).head? ≠ some '"' ∧
    PreExpand.matchDots ['a'] = none ∧
    segPre toyOracle false 0 (unlines (PreExpand.runPre false ([] : List TextLayout.Str)).2 ++ ['a'])
      (wsChars [.sp] ++ ('#' :: ['c'] ++ '\n' :: unlines (PreExpand.run false [['a']]))) = .ok ([] ++ [.tok "NAME" "a"], false, 0) ∧
    segPre toyOracle false 0 (unlines (PreExpand.runPre false ([] : List TextLayout.Str)).2 ++ ['a'])
      ('\n' :: unlines (PreExpand.run false [['a']])) = .ok ([] ++ [.tok "NAME" "a"], false, 0) := by
  refine ⟨rfl, by decide, by decide, by decide, by rfl, by rfl⟩

/-! ## Error wrapper -/

/-- With the repaired formatter: whatever exception the parser raised (any class deriving from `Exception`, with
    or without `line` / `column`, any values), whatever the file content, the loader raises
    `ColangParsingError` and the message contains the file path. -/
theorem errwrap_total (e : Exc) (he : e.isException = true) (version path : String) (lines : List String) :
    ∃ msg, wrap true (some e) version path lines = .raised cpe msg ∧ ∃ a b, msg = a ++ path ++ b := by
  unfold wrap
  by_cases hv : e.isValueError = true
  · exact ⟨"Unsupported colang version " ++ version ++ " for file: " ++ path, by simp [hv],
      "Unsupported colang version " ++ version ++ " for file: ", "", by simp⟩
  · exact ⟨"Error while parsing Colang file: " ++ path ++ "\n" ++ formatTotal e lines, by simp [hv, he, format],
      "Error while parsing Colang file: ", "\n" ++ formatTotal e lines, by simp [String.append_assoc]⟩

/-- Generated-data fact (rebuilt on every run from the static scan of the two parsers' `raise` / `assert` statements and of lark's exception
    classes): every class that a raise site names derives from `Exception` - none can slip past the loader's `except Exception`.
    A new raise site with a `BaseException`-only class breaks this obligation. -/
theorem raise_sites_are_exceptions : ∀ s ∈ Generated.C13Raise.sites, s.isException = true := by
  decide

/-- `errwrap_total` instantiated at every raise site of the two parsers: whichever site fires, with whatever `line` / `column` attributes
    and text, on whatever file content, the loader (with the repaired formatter) raises `ColangParsingError` naming the file. -/
theorem errwrap_total_raise_sites (s : Generated.C13Raise.Site) (hs : s ∈ Generated.C13Raise.sites) (line column : Attr) (str : String)
    (version path : String) (lines : List String) :
    ∃ msg, wrap true (some (excOfSite s line column str)) version path lines = .raised cpe msg ∧ ∃ a b, msg = a ++ path ++ b :=
  errwrap_total (excOfSite s line column str) (raise_sites_are_exceptions s hs) version path lines

/-- non-vacuity: the scan found the 1.0 parser's decorated `Exception` and lark's `UnexpectedToken`. -/
example : (⟨"nemoguardrails/colang/v1_0/lang/colang_parser.py", "ColangParser.parse", "raise", "Exception", true, false⟩ : Generated.C13Raise.Site) ∈ Generated.C13Raise.sites ∧
    (⟨"<lark.exceptions>", "", "engine", "UnexpectedToken", true, false⟩ : Generated.C13Raise.Site) ∈ Generated.C13Raise.sites := by
  decide

/-- The pinned formatter raises instead (finite witness: a `DedentError` has no `line`). -/
theorem errwrap_as_is_counterexample :
    wrap false (some { cls := "DedentError", isException := true, isValueError := false, line := .missing, column := .missing, str := "Unexpected dedent" })
      "2.x" "a.co" ["flow a", "    b", "  c"] = .raised "AttributeError" "" := by
  simp [wrap, format, formatAsIs, PyErr.name]

/-- Exact region of the open finding "error-formatter-attribute-assumption": the pinned wrapper raises
    `ColangParsingError` iff the exception is a `ValueError` or carries a usable position. -/
theorem errwrap_as_is_iff (e : Exc) (he : e.isException = true) (version path : String) (lines : List String) :
    (∃ msg, wrap false (some e) version path lines = .raised cpe msg) ↔ (e.isValueError = true ∨ PositionOk e lines) := by
  unfold wrap PositionOk
  by_cases hv : e.isValueError = true
  · simp [hv]
  · simp only [hv, he, format, Bool.false_eq_true, if_false, Bool.not_true, false_or]
    unfold formatAsIs
    cases hl : e.line with
    | missing => simp [PyErr.name, cpe]
    | none => simp [PyErr.name, cpe]
    | other => simp [PyErr.name, cpe]
    | int i =>
      cases hi : pyIndex lines (i - 1) with
      | none => simp [PyErr.name, cpe, hi]
      | some line =>
        cases hc : e.column <;> simp [PyErr.name, cpe, hi]

/-- `errwrap_total` restricted to the region where the pinned formatter works (the `_partial` form that holds as-is). -/
theorem errwrap_as_is_partial (e : Exc) (he : e.isException = true) (version path : String) (lines : List String)
    (h : e.isValueError = true ∨ PositionOk e lines) :
    ∃ msg, wrap false (some e) version path lines = .raised cpe msg :=
  (errwrap_as_is_iff e he version path lines).2 h

/-- non-vacuity of `PositionOk`: lark's `UnexpectedCharacters` at line 2, column 3. -/
example : PositionOk { cls := "UnexpectedCharacters", isException := true, isValueError := false, line := .int 2, column := .int 3, str := "x" } ["a", "b"] := by
  refine ⟨⟨2, rfl, by decide⟩, Or.inr ⟨3, rfl⟩⟩

/-! ## "never a hang": the import fix-point loops of `RailsConfig.from_path` (Models/ImportLoop.lean)

  `U` is any finite list of import paths that contains the paths the configuration starts from and is closed under
  "listed in a `.yml` of what a path resolves to" (`YmlClosed`) and "imported by a `.co` file a path brings in" (`CoClosed`).
  For a file system such a `U` always exists (the import paths occurring in finitely many files); cycles, self-imports and
  repeated imports do not matter.  Fuel is only a bound: the result does not depend on it (`∃ r, ∀ n ≥ bound`). -/
end NemoVerif.C13

namespace NemoVerif.C13
open NemoVerif NemoVerif.ImportLoop

/-- `_load_imported_paths` ends - whatever the import graph looks like, as long as it is finite - and needs at most one
    pass of its `for` loop: the result is the same for every fuel ≥ |U| + 3. -/
theorem load_imports_terminates (w : World) (U : List String) (hU : YmlClosed w U) (s : St) (hi : Inv U s) :
    ∃ r, ∀ n, U.length + 3 ≤ n → whileLoop w n s = some r := by
  obtain ⟨r, hr, _⟩ := whileLoop_terminates hU s hi (U.length + 3) (Nat.le_refl _)
  exact ⟨r, fun n hn => whileLoop_mono_le hr hn⟩

/-- and when it returns: every import path is imported (the two lengths the `while` test compares are equal because the two
    collections have the same elements, not by accident), the list still has no repetition, and it only grew at the end. -/
theorem load_imports_complete (w : World) (U : List String) (hU : YmlClosed w U) (s s' : St) (hi : Inv U s) (n : Nat)
    (h : whileLoop w n s = some (.ok s')) :
    (∀ x ∈ s'.importPaths, x ∈ s'.keys) ∧ s'.importPaths.Nodup ∧ s'.imported.length = s'.importPaths.length ∧
      ∃ t, s'.importPaths = s.importPaths ++ t := by
  obtain ⟨r, hr, hrs⟩ := whileLoop_terminates hU s hi (max n (U.length + 3)) (Nat.le_max_right _ _)
  have h' := whileLoop_mono_le h (Nat.le_max_left n (U.length + 3))
  rw [h'] at hr; injection hr with hr
  obtain ⟨hi', hall, _, t, ht⟩ := hrs s' hr.symm
  exact ⟨hall, hi'.nodup, lengths_eq_of_all_marked hi' hall, t, ht⟩

/-- non-vacuity of `load_imports_terminates` / `config_load_terminates`: two modules importing each other, one of them twice,
    a module importing itself, the same library listed twice in a `.yml`. -/
def demoWorld : World where
  resolve p :=
    if p = "a" then some ("lib/a.co", [.co 1])
    else if p = "b" then some ("lib/b.co", [.co 2])
    else if p = "pkg" then some ("lib/pkg", [.yml ["pkg", "a", "a"], .co 3])
    else none
  parse f :=
    if f = 0 then some ["a", "a", "pkg"]      -- main.co: `import a` twice
    else if f = 1 then some ["b"]
    else if f = 2 then some ["a", "a", "b"]   -- b imports a (cycle), twice, and itself
    else if f = 3 then some []
    else none

def demoU : List String := ["a", "b", "pkg"]

theorem demo_ymlClosed : YmlClosed demoWorld demoU := by
  intro p hp actual items hr
  simp [demoU] at hp
  rcases hp with rfl | rfl | rfl <;> simp [demoWorld] at hr <;> obtain ⟨_, rfl⟩ := hr <;> simp [ymlPaths, demoU]

theorem demo_coClosed : CoClosed demoWorld demoU := by
  intro p hp actual items hr f hf ips hps
  simp [demoU] at hp
  rcases hp with rfl | rfl | rfl <;> simp [demoWorld] at hr <;> obtain ⟨_, rfl⟩ := hr <;> simp [coFiles] at hf <;> subst hf <;>
    simp [demoWorld] at hps <;> subst hps <;> simp [demoU]

/-- The loader's loops end on every configuration directory with a finite import graph: `from_path` either fails with the
    error of an unresolvable import / an unparsable file, or returns with every file parsed and every import imported.
    Fuel bound: (files of the directory + files of all importable paths) + |U| + 4. -/
theorem config_load_terminates (w : World) (U : List String) (hU : YmlClosed w U) (hC : CoClosed w U) (items : List Item)
    (hy : ymlPaths items ⊆ U) (hf : ∀ f ∈ coFiles items, ∀ ips, w.parse f = some ips → ips ⊆ U) :
    ∃ r, (∀ n, total w U (initSt items) + U.length + 4 ≤ n → fromPath w n items = some r) ∧ ∀ s', r = .ok s' → Done U s' := by
  obtain ⟨r, hr, hd⟩ := fromPath_terminates hU hC items hy hf _ (Nat.le_refl _)
  refine ⟨r, ?_, hd⟩
  intro n hn
  exact fromPath_mono_le hr hn

example : ymlPaths [Item.co 0] ⊆ demoU ∧ ∀ f ∈ coFiles [Item.co 0], ∀ ips, demoWorld.parse f = some ips → ips ⊆ demoU := by
  refine ⟨by simp [ymlPaths], ?_⟩
  intro f hf ips hps
  simp [coFiles] at hf; subst hf
  simp [demoWorld] at hps; subst hps; simp [demoU]

/-- the form that is checked on every run: the driver evaluates `closedWorld` on the world read off the real file tree (U = the
    import paths that occur in it) and runs `fromPath` with more fuel than the bound; the harness compares the result with what
    the real `RailsConfig.from_path` did. -/
theorem config_load_terminates_checked (w : World) (U : List String) (items : List Item) (h : closedWorld w U items = true) :
    ∃ r, (∀ n, total w U (initSt items) + U.length + 4 ≤ n → fromPath w n items = some r) ∧ ∀ s', r = .ok s' → Done U s' := by
  obtain ⟨hU, hC, hy, hf⟩ := closedWorld_sound h
  exact config_load_terminates w U hU hC items hy hf

example : closedWorld demoWorld demoU [Item.co 0] = true := by decide

/-- the demo configuration really loads (cycle, self-import, repeated imports): 4 files parsed, 3 paths imported -/
def demoResult : St := { importPaths := ["a", "pkg", "b"], imported := [("a", "lib/a.co"), ("pkg", "lib/pkg"), ("b", "lib/b.co")], files := [0, 1, 3, 2], parsed := 4 }

example : fromPath demoWorld 12 [Item.co 0] = some (.ok demoResult) := by decide

/-- `RailsConfig.from_content` (main content + YAML) ends under the same hypotheses: one fuel-independent result. -/
theorem content_load_terminates (w : World) (U : List String) (hU : YmlClosed w U) (hC : CoClosed w U) (yml : List String) (main : Nat)
    (hy : yml ⊆ U) (hf : ∀ ips, w.parse main = some ips → ips ⊆ U) :
    ∃ r, (∀ n, 1 + pend w [] U + U.length + 4 ≤ n → fromContent w n yml main = some r) ∧ ∀ s', r = .ok s' → Done U s' := by
  obtain ⟨r, hr, hd⟩ := fromContent_terminates hU hC yml main hy hf _ (Nat.le_refl _)
  exact ⟨r, fun n hn => fromContent_mono_le hr hn, hd⟩

example : (["a", "a"] : List String) ⊆ demoU ∧ ∀ ips, demoWorld.parse 0 = some ips → ips ⊆ demoU := by
  refine ⟨by simp [demoU], ?_⟩
  intro ips hps
  simp [demoWorld] at hps; subst hps; simp [demoU]

/-- What a successful load has loaded is CLOSED - the fix-point really is one (∀ world, ∀ fuel, no hypothesis): the result
    contains the import paths and files of the directory; every imported path resolved, and its `.yml` import paths and its `.co`
    files are in; every parsed file's imports are in.  -/
theorem config_load_closed (w : World) (n : Nat) (items : List Item) (s' : St) (h : fromPath w n items = some (.ok s')) :
    Cl w s' ∧ ymlPaths items ⊆ s'.importPaths ∧ coFiles items ⊆ s'.files :=
  fromPath_cl n items s' h

/-- ... and, with termination: whenever the loader returns, EVERYTHING reachable from the directory is loaded - every import
    path of the final list resolved and brought in its `.yml` imports and its files, every file of the final list was parsed and
    contributed its imports.  (This is the statement behind the composition clause of the search oracle.) -/
theorem config_load_loads_everything (w : World) (U : List String) (hU : YmlClosed w U) (hC : CoClosed w U) (items : List Item)
    (hy : ymlPaths items ⊆ U) (hf : ∀ f ∈ coFiles items, ∀ ips, w.parse f = some ips → ips ⊆ U)
    (n : Nat) (s' : St) (h : fromPath w n items = some (.ok s')) :
    (ymlPaths items ⊆ s'.importPaths ∧ coFiles items ⊆ s'.files) ∧
    (∀ p ∈ s'.importPaths, ∃ a its, w.resolve p = some (a, its) ∧ ymlPaths its ⊆ s'.importPaths ∧ coFiles its ⊆ s'.files) ∧
    (∀ f ∈ s'.files, ∀ ips, w.parse f = some ips → ips ⊆ s'.importPaths) := by
  obtain ⟨hcl, hr₁, hr₂⟩ := fromPath_cl n items s' h
  obtain ⟨r, hr, hd⟩ := config_load_terminates w U hU hC items hy hf
  have hbig := hr (max n (total w U (initSt items) + U.length + 4)) (Nat.le_max_right _ _)
  have hn : fromPath w (max n (total w U (initSt items) + U.length + 4)) items = some (.ok s') :=
    fromPath_mono_le h (Nat.le_max_left _ _)
  rw [hn] at hbig
  injection hbig with hbig
  have hdone := hd s' hbig.symm
  refine ⟨⟨hr₁, hr₂⟩, ?_, ?_⟩
  · intro p hp
    have hk := hdone.allImported p hp
    simp only [St.keys, List.mem_map] at hk
    obtain ⟨⟨q, a⟩, hqa, rfl⟩ := hk
    obtain ⟨its, h₁, h₂, h₃⟩ := hcl.imp q a hqa
    exact ⟨a, its, h₁, h₂, h₃⟩
  · intro f hfm ips hps
    obtain ⟨i, hi, hfi⟩ := List.getElem_of_mem hfm
    have hi' : i < s'.parsed := by rw [hdone.allParsed]; exact hi
    exact hcl.par i f hi' (by rw [List.getElem?_eq_getElem hi, hfi]) ips hps

/-- As-is characterisation of the exit test `len(imported_paths) == len(import_paths)`: it compares a dict with a list, so
    the loop can return ONLY IF the list has no repetition - the de-duplication in `_join_config` is what termination rests
    on.  (∀ world, ∀ fuel; keys of the dict are distinct and come from the list, as in every reachable state.) -/
theorem load_imports_returns_only_if_nodup (w : World) (s s' : St) (hk : s.keys.Nodup) (hs : s.keys ⊆ s.importPaths) (n : Nat)
    (h : whileLoop w n s = some (.ok s')) : s.importPaths.Nodup := by
  by_contra hd
  exact whileLoop_dup n s s' ⟨hd, hk, hs⟩ h

/-- the append-if-absent join removes repetitions INSIDE the joined list too ... -/
theorem join_paths_nodup (d a : List String) (h : d.Nodup) : (joinPaths d a).Nodup := joinPaths_nodup a h

theorem join_paths_mem (d a : List String) (x : String) : x ∈ joinPaths d a ↔ (x ∈ d ∨ x ∈ a) :=
  ⟨joinPaths_mem_only d a x, joinPaths_mem d a x⟩

/-- ... so writing an import a second time (anywhere behind the first one) changes nothing at all -/
theorem join_duplicate_import_noop (d a₁ a₂ a₃ : List String) (p : String) :
    joinPaths d (a₁ ++ p :: a₂ ++ p :: a₃) = joinPaths d (a₁ ++ p :: a₂ ++ a₃) := by
  have happ : ∀ d x y, joinPaths d (x ++ y) = joinPaths (joinPaths d x) y := by
    intro d x y; simp [joinPaths, List.foldl_append]
  have hmem : p ∈ joinPaths d (a₁ ++ p :: a₂) := joinPaths_mem d _ p (Or.inr (by simp))
  have hstep : joinStep (joinPaths d (a₁ ++ p :: a₂)) p = joinPaths d (a₁ ++ p :: a₂) := by simp [joinStep, hmem]
  calc joinPaths d (a₁ ++ p :: a₂ ++ p :: a₃) = joinPaths d ((a₁ ++ p :: a₂) ++ (p :: a₃)) := by simp
    _ = joinPaths (joinPaths d (a₁ ++ p :: a₂)) (p :: a₃) := happ _ _ _
    _ = joinPaths (joinPaths d (a₁ ++ p :: a₂)) a₃ := by rw [joinPaths_cons, hstep]
    _ = joinPaths d ((a₁ ++ p :: a₂) ++ a₃) := (happ _ _ _).symm
    _ = joinPaths d (a₁ ++ p :: a₂ ++ a₃) := by simp

/-- the join of the seeded change C13-d keeps a repetition inside the joined list ... -/
example : joinFilter [] ["core", "core"] = ["core", "core"] := by decide
example : joinPaths [] ["core", "core"] = ["core"] := by decide

/-- ... and from such a list `_load_imported_paths` never returns: for every world and every fuel it runs out of fuel
    (spins) or stops with an unresolvable import. -/
theorem seeded_join_never_returns (w : World) (n : Nat) (s' : St) :
    whileLoop w n { importPaths := joinFilter [] ["core", "core"], imported := [], files := [0], parsed := 1 } ≠ some (.ok s') := by
  apply whileLoop_dup
  refine ⟨by decide, by simp [St.keys], by simp [St.keys]⟩

/-- (with a world in which `core` resolves it is the spin: out of fuel for EVERY fuel) -/
theorem seeded_join_spins (n : Nat) :
    whileLoop { resolve := fun _ => some ("core.co", [.co 1]), parse := fun _ => some [] } n
      { importPaths := joinFilter [] ["core", "core"], imported := [], files := [0], parsed := 1 } = none := by
  have key : ∀ (n : Nat) (s : St), DupInv s →
      whileLoop { resolve := fun _ => some ("core.co", [.co 1]), parse := fun _ => some [] } n s = none := by
    intro n
    induction n with
    | zero => intro s _; rfl
    | succ n ih =>
      intro s hd
      cases hw : whileLoop { resolve := fun _ => some ("core.co", [.co 1]), parse := fun _ => some [] } (n + 1) s with
      | none => rfl
      | some r =>
        exfalso
        cases r with
        | ok s' => exact whileLoop_dup _ s s' hd hw
        | error e =>
          -- no error is possible in this world: every path resolves
          have noerr : ∀ (m i : Nat) (t : St) (e : Err),
              forLoop { resolve := fun _ => some ("core.co", [.co 1]), parse := fun _ => some [] } m i t ≠ some (.error e) := by
            intro m
            induction m with
            | zero => intro i t e h; simp [forLoop] at h
            | succ m ihm =>
              intro i t e h
              unfold forLoop at h
              cases hg : t.importPaths[i]? with
              | none => rw [hg] at h; simp at h
              | some p =>
                rw [hg] at h; simp only at h
                cases hv : visit { resolve := fun _ => some ("core.co", [.co 1]), parse := fun _ => some [] } t p with
                | error e' => unfold visit at hv; split at hv <;> simp at hv
                | ok t₁ => rw [hv] at h; exact ihm (i + 1) t₁ e h
          unfold whileLoop at hw
          have hlt := length_lt_of_dup hd.knodup hd.ksub hd.dup
          rw [keys_length] at hlt
          rw [if_neg (by omega)] at hw
          cases hf : forLoop { resolve := fun _ => some ("core.co", [.co 1]), parse := fun _ => some [] } n 0 s with
          | none => rw [hf] at hw; simp at hw
          | some r₁ =>
            rw [hf] at hw
            cases r₁ with
            | error e₁ => exact noerr n 0 s e₁ hf
            | ok s₁ =>
              simp only at hw
              rw [ih s₁ (forLoop_dup n 0 s s₁ hd hf)] at hw
              simp at hw
  exact key n _ ⟨by decide, by simp [St.keys], by simp [St.keys]⟩


/-- non-vacuity of `load_imports_terminates` / `load_imports_complete` / `load_imports_returns_only_if_nodup`: a reachable state in
    the middle of a load (one path imported, one pending) satisfies `Inv`, and `_load_imported_paths` returns from it -/
def demoMid : St := { importPaths := ["a", "pkg"], imported := [("a", "lib/a.co")], files := [0, 1], parsed := 1 }
def demoMid' : St := { importPaths := ["a", "pkg"], imported := [("a", "lib/a.co"), ("pkg", "lib/pkg")], files := [0, 1, 3], parsed := 1 }

example : Inv demoU demoMid :=
  ⟨by decide, by simp [demoMid, demoU], by decide, by simp [demoMid, St.keys]⟩

example : whileLoop demoWorld 6 demoMid = some (.ok demoMid') := by decide

/-- `config_load_loads_everything` instantiated at the demo configuration -/
example : ∀ f ∈ demoResult.files, ∀ ips, demoWorld.parse f = some ips → ips ⊆ demoResult.importPaths :=
  (config_load_loads_everything demoWorld demoU demo_ymlClosed demo_coClosed [Item.co 0]
    (by simp [ymlPaths]) (by intro f hf ips hps; simp [coFiles] at hf; subst hf; simp [demoWorld] at hps; subst hps; simp [demoU])
    12 demoResult (by decide)).2.2

/-! ## The comment stripper of the 2.x transformer (`ColangTransformer._remove_source_code_comments`)

  `re.sub(r"#[^\n]*", "", source)` as the linear scanner `CommentStrip.scan` / the fuelled machine `CommentStrip.run`.
  Tie: translator c13regex.py (shape of the function, the pattern), driver op `C13.strip` against every call the real function
  receives while the generated programs are loaded. -/

/-- build-time fact about the generated data: the function under test still uses the mirrored pattern -/
theorem strip_pattern_pinned : Generated.C13Regex.stripPattern = CommentStrip.mirroredPattern := by decide

open NemoVerif.CommentStrip in
/-- **never a hang**: on every source text the pass ends, after exactly one step per character plus one - for every fuel above
    the length of the text the machine returns `strip source` (and with less it cannot have ended: the bound is exact). -/
theorem remove_comments_total (s : List Char) :
    (∀ fuel, s.length < fuel → run fuel (init s) = some (strip s)) ∧ (∀ fuel, fuel ≤ s.length → run fuel (init s) = none) := by
  constructor
  · intro fuel h
    have := run_eq s false [] fuel h
    simpa [init, strip] using this
  · intro fuel h
    exact run_out_of_fuel s false [] fuel h

open NemoVerif.CommentStrip in
/-- the result is comment-free, not longer than the source, and has the same number of line breaks (lines are never joined) -/
theorem remove_comments_result (s : List Char) :
    '#' ∉ strip s ∧ (strip s).length ≤ s.length ∧ (strip s).count '\n' = s.count '\n' :=
  ⟨scan_no_hash s false, scan_length_le s false, scan_count_nl s false⟩

open NemoVerif.CommentStrip in
/-- **strings are kept**: a piece of text without `#` (a string literal of any form - single or triple quoted, over several
    lines, with quotes of the other kind, escapes, interpolations - as long as it contains no `#`) that begins outside a
    comment is copied verbatim, wherever it stands, and what follows it is treated as if the string were not there.
    ∀ prefix, string, suffix.  (Full statement without the `#` hypothesis: false of the code, see the counterexample.) -/
theorem remove_comments_keeps_strings (pre str post : List Char) (hpre : endState false pre = false) (hstr : '#' ∉ str) :
    strip (pre ++ str ++ post) = strip pre ++ str ++ strip post := by
  unfold strip
  have h := scan_false_nohash str hstr
  rw [List.append_assoc, scan_append, hpre, scan_append, h.1, h.2, List.append_assoc]

open NemoVerif.CommentStrip in
/-- a text without `#` is returned as it is -/
theorem remove_comments_id (s : List Char) (h : '#' ∉ s) : strip s = s := (scan_false_nohash s h).1

open NemoVerif.CommentStrip in
/-- the `#` hypothesis of `remove_comments_keeps_strings` is needed: the pinned pattern knows nothing about strings, `bot say "Tip #1"`
    loses the rest of its line (the flows are not affected - only the `source_code` text kept with the flow). -/
theorem remove_comments_keeps_strings_as_is_counterexample :
    strip "  bot say \"Tip #1\"\n  pass".toList = "  bot say \"Tip \n  pass".toList := by decide

open NemoVerif.CommentStrip in
/-- **an end-of-line comment is meaningless for `source_code`**: adding `gap # comment` in front of a line break outside a comment
    leaves exactly the gap behind.  ∀ prefix outside a comment, gap without `#`, comment text without line break, suffix. -/
theorem remove_comments_eol_comment (pre gap c post : List Char) (hpre : endState false pre = false) (hgap : '#' ∉ gap) (hc : '\n' ∉ c) :
    strip (pre ++ gap ++ '#' :: c ++ '\n' :: post) = strip (pre ++ gap ++ '\n' :: post) := by
  unfold strip
  have hg := scan_false_nohash gap hgap
  have hcc := scan_true_nonl c hc
  have e1 : pre ++ gap ++ '#' :: c ++ '\n' :: post = pre ++ (gap ++ ('#' :: (c ++ '\n' :: post))) := by simp
  have e2 : pre ++ gap ++ '\n' :: post = pre ++ (gap ++ '\n' :: post) := by simp
  rw [e1, e2, scan_append, hpre, scan_append, hg.2, scan_append pre, hpre, scan_append gap, hg.2]
  congr 2
  simp only [scan, if_true]
  rw [scan_append, hcc.1, hcc.2]
  simp [scan]

/-- non-vacuity of `remove_comments_keeps_strings` / `remove_comments_eol_comment`: a multi-line single-quoted string with a lone
    double quote and a long tail (the shape of the seeded change C13-e) after a statement, a comment behind it -/
example : CommentStrip.endState false "flow main\n  $t = ".toList = false := by decide
example : '#' ∉ "'''Please note \" the new opening hours\n    Monday to Friday'''".toList := by decide
example : CommentStrip.strip ("flow main\n  $t = ".toList ++ "'''a \" b\n  c'''".toList ++ "  # note\n  pass".toList)
    = "flow main\n  $t = '''a \" b\n  c'''  \n  pass".toList := by decide
example : CommentStrip.run 10 (CommentStrip.init "a # b\nc".toList) = some "a \nc".toList := by decide
example : CommentStrip.run 7 (CommentStrip.init "a # b\nc".toList) = none := by decide

end NemoVerif.C13
