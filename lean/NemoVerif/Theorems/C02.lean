/-
  C02 — output rails gate every LLM-generated bot message, in every turn.

  Property theorems only (model `Models/Pipeline.lean`, lemmas `Lemmas/Pipeline.lean`, tie tests
  `Lemmas/PipelineTie.lean`).  Quantified over all rail lists, verdict functions, texts, dialog /
  exception settings, histories and conversations.  `t.bot` is the text the LLM generates in the
  turn; `gate t.vout cfg.outRails t.bot` is "all configured output rails, in order, each shown the
  text its predecessor left, stopping at the first that does not let it through".
-/
import NemoVerif.Lemmas.Pipeline
import NemoVerif.Lemmas.PipelineV2
import NemoVerif.Lemmas.PipelineTie
import NemoVerif.Lemmas.PipelineCtx
import NemoVerif.Lemmas.PipelineCall

namespace NemoVerif.C02
open NemoVerif NemoVerif.Pipeline

/-! ### Colang 1.0 -/

/-- `output_all_rails`: whatever is uttered in a turn is the fixed refusal, the fixed internal-error
    text, or the LLM text after **all** configured output rails ran on it in order (each one shown its
    predecessor's result) and none blocked; in that case it is uttered in its final rewritten form. -/
theorem output_all_rails_v1 (cfg : Cfg) (h : HistV1) (t : Turn) (hi : WF cfg .input) (ho : WF cfg .output) (hs : h.skip = false)
    (x : Text) (hx : Step.utter x ∈ (turnV1 cfg h t).1) :
    x = refusal ∨ x = internalError ∨
      (railCalls .output (turnV1 cfg h t).1 = gate t.vout cfg.outRails t.bot
        ∧ (gate t.vout cfg.outRails t.bot).map Prod.fst = cfg.outRails
        ∧ (∀ c ∈ gate t.vout cfg.outRails t.bot, (t.vout c.1 c.2).continues = true)
        ∧ x = gateText t.vout cfg.outRails t.bot) := by
  rw [turnV1_eq_spec cfg h t hi ho hs, turnSpecV1_trace] at hx ⊢
  rcases List.mem_append.mp hx with h1 | h1
  · rcases utter_mem_inputTraceV1 cfg t x h1 with h2 | h2
    · exact Or.inl h2
    · exact Or.inr (Or.inl h2)
  · cases hg : gateStop t.vin cfg.inRails t.user with
    | some w => rw [hg] at h1; simp at h1
    | none =>
      rw [hg] at h1
      rcases utter_mem_afterInputV1 cfg t _ x h1 with h2 | h2 | ⟨hf, hso, hxe⟩
      · exact Or.inl h2
      · exact Or.inr (Or.inl h2)
      · refine Or.inr (Or.inr ⟨?_, Pipeline.gate_full _ _ _ hso, Pipeline.gate_all_continue _ _ _ hso, hxe⟩)
        simp [railCalls_output_inputTraceV1, railCalls_output_afterInputV1, hf]

/-- `blocked_never_uttered`: if an invoked output rail does not let the message through (rejects it, or
    fails), nothing but the refusal / internal-error text is uttered, hence nothing else is in the reply. -/
theorem blocked_never_uttered_v1 (cfg : Cfg) (h : HistV1) (t : Turn) (hi : WF cfg .input) (ho : WF cfg .output) (hs : h.skip = false)
    (c : Nat × Text) (hc : c ∈ railCalls .output (turnV1 cfg h t).1) (hb : (t.vout c.1 c.2).continues = false) :
    (∀ x, Step.utter x ∈ (turnV1 cfg h t).1 → x = refusal ∨ x = internalError)
    ∧ (∀ x ∈ (turnV1 cfg h t).2.1.texts, x = refusal ∨ x = internalError) := by
  have hcalls : railCalls .output (turnV1 cfg h t).1 = gate t.vout cfg.outRails t.bot := by
    rw [turnV1_eq_spec cfg h t hi ho hs, turnSpecV1_trace] at hc ⊢
    cases hg : gateStop t.vin cfg.inRails t.user with
    | some w => rw [hg] at hc; simp [railCalls_output_inputTraceV1] at hc
    | none =>
      rw [hg] at hc
      simp only [railCalls_append, railCalls_output_inputTraceV1, railCalls_output_afterInputV1, List.nil_append] at hc ⊢
      by_cases hf : genFaultV1 cfg t = true
      · simp [hf] at hc
      · have hf' : genFaultV1 cfg t = false := by simpa using hf
        simp [hf']
  have hall : ∀ x, Step.utter x ∈ (turnV1 cfg h t).1 → x = refusal ∨ x = internalError := by
    intro x hx
    rcases output_all_rails_v1 cfg h t hi ho hs x hx with h1 | h1 | ⟨_, _, hcont, _⟩
    · exact Or.inl h1
    · exact Or.inr h1
    · rw [hcalls] at hc
      have := hcont c hc
      rw [hb] at this; cases this
  refine ⟨hall, ?_⟩
  intro x hx
  apply hall
  have hsp := turnV1_eq_spec cfg h t hi ho hs
  obtain ⟨raised, hr⟩ := turnSpecV1_reply cfg h t
  rw [hsp] at hx ⊢
  rw [hr] at hx
  exact replyV1_texts_sub _ _ x hx

/-- The reply needs no assumption about the rail flows at all: in Colang 1.0 — even with rail flows
    that forget to `stop` after raising their exception (the as-shipped `self check output`,
    `cfg.stops` arbitrary) — every text in the reply is the refusal, the internal-error text, or the LLM
    text in its final form after every configured output rail let it through. -/
theorem reply_only_checked_text_v1 (cfg : Cfg) (h : HistV1) (t : Turn) (hs : h.skip = false) :
    ∀ x ∈ (turnV1 cfg h t).2.1.texts, x = refusal ∨ x = internalError ∨
      (gateStop t.vout cfg.outRails t.bot = none ∧ x = gateText t.vout cfg.outRails t.bot) := by
  intro x hx
  obtain ⟨raised, hr⟩ := turnV1_reply cfg h t
  have hspec : turnV1 cfg h t = turnSpecV1 cfg h t ∨ excs (turnV1 cfg h t).1 ≠ [] := by
    by_cases he : cfg.exc = true
    · by_cases hxs : excs (turnV1 cfg h t).1 = []
      · exact Or.inl (turnV1_eq_spec_of_no_exc cfg h t he hs hxs)
      · exact Or.inr hxs
    · have he' : cfg.exc = false := by simpa using he
      exact Or.inl (turnV1_eq_spec cfg h t (WF_of_not_exc cfg .input he') (WF_of_not_exc cfg .output he') hs)
  rcases hspec with hsp | hne
  · have hu : Step.utter x ∈ (turnV1 cfg h t).1 := by
      rw [hr] at hx
      exact replyV1_texts_sub _ _ x hx
    rw [hsp] at hu
    exact utter_mem_turnSpecV1 cfg h t x hu
  · rw [hr, replyV1_texts_nil_of_exc _ _ hne] at hx
    cases hx

/-- `rewrite_returned`: when the input rails let the message through, no dialog-side action fails and
    every output rail lets the LLM text through, the reply is exactly that text in its final
    rewritten form. -/
theorem rewrite_returned_v1 (cfg : Cfg) (h : HistV1) (t : Turn) (hi : WF cfg .input) (ho : WF cfg .output) (hs : h.skip = false)
    (hin : gateStop t.vin cfg.inRails t.user = none) (hf : genFaultV1 cfg t = false)
    (hout : gateStop t.vout cfg.outRails t.bot = none) :
    (turnV1 cfg h t).2.1 = { texts := [gateText t.vout cfg.outRails t.bot], exc := none, raised := false } := by
  rw [turnV1_eq_spec cfg h t hi ho hs]
  unfold turnSpecV1 afterInputV1 inputTraceV1
  simp [hin, hf, hout, stopResV1, stopStepsV1, outTailV1, replyV1, utters_genPrefixV1, excs_genPrefixV1, utters, excs]

/-- `later_turns_checked` (state invariant): `$skip_output_rails` is unset at the end of every turn,
    whatever happened in it — for all rail lists, verdicts and faults, well-formed or not. -/
theorem later_turns_checked_v1 (cfg : Cfg) (h : HistV1) (t : Turn) (hs : h.skip = false) :
    (turnV1 cfg h t).2.2.skip = false :=
  turnV1_skip cfg h t hs

/-- … hence in a conversation of any length every turn — whatever was blocked, rewritten or failed
    before it — utters only the refusal, the internal-error text, or fully checked LLM text. -/
theorem every_turn_checked_v1 (cfg : Cfg) (hi : WF cfg .input) (ho : WF cfg .output) :
    ∀ (ts : List Turn) (h : HistV1), h.skip = false →
      ∀ p ∈ List.zip ts (convV1 cfg h ts), ∀ x, Step.utter x ∈ p.2.1 →
        x = refusal ∨ x = internalError ∨
          (railCalls .output p.2.1 = gate p.1.vout cfg.outRails p.1.bot
            ∧ (gate p.1.vout cfg.outRails p.1.bot).map Prod.fst = cfg.outRails
            ∧ x = gateText p.1.vout cfg.outRails p.1.bot)
  | [], _, _ => by simp [convV1]
  | t :: ts, h, hs => by
    intro p hp x hx
    simp only [convV1, List.zip_cons_cons, List.mem_cons] at hp
    rcases hp with rfl | hp
    · rcases output_all_rails_v1 cfg h t hi ho hs x hx with h1 | h1 | ⟨a, b, _, d⟩
      · exact Or.inl h1
      · exact Or.inr (Or.inl h1)
      · exact Or.inr (Or.inr ⟨a, b, d⟩)
    · exact every_turn_checked_v1 cfg hi ho ts _ (turnV1_skip cfg h t hs) p hp x hx

/-- Non-vacuity of `rewrite_returned_v1`: two output rails, the first rewrites, the second accepts. -/
example : ∃ (cfg : Cfg) (t : Turn), WF cfg .input ∧ WF cfg .output ∧ gateStop t.vin cfg.inRails t.user = none
    ∧ genFaultV1 cfg t = false ∧ gateStop t.vout cfg.outRails t.bot = none ∧ gateText t.vout cfg.outRails t.bot = "m" :=
  ⟨{ inRails := [0], outRails := [1, 0], dialog := false, exc := false, stops := fun _ _ => true, flagReset := true },
   { user := "u", bot := "b", intent := .free, actFault := false, retrFault := false,
     vin := fun _ _ => .accept, vout := fun r _ => if r = 1 then .rewrite "m" else .accept },
   fun _ _ => rfl, fun _ _ => rfl, by decide, by decide, by decide, by decide⟩

/-! ### Colang 1.0: the two contexts (`Models/PipelineCtx.lean`)

The flows' context is rebuilt from the visible history (hidden turns removed), the actions' context
(`compute_context(events)`: what rail actions, `$bot_message` parameters and
`StartUtteranceBotAction(script=$bot_message)` read) from ALL `ContextUpdate` events.  The theorems
below are about the event-level program `convE false` (the code as it is) started from an ARBITRARY event
list `es` — any number of earlier turns, hidden or not, whatever values they left on either side — and
an arbitrary conversation `ts` (any texts: repeated, equal to a hidden one, equal to a rejected one; any
verdicts; any faults), with action rails and pure-Colang rails mixed in any order. -/

section TwoContexts
open NemoVerif.PipelineCtx

theorem mem_zip_map {α β : Type} (f : α → β) : ∀ (l : List α) (p : α × β), p ∈ List.zip l (l.map f) → p.2 = f p.1
  | [], _, h => by simp at h
  | a :: l, p, h => by
    simp only [List.map_cons, List.zip_cons_cons, List.mem_cons] at h
    rcases h with rfl | h
    · rfl
    · exact mem_zip_map f l p h

/-- `output_rails_see_current_text`: in every turn of every conversation, the output rails that run — action
    rails reading the action-side context and pure-Colang rails reading the flows' context alike — are
    shown the LLM text of THAT turn, each one the text its predecessor of that turn left (`Chained`);
    the calls are exactly `gate` of the turn's own text (or none, when the turn ended before a bot
    message existed). -/
theorem output_rails_see_current_text (inRails outRails : List Rail) (es : List Ev) (ts : List TurnE) :
    ∀ p ∈ List.zip ts (convE false inRails outRails es ts),
      (p.2.outCalls = [] ∨ p.2.outCalls = gate p.1.vout (ids outRails) p.1.bot)
      ∧ Chained p.1.vout p.1.bot p.2.outCalls := by
  intro p hp
  rw [convE_eq_spec] at hp
  have h := mem_zip_map _ ts p hp
  rw [h]
  unfold specTurn
  split
  · exact ⟨Or.inl rfl, trivial⟩
  · split
    · exact ⟨Or.inl rfl, trivial⟩
    · exact ⟨Or.inr rfl, gate_chained _ _ _⟩

/-- `reply_is_checked_text`: the script uttered by `process bot message` in a turn (resolved on the action
    side) is the text of THAT turn after ALL configured output rails ran on it in order with none
    blocking, in its final rewritten form — never a text of another turn. -/
theorem reply_is_checked_text (inRails outRails : List Rail) (es : List Ev) (ts : List TurnE) :
    ∀ p ∈ List.zip ts (convE false inRails outRails es ts), ∀ x, p.2.uttered = some x →
      p.2.outCalls = gate p.1.vout (ids outRails) p.1.bot
      ∧ (gate p.1.vout (ids outRails) p.1.bot).map Prod.fst = ids outRails
      ∧ (∀ c ∈ gate p.1.vout (ids outRails) p.1.bot, (p.1.vout c.1 c.2).continues = true)
      ∧ x = gateText p.1.vout (ids outRails) p.1.bot := by
  intro p hp x hx
  rw [convE_eq_spec] at hp
  have h := mem_zip_map _ ts p hp
  rw [h] at hx ⊢
  unfold specTurn at hx ⊢
  split at hx
  · simp at hx
  · split at hx
    · simp at hx
    · rename_i hin hdf
      simp only [hin, hdf, outSpec] at hx ⊢
      cases hg : gateStop p.1.vout (ids outRails) p.1.bot with
      | some w => simp [hg] at hx
      | none =>
        simp only [hg, Option.some.injEq] at hx
        exact ⟨by simp, Pipeline.gate_full _ _ _ hg, Pipeline.gate_all_continue _ _ _ hg, hx.symm⟩

/-- non-vacuity of `reply_is_checked_text` and of the repeated-text scenario: the three-turn conversation
    "A passes; B: the second (action) rail raises, the turn is hidden; A again" on the code as it is —
    in turn 3 both rails are shown A and A is uttered. -/
def tA : TurnE := { user := "u1", bot := "A", vin := fun _ _ => .accept, vout := fun _ _ => .accept, dialogFault := false }
def tBfault : TurnE := { user := "u2", bot := "B", vin := fun _ _ => .accept, vout := fun r _ => if r = 1 then .fault else .accept, dialogFault := false }

example : (convE false [] [⟨0, false⟩, ⟨1, false⟩] [] [tA, tBfault, tA]).map (fun o => (o.outCalls, o.uttered))
    = [([(0, "A"), (1, "A")], some "A"), ([(0, "B"), (1, "B")], none), ([(0, "A"), (1, "A")], some "A")] := by decide

/-- The tie to `Pipeline`: for well-formed rails the rail calls of `turnV1` (what the correspondence compares
    with the recorded action invocations) are the calls of the event-level turn, from every event list. -/
theorem turnE_calls_eq_turnV1 (cfg : Cfg) (h : HistV1) (t : Turn) (hi : WF cfg .input) (ho : WF cfg .output) (hs : h.skip = false)
    (inRails outRails : List Rail) (hin : ids inRails = cfg.inRails) (hout : ids outRails = cfg.outRails) (es : List Ev) :
    let o := (turnE false inRails outRails
      { user := t.user, bot := t.bot, vin := t.vin, vout := t.vout, dialogFault := genFaultV1 cfg t } es).1
    railCalls .input (turnV1 cfg h t).1 = o.inCalls ∧ railCalls .output (turnV1 cfg h t).1 = o.outCalls := by
  simp only [turnE_spec, hin, hout]
  refine ⟨?_, ?_⟩
  · rw [turnV1_input_calls cfg h t hi]
    unfold specTurn
    split
    · rfl
    · split <;> rfl
  · rw [turnV1_eq_spec cfg h t hi ho hs, turnSpecV1_trace]
    unfold specTurn
    cases hg : gateStop t.vin cfg.inRails t.user with
    | some w => simp [railCalls_output_inputTraceV1]
    | none =>
      simp only [railCalls_append, railCalls_output_inputTraceV1, railCalls_output_afterInputV1, List.nil_append]
      by_cases hf : genFaultV1 cfg t = true
      · simp [hf]
      · have hf' : genFaultV1 cfg t = false := by simpa using hf
        simp [hf', outSpec]

/-- The seeded variant of `slide` ("a `set` that re-assigns the value the flows already see is not
    published", `drop = true`) does NOT have the property: A passes; B faults in the second rail (hidden);
    A again — the flows see `$bot_message = A` from turn 1, the update is dropped, the action side still
    holds B: in turn 3 both action rails are shown B, and B (never fully checked) is uttered.
    (Kernel-evaluated; the same conversation on the patched code is the replay of seed
    `C02-c-redundant-set-not-recorded`.) -/
theorem redundant_set_dropped_counterexample :
    (convE true [] [⟨0, false⟩, ⟨1, false⟩] [] [tA, tBfault, tA]).map (fun o => (o.outCalls, o.uttered))
      = [([(0, "A"), (1, "A")], some "A"), ([(0, "B"), (1, "B")], none), ([(0, "B"), (1, "B")], some "B")] := by decide

/-- … and with a pure-Colang rail in front the two kinds of rails of ONE turn are shown different texts:
    the pure rail (flow side) sees A, the action rail after it (action side) sees B. -/
theorem redundant_set_dropped_views_differ :
    ((convE true [] [⟨50, true⟩, ⟨1, false⟩] [] [tA, tBfault, tA]).map (fun o => o.outCalls))
      = [[(50, "A"), (1, "A")], [(50, "B"), (1, "B")], [(50, "A"), (1, "B")]] := by decide

/-- `every_call_checked_v1` (generation options per call, `convV1P`): whatever options earlier calls of the conversation
    had, a call utters only the refusal, the internal-error text, or its LLM text after ALL output rails that ITS
    options enable (all configured ones for a call without options) ran on it in order, in the final form. -/
theorem every_call_checked_v1 (cfg : Cfg) (hi : WF cfg .input) (ho : WF cfg .output) :
    ∀ (cs : List (CallOpts × Turn)) (h : HistV1), h.skip = false →
      ∀ p ∈ List.zip cs (convV1P cfg h cs), ∀ x, Step.utter x ∈ p.2.1 →
        x = refusal ∨ x = internalError ∨
          (railCalls .output p.2.1 = gate p.1.2.vout (if p.1.1.output then cfg.outRails else []) p.1.2.bot
            ∧ (gate p.1.2.vout (if p.1.1.output then cfg.outRails else []) p.1.2.bot).map Prod.fst = (if p.1.1.output then cfg.outRails else [])
            ∧ x = gateText p.1.2.vout (if p.1.1.output then cfg.outRails else []) p.1.2.bot)
  | [], _, _ => by simp [convV1P]
  | (o, t) :: cs, h, hs => by
    intro p hp x hx
    simp only [convV1P, List.zip_cons_cons, List.mem_cons] at hp
    have hwi : WF (callCfg cfg o) .input := fun he r => hi he r
    have hwo : WF (callCfg cfg o) .output := fun he r => ho he r
    rcases hp with rfl | hp
    · rcases output_all_rails_v1 (callCfg cfg o) h t hwi hwo hs x hx with h1 | h1 | ⟨a, b, _, d⟩
      · exact Or.inl h1
      · exact Or.inr (Or.inl h1)
      · exact Or.inr (Or.inr ⟨a, b, d⟩)
    · exact every_call_checked_v1 cfg hi ho cs _ (turnV1_skip (callCfg cfg o) h t hs) p hp x hx

end TwoContexts

/-! ### Colang 2.x (guardrails.co) -/

/-- `output_all_rails` (2.x): whatever is uttered in a turn is the fixed refusal, or the LLM text after
    all configured output rails ran on it, in order, and none blocked. -/
theorem output_all_rails_v2 (cfg : Cfg) (h : HistV2) (t : Turn) (hi : WF cfg .input) (ho : WF cfg .output) (hor : h.orip = false)
    (x : Text) (hx : Step.utter x ∈ (turnV2 cfg h t).1) :
    x = refusal ∨
      (x = t.bot
        ∧ railCalls .output (turnV2 cfg h t).1 = gate (n2 t.vout) cfg.outRails t.bot
        ∧ (gate (n2 t.vout) cfg.outRails t.bot).map Prod.fst = cfg.outRails
        ∧ (∀ c ∈ gate (n2 t.vout) cfg.outRails t.bot, (n2 t.vout c.1 c.2).continues = true)) := by
  rw [turnV2_eq_spec cfg h t hi ho hor, turnSpecV2_trace] at hx ⊢
  rcases List.mem_append.mp hx with h1 | h1
  · rcases List.mem_append.mp h1 with h2 | h2
    · simp [railSteps] at h2
    · exact Or.inl (utter_mem_inStopV2 _ _ _ _ x h2)
  · rcases utter_mem_restV2 cfg h t x h1 with h2 | ⟨hb, hin, hout, hcalls⟩
    · exact Or.inl h2
    · refine Or.inr ⟨hb, ?_, Pipeline.gate_full _ _ _ hout, Pipeline.gate_all_continue _ _ _ hout⟩
      simp [hin, inStopV2, railCalls_railSteps_other .output .input (by decide), hcalls, railCalls]

/-- `blocked_never_uttered` (2.x): if an output rail invoked on the LLM text rejects it (or fails), the
    LLM text is not uttered — only the refusal can be. -/
theorem blocked_never_uttered_v2 (cfg : Cfg) (h : HistV2) (t : Turn) (hi : WF cfg .input) (ho : WF cfg .output) (hor : h.orip = false)
    (hb : gateStop (n2 t.vout) cfg.outRails t.bot ≠ none) :
    ∀ x, Step.utter x ∈ (turnV2 cfg h t).1 → x = refusal := by
  intro x hx
  rw [turnV2_eq_spec cfg h t hi ho hor, turnSpecV2_trace] at hx
  rcases List.mem_append.mp hx with h1 | h1
  · rcases List.mem_append.mp h1 with h2 | h2
    · simp [railSteps] at h2
    · exact utter_mem_inStopV2 _ _ _ _ x h2
  · rcases utter_mem_restV2 cfg h t x h1 with h2 | ⟨_, _, hout, _⟩
    · exact h2
    · exact absurd hout hb

/-- `later_turns_checked` (2.x, state invariant): with the repaired `run output rails`
    (`cfg.flagReset`, computed by the translator from the parsed guardrails.co),
    `$output_rails_in_progress` is `False` at the end of every turn, whatever happened in it. -/
theorem later_turns_checked_v2 (cfg : Cfg) (h : HistV2) (t : Turn) (hfr : cfg.flagReset = true) (hor : h.orip = false) :
    (turnV2 cfg h t).2.2.orip = false :=
  turnV2_orip cfg h t hfr hor

/-- … hence every turn of every conversation utters only the refusal or fully checked LLM text. -/
theorem every_turn_checked_v2 (cfg : Cfg) (hfr : cfg.flagReset = true) (hi : WF cfg .input) (ho : WF cfg .output) :
    ∀ (ts : List Turn) (h : HistV2), h.orip = false →
      ∀ p ∈ List.zip ts (convV2 cfg h ts), ∀ x, Step.utter x ∈ p.2.1 →
        x = refusal ∨ (x = p.1.bot ∧ railCalls .output p.2.1 = gate (n2 p.1.vout) cfg.outRails p.1.bot
          ∧ (gate (n2 p.1.vout) cfg.outRails p.1.bot).map Prod.fst = cfg.outRails)
  | [], _, _ => by simp [convV2]
  | t :: ts, h, hor => by
    intro p hp x hx
    simp only [convV2, List.zip_cons_cons, List.mem_cons] at hp
    rcases hp with rfl | hp
    · rcases output_all_rails_v2 cfg h t hi ho hor x hx with h1 | ⟨a, b, c, _⟩
      · exact Or.inl h1
      · exact Or.inr ⟨a, b, c⟩
    · exact every_turn_checked_v2 cfg hfr hi ho ts _ (turnV2_orip cfg h t hfr hor) p hp x hx

/-- The as-shipped discipline (`flagReset = false`: the flag is only reset on the success path) does
    NOT have the property: after a turn whose output rail rejected, the next turn utters the LLM text
    "bad" although its output rail — which would reject it — is never invoked.  (Kernel-evaluated
    witness; it is the two-turn conversation of `harness/corpus/C02/v2_flag_stuck.json`.) -/
theorem v2_as_is_counterexample :
    ∃ (cfg : Cfg) (t1 t2 : Turn), cfg.flagReset = false ∧ WF cfg .input ∧ WF cfg .output ∧
      (∀ x, t2.vout 0 x = .reject) ∧
      let r1 := turnV2 cfg initV2 t1
      let r2 := turnV2 cfg r1.2.2 t2
      Step.utter "bad" ∈ r2.1 ∧ railCalls .output r2.1 = [] ∧ r2.2.1.texts = ["bad"] :=
  ⟨{ inRails := [], outRails := [0], dialog := false, exc := false, stops := fun _ _ => true, flagReset := false },
   { user := "u1", bot := "b1", intent := .free, actFault := false, retrFault := false, vin := fun _ _ => .accept, vout := fun _ _ => .reject },
   { user := "u2", bot := "bad", intent := .free, actFault := false, retrFault := false, vin := fun _ _ => .accept, vout := fun _ _ => .reject },
   rfl, fun _ _ => rfl, fun _ _ => rfl, fun _ => rfl, by decide, by decide, by decide⟩

/-- The as-shipped `self check output` flow of the 2.x library (`abort` nested under `else`:
    `cfg.stops .output r = false`) does NOT have the property in exception mode: the rejected LLM text
    "bad" is uttered — and returned — next to the `OutputRailException`.  (Kernel-evaluated witness;
    `harness/corpus/C02/self_check_output_exception.json` is the same conversation on the real code.) -/
theorem v2_rail_without_abort_counterexample :
    ∃ (cfg : Cfg) (t : Turn), cfg.exc = true ∧ cfg.stops .output 100 = false ∧ t.vout 100 t.bot = .reject ∧
      (turnV2 cfg initV2 t).2.1 = { texts := ["bad"], exc := some .output, raised := false } :=
  ⟨{ inRails := [], outRails := [100], dialog := false, exc := true, stops := fun _ _ => false, flagReset := true },
   { user := "u", bot := "bad", intent := .free, actFault := false, retrFault := false, vin := fun _ _ => .accept, vout := fun _ _ => .reject },
   rfl, rfl, rfl, by decide⟩

section Calls
open NemoVerif.PipelineCall

/-! ### Colang 2.x: calls that end by a propagated exception (`Models/PipelineCall.lean`) -/

/-- `failed_turn_leaves_no_trace` (2.x, the code as it is: every call decodes the state it is handed into a NEW
    object): a call that ends by a propagated exception — the LLM call of a rail or of the generation failed
    (`LLMCallException`), the request was cancelled, at ANY await point — hands nothing back, returns no text,
    leaves the LLMRails instance as it was, and the conversation that goes on from the state the caller was given
    before is exactly the conversation in which the failed call never happened. -/
theorem failed_turn_leaves_no_trace_v2 (cfg : Cfg) (slot : Slot) (given : HistV2) (t : Turn) (f : Fault)
    (hr : (callV2 false cfg slot given t f).reply.raised = true) (cs : List (Turn × Fault)) :
    (callV2 false cfg slot given t f).saved = none
    ∧ (callV2 false cfg slot given t f).reply.texts = []
    ∧ (callV2 false cfg slot given t f).slot = slot
    ∧ convCallsV2 false cfg slot given ((t, f) :: cs)
        = callV2 false cfg slot given t f :: convCallsV2 false cfg slot given cs := by
  have hs := (callV2_saved_none_iff false cfg slot given t f).mpr hr
  refine ⟨hs, callV2_raised_texts false cfg slot given t f hr, callV2_false_slot cfg slot given t f, ?_⟩
  simp [convCallsV2, hs, callV2_false_slot]

/-- … so the next turn from the caller's saved state is fully checked: whatever it utters is the refusal or
    the LLM text of THAT turn after all configured output rails ran on it, in order, and none blocked. -/
theorem next_turn_fully_checked_after_failure_v2 (cfg : Cfg) (slot : Slot) (given : HistV2) (t t' : Turn) (f f' : Fault)
    (hi : WF cfg .input) (ho : WF cfg .output) (hor : given.orip = false)
    (_hr : (callV2 false cfg slot given t f).reply.raised = true)
    (hc : (callV2 false cfg (callV2 false cfg slot given t f).slot given t' f').reply.raised = false)
    (x : Text) (hx : Step.utter x ∈ (callV2 false cfg (callV2 false cfg slot given t f).slot given t' f').steps) :
    x = refusal ∨
      (x = t'.bot
        ∧ railCalls .output (callV2 false cfg (callV2 false cfg slot given t f).slot given t' f').steps = gate (n2 t'.vout) cfg.outRails t'.bot
        ∧ (gate (n2 t'.vout) cfg.outRails t'.bot).map Prod.fst = cfg.outRails
        ∧ (∀ c ∈ gate (n2 t'.vout) cfg.outRails t'.bot, (n2 t'.vout c.1 c.2).continues = true)) := by
  obtain ⟨hst, _, _⟩ := callV2_false_completed cfg _ given t' f' hc
  rw [hst] at hx ⊢
  exact output_all_rails_v2 cfg given t' hi ho hor x hx

/-- `every_call_checked` (2.x): in EVERY conversation through the state API on one LLMRails instance — any number
    of calls, any of them ending by a propagated exception at any await point, the caller going on from the last
    state it was given — a call that raised returns no text, and whatever a completed call utters is the refusal
    or the LLM text of that call after all configured output rails ran on it, in order. -/
theorem every_call_checked_v2 (cfg : Cfg) (hfr : cfg.flagReset = true) (hi : WF cfg .input) (ho : WF cfg .output) :
    ∀ (cs : List (Turn × Fault)) (slot : Slot) (given : HistV2), given.orip = false →
      ∀ p ∈ List.zip cs (convCallsV2 false cfg slot given cs),
        (p.2.reply.raised = true → p.2.reply.texts = [] ∧ p.2.saved = none)
        ∧ (p.2.reply.raised = false → ∀ x, Step.utter x ∈ p.2.steps →
            x = refusal ∨ (x = p.1.1.bot ∧ railCalls .output p.2.steps = gate (n2 p.1.1.vout) cfg.outRails p.1.1.bot
              ∧ (gate (n2 p.1.1.vout) cfg.outRails p.1.1.bot).map Prod.fst = cfg.outRails))
  | [], _, _, _ => by simp [convCallsV2]
  | (t, f) :: cs, slot, given, hor => by
    intro p hp
    simp only [convCallsV2, List.zip_cons_cons, List.mem_cons] at hp
    rcases hp with rfl | hp
    · refine ⟨fun hr => ⟨callV2_raised_texts false cfg slot given t f hr, (callV2_saved_none_iff false cfg slot given t f).mpr hr⟩, ?_⟩
      intro hc x hx
      obtain ⟨hst, _, _⟩ := callV2_false_completed cfg slot given t f hc
      simp only at hx ⊢
      rw [hst] at hx ⊢
      rcases output_all_rails_v2 cfg given t hi ho hor x hx with h1 | ⟨a, b, c, _⟩
      · exact Or.inl h1
      · exact Or.inr ⟨a, b, c⟩
    · exact every_call_checked_v2 cfg hfr hi ho cs _ _ (callV2_false_next_orip cfg hfr slot given hor t f) p hp

/-- non-vacuity: a three-call conversation — completed, failed inside the output rails (the rail's LLM call
    raises), completed — on a well-formed configuration; the third call, made from the state of the first, utters
    the refusal because its output rail rejects "bad". -/
example :
    let cfg : Cfg := { inRails := [], outRails := [0], dialog := false, exc := false, stops := fun _ _ => true, flagReset := true }
    let t1 : Turn := { user := "u1", bot := "b1", intent := .free, actFault := false, retrFault := false, vin := fun _ _ => .accept, vout := fun _ _ => .accept }
    let t2 : Turn := { user := "u2", bot := "b2", intent := .free, actFault := false, retrFault := false, vin := fun _ _ => .accept, vout := fun _ _ => .escape }
    let t3 : Turn := { user := "u3", bot := "bad", intent := .free, actFault := false, retrFault := false, vin := fun _ _ => .accept, vout := fun _ _ => .reject }
    cfg.flagReset = true ∧ WF cfg .input ∧ WF cfg .output ∧
    (convCallsV2 false cfg none initV2 [(t1, {}), (t2, {}), (t3, {})]).map (fun o => (o.reply.raised, o.reply.texts))
      = [(false, ["b1"]), (true, []), (false, [refusal])] :=
  ⟨rfl, fun _ _ => rfl, fun _ _ => rfl, by decide⟩

/-- The "do not decode the state again" variant (`remember = true`: the instance remembers the live object behind
    the last serialized state it returned and continues from it when handed exactly that state) does NOT have the
    property, with the repaired guardrails.co and well-formed rails: the SAME three calls — the second fails inside
    the output rails, which leaves the remembered object with `$output_rails_in_progress = True` — and the third
    call, made from the state returned by the first, utters and returns the LLM text "bad" although its output rail,
    which rejects it, is never invoked.  (Kernel-evaluated; seeded change `C02-e-v2-last-state-object-reused`.) -/
theorem remembered_state_object_counterexample :
    ∃ (cfg : Cfg) (t1 t2 t3 : Turn), cfg.flagReset = true ∧ WF cfg .input ∧ WF cfg .output ∧
      (∀ x, t3.vout 0 x = .reject) ∧
      let outs := convCallsV2 true cfg none initV2 [(t1, {}), (t2, {}), (t3, {})]
      outs.map (fun o => (o.reply.raised, o.reply.texts)) = [(false, ["b1"]), (true, []), (false, ["bad"])]
      ∧ (outs.map (fun o => railCalls .output o.steps)).getLast? = some []
      ∧ (outs.map (fun o => o.obj.orip)) = [false, true, true] :=
  ⟨{ inRails := [], outRails := [0], dialog := false, exc := false, stops := fun _ _ => true, flagReset := true },
   { user := "u1", bot := "b1", intent := .free, actFault := false, retrFault := false, vin := fun _ _ => .accept, vout := fun _ _ => .accept },
   { user := "u2", bot := "b2", intent := .free, actFault := false, retrFault := false, vin := fun _ _ => .accept, vout := fun _ _ => .escape },
   { user := "u3", bot := "bad", intent := .free, actFault := false, retrFault := false, vin := fun _ _ => .accept, vout := fun _ _ => .reject },
   rfl, fun _ _ => rfl, fun _ _ => rfl, fun _ => rfl, by decide, by decide, by decide⟩

/-! #### the caller keeps a live State object (open finding `v2-live-state-object-after-propagated-failure`) -/

/-- The code as it is does NOT have the property when the caller keeps a LIVE State object (the object is handed to
    every call — `generate_async(state=<State>)`, `process_events(events, state)`): the call mutates the caller's
    object; a call that fails inside the output rails (the rail's LLM call raises `LLMCallException`) leaves it with
    `$output_rails_in_progress = True`, and the next call on it utters and returns the LLM text "bad" although its
    output rail, which rejects it, is never invoked — with the repaired guardrails.co (`flagReset`) and well-formed
    rails.  (Kernel-evaluated; `harness/corpus/C02/live_object_after_propagated_failure.json` is the same
    conversation on the real code; open finding `v2-live-state-object-after-propagated-failure`.) -/
theorem live_object_as_is_counterexample :
    ∃ (cfg : Cfg) (t1 t2 t3 : Turn), cfg.flagReset = true ∧ WF cfg .input ∧ WF cfg .output ∧
      (∀ x, t3.vout 0 x = .reject) ∧
      let outs := convLiveV2 false cfg initV2 [(t1, {}), (t2, {}), (t3, {})]
      outs.map (fun o => (o.2.1.raised, o.2.1.texts)) = [(false, ["b1"]), (true, []), (false, ["bad"])]
      ∧ (outs.map (fun o => railCalls .output o.1)).getLast? = some []
      ∧ (outs.map (fun o => o.2.2.orip)) = [false, true, true] :=
  ⟨{ inRails := [], outRails := [0], dialog := false, exc := false, stops := fun _ _ => true, flagReset := true },
   { user := "u1", bot := "b1", intent := .free, actFault := false, retrFault := false, vin := fun _ _ => .accept, vout := fun _ _ => .accept },
   { user := "u2", bot := "b2", intent := .free, actFault := false, retrFault := false, vin := fun _ _ => .accept, vout := fun _ _ => .escape },
   { user := "u3", bot := "bad", intent := .free, actFault := false, retrFault := false, vin := fun _ _ => .accept, vout := fun _ _ => .reject },
   rfl, fun _ _ => rfl, fun _ _ => rfl, fun _ => rfl, by decide, by decide, by decide⟩

/-- `live_object_checked_partial`: with a live object the property holds for the calls made while no call has
    failed inside the output rails, i.e. as long as the object the caller holds has `$output_rails_in_progress`
    unset (full statement — "for every call of every conversation" — is false of the code: see the counterexample). -/
theorem live_object_checked_partial (cfg : Cfg) (obj : HistV2) (t : Turn) (f : Fault) (hi : WF cfg .input) (ho : WF cfg .output)
    (hor : obj.orip = false) (hc : (runObjV2 cfg obj t f).2.1.raised = false)
    (x : Text) (hx : Step.utter x ∈ (runObjV2 cfg obj t f).1) :
    x = refusal ∨ (x = t.bot ∧ railCalls .output (runObjV2 cfg obj t f).1 = gate (n2 t.vout) cfg.outRails t.bot
      ∧ (gate (n2 t.vout) cfg.outRails t.bot).map Prod.fst = cfg.outRails) := by
  have hrun : (runObjV2 cfg obj t f).1 = (turnV2 cfg obj t).1 := by
    unfold runObjV2 at hc ⊢
    cases hcut : f.cut (turnV2 cfg obj t).1 with
    | some pre => simp [hcut, raisedReply] at hc
    | none =>
      simp only [hcut] at hc ⊢
      by_cases hr : (turnV2 cfg obj t).2.1.raised = true
      · simp [hr] at hc
      · simp [hr]
  rw [hrun] at hx ⊢
  rcases output_all_rails_v2 cfg obj t hi ho hor x hx with h1 | ⟨a, b, c, _⟩
  · exact Or.inl h1
  · exact Or.inr ⟨a, b, c⟩

example : (⟨false, false⟩ : HistV2).orip = false := rfl

/-- `live_object_every_call_checked` (2.x, REPAIRED guardrails.co: a new user message resets
    `$output_rails_in_progress`, `fixes/C02-v2-output-rails-flag-new-user-message.diff`): also when the caller keeps one
    live State object, in every conversation — any calls failing at any await point, whatever the object looked like
    before — whatever a completed call utters is the refusal or the LLM text of that call after all configured output
    rails ran on it, in order. -/
theorem live_object_every_call_checked_v2 (cfg : Cfg) (hi : WF cfg .input) (ho : WF cfg .output) :
    ∀ (cs : List (Turn × Fault)) (obj : HistV2),
      ∀ p ∈ List.zip cs (convLiveV2 true cfg obj cs), p.2.2.1.raised = false → ∀ x, Step.utter x ∈ p.2.1 →
        x = refusal ∨ (x = p.1.1.bot ∧ railCalls .output p.2.1 = gate (n2 p.1.1.vout) cfg.outRails p.1.1.bot
          ∧ (gate (n2 p.1.1.vout) cfg.outRails p.1.1.bot).map Prod.fst = cfg.outRails)
  | [], _ => by simp [convLiveV2]
  | (t, f) :: cs, obj => by
    intro p hp
    simp only [convLiveV2, List.zip_cons_cons, List.mem_cons] at hp
    rcases hp with rfl | hp
    · intro hc x hx
      exact live_object_checked_partial cfg (entryV2 true obj) t f hi ho (by simp [entryV2]) hc x hx
    · exact live_object_every_call_checked_v2 cfg hi ho cs _ p hp

/-- non-vacuity + the repaired behaviour on the counterexample's conversation: the third call utters the refusal -/
example :
    let cfg : Cfg := { inRails := [], outRails := [0], dialog := false, exc := false, stops := fun _ _ => true, flagReset := true }
    let t1 : Turn := { user := "u1", bot := "b1", intent := .free, actFault := false, retrFault := false, vin := fun _ _ => .accept, vout := fun _ _ => .accept }
    let t2 : Turn := { user := "u2", bot := "b2", intent := .free, actFault := false, retrFault := false, vin := fun _ _ => .accept, vout := fun _ _ => .escape }
    let t3 : Turn := { user := "u3", bot := "bad", intent := .free, actFault := false, retrFault := false, vin := fun _ _ => .accept, vout := fun _ _ => .reject }
    WF cfg .input ∧ WF cfg .output ∧
    (convLiveV2 true cfg initV2 [(t1, {}), (t2, {}), (t3, {})]).map (fun o => (o.2.1.raised, o.2.1.texts))
      = [(false, ["b1"]), (true, []), (false, [refusal])] :=
  ⟨fun _ _ => rfl, fun _ _ => rfl, by decide⟩

end Calls

end NemoVerif.C02
