/-
  C19 — embedding search returns each query's own embedding under caching and batching.
  Property theorems only (lemmas: Lemmas/Embed.lean, model: Models/Embed.lean).

  Quantification: every theorem is over arbitrary types of texts `α`, cache keys `κ`, vectors `β`,
  an arbitrary key generator `g`, an arbitrary pointwise embedding model `f`, arbitrary text lists
  (duplicates and the empty string are ordinary elements of `α`), arbitrary initial store contents,
  batch size `max`, and — for the batching theorems — ALL schedules: `Reachable` closes the initial
  state under every enabled atomic section in every order (hold timer and model latency are
  environment steps that may fire at any time).
-/
import NemoVerif.Lemmas.Embed
import NemoVerif.Lemmas.EmbedProgress
namespace NemoVerif.C19
open NemoVerif NemoVerif.Embed

variable {α κ β : Type} [DecidableEq α] [DecidableEq κ]

/-! ### the cache wrapper -/

/-- `cache_embeddings`: for every cache configuration (off / per-call store / persistent store), if the
    key generator does not confuse two texts of the universe `U` and the store only holds correct
    entries, the decorated function returns the model's vector of every text **in input order**, and
    the store is again correct afterwards. -/
theorem cached_correct (cfg : CacheCfg) (U : α → Prop) (g : α → κ) (f : α → β) (store : Dict κ β) (texts : List α)
    (hinj : InjOn g U) (hs : StoreOK U g f store) (hU : ∀ t ∈ texts, U t) :
    (cachedCall cfg g f store texts).2 = texts.map (fun t => some (f t)) ∧
    StoreOK U g f (cachedCall cfg g f store texts).1 := by
  obtain ⟨hp, htx⟩ := beginCall_spec cfg U g f store texts hs hU
  have := endCall_spec cfg U g f hinj store _ hs hp (beginCall_shape cfg g store texts)
  unfold cachedCall
  simp only []
  rw [htx] at this
  exact this

/-- … hence for every sequence of calls on the same store (induction over the sequence). -/
theorem cached_calls_correct (cfg : CacheCfg) (U : α → Prop) (g : α → κ) (f : α → β) (hinj : InjOn g U)
    (calls : List (List α)) : ∀ (store : Dict κ β), StoreOK U g f store → (∀ ts ∈ calls, ∀ t ∈ ts, U t) →
      (cachedCalls cfg g f store calls).2 = calls.map (fun ts => ts.map (fun t => some (f t))) ∧
      StoreOK U g f (cachedCalls cfg g f store calls).1 := by
  induction calls with
  | nil => intro store hs _; exact ⟨rfl, hs⟩
  | cons ts rest ih =>
    intro store hs hU
    obtain ⟨h1, h2⟩ := cached_correct cfg U g f store ts hinj hs (hU ts (by simp))
    obtain ⟨h3, h4⟩ := ih _ h2 (fun ts' h => hU ts' (List.mem_cons_of_mem _ h))
    simp only [cachedCalls, List.map_cons]
    exact ⟨by rw [h1, h3], h4⟩

/-- The two halves of the wrapper separately, with an arbitrary (correct) store at the second half:
    other calls may have written to the store while this one was awaiting the model. -/
theorem cached_correct_interleaved (cfg : CacheCfg) (U : α → Prop) (g : α → κ) (f : α → β) (hinj : InjOn g U)
    (store₁ store₂ : Dict κ β) (texts : List α) (h₁ : StoreOK U g f store₁) (h₂ : StoreOK U g f store₂)
    (hU : ∀ t ∈ texts, U t) :
    (endCall cfg g store₂ (beginCall cfg g store₁ texts) ((beginCall cfg g store₁ texts).uncached.map f)).2
      = texts.map (fun t => some (f t)) ∧
    StoreOK U g f (endCall cfg g store₂ (beginCall cfg g store₁ texts) ((beginCall cfg g store₁ texts).uncached.map f)).1 := by
  obtain ⟨hp, htx⟩ := beginCall_spec cfg U g f store₁ texts h₁ hU
  have := endCall_spec cfg U g f hinj store₂ _ h₂ hp (beginCall_shape cfg g store₁ texts)
  rw [htx] at this
  exact this

/-- non-vacuity of `cached_correct`: two texts, a duplicate, the empty string, a store that already
    holds one of them (finite fact, by evaluation). -/
example :
    let g : String → Nat := String.length
    let f : String → Nat := fun s => s.length + 7
    (cachedCall { enabled := true, persistent := true } g f [(1, 8)] ["a", "", "a", "bb"]).2
      = [some 8, some 7, some 8, some 9] := by decide

/-- Why `InjOn` is a hypothesis and not a theorem: with a key generator that confuses two texts
    (here: by length) the wrapper returns the other text's vector (finite fact, by evaluation).
    Hash/MD5 collisions are outside the model (DESIGN §7 C19 "not modelled"). -/
theorem cached_needs_injective_keys :
    (cachedCall { enabled := true, persistent := true } (String.length) (fun s : String => s) [] ["ab", "cd"]).2
      ≠ [some "ab", some "cd"] := by decide

/-! ### request batching: safety under every schedule -/

/-- **batch_safety.**  In every state reachable under any schedule — any batch size, any arrival order,
    any moment at which the hold timer fires or the model answers, any number of concurrent batched
    requests and direct `_get_embeddings` calls sharing the cache store — every vector that has been
    returned to a batched request is the model's vector of that request's own text, every direct call
    that has returned did so with the vectors of its texts in input order, and the store is correct. -/
theorem batch_safety (cfg : CacheCfg) (max : Nat) (U : α → Prop) (g : α → κ) (f : α → β) (hinj : InjOn g U)
    (reqTexts : List α) (directTexts : List (List α)) (store0 : Dict κ β)
    (hr : ∀ t ∈ reqTexts, U t) (hd : ∀ ts ∈ directTexts, ∀ t ∈ ts, U t) (hs : StoreOK U g f store0)
    (s : State α κ β) (h : Reachable cfg max g f reqTexts directTexts store0 s) :
    (∀ r ∈ s.reqs, ∀ v, r.pc = .done v → v = some (f r.text)) ∧
    (∀ d ∈ s.directs, ∀ res, d.pc = .done res → res = d.texts.map (fun t => some (f t))) ∧
    StoreOK U g f s.store := by
  have hI := inv_reachable (cfg := cfg) hinj hr hd hs h
  refine ⟨?_, ?_, hI.store⟩
  · intro r hr v hpc
    have := hI.reqs r hr
    simpa [ReqOK, hpc] using this
  · intro d hd res hpc
    have := (hI.directs d hd).2
    simpa [hpc] using this

/-- The invariant behind `batch_safety`, stated on the shared fields: whenever `_req_results[id]` is
    set it holds the model's vector of the text that was enqueued under `id` (`s.log` is the ghost
    record "text of request id k"), everything in `_req_queue` is filed under its own id, and a
    request suspended on a finished event holds an id that is its own. -/
theorem batch_results_own (cfg : CacheCfg) (max : Nat) (U : α → Prop) (g : α → κ) (f : α → β) (hinj : InjOn g U)
    (reqTexts : List α) (directTexts : List (List α)) (store0 : Dict κ β)
    (hr : ∀ t ∈ reqTexts, U t) (hd : ∀ ts ∈ directTexts, ∀ t ∈ ts, U t) (hs : StoreOK U g f store0)
    (s : State α κ β) (h : Reachable cfg max g f reqTexts directTexts store0 s) :
    s.idx = s.log.length ∧
    (∀ id v, (id, v) ∈ s.results → ∃ t, s.log[id]? = some t ∧ v = some (f t)) ∧
    (∀ id t, (id, t) ∈ s.queue → s.log[id]? = some t) ∧
    (∀ r ∈ s.reqs, ∀ ev id, r.pc = .waitFin ev id → s.log[id]? = some r.text) := by
  have hI := inv_reachable (cfg := cfg) hinj hr hd hs h
  refine ⟨hI.idx, fun id v hm => hI.results (id, v) hm, fun id t hm => hI.queue (id, t) hm, ?_⟩
  intro r hr ev id hpc
  have := hI.reqs r hr
  simpa [ReqOK, hpc] using this

/-! ### request batching: progress ("every concurrent request completes") -/

/-- **No task ever faults or spins** (for `max_batch_size ≥ 1`), under every schedule: no request task hits
    the `KeyError` on `_req_results[req_id]` or an `AttributeError` on a `None` event, no request is caught in
    the `while … await submitted.wait()` loop with the event set (which would be a busy loop that never
    yields), no batch task dies (which would leave its requests waiting forever). -/
theorem batch_no_fault (cfg : CacheCfg) (max : Nat) (hmax : 1 ≤ max) (g : α → κ) (f : α → β)
    (reqTexts : List α) (directTexts : List (List α)) (store0 : Dict κ β)
    (s : State α κ β) (h : Reachable cfg max g f reqTexts directTexts store0 s) :
    (∀ r ∈ s.reqs, r.pc ≠ .spin ∧ r.pc ≠ .crashed) ∧ (∀ b ∈ s.batches, b ≠ BPc.crashed) := by
  have hP := pinv_reachable (cfg := cfg) hmax h
  constructor
  · intro r hr
    obtain ⟨i, hi⟩ := List.mem_iff_getElem?.1 hr
    have := hP.reqs i r hi
    constructor <;> intro hpc <;> simp [RInv, hpc] at this
  · intro b hb hbc
    obtain ⟨i, hi⟩ := List.mem_iff_getElem?.1 hb
    exact hP.noCrashB i (by rw [hi, hbc])

/-- **Deadlock freedom**: in every reachable state in which no atomic section is enabled, every request
    and every direct call has returned. -/
theorem batch_deadlock_free (cfg : CacheCfg) (max : Nat) (hmax : 1 ≤ max) (g : α → κ) (f : α → β)
    (reqTexts : List α) (directTexts : List (List α)) (store0 : Dict κ β)
    (s : State α κ β) (h : Reachable cfg max g f reqTexts directTexts store0 s)
    (hstuck : ∀ l, step cfg max g f s l = none) : AllDone s :=
  deadlock_free g f (pinv_reachable (cfg := cfg) hmax h) hstuck

/-- **Every step strictly decreases a natural-number measure** (no hypothesis at all), so no schedule is
    infinite: there is no livelock, and fairness assumptions are not needed. -/
theorem batch_step_decreases (cfg : CacheCfg) (max : Nat) (g : α → κ) (f : α → β) (s s' : State α κ β) (l : Label)
    (hs : step cfg max g f s l = some s') : measure s' < measure s :=
  measure_step g f l hs

/-- every schedule from `s` has at most `measure s` steps -/
theorem batch_schedule_bounded (cfg : CacheCfg) (max : Nat) (g : α → κ) (f : α → β) (s s' : State α κ β)
    (ls : List Label) (hr : run cfg max g f s ls = some s') : ls.length ≤ measure s := by
  have := measure_run g f ls s s' hr
  omega

/-- closed form: an index started with `N` batched requests and `D` direct calls runs at most
    `N·(3N+5) + 2D` atomic sections, whatever the schedule -/
theorem batch_schedule_length (cfg : CacheCfg) (max : Nat) (g : α → κ) (f : α → β) (reqTexts : List α)
    (directTexts : List (List α)) (store0 : Dict κ β) (s' : State α κ β) (ls : List Label)
    (hr : run cfg max g f (init reqTexts directTexts store0) ls = some s') :
    ls.length ≤ reqTexts.length * (3 * (reqTexts.length + 1) + 2) + 2 * directTexts.length := by
  have := batch_schedule_bounded cfg max g f _ s' ls hr
  rw [measure_init] at this
  exact this

/-- **batch_progress.**  Take any schedule of the index started with any requests / direct calls — it is
    finite (`batch_schedule_bounded`) — and follow it until nothing more can run: then every request and
    every direct call has completed, each batched request with the model's vector of its own text and each
    direct call with the vectors of its texts in input order. -/
theorem batch_progress (cfg : CacheCfg) (max : Nat) (hmax : 1 ≤ max) (U : α → Prop) (g : α → κ) (f : α → β)
    (hinj : InjOn g U) (reqTexts : List α) (directTexts : List (List α)) (store0 : Dict κ β)
    (hr : ∀ t ∈ reqTexts, U t) (hd : ∀ ts ∈ directTexts, ∀ t ∈ ts, U t) (hs : StoreOK U g f store0)
    (ls : List Label) (s' : State α κ β)
    (hrun : run cfg max g f (init reqTexts directTexts store0) ls = some s')
    (hmaximal : ∀ l, step cfg max g f s' l = none) :
    (∀ r ∈ s'.reqs, r.pc = .done (some (f r.text))) ∧
    (∀ d ∈ s'.directs, d.pc = .done (d.texts.map (fun t => some (f t)))) := by
  have hreach := reachable_run ls _ s' (Reachable.init (cfg := cfg) (max := max) (g := g) (f := f)
    (reqTexts := reqTexts) (directTexts := directTexts) (store0 := store0)) hrun
  obtain ⟨h1, h2⟩ := batch_deadlock_free cfg max hmax g f reqTexts directTexts store0 s' hreach hmaximal
  obtain ⟨s1, s2, _⟩ := batch_safety cfg max U g f hinj reqTexts directTexts store0 hr hd hs s' hreach
  constructor
  · intro r hr'
    obtain ⟨v, hv⟩ := h1 r hr'
    rw [hv, s1 r hr' v hv]
  · intro d hd'
    obtain ⟨res, hres⟩ := h2 d hd'
    rw [hres, s2 d hd' res hres]

/-- non-vacuity of the batching theorems: a concrete schedule of three requests (a duplicate text),
    batch size 2, persistent cache — two wait in one batch, the third waits for `submitted`, is woken by
    the take, starts a second batch; the run ends with nothing enabled for the tasks and every request
    holding its own vector (finite fact, by evaluation). -/
example :
    let cfg : CacheCfg := { enabled := true, persistent := true }
    let g : String → Nat := String.length
    let f : String → Nat := fun s => s.length + 7
    ((run cfg 2 g f (init ["a", "bb", "a"] [] [])
      [.enter 0, .enter 1, .enter 2, .bstart 0, .take 0 false, .enter 2, .bstart 1, .finish 0, .collect 1,
       .take 1 true, .collect 0, .finish 1, .collect 2]).map (fun s => s.reqs.map (·.pc)))
      = some [.done (some 8), .done (some 9), .done (some 8)] := by decide

/-- `max_batch_size = 0` is outside the theorems' range for a reason: the first request waits for
    `submitted`, and there is no batch task that could ever set it (finite fact, by evaluation). -/
example :
    ((run { enabled := false, persistent := false } 0 (fun s : String => s) (fun s : String => s)
        (init ["a"] [] []) [.enter 0]).map (fun s => (s.reqs.map (·.pc), s.batches.length)))
      = some ([.waitSub], 0) := by decide

end NemoVerif.C19
