/-
  C19 — embedding search returns each query's own embedding under caching and batching.
  Property theorems only (lemmas: Lemmas/Embed.lean, model: Models/Embed.lean).

  Quantification: every theorem is over arbitrary types of texts `α`, cache keys `κ`, vectors `β`,
  an arbitrary key generator `g`, an arbitrary pointwise embedding model `f`, arbitrary text lists
  (duplicates and the empty string are ordinary elements of `α`), arbitrary initial store contents,
  batch size `max`, and — for the batching theorems — ALL schedules: `Reachable` closes the initial
  state under every enabled atomic section in every order (hold timer and model latency are
  environment steps that may fire at any time).
-/
import NemoVerif.Lemmas.Embed
namespace NemoVerif.C19
open NemoVerif NemoVerif.Embed

variable {α κ β : Type} [DecidableEq α] [DecidableEq κ]

/-! ### the cache wrapper -/

/-- `cache_embeddings`: for every cache configuration (off / per-call store / persistent store), if the
    key generator does not confuse two texts of the universe `U` and the store only holds correct
    entries, the decorated function returns the model's vector of every text **in input order**, and
    the store is again correct afterwards. -/
theorem cached_correct (cfg : CacheCfg) (U : α → Prop) (g : α → κ) (f : α → β) (store : Dict κ β) (texts : List α)
    (hinj : InjOn g U) (hs : StoreOK U g f store) (hU : ∀ t ∈ texts, U t) :
    (cachedCall cfg g f store texts).2 = texts.map (fun t => some (f t)) ∧
    StoreOK U g f (cachedCall cfg g f store texts).1 := by
  obtain ⟨hp, htx⟩ := beginCall_spec cfg U g f store texts hs hU
  have := endCall_spec cfg U g f hinj store _ hs hp (beginCall_shape cfg g store texts)
  unfold cachedCall
  simp only []
  rw [htx] at this
  exact this

/-- … hence for every sequence of calls on the same store (induction over the sequence). -/
theorem cached_calls_correct (cfg : CacheCfg) (U : α → Prop) (g : α → κ) (f : α → β) (hinj : InjOn g U)
    (calls : List (List α)) : ∀ (store : Dict κ β), StoreOK U g f store → (∀ ts ∈ calls, ∀ t ∈ ts, U t) →
      (cachedCalls cfg g f store calls).2 = calls.map (fun ts => ts.map (fun t => some (f t))) ∧
      StoreOK U g f (cachedCalls cfg g f store calls).1 := by
  induction calls with
  | nil => intro store hs _; exact ⟨rfl, hs⟩
  | cons ts rest ih =>
    intro store hs hU
    obtain ⟨h1, h2⟩ := cached_correct cfg U g f store ts hinj hs (hU ts (by simp))
    obtain ⟨h3, h4⟩ := ih _ h2 (fun ts' h => hU ts' (List.mem_cons_of_mem _ h))
    simp only [cachedCalls, List.map_cons]
    exact ⟨by rw [h1, h3], h4⟩

/-- The two halves of the wrapper separately, with an arbitrary (correct) store at the second half:
    other calls may have written to the store while this one was awaiting the model. -/
theorem cached_correct_interleaved (cfg : CacheCfg) (U : α → Prop) (g : α → κ) (f : α → β) (hinj : InjOn g U)
    (store₁ store₂ : Dict κ β) (texts : List α) (h₁ : StoreOK U g f store₁) (h₂ : StoreOK U g f store₂)
    (hU : ∀ t ∈ texts, U t) :
    (endCall cfg g store₂ (beginCall cfg g store₁ texts) ((beginCall cfg g store₁ texts).uncached.map f)).2
      = texts.map (fun t => some (f t)) ∧
    StoreOK U g f (endCall cfg g store₂ (beginCall cfg g store₁ texts) ((beginCall cfg g store₁ texts).uncached.map f)).1 := by
  obtain ⟨hp, htx⟩ := beginCall_spec cfg U g f store₁ texts h₁ hU
  have := endCall_spec cfg U g f hinj store₂ _ h₂ hp (beginCall_shape cfg g store₁ texts)
  rw [htx] at this
  exact this

/-- non-vacuity of `cached_correct`: two texts, a duplicate, the empty string, a store that already
    holds one of them (finite fact, by evaluation). -/
example :
    let g : String → Nat := String.length
    let f : String → Nat := fun s => s.length + 7
    (cachedCall { enabled := true, persistent := true } g f [(1, 8)] ["a", "", "a", "bb"]).2
      = [some 8, some 7, some 8, some 9] := by decide

/-- Why `InjOn` is a hypothesis and not a theorem: with a key generator that confuses two texts
    (here: by length) the wrapper returns the other text's vector (finite fact, by evaluation).
    Hash/MD5 collisions are outside the model (DESIGN §7 C19 "not modelled"). -/
theorem cached_needs_injective_keys :
    (cachedCall { enabled := true, persistent := true } (String.length) (fun s : String => s) [] ["ab", "cd"]).2
      ≠ [some "ab", some "cd"] := by decide

/-! ### request batching: safety under every schedule -/

/-- **batch_safety.**  In every state reachable under any schedule — any batch size, any arrival order,
    any moment at which the hold timer fires or the model answers, any number of concurrent batched
    requests and direct `_get_embeddings` calls sharing the cache store — every vector that has been
    returned to a batched request is the model's vector of that request's own text, every direct call
    that has returned did so with the vectors of its texts in input order, and the store is correct. -/
theorem batch_safety (cfg : CacheCfg) (max : Nat) (U : α → Prop) (g : α → κ) (f : α → β) (hinj : InjOn g U)
    (reqTexts : List α) (directTexts : List (List α)) (store0 : Dict κ β)
    (hr : ∀ t ∈ reqTexts, U t) (hd : ∀ ts ∈ directTexts, ∀ t ∈ ts, U t) (hs : StoreOK U g f store0)
    (s : State α κ β) (h : Reachable cfg max g f reqTexts directTexts store0 s) :
    (∀ r ∈ s.reqs, ∀ v, r.pc = .done v → v = some (f r.text)) ∧
    (∀ d ∈ s.directs, ∀ res, d.pc = .done res → res = d.texts.map (fun t => some (f t))) ∧
    StoreOK U g f s.store := by
  have hI := inv_reachable (cfg := cfg) hinj hr hd hs h
  refine ⟨?_, ?_, hI.store⟩
  · intro r hr v hpc
    have := hI.reqs r hr
    simpa [ReqOK, hpc] using this
  · intro d hd res hpc
    have := (hI.directs d hd).2
    simpa [hpc] using this

/-- The invariant behind `batch_safety`, stated on the shared fields: whenever `_req_results[id]` is
    set it holds the model's vector of the text that was enqueued under `id` (`s.log` is the ghost
    record "text of request id k"), everything in `_req_queue` is filed under its own id, and a
    request suspended on a finished event holds an id that is its own. -/
theorem batch_results_own (cfg : CacheCfg) (max : Nat) (U : α → Prop) (g : α → κ) (f : α → β) (hinj : InjOn g U)
    (reqTexts : List α) (directTexts : List (List α)) (store0 : Dict κ β)
    (hr : ∀ t ∈ reqTexts, U t) (hd : ∀ ts ∈ directTexts, ∀ t ∈ ts, U t) (hs : StoreOK U g f store0)
    (s : State α κ β) (h : Reachable cfg max g f reqTexts directTexts store0 s) :
    s.idx = s.log.length ∧
    (∀ id v, (id, v) ∈ s.results → ∃ t, s.log[id]? = some t ∧ v = some (f t)) ∧
    (∀ id t, (id, t) ∈ s.queue → s.log[id]? = some t) ∧
    (∀ r ∈ s.reqs, ∀ ev id, r.pc = .waitFin ev id → s.log[id]? = some r.text) := by
  have hI := inv_reachable (cfg := cfg) hinj hr hd hs h
  refine ⟨hI.idx, fun id v hm => hI.results (id, v) hm, fun id t hm => hI.queue (id, t) hm, ?_⟩
  intro r hr ev id hpc
  have := hI.reqs r hr
  simpa [ReqOK, hpc] using this

end NemoVerif.C19
