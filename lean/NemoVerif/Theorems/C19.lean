/-
  C19 — embedding search returns each query's own embedding under caching and batching.
  Property theorems only (lemmas: Lemmas/Embed.lean, model: Models/Embed.lean).

  Quantification: every theorem is over arbitrary types of texts `α`, cache keys `κ`, vectors `β`,
  an arbitrary key generator `g`, an arbitrary pointwise embedding model `f`, arbitrary text lists
  (duplicates and the empty string are ordinary elements of `α`), arbitrary initial store contents,
  batch size `max`, and — for the batching theorems — ALL schedules: `Reachable` closes the initial
  state under every enabled atomic section in every order (hold timer and model latency are
  environment steps that may fire at any time).
-/
import NemoVerif.Lemmas.Embed
import NemoVerif.Lemmas.EmbedProgress
import NemoVerif.Lemmas.EmbedMulti
namespace NemoVerif.C19
open NemoVerif NemoVerif.Embed

variable {α κ β : Type} [DecidableEq α] [DecidableEq κ]

/-! ### the cache wrapper -/

/-- `cache_embeddings`: for every cache configuration (off / per-call store / persistent store), if the
    key generator does not confuse two texts of the universe `U` and the store only holds correct
    entries, the decorated function returns the model's vector of every text **in input order**, and
    the store is again correct afterwards. -/
theorem cached_correct (cfg : CacheCfg) (U : α → Prop) (g : α → κ) (f : α → β) (store : Dict κ β) (texts : List α)
    (hinj : InjOn g U) (hs : StoreOK U g f store) (hU : ∀ t ∈ texts, U t) :
    (cachedCall cfg g f store texts).2 = texts.map (fun t => some (f t)) ∧
    StoreOK U g f (cachedCall cfg g f store texts).1 := by
  obtain ⟨hp, htx⟩ := beginCall_spec cfg U g f store texts hs hU
  have := endCall_spec cfg U g f hinj store _ hs hp (beginCall_shape cfg g store texts)
  unfold cachedCall
  simp only []
  rw [htx] at this
  exact this

/-- … hence for every sequence of calls on the same store (induction over the sequence). -/
theorem cached_calls_correct (cfg : CacheCfg) (U : α → Prop) (g : α → κ) (f : α → β) (hinj : InjOn g U)
    (calls : List (List α)) : ∀ (store : Dict κ β), StoreOK U g f store → (∀ ts ∈ calls, ∀ t ∈ ts, U t) →
      (cachedCalls cfg g f store calls).2 = calls.map (fun ts => ts.map (fun t => some (f t))) ∧
      StoreOK U g f (cachedCalls cfg g f store calls).1 := by
  induction calls with
  | nil => intro store hs _; exact ⟨rfl, hs⟩
  | cons ts rest ih =>
    intro store hs hU
    obtain ⟨h1, h2⟩ := cached_correct cfg U g f store ts hinj hs (hU ts (by simp))
    obtain ⟨h3, h4⟩ := ih _ h2 (fun ts' h => hU ts' (List.mem_cons_of_mem _ h))
    simp only [cachedCalls, List.map_cons]
    exact ⟨by rw [h1, h3], h4⟩

/-- The two halves of the wrapper separately, with an arbitrary (correct) store at the second half:
    other calls may have written to the store while this one was awaiting the model. -/
theorem cached_correct_interleaved (cfg : CacheCfg) (U : α → Prop) (g : α → κ) (f : α → β) (hinj : InjOn g U)
    (store₁ store₂ : Dict κ β) (texts : List α) (h₁ : StoreOK U g f store₁) (h₂ : StoreOK U g f store₂)
    (hU : ∀ t ∈ texts, U t) :
    (endCall cfg g store₂ (beginCall cfg g store₁ texts) ((beginCall cfg g store₁ texts).uncached.map f)).2
      = texts.map (fun t => some (f t)) ∧
    StoreOK U g f (endCall cfg g store₂ (beginCall cfg g store₁ texts) ((beginCall cfg g store₁ texts).uncached.map f)).1 := by
  obtain ⟨hp, htx⟩ := beginCall_spec cfg U g f store₁ texts h₁ hU
  have := endCall_spec cfg U g f hinj store₂ _ h₂ hp (beginCall_shape cfg g store₁ texts)
  rw [htx] at this
  exact this

/-- non-vacuity of `cached_correct`: two texts, a duplicate, the empty string, a store that already
    holds one of them (finite fact, by evaluation). -/
example :
    let g : String → Nat := String.length
    let f : String → Nat := fun s => s.length + 7
    (cachedCall { enabled := true, persistent := true } g f [(1, 8)] ["a", "", "a", "bb"]).2
      = [some 8, some 7, some 8, some 9] := by decide

/-- Why `InjOn` is a hypothesis and not a theorem: with a key generator that confuses two texts
    (here: by length) the wrapper returns the other text's vector (finite fact, by evaluation).
    Hash/MD5 collisions are outside the model (DESIGN §7 C19 "not modelled"). -/
theorem cached_needs_injective_keys :
    (cachedCall { enabled := true, persistent := true } (String.length) (fun s : String => s) [] ["ab", "cd"]).2
      ≠ [some "ab", some "cd"] := by decide

/-! ### several indexes (models, key generators, cache configurations, store locations) in one process -/

/-- **cached_correct_multi.**  Any number of indexes, each with its own embedding model `f`, key generator `g`
    and cache configuration, the stores identified by location; ANY interleaving of their calls at the
    granularity of the wrapper's two atomic sections (`begin i texts` … model awaited, other calls of any
    index run … `finish k`).  PROVIDED two indexes using one store location never produce the same key for
    texts their models embed differently — `NoForeignShare`: true when stores are not shared between indexes
    with different models, and true of the repaired key derivation (model identity in the key) whatever is
    shared; evaluated by the harness on the real store objects, real keys and model vectors of every case —
    every call that has returned, returned the CALLING index's model's vector of each of its texts in
    input order, and every location is still correct for every index using it.
    Without the hypothesis the statement is false of the code: `cached_multi_shared_store_as_is_counterexample`. -/
theorem cached_correct_multi (U : α → Prop) (ixs : List (IndexCfg α κ β)) (hinj : ∀ a ∈ ixs, InjOn a.g U)
    (hsh : NoForeignShare U ixs) (st0 : Stores κ β) (hst : StoresOK U ixs st0)
    (ls : List (MLabel α)) (hl : ∀ l ∈ ls, MLabelOK U l) (s : MState α κ β)
    (h : mrun ixs { stores := st0, pending := [], returned := [] } ls = some s) :
    (∀ e ∈ s.returned, ∃ ix, ixs[e.1]? = some ix ∧ e.2.2 = e.2.1.map (fun t => some (ix.f t))) ∧
    StoresOK U ixs s.stores := by
  have h0 : MInv U ixs ({ stores := st0, pending := [], returned := [] } : MState α κ β) :=
    ⟨hst, by intro e he; simp at he, by intro e he; simp at he⟩
  have := minv_run hinj hsh ls hl h0 h
  exact ⟨this.returned, this.stores⟩

/-- The same for whole (un-interleaved) calls in any order of the indexes — the function the driver runs
    against the real objects: the k-th result is the k-th caller's own model applied to its texts. -/
theorem cached_calls_correct_multi (U : α → Prop) (ixs : List (IndexCfg α κ β)) (hinj : ∀ a ∈ ixs, InjOn a.g U)
    (hsh : NoForeignShare U ixs) (ops : List (Nat × List α)) :
    ∀ (st : Stores κ β), StoresOK U ixs st → (∀ op ∈ ops, ∀ t ∈ op.2, U t) →
      (multiCalls ixs st ops).2 = ops.map (fun op => match ixs[op.1]? with
        | some ix => op.2.map (fun t => some (ix.f t))
        | none => []) ∧
      StoresOK U ixs (multiCalls ixs st ops).1 := by
  induction ops with
  | nil => intro st hs _; exact ⟨rfl, hs⟩
  | cons op rest ih =>
    intro st hs hU
    obtain ⟨i, ts⟩ := op
    cases hi : ixs[i]? with
    | none =>
      have h1 : multiCall ixs st i ts = (st, []) := by simp [multiCall, hi]
      obtain ⟨h3, h4⟩ := ih st hs (fun op h => hU op (List.mem_cons_of_mem _ h))
      simp only [multiCalls, List.map_cons, h1, hi]
      exact ⟨by rw [h3], h4⟩
    | some ix =>
      obtain ⟨h1, h2⟩ := multiCall_spec U ixs hinj hsh st hs i ts (hU (i, ts) (by simp)) ix hi
      obtain ⟨h3, h4⟩ := ih _ h2 (fun op h => hU op (List.mem_cons_of_mem _ h))
      simp only [multiCalls, List.map_cons, hi]
      exact ⟨by rw [h1, h3], h4⟩

/-- a whole call is the two sections back to back -/
theorem multiCall_is_begin_finish (ixs : List (IndexCfg α κ β)) (st : Stores κ β) (i : Nat) (texts : List α)
    (ix : IndexCfg α κ β) (hi : ixs[i]? = some ix) :
    mrun ixs { stores := st, pending := [], returned := [] } [.begin i texts, .finish 0] =
      some { stores := (multiCall ixs st i texts).1, pending := [],
             returned := [(i, texts, (multiCall ixs st i texts).2)] } := by
  have htx : (beginCall ix.cfg ix.g (storeAt st ix.loc) texts).texts = texts := by
    unfold beginCall callBegin; split <;> rfl
  simp [mrun, mstep, multiCall, cachedCall, hi, htx]

/-- Two indexes with DIFFERENT models (`+7` / `+100`) and an injective key generator, used in the
    non-vacuity example (separate locations) and in the counterexample (one location). -/
def twoIndexes (loc₁ loc₂ : Nat) : List (IndexCfg String Nat Nat) :=
  [{ cfg := { enabled := true, persistent := true }, g := String.length, f := fun s => s.length + 7, loc := loc₁ },
   { cfg := { enabled := true, persistent := true }, g := String.length, f := fun s => s.length + 100, loc := loc₂ }]

/-- non-vacuity of `cached_correct_multi` / `cached_calls_correct_multi`: the hypotheses hold for two indexes
    with different models on different store locations (and `InjOn` for texts of different length) … -/
example : NoForeignShare (fun s : String => s = "a" ∨ s = "") (twoIndexes 0 1) ∧
    (∀ a ∈ twoIndexes 0 1, InjOn a.g (fun s : String => s = "a" ∨ s = "")) := by
  refine ⟨?_, ?_⟩
  · intro a ha b hb hloc _ _ t t' ht ht' hk
    simp only [twoIndexes, List.mem_cons, List.mem_nil_iff, or_false] at ha hb
    rcases ha with rfl | rfl <;> rcases hb with rfl | rfl <;> simp at hloc <;>
      rcases ht with rfl | rfl <;> rcases ht' with rfl | rfl <;>
      first | rfl | (exact absurd hk (by decide))
  · intro a ha x y hx hy hxy
    simp only [twoIndexes, List.mem_cons, List.mem_nil_iff, or_false] at ha
    rcases ha with rfl | rfl <;> rcases hx with rfl | rfl <;> rcases hy with rfl | rfl <;>
      first | rfl | (exact absurd hxy (by decide))

/-- The proposed repair (model identity part of the key: keys of the two models are even / odd) with BOTH
    indexes on ONE store location: the hypothesis holds — no key is shared — and each index gets its own
    vectors (finite facts). -/
def twoIndexesKeyed : List (IndexCfg String Nat Nat) :=
  [{ cfg := { enabled := true, persistent := true }, g := fun s => 2 * s.length, f := fun s => s.length + 7, loc := 0 },
   { cfg := { enabled := true, persistent := true }, g := fun s => 2 * s.length + 1, f := fun s => s.length + 100, loc := 0 }]

example : NoForeignShare (fun s : String => s = "a" ∨ s = "") twoIndexesKeyed ∧
    (multiCalls twoIndexesKeyed [] [(0, ["a", ""]), (1, ["a"]), (0, ["a"]), (1, ["", "a"])]).2
      = [[some 8, some 7], [some 101], [some 8], [some 100, some 101]] := by
  refine ⟨?_, by decide⟩
  intro a ha b hb _ _ _ t t' ht ht' hk
  simp only [twoIndexesKeyed, List.mem_cons, List.mem_nil_iff, or_false] at ha hb
  rcases ha with rfl | rfl <;> rcases hb with rfl | rfl <;>
    rcases ht with rfl | rfl <;> rcases ht' with rfl | rfl <;>
    first | rfl | (exact absurd hk (by decide))

/-- … and the interleaved run "index 0 begins, index 1 begins and finishes, index 0 finishes, index 1 hits its
    cache" returns each index's own vectors (finite fact, by evaluation). -/
example :
    ((mrun (twoIndexes 0 1) { stores := [], pending := [], returned := [] }
        [.begin 0 ["a", ""], .begin 1 ["", "a"], .finish 1, .finish 0, .begin 1 ["a"], .finish 0]).map
      (fun s => s.returned.map (fun e => (e.1, e.2.2)))) =
      some [(1, [some 101]), (0, [some 8, some 7]), (1, [some 100, some 101])] := by decide

/-- **cached_multi_shared_store_as_is_counterexample.**  The code as it is: the cache key is derived from the
    text only, so two indexes with different models whose configurations name ONE store location serve each
    other's vectors — the second index gets the first model's vector (8 instead of 101).  Kernel-checked;
    replayed on the real objects (corpus `multi.json`, open finding `shared-store-different-models`). -/
theorem cached_multi_shared_store_as_is_counterexample :
    (multiCalls (twoIndexes 0 0) [] [(0, ["a"]), (1, ["a"])]).2 = [[some 8], [some 8]] ∧
    (multiCalls (twoIndexes 0 1) [] [(0, ["a"]), (1, ["a"])]).2 = [[some 8], [some 101]] := by decide

/-! ### request batching: safety under every schedule -/

/-- **batch_safety.**  In every state reachable under any schedule — any batch size, any arrival order,
    any moment at which the hold timer fires or the model answers, any number of concurrent batched
    requests and direct `_get_embeddings` calls sharing the cache store — every vector that has been
    returned to a batched request is the model's vector of that request's own text, every direct call
    that has returned did so with the vectors of its texts in input order, and the store is correct. -/
theorem batch_safety (cfg : CacheCfg) (max : Nat) (U : α → Prop) (g : α → κ) (f : α → β) (hinj : InjOn g U)
    (reqTexts : List α) (directTexts : List (List α)) (store0 : Dict κ β)
    (hr : ∀ t ∈ reqTexts, U t) (hd : ∀ ts ∈ directTexts, ∀ t ∈ ts, U t) (hs : StoreOK U g f store0)
    (s : State α κ β) (h : Reachable cfg max g f reqTexts directTexts store0 s) :
    (∀ r ∈ s.reqs, ∀ v, r.pc = .done v → v = some (f r.text)) ∧
    (∀ d ∈ s.directs, ∀ res, d.pc = .done res → res = d.texts.map (fun t => some (f t))) ∧
    StoreOK U g f s.store := by
  have hI := inv_reachable (cfg := cfg) hinj hr hd hs h
  refine ⟨?_, ?_, hI.store⟩
  · intro r hr v hpc
    have := hI.reqs r hr
    simpa [ReqOK, hpc] using this
  · intro d hd res hpc
    have := (hI.directs d hd).2
    simpa [hpc] using this

/-- The invariant behind `batch_safety`, stated on the shared fields: whenever `_req_results[id]` is
    set it holds the model's vector of the text that was enqueued under `id` (`s.log` is the ghost
    record "text of request id k"), everything in `_req_queue` is filed under its own id, and a
    request suspended on a finished event holds an id that is its own. -/
theorem batch_results_own (cfg : CacheCfg) (max : Nat) (U : α → Prop) (g : α → κ) (f : α → β) (hinj : InjOn g U)
    (reqTexts : List α) (directTexts : List (List α)) (store0 : Dict κ β)
    (hr : ∀ t ∈ reqTexts, U t) (hd : ∀ ts ∈ directTexts, ∀ t ∈ ts, U t) (hs : StoreOK U g f store0)
    (s : State α κ β) (h : Reachable cfg max g f reqTexts directTexts store0 s) :
    s.idx = s.log.length ∧
    (∀ id v, (id, v) ∈ s.results → ∃ t, s.log[id]? = some t ∧ v = some (f t)) ∧
    (∀ id t, (id, t) ∈ s.queue → s.log[id]? = some t) ∧
    (∀ r ∈ s.reqs, ∀ ev id, r.pc = .waitFin ev id → s.log[id]? = some r.text) := by
  have hI := inv_reachable (cfg := cfg) hinj hr hd hs h
  refine ⟨hI.idx, fun id v hm => hI.results (id, v) hm, fun id t hm => hI.queue (id, t) hm, ?_⟩
  intro r hr ev id hpc
  have := hI.reqs r hr
  simpa [ReqOK, hpc] using this

/-! ### request batching: progress ("every concurrent request completes") -/

/-- **No task ever faults or spins** (for `max_batch_size ≥ 1`), under every schedule: no request task hits
    the `KeyError` on `_req_results[req_id]` or an `AttributeError` on a `None` event, no request is caught in
    the `while … await submitted.wait()` loop with the event set (which would be a busy loop that never
    yields), no batch task dies (which would leave its requests waiting forever). -/
theorem batch_no_fault (cfg : CacheCfg) (max : Nat) (hmax : 1 ≤ max) (g : α → κ) (f : α → β)
    (reqTexts : List α) (directTexts : List (List α)) (store0 : Dict κ β)
    (s : State α κ β) (h : Reachable cfg max g f reqTexts directTexts store0 s) :
    (∀ r ∈ s.reqs, r.pc ≠ .spin ∧ r.pc ≠ .crashed) ∧ (∀ b ∈ s.batches, b ≠ BPc.crashed) := by
  have hP := pinv_reachable (cfg := cfg) hmax h
  constructor
  · intro r hr
    obtain ⟨i, hi⟩ := List.mem_iff_getElem?.1 hr
    have := hP.reqs i r hi
    constructor <;> intro hpc <;> simp [RInv, hpc] at this
  · intro b hb hbc
    obtain ⟨i, hi⟩ := List.mem_iff_getElem?.1 hb
    exact hP.noCrashB i (by rw [hi, hbc])

/-- **Deadlock freedom**: in every reachable state in which no atomic section is enabled, every request
    and every direct call has returned. -/
theorem batch_deadlock_free (cfg : CacheCfg) (max : Nat) (hmax : 1 ≤ max) (g : α → κ) (f : α → β)
    (reqTexts : List α) (directTexts : List (List α)) (store0 : Dict κ β)
    (s : State α κ β) (h : Reachable cfg max g f reqTexts directTexts store0 s)
    (hstuck : ∀ l, step cfg max g f s l = none) : AllDone s :=
  deadlock_free g f (pinv_reachable (cfg := cfg) hmax h) hstuck

/-- **Every step strictly decreases a natural-number measure** (no hypothesis at all), so no schedule is
    infinite: there is no livelock, and fairness assumptions are not needed. -/
theorem batch_step_decreases (cfg : CacheCfg) (max : Nat) (g : α → κ) (f : α → β) (s s' : State α κ β) (l : Label)
    (hs : step cfg max g f s l = some s') : measure s' < measure s :=
  measure_step g f l hs

/-- every schedule from `s` has at most `measure s` steps -/
theorem batch_schedule_bounded (cfg : CacheCfg) (max : Nat) (g : α → κ) (f : α → β) (s s' : State α κ β)
    (ls : List Label) (hr : run cfg max g f s ls = some s') : ls.length ≤ measure s := by
  have := measure_run g f ls s s' hr
  omega

/-- closed form: an index started with `N` batched requests and `D` direct calls runs at most
    `N·(3N+5) + 2D` atomic sections, whatever the schedule -/
theorem batch_schedule_length (cfg : CacheCfg) (max : Nat) (g : α → κ) (f : α → β) (reqTexts : List α)
    (directTexts : List (List α)) (store0 : Dict κ β) (s' : State α κ β) (ls : List Label)
    (hr : run cfg max g f (init reqTexts directTexts store0) ls = some s') :
    ls.length ≤ reqTexts.length * (3 * (reqTexts.length + 1) + 2) + 2 * directTexts.length := by
  have := batch_schedule_bounded cfg max g f _ s' ls hr
  rw [measure_init] at this
  exact this

/-- **batch_progress.**  Take any schedule of the index started with any requests / direct calls — it is
    finite (`batch_schedule_bounded`) — and follow it until nothing more can run: then every request and
    every direct call has completed, each batched request with the model's vector of its own text and each
    direct call with the vectors of its texts in input order. -/
theorem batch_progress (cfg : CacheCfg) (max : Nat) (hmax : 1 ≤ max) (U : α → Prop) (g : α → κ) (f : α → β)
    (hinj : InjOn g U) (reqTexts : List α) (directTexts : List (List α)) (store0 : Dict κ β)
    (hr : ∀ t ∈ reqTexts, U t) (hd : ∀ ts ∈ directTexts, ∀ t ∈ ts, U t) (hs : StoreOK U g f store0)
    (ls : List Label) (s' : State α κ β)
    (hrun : run cfg max g f (init reqTexts directTexts store0) ls = some s')
    (hmaximal : ∀ l, step cfg max g f s' l = none) :
    (∀ r ∈ s'.reqs, r.pc = .done (some (f r.text))) ∧
    (∀ d ∈ s'.directs, d.pc = .done (d.texts.map (fun t => some (f t)))) := by
  have hreach := reachable_run ls _ s' (Reachable.init (cfg := cfg) (max := max) (g := g) (f := f)
    (reqTexts := reqTexts) (directTexts := directTexts) (store0 := store0)) hrun
  obtain ⟨h1, h2⟩ := batch_deadlock_free cfg max hmax g f reqTexts directTexts store0 s' hreach hmaximal
  obtain ⟨s1, s2, _⟩ := batch_safety cfg max U g f hinj reqTexts directTexts store0 hr hd hs s' hreach
  constructor
  · intro r hr'
    obtain ⟨v, hv⟩ := h1 r hr'
    rw [hv, s1 r hr' v hv]
  · intro d hd'
    obtain ⟨res, hres⟩ := h2 d hd'
    rw [hres, s2 d hd' res hres]

/-- non-vacuity of the batching theorems: a concrete schedule of three requests (a duplicate text),
    batch size 2, persistent cache — two wait in one batch, the third waits for `submitted`, is woken by
    the take, starts a second batch; the run ends with nothing enabled for the tasks and every request
    holding its own vector (finite fact, by evaluation). -/
example :
    let cfg : CacheCfg := { enabled := true, persistent := true }
    let g : String → Nat := String.length
    let f : String → Nat := fun s => s.length + 7
    ((run cfg 2 g f (init ["a", "bb", "a"] [] [])
      [.enter 0, .enter 1, .enter 2, .bstart 0, .take 0 false, .enter 2, .bstart 1, .finish 0, .collect 1,
       .take 1 true, .collect 0, .finish 1, .collect 2]).map (fun s => s.reqs.map (·.pc)))
      = some [.done (some 8), .done (some 9), .done (some 8)] := by decide

/-- `max_batch_size = 0` is outside the theorems' range for a reason: the first request waits for
    `submitted`, and there is no batch task that could ever set it (finite fact, by evaluation). -/
example :
    ((run { enabled := false, persistent := false } 0 (fun s : String => s) (fun s : String => s)
        (init ["a"] [] []) [.enter 0]).map (fun s => (s.reqs.map (·.pc), s.batches.length)))
      = some ([.waitSub], 0) := by decide

end NemoVerif.C19
