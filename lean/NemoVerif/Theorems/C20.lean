/-
  C20 — the server loads configs only from its root; threads keep the exact history.
  Property theorems only (helper lemmas live in Lemmas/Server.lean). Strings are `List Char`.

  Vocabulary (defined in Lemmas/Server.lean):
    `AbsNorm b`      b = one or two '/' followed by proper names joined by '/'   (what `os.path.abspath` returns)
    `IsName n`       n ≠ "" , "." , ".."  and contains no '/'
    `childPath b n`  the path of entry `n` of directory `b`   (`b ++ "/" ++ n`, or `b ++ n` when b is "/" or "//")
    `Inside b p`     p = b  ∨  ∃ n, IsName n ∧ p = childPath b n       — "located inside the configured root"
    `stored s tid`   what the datastore holds under `"thread-" ++ tid` (or `[]`)
    `hist tid reqs resps`  concatenation of `new messages ++ [reply]` over the completed turns carrying `tid`
    `Op`, `World`, `runOps`  histories in which the datastore is also used by others (`Models/ServerOps.lean`):
                     requests, external changes of a key (`ext k f`, `f` arbitrary), `register_datastore` (`swap`),
                     several server processes (`proc i`), restarts, cache eviction by the auto-reload watcher
    `turnEffect σ r a`, `absStep`, `absRun`  the datastore of the STATEMENT: a function of the datastore before,
                     the operations and the answers only (never of anything a process remembers)
  `bad` is the regex of the current source (`Generated.C20.rejectAlts`, re-generated on every run).
-/
import NemoVerif.Lemmas.ServerOps
namespace NemoVerif.C20
open NemoVerif NemoVerif.Server NemoVerif.Generated.C20

/-! ## Part 1 — configuration paths -/

/-- **Confinement of one id, for every string.** If the regex of the source does not match `id`, then for
    every absolute normalised `base` the path the server computes is `base` itself or the entry `id` of
    `base` with `id` a proper name (no separator, not `.`/`..`). -/
theorem confined (base id : Str) (hb : AbsNorm base) (hid : bad id = false) :
    normpath (pjoin base id) = base ∨ (IsName id ∧ normpath (pjoin base id) = childPath base id) :=
  confined_core hb hid

/-- non-vacuity: a concrete root and ids on both sides of the disjunction. -/
example : AbsNorm "/srv/configs".toList ∧ bad "a".toList = false ∧ bad "".toList = false ∧ bad "..".toList = true :=
  ⟨⟨1, ["srv".toList, "configs".toList], Or.inl rfl, by decide, by decide⟩, by decide, by decide, by decide⟩

/-- `os.path.abspath` (current directory absolute) always yields such a base: the hypothesis of
    `confined` holds for `base_path = os.path.abspath(app.rails_config_path)` whatever the configured root is. -/
theorem abspath_is_absNorm (cwd root : Str) (hc : cwd.head? = some '/') : AbsNorm (abspath cwd root) :=
  abspath_absNorm cwd root hc

/-- `AbsNorm` is exactly "absolute and a fixed point of `normpath`". -/
theorem absNorm_iff (b : Str) : AbsNorm b ↔ (b.head? = some '/' ∧ normpath b = b) :=
  ⟨fun h => ⟨absNorm_head h, absNorm_fix h⟩, fun h => h.2 ▸ normpath_abs_isNorm h.1⟩

/-- What "inside" gives: the root is a prefix of the path, and below the root there is at most one
    component, which is not `..`. -/
theorem inside_spec (base p : Str) (h : Inside base p) :
    base <+: p ∧ commonprefix [p, base] = base ∧ (p = base ∨ ∃ n, IsName n ∧ p = childPath base n) := by
  refine ⟨?_, commonprefix_inside h, h⟩
  rcases h with rfl | ⟨n, _, rfl⟩
  · exact List.prefix_refl _
  · obtain ⟨x, hx⟩ := childPath_prefix base n
    exact ⟨x, hx.symm⟩

/-- Once the regex test passed, the common-prefix test of `_get_rails` can never fire. -/
theorem commonprefix_check_redundant (base id : Str) (hb : AbsNorm base) :
    checkId base id = if bad id = true then .error .invalidId else .ok (normpath (pjoin base id)) :=
  checkId_eq hb id

/-- The common-prefix test alone would not confine: root `/srv/configs`, id `../configs2/x` — the
    normalised path `/srv/configs2/x` has the root as a *string* prefix but is not inside it; only the regex
    rejects it. (finite witness, by evaluation) -/
theorem commonprefix_alone_insufficient :
    let base := "/srv/configs".toList
    let id := "../configs2/x".toList
    normpath (pjoin base id) = "/srv/configs2/x".toList ∧
    commonprefix [normpath (pjoin base id), base] = base ∧
    ¬ Inside base (normpath (pjoin base id)) ∧
    bad id = true := by
  intro base id
  have hn : normpath (pjoin base id) = "/srv/configs2/x".toList := by decide
  refine ⟨hn, by rw [hn]; decide, ?_, by decide⟩
  rw [hn]
  rintro (h | ⟨n, _, h⟩)
  · exact absurd h (by decide)
  · have hb : endsWithSlash base = false := by decide
    simp only [childPath, hb, Bool.false_eq_true, if_false] at h
    have h' : "/srv/configs".toList ++ "2/x".toList = base ++ '/' :: n := by rw [← h]; decide
    have := List.append_cancel_left h'
    simp at this

/-- **What actually confines.** The `..` alternative of the regex is not what the confinement rests on:
    whenever `id` contains no `/` and the common-prefix test of `_get_rails` passes, the path is inside the
    root (for `id = ".."` the prefix test only passes when the root is `/` or `//`, where `..` is the root
    itself).  Together with `commonprefix_alone_insufficient`: separator class + prefix test confine,
    neither the prefix test alone nor — on a cache miss — anything weaker does. -/
theorem separator_class_and_prefix_test_confine (base id : Str) (hb : AbsNorm base) (hs : '/' ∉ id)
    (hcp : commonprefix [normpath (pjoin base id), base] = base) : Inside base (normpath (pjoin base id)) :=
  inside_of_noslash_prefix hb hs hcp

/-- non-vacuity: `..` under `/srv/configs` fails the prefix test, under `/` it passes and is the root. -/
example : commonprefix [normpath (pjoin "/srv/configs".toList "..".toList), "/srv/configs".toList] ≠ "/srv/configs".toList ∧
    commonprefix [normpath (pjoin "/".toList "..".toList), "/".toList] = "/".toList ∧ normpath (pjoin "/".toList "..".toList) = "/".toList := by
  decide

/-- **Only confined paths are ever loaded — every request sequence.** Starting from the empty server
    state, after any sequence of requests (any ids, any mix of cache hits and misses, single-config mode
    or not, `from_path` failing or not, any LLM behaviour): every path that was handed to
    `RailsConfig.from_path` is inside the root, every cached rails instance combines only such paths
    (keys enter the cache only after validation), and so does the instance that served any completed turn. -/
theorem loaded_only_if_confined {M : Type} (cfg : Cfg) (hcwd : cfg.cwd.head? = some '/') (pathOk : Str → Bool)
    (gen : Gen M) (reqs : List (Req M)) :
    let out := run cfg pathOk gen {} reqs
    (∀ p ∈ out.2.loads, Inside cfg.base p) ∧
    (∀ kp ∈ out.2.cache, ∀ p ∈ kp.2, Inside cfg.base p) ∧
    (∀ a ∈ out.1, ∀ reply used served, a = .ok reply used served → ∀ p ∈ served, Inside cfg.base p) := by
  intro out
  have h := run_inv cfg (abspath_absNorm cfg.cwd cfg.root hcwd) pathOk gen reqs {} ⟨by simp, by simp [CacheOk]⟩
  exact ⟨h.1.1, h.1.2, h.2⟩

/-- The same, one call of `_get_rails` from any valid cache (the inductive step, stated for reference). -/
theorem getRails_confined (cfg : Cfg) (hcwd : cfg.cwd.head? = some '/') (pathOk : Str → Bool) (cache : Cache)
    (ids : List Str) (hc : CacheOk cfg.base cache) :
    (∀ p ∈ (getRails cfg pathOk cache ids).calls, Inside cfg.base p) ∧
    CacheOk cfg.base (getRails cfg pathOk cache ids).cache :=
  let h := getRails_inside cfg (abspath_absNorm cfg.cwd cfg.root hcwd) pathOk cache ids hc
  ⟨h.1, h.2.1⟩

/-- non-vacuity of `loaded_only_if_confined`: a run that does load something (`/srv/configs/a`) and rejects `../x`. -/
example :
    let cfg : Cfg := { root := "/srv/configs".toList, cwd := "/".toList, single := none, default := none, hasStore := true, streaming := false }
    let mk (id : String) : Req Nat := { configId := some id.toList, configIds := none, threadId := none, context := none, messages := [1], stream := false }
    (run cfg (fun _ => true) (fun _ _ _ => some 7) {} [mk "a", mk "../x"]).2.loads = ["/srv/configs/a".toList] := by
  decide

/-- **Anything else yields the fixed reply — including the cache-hit path.** Multi-config mode, from the
    empty server state: after any request sequence `pre`, a request whose (defaulted) id list contains an
    id the regex matches is answered with the fixed 'could not load' reply and changes neither the cache
    nor the datastore.  (Rejected and accepted id lists never share a cache key: `cacheKey_bad` /
    `cacheKey_good`, which use that the key separator occurs in no class or literal of the regex.) -/
theorem bad_id_never_served {M : Type} (cfg : Cfg) (hs : cfg.single = none) (pathOk : Str → Bool) (gen : Gen M)
    (pre : List (Req M)) (r : Req M) (ids? : Option (List Str)) (ids : List Str)
    (hv : validate r = some ids?) (hr : resolveIds cfg ids? = some ids) (hbad : ∃ id ∈ ids, bad id = true) :
    let s := (run cfg pathOk gen {} pre).2
    (step cfg pathOk gen s r).1 = .couldNotLoad ids ∧ (step cfg pathOk gen s r).2.cache = s.cache ∧
    (step cfg pathOk gen s r).2.store = s.store := by
  intro s
  exact step_bad cfg hs pathOk gen s r (run_keysGood cfg hs pathOk gen pre {} (by simp [KeysGood])) ids? ids hv hr hbad

/-- non-vacuity of `bad_id_never_served`: such a request exists (also through `config_ids` and the default id). -/
example :
    let cfg : Cfg := { root := "/srv/configs".toList, cwd := "/".toList, single := none, default := some "../y".toList, hasStore := true, streaming := false }
    let r1 : Req Nat := { configId := none, configIds := some ["a".toList, "../x".toList], threadId := none, context := none, messages := [], stream := false }
    let r2 : Req Nat := { configId := none, configIds := none, threadId := none, context := none, messages := [], stream := false }
    (validate r1 = some (some ["a".toList, "../x".toList]) ∧ resolveIds cfg (some ["a".toList, "../x".toList]) = some ["a".toList, "../x".toList] ∧ bad "../x".toList = true) ∧
    (validate r2 = some none ∧ resolveIds cfg none = some ["../y".toList] ∧ bad "../y".toList = true) := by
  decide

/-- one call of `_get_rails` on a cache miss (any mode-independent cache): an id the regex matches ⇒ error, cache unchanged. -/
theorem bad_id_fixed_reply (cfg : Cfg) (hs : cfg.single = none) (pathOk : Str → Bool) (cache : Cache) (ids : List Str)
    (hk : KeysGood cache) (hbad : ∃ id ∈ ids, bad id = true) :
    (∃ e, (getRails cfg pathOk cache ids).res = .error e) ∧ (getRails cfg pathOk cache ids).cache = cache :=
  getRails_bad cfg hs pathOk cache ids hk hbad

/-- The ids that do get through name real entries: a path inside an `AbsNorm` root is itself `AbsNorm`
    (no `.`/`..`/empty component is left in it), so lexical containment is containment of the names. -/
theorem inside_is_normalised (base p : Str) (hb : AbsNorm base) (h : Inside base p) : AbsNorm p :=
  inside_absNorm hb h

/-! ## Part 2 — threads -/

/-- The datastore key function is injective: different thread ids never share a key. -/
theorem threads_disjoint (a b : Str) (h : threadKey a = threadKey b) : a = b :=
  threadKey_inj h

/-- **One turn.** If a request is answered with a generated reply (`.ok reply used served`), the
    messages handed to the LLM are exactly the stored thread followed by the new messages (just the new
    messages without a thread id), the reply is what the LLM produced for them, and what is stored
    afterwards under the thread's key is that list plus the reply. A streaming turn uses the same
    messages and leaves the store untouched. -/
theorem turn_uses_stored_then_new {M : Type} (cfg : Cfg) (pathOk : Str → Bool) (gen : Gen M) (s : State M) (r : Req M) :
    (∀ reply used served, (step cfg pathOk gen s r).1 = .ok reply used served →
      used = (match r.threadId with | some t => stored s t | none => []) ++ newMsgs r ∧
      (∀ t, r.threadId = some t → (step cfg pathOk gen s r).2.get (threadKey t) = some (used ++ [reply])) ∧
      gen (s.turn + 1) served used = some reply) ∧
    (∀ used, (step cfg pathOk gen s r).1 = .streaming used →
      used = (match r.threadId with | some t => stored s t | none => []) ++ newMsgs r ∧
      (step cfg pathOk gen s r).2.store = s.store) :=
  step_used cfg pathOk gen s r

/-- **Threads do not mix (frame).** One request changes at most the thread it names: every other
    thread, and every key that is not a thread key, is left exactly as it was. -/
theorem threads_do_not_mix {M : Type} (cfg : Cfg) (pathOk : Str → Bool) (gen : Gen M) (s : State M) (r : Req M) :
    (∀ tid, r.threadId ≠ some tid → stored (step cfg pathOk gen s r).2 tid = stored s tid) ∧
    (∀ k, (∀ t, k ≠ threadKey t) → (step cfg pathOk gen s r).2.get k = s.get k) := by
  refine ⟨?_, fun k hk => step_other_keys cfg pathOk gen s r k hk⟩
  intro tid hne
  rw [step_store]
  cases h : (step cfg pathOk gen s r).1 <;> simp [contrib, hne]

/-- **Refinement, every request sequence.** After any sequence of requests from any state, for every
    thread id, the stored list is the list stored before followed by the abstract history: the
    concatenation, in request order, of `new messages ++ [reply]` of the completed turns that carried
    this id. -/
theorem thread_refines {M : Type} (cfg : Cfg) (pathOk : Str → Bool) (gen : Gen M) (s : State M) (reqs : List (Req M)) (tid : Str) :
    stored (run cfg pathOk gen s reqs).2 tid = stored s tid ++ hist tid reqs (run cfg pathOk gen s reqs).1 :=
  run_store cfg pathOk gen reqs s tid

/-- **The exact history is used.** From the empty store: after any request sequence `pre`, a turn on
    thread `t` hands the LLM precisely the abstract history of `t` over `pre` followed by its new messages. -/
theorem turn_uses_exact_history {M : Type} (cfg : Cfg) (pathOk : Str → Bool) (gen : Gen M) (pre : List (Req M)) (r : Req M)
    (t : Str) (ht : r.threadId = some t) (reply : M) (used : List M) (served : List Str)
    (h : (step cfg pathOk gen (run cfg pathOk gen {} pre).2 r).1 = .ok reply used served) :
    used = hist t pre (run cfg pathOk gen {} pre).1 ++ newMsgs r := by
  have h1 := (step_used cfg pathOk gen (run cfg pathOk gen {} pre).2 r).1 reply used served h
  rw [h1.1, ht]
  simp only
  rw [run_store]
  simp [stored, State.get, lookup]

/-- The handler's own length test can never fire: `RequestBody` validation is at least as strict
    (finite fact about the generated constants), so no thread id shorter than the minimum reaches the store. -/
theorem short_thread_id_never_stored {M : Type} (cfg : Cfg) (pathOk : Str → Bool) (gen : Gen M) (s : State M) (r : Req M)
    (t : Str) (ht : r.threadId = some t) (hshort : t.length < fieldMinThread) :
    (step cfg pathOk gen s r).1 = .unprocessable ∧ (step cfg pathOk gen s r).2.store = s.store := by
  have hv : validate r = none := by
    cases h : validate r with
    | none => rfl
    | some x => have := (validate_thread r x h t ht).1; omega
  simp [step, hv, State.tick]

/-- non-vacuity of the thread theorems: two turns on one thread, one on another (evaluation). -/
example :
    let cfg : Cfg := { root := "/srv/configs".toList, cwd := "/".toList, single := none, default := none, hasStore := true, streaming := false }
    let mk (tid : String) (m : Nat) : Req Nat := { configId := some "a".toList, configIds := none, threadId := some tid.toList, context := none, messages := [m], stream := false }
    let out := run cfg (fun _ => true) (fun turn _ _ => some (100 + turn)) {} [mk "tttttttttttttttt" 1, mk "uuuuuuuuuuuuuuuu" 2, mk "tttttttttttttttt" 3]
    stored out.2 "tttttttttttttttt".toList = [1, 101, 3, 103] ∧ stored out.2 "uuuuuuuuuuuuuuuu".toList = [2, 102] := by
  decide

/-! ## Part 3 — the datastore is shared: histories with other actors -/

/-- **A turn reads the store, nothing else.** Two server states that agree on the CONTENT of the datastore
    (key by key — however it got there), on the rails cache and on the turn counter answer a request
    identically and leave datastores with the same content: nothing a process may remember about earlier
    turns of a thread enters a turn. -/
theorem chat_step_reads_store {M : Type} (cfg : Cfg) (pathOk : Str → Bool) (gen : Gen M) (s s' : State M) (r : Req M)
    (h : ∀ k, s.get k = s'.get k) (hc : s.cache = s'.cache) (ht : s.turn = s'.turn) :
    (step cfg pathOk gen s r).1 = (step cfg pathOk gen s' r).1 ∧
    ∀ k, (step cfg pathOk gen s r).2.get k = (step cfg pathOk gen s' r).2.get k := by
  have h1 := step_congr cfg pathOk gen s s' r h hc ht
  refine ⟨h1, fun k => ?_⟩
  rw [step_get, step_get, h1, show s.get = s'.get from funext h]

/-- non-vacuity: two different association lists with the same content (a shadowed binding, another order). -/
example :
    let s : State Nat := { store := [("k".toList, [1]), ("j".toList, [2]), ("k".toList, [9])] }
    let s' : State Nat := { store := [("j".toList, [2]), ("k".toList, [1])] }
    s.store ≠ s'.store ∧ s.get "k".toList = s'.get "k".toList ∧ s.get "j".toList = s'.get "j".toList := by
  decide

/-- **One request, key by key, whoever else uses the store.** The datastore after a request is
    `turnEffect` of the datastore before: a completed turn on thread `t` binds `"thread-"+t` to
    (stored thread ++ new messages ++ [reply]); every other key and every other kind of answer leaves the
    content as it was (`some`/absent distinguished — an erased thread stays erased unless a turn completes). -/
theorem turn_store_exact {M : Type} (cfg : Cfg) (pathOk : Str → Bool) (gen : Gen M) (s : State M) (r : Req M) (k : Str) :
    (step cfg pathOk gen s r).2.get k = turnEffect s.get r (step cfg pathOk gen s r).1 k :=
  step_get cfg pathOk gen s r k

/-- **Refinement for every history with other actors.** From any world, after any sequence of requests
    (served by any of several processes), external changes of any key by an arbitrary function, datastore
    swaps, restarts and cache evictions: the content of the datastore is, key by key, the datastore of the
    statement (`absRun`), which is computed from the initial content, the operations and the answers alone. -/
theorem thread_refines_ops {M : Type} (cfg : Cfg) (pathOk : Str → Bool) (gen : Gen M) (w : World M) (ops : List (Op M)) (k : Str) :
    (runOps cfg pathOk gen w ops).2.get k = absRun w.get ops (runOps cfg pathOk gen w ops).1 k :=
  runOps_get cfg pathOk gen ops w k

/-- **The exact stored thread is used, after any such history, by whichever process answers.** -/
theorem turn_uses_exact_store_ops {M : Type} (cfg : Cfg) (pathOk : Str → Bool) (gen : Gen M) (w : World M)
    (pre : List (Op M)) (r : Req M) (t : Str) (ht : r.threadId = some t) (reply : M) (used : List M) (served : List Str)
    (h : (opStep cfg pathOk gen (runOps cfg pathOk gen w pre).2 (.req r)).1 = some (.ok reply used served)) :
    used = (absRun w.get pre (runOps cfg pathOk gen w pre).1 (threadKey t)).getD [] ++ newMsgs r ∧
    (opStep cfg pathOk gen (runOps cfg pathOk gen w pre).2 (.req r)).2.get (threadKey t) = some (used ++ [reply]) := by
  simp only [opStep, Option.some.injEq] at h
  have h1 := (step_used cfg pathOk gen (runOps cfg pathOk gen w pre).2.st r).1 reply used served h
  refine ⟨?_, h1.2.1 t ht⟩
  rw [h1.1, ht, ← runOps_get]
  rfl

/-- non-vacuity, and the history of the missed seeded change: process 0 serves thread `t`, somebody else
    rewrites the stored thread, process 1 serves it, the thread is erased, process 0 serves it again — each turn
    uses what is stored at that moment (evaluation). -/
example :
    let cfg : Cfg := { root := "/srv/configs".toList, cwd := "/".toList, single := none, default := none, hasStore := true, streaming := false }
    let t := "tttttttttttttttt".toList
    let mk (m : Nat) : Op Nat := .req { configId := some "a".toList, configIds := none, threadId := some t, context := none, messages := [m], stream := false }
    let out := runOps cfg (fun _ => true) (fun turn _ _ => some (100 + turn)) {}
      [mk 1, .ext (threadKey t) (fun _ => some [7, 8]), mk 2, .proc 1, mk 3, .ext (threadKey t) (fun _ => none), .proc 0, mk 4]
    out.1 = [some (.ok 101 [1] ["/srv/configs/a".toList]), none, some (.ok 102 [7, 8, 2] ["/srv/configs/a".toList]), none,
             some (.ok 103 [7, 8, 2, 102, 3] ["/srv/configs/a".toList]), none, none, some (.ok 104 [4] ["/srv/configs/a".toList])] ∧
    out.2.get (threadKey t) = some [4, 104] := by
  decide

/-- **Threads never mix, other actors included (frame over histories).** A key changes only through a
    completed turn on the thread with that key, an external change of that very key, or a datastore swap:
    after any history in which none of these happened for `k`, the datastore holds for `k` exactly what it
    held before — whatever was done to other threads, by whichever process. -/
theorem threads_do_not_mix_ops {M : Type} (cfg : Cfg) (pathOk : Str → Bool) (gen : Gen M) (w : World M) (ops : List (Op M)) (k : Str)
    (h : touchedIn k ops (runOps cfg pathOk gen w ops).1 = false) :
    (runOps cfg pathOk gen w ops).2.get k = w.get k := by
  rw [runOps_get, absRun_untouched ops _ _ k h]

/-- non-vacuity: a history full of turns, external changes and process switches on thread `t` does not touch thread `u`. -/
example :
    let cfg : Cfg := { root := "/srv/configs".toList, cwd := "/".toList, single := none, default := none, hasStore := true, streaming := false }
    let t := "tttttttttttttttt".toList
    let u := "uuuuuuuuuuuuuuuu".toList
    let mk (m : Nat) : Op Nat := .req { configId := some "a".toList, configIds := none, threadId := some t, context := none, messages := [m], stream := false }
    let ops : List (Op Nat) := [mk 1, .ext (threadKey t) (fun _ => some [7, 8]), .proc 1, mk 2, .restart, .ext (threadKey t) (fun _ => none), mk 3]
    let w : World Nat := { st := { store := [(threadKey u, [5, 6])] } }
    touchedIn (threadKey u) ops (runOps cfg (fun _ => true) (fun turn _ _ => some (100 + turn)) w ops).1 = false ∧
    (runOps cfg (fun _ => true) (fun turn _ _ => some (100 + turn)) w ops).2.get (threadKey u) = some [5, 6] := by
  decide

/-- **Only confined paths are ever loaded — every history, every process.** From the initial world, after
    any history: every path handed to `RailsConfig.from_path` by any process, every path of every cached
    instance of every process (also after restarts and evictions) and every serving instance is inside the root. -/
theorem loaded_only_if_confined_ops {M : Type} (cfg : Cfg) (hcwd : cfg.cwd.head? = some '/') (pathOk : Str → Bool)
    (gen : Gen M) (ops : List (Op M)) :
    let out := runOps cfg pathOk gen {} ops
    (∀ p ∈ out.2.st.loads, Inside cfg.base p) ∧
    (∀ i, ∀ kp ∈ out.2.cacheOf i, ∀ p ∈ kp.2, Inside cfg.base p) ∧
    (∀ a ∈ out.1, ∀ reply used served, a = some (.ok reply used served) → ∀ p ∈ served, Inside cfg.base p) := by
  intro out
  have h := runOps_inv cfg (abspath_absNorm cfg.cwd cfg.root hcwd) pathOk gen ops {}
    ⟨⟨by simp, by simp [CacheOk]⟩, by simp⟩
  refine ⟨h.1.1.1, ?_, h.2⟩
  intro i
  unfold World.cacheOf
  split
  · exact h.1.1.2
  · cases hl : lookupN i (runOps cfg pathOk gen {} ops).2.parked with
    | none => simp
    | some c => exact h.1.2 (i, c) (lookupN_mem i _ c hl)

/-- **A rejected id gets the fixed reply after every history** (multi-config mode): whatever was served,
    evicted, restarted or stored before, by whichever process. -/
theorem bad_id_never_served_ops {M : Type} (cfg : Cfg) (hs : cfg.single = none) (pathOk : Str → Bool) (gen : Gen M)
    (pre : List (Op M)) (r : Req M) (ids? : Option (List Str)) (ids : List Str)
    (hv : validate r = some ids?) (hr : resolveIds cfg ids? = some ids) (hbad : ∃ id ∈ ids, bad id = true) :
    let w := (runOps cfg pathOk gen {} pre).2
    (opStep cfg pathOk gen w (.req r)).1 = some (.couldNotLoad ids) ∧ (opStep cfg pathOk gen w (.req r)).2.st.store = w.st.store := by
  intro w
  have hk := runOps_keysGood cfg hs pathOk gen pre {} ⟨by simp [KeysGood], by simp⟩
  have h := step_bad cfg hs pathOk gen w.st r hk.1 ids? ids hv hr hbad
  exact ⟨by simp only [opStep]; rw [h.1], h.2.2⟩

/-- non-vacuity of the two theorems above: a history with two processes, an eviction and a restart that loads
    `/srv/configs/a` twice and rejects `../x` in between. -/
example :
    let cfg : Cfg := { root := "/srv/configs".toList, cwd := "/".toList, single := none, default := none, hasStore := true, streaming := false }
    let mk (id : String) : Op Nat := .req { configId := some id.toList, configIds := none, threadId := none, context := none, messages := [1], stream := false }
    let out := runOps cfg (fun _ => true) (fun _ _ _ => some 7) {} [mk "a", .proc 1, mk "../x", mk "a", .evict "a".toList, .proc 0, .restart, mk "b"]
    out.2.st.loads = ["/srv/configs/a".toList, "/srv/configs/a".toList, "/srv/configs/b".toList] ∧
    out.2.cacheOf 0 = [("b".toList, ["/srv/configs/b".toList])] ∧ out.2.cacheOf 1 = [] := by
  decide

end NemoVerif.C20
