/-
  C04 — Colang 2 event matching follows the documented partial-match rules.
  Property theorems only (helper lemmas live in Lemmas/Match.lean).  `F` is the generated
  `argument_filter` of the current source; `rx` (regex search results) is universally quantified.
-/
import NemoVerif.Lemmas.Match
import NemoVerif.Lemmas.MatchHist
namespace NemoVerif.C04
open NemoVerif NemoVerif.Match NemoVerif.Generated.C04

abbrev F := argumentFilter

/-- Soundness: a positive score implies the documented relation (no hypothesis). -/
theorem score_sound (rx : Rx) (a r : Val) (k : Int) (h : score F rx a r = .ok k) : Matches F rx a r :=
  Match.score_sound F rx a r k h

/-- Completeness: whenever the documented relation holds the matcher does not answer "no match"
    (it answers a positive score, or raises the comparison type error). -/
theorem score_complete (rx : Rx) (a r : Val) (h : Matches F rx a r) : score F rx a r ≠ .no :=
  Match.score_complete F rx a r h

/-- Main statement: unless a `ComparisonExpression` type error is raised, the matcher advances
    exactly when the documented relation holds. -/
theorem match_iff (rx : Rx) (a r : Val) (hne : score F rx a r ≠ .err) :
    (score F rx a r).isOk = true ↔ Matches F rx a r := by
  constructor
  · intro h
    cases hs : score F rx a r with
    | ok k => exact score_sound rx a r k hs
    | err => exact absurd hs hne
    | no => rw [hs] at h; simp [Res.isOk] at h
  · intro h
    have := score_complete rx a r h
    cases hs : score F rx a r with
    | ok k => rfl
    | err => exact absurd hs hne
    | no => exact absurd hs this

/-- The property as stated (no reserved-key clause) for every pattern that does not mention one
    of the reserved keys; see `reserved_keys_ignored_witness` for the excluded region. -/
theorem match_iff_documented (rx : Rx) (a r : Val) (hr : NoReserved F r) (hne : score F rx a r ≠ .err) :
    (score F rx a r).isOk = true ↔ Matches [] rx a r :=
  (match_iff rx a r hne).trans (matches_filter_irrelevant F rx r hr a)

/-- "never against a received container with fewer elements than expected" -/
theorem never_smaller_container (rx : Rx) (a : Val) :
    (∀ rs, Matches F rx a (.list rs) → ∃ as, a = .list as ∧ rs.length ≤ as.length) ∧
    (∀ rs, Matches F rx a (.set rs) → ∃ as, a = .set as ∧ rs.length ≤ as.length) ∧
    (∀ rkvs, Matches F rx a (.dict rkvs) → ∃ akvs, a = .dict akvs ∧ rkvs.length ≤ akvs.length) := by
  refine ⟨?_, ?_, ?_⟩ <;> intro rs h <;> simp only [Matches] at h <;> obtain ⟨as, e, hl, _⟩ := h <;> exact ⟨as, e, hl⟩

/-- "expected list items found in order": an order-preserving embedding (a sublist matching item by item). -/
theorem list_found_in_order (rx : Rx) (as rs : List Val) :
    Matches F rx (.list as) (.list rs) ↔
      rs.length ≤ as.length ∧ ∃ sub, List.Sublist sub as ∧ Zip2 (fun x r => Matches F rx x r) sub rs := by
  simp only [Matches]
  constructor
  · rintro ⟨as', e, hl, he⟩
    cases e
    exact ⟨hl, (embeds_iff_sublist F rx rs as).1 he⟩
  · rintro ⟨hl, he⟩
    exact ⟨as, rfl, hl, (embeds_iff_sublist F rx rs as).2 he⟩

/-- "every expected set member matched by some member" -/
theorem set_every_member (rx : Rx) (as rs : List Val) :
    Matches F rx (.set as) (.set rs) ↔ rs.length ≤ as.length ∧ ∀ r ∈ rs, ∃ x, x ∈ as ∧ Matches F rx x r := by
  simp only [Matches]
  constructor
  · rintro ⟨as', e, hl, he⟩
    cases e
    exact ⟨hl, (allFound_iff F rx as rs).1 he⟩
  · rintro ⟨hl, he⟩
    exact ⟨as, rfl, hl, (allFound_iff F rx as rs).2 he⟩

/-- "expected dict entries present with matching values" -/
theorem dict_entries_present (rx : Rx) (akvs rkvs : List (String × Val)) :
    Matches F rx (.dict akvs) (.dict rkvs) ↔
      rkvs.length ≤ akvs.length ∧ ∀ kr ∈ rkvs, kr.1 ∈ F ∨ ∃ av, lookup kr.1 akvs = some av ∧ Matches F rx av kr.2 := by
  simp only [Matches]
  constructor
  · rintro ⟨as', e, hl, he⟩
    cases e
    exact ⟨hl, (dictOk_iff F rx akvs rkvs).1 he⟩
  · rintro ⟨hl, he⟩
    exact ⟨akvs, rfl, hl, (dictOk_iff F rx akvs rkvs).2 he⟩

/-- The set decision does not depend on iteration (hash) order of either set. -/
theorem set_order_independent (rx : Rx) (as as' rs rs' : List Val) (ha : as.Perm as') (hr : rs.Perm rs') :
    Matches F rx (.set as) (.set rs) ↔ Matches F rx (.set as') (.set rs') := by
  rw [set_every_member, set_every_member, ha.length_eq, hr.length_eq]
  constructor
  · rintro ⟨hl, h⟩
    refine ⟨hl, fun r hr' => ?_⟩
    obtain ⟨x, hx, hm⟩ := h r (hr.mem_iff.2 hr')
    exact ⟨x, ha.mem_iff.1 hx, hm⟩
  · rintro ⟨hl, h⟩
    refine ⟨hl, fun r hr' => ?_⟩
    obtain ⟨x, hx, hm⟩ := h r (hr.mem_iff.1 hr')
    exact ⟨x, ha.mem_iff.2 hx, hm⟩

/-- Parameters the statement does not mention never prevent a match. -/
theorem extra_params_never_prevent (rx : Rx) (akvs extra rkvs : List (String × Val))
    (h : Matches F rx (.dict akvs) (.dict rkvs)) : Matches F rx (.dict (akvs ++ extra)) (.dict rkvs) := by
  rw [dict_entries_present] at h ⊢
  obtain ⟨hl, hd⟩ := h
  refine ⟨by simp; omega, fun kr hkr => ?_⟩
  rcases hd kr hkr with h1 | ⟨av, hav, hm⟩
  · exact Or.inl h1
  · exact Or.inr ⟨av, lookup_append_some hav, hm⟩

/-- The score exponent counts unmentioned elements: it is never negative … -/
theorem exponent_nonneg (rx : Rx) (a r : Val) (k : Int) (h : score F rx a r = .ok k) : 0 ≤ k :=
  Match.score_nonneg F rx a r k h

/-- The fuzzy-match base of the current source is a proper fraction, so a larger exponent
    (more unmentioned parameters) is a strictly smaller score. -/
theorem base_lt_one : 0 < scoreBaseNum ∧ scoreBaseNum < scoreBaseDen := by decide

/-! ### Event level -/

/-- An event with another name never matches (UMIM events). -/
theorem name_must_agree (rx : Rx) (sa : String → Option (List (String × Val))) (ev ref : Ev) (p : Option (Int × Nat))
    (hn : ref.name ≠ ev.name)
    (hi : ¬ (ev.name ∈ internalEventsAll ∧ ref.name ∈ internalEventsAll)) :
    eventScore rx sa ev ref p = .zero := by
  have hc : eventCore rx sa ev ref = .zero := by
    unfold eventCore
    have h1 : ¬ (ev.name = evStartFlow ∧ ref.name = evStartFlow) := by
      rintro ⟨a, b⟩; exact hn (b.trans a.symm)
    simp [h1, hi, hn]
  simp [eventScore, hc]

/-- A statement that refers to a specific action matches only events of that action. -/
theorem action_instance_specific (rx : Rx) (sa : String → Option (List (String × Val))) (ev ref : Ev)
    (p : Option (Int × Nat)) (u : String)
    (hk : ev.kind = .action ∧ ref.kind = .action)
    (hu : ref.actionUid = some u) (hne : ev.actionUid ≠ some u)
    (hi : ¬ (ev.name ∈ internalEventsAll ∧ ref.name ∈ internalEventsAll))
    (hs : ¬ (ev.name = evStartFlow ∧ ref.name = evStartFlow)) :
    eventScore rx sa ev ref p = .zero := by
  have hc : eventCore rx sa ev ref = .zero := by
    unfold eventCore
    simp only [hs, hi, if_false]
    split
    · rfl
    · simp only [hk.1, hk.2, hu]
      have : some u ≠ ev.actionUid := fun h => hne h.symm
      simp [this]
  simp [eventScore, hc]

/-- A statement that refers to a specific flow instance never matches (positively or as a
    mismatch) an internal event of another instance. -/
theorem flow_instance_specific (rx : Rx) (sa : String → Option (List (String × Val))) (ev ref : Ev)
    (p : Option (Int × Nat)) (fu src : String)
    (hi : ev.name ∈ internalEventsAll ∧ ref.name ∈ internalEventsAll)
    (hs : ¬ (ev.name = evStartFlow ∧ ref.name = evStartFlow))
    (hf : ref.flowUid = some fu) (hsrc : lookup "source_flow_instance_uid" ev.args = some (.str src))
    (hne : src ≠ fu) :
    eventScore rx sa ev ref p = .zero ∨ eventScore rx sa ev ref p = .err := by
  have hc : eventCore rx sa ev ref = .zero ∨ eventCore rx sa ev ref = .err := by
    unfold eventCore
    simp only [hs, hi, if_false, and_self, if_true, hf, hsrc]
    have hsc : score argumentFilter rx (.str src) (.str fu) = .no := by
      simp [score, Val.isInstanceOfTypeOf, Val.pyType, PyType.isSub, Val.scalarEq, hne]
    split
    · right; rfl
    · left; rfl
    · split
      · left; rfl
      · simp [hsc]
  rcases hc with hc | hc <;> simp [eventScore, hc]

/-- The flow priority scales the score and nothing else. -/
theorem priority_only_scales (rx : Rx) (sa : String → Option (List (String × Val))) (ev ref : Ev)
    (p q : Option (Int × Nat)) (k : Int) (p' : Option (Int × Nat))
    (h : eventScore rx sa ev ref p = .pos k p') :
    p' = p ∧ eventScore rx sa ev ref q = .pos k q := by
  unfold eventScore at h ⊢
  split at h
  · rename_i k0 p0 hc
    simp at h
    simp [h.1, h.2]
  · rename_i r hr
    exact absurd h (by intro e; exact hr k p' e)

/-! ### From the statement to the reference event (`get_event_from_element`) -/

/-- `match $action_ref.Finished(..)` / `.Started(..)` advances only on events of that very action. -/
theorem action_ref_only_own_instance (rx : Rx) (sa : String → Option (List (String × Val)))
    (a : ActionObj) (member : String) (args : List (String × Val)) (ev r : Ev) (p : Option (Int × Nat))
    (hr : refEvent (.actionRef a member args) = some r)
    (hk : ev.kind = .action)
    (hi : ¬ (ev.name ∈ internalEventsAll ∧ r.name ∈ internalEventsAll))
    (hs : ¬ (ev.name = evStartFlow ∧ r.name = evStartFlow))
    (hu : ev.actionUid ≠ some a.uid) :
    eventScore rx sa ev r p = .zero := by
  simp only [refEvent, ActionObj.matchEvent] at hr
  split at hr
  · simp only [Option.some.injEq] at hr
    subst hr
    exact action_instance_specific rx sa ev _ p a.uid ⟨hk, rfl⟩ rfl hu hi hs
  · simp at hr

/-- `match $flow_ref.Finished(..)` / `.Started(..)` / `.Failed(..)` never advances (nor fails) on an internal
    event that originates from another flow instance. -/
theorem flow_ref_only_own_instance (rx : Rx) (sa : String → Option (List (String × Val)))
    (f : FlowObj) (member : String) (args : List (String × Val)) (ev r : Ev) (p : Option (Int × Nat)) (src : String)
    (hr : refEvent (.flowRef f member args) = some r)
    (hi : ev.name ∈ internalEventsAll) (hs : ev.name ≠ evStartFlow)
    (hsrc : lookup "source_flow_instance_uid" ev.args = some (.str src)) (hne : src ≠ f.uid) :
    eventScore rx sa ev r p = .zero ∨ eventScore rx sa ev r p = .err := by
  have hs' : ∀ n, ¬ (ev.name = evStartFlow ∧ n = evStartFlow) := fun n h => hs h.1
  simp only [refEvent, FlowObj.matchEvent] at hr
  split at hr
  · simp only [Option.some.injEq] at hr; subst hr
    exact flow_instance_specific rx sa ev _ p f.uid src ⟨hi, by simp [internalEventsAll, evFlowStarted]⟩ (hs' _) rfl hsrc hne
  · split at hr
    · simp only [Option.some.injEq] at hr; subst hr
      exact flow_instance_specific rx sa ev _ p f.uid src ⟨hi, by simp [internalEventsAll, evFlowFailed]⟩ (hs' _) rfl hsrc hne
    · split at hr
      · simp only [Option.some.injEq] at hr; subst hr
        exact flow_instance_specific rx sa ev _ p f.uid src ⟨hi, by simp [internalEventsAll, evFlowFinished]⟩ (hs' _) rfl hsrc hne
      · simp at hr

/-- A statement built from an action constructor (`match SomeAction(..).Finished(..)`) is NOT tied to an
    instance: its reference event carries no action uid. -/
theorem action_ctor_not_instance_specific (name member : String) (ctorArgs args : List (String × Val)) (r : Ev)
    (hr : refEvent (.actionCtor name ctorArgs member args) = some r) : r.actionUid = none := by
  simp only [refEvent, ActionObj.matchEvent] at hr
  split at hr
  · simp at hr; subst hr; rfl
  · simp at hr

/-- A statement built from a flow constructor (`match some_flow(..).Finished()`) is not tied to an instance either:
    no flow reference, and the two instance uid parameters are removed from the pattern. -/
theorem flow_ctor_not_instance_specific (flowId member : String) (defaults args : List (String × Val)) (r : Ev)
    (hr : refEvent (.flowCtor flowId defaults member args) = some r) :
    r.flowUid = none ∧ lookup "flow_instance_uid" r.args = none ∧ lookup "source_flow_instance_uid" r.args = none := by
  have hl : ∀ (k : String) (l : List (String × Val)) (p : String × Val → Bool), (∀ v, p (k, v) = false) →
      lookup k (l.filter p) = none := by
    intro k l p hp
    induction l with
    | nil => simp [lookup]
    | cons kv rest ih =>
      obtain ⟨k', v'⟩ := kv
      simp only [List.filter]
      split
      · rename_i hk
        simp only [lookup]
        split
        · rename_i e; subst e; rw [hp v'] at hk; cases hk
        · exact ih
      · exact ih
  simp only [refEvent, Option.map_eq_some_iff] at hr
  obtain ⟨e, _, he⟩ := hr
  subst he
  refine ⟨rfl, hl _ _ _ (by intro v; simp), hl _ _ _ (by intro v; simp)⟩

/-- The type gate in front of the comparison: an internal-event statement never matches an action event and vice versa. -/
theorem kinds_must_agree (rx : Rx) (sa : String → Option (List (String × Val))) (ev ref : Ev) (p : Option (Int × Nat))
    (h : ev.kind ≠ .plain) (hk : ref.kind ≠ ev.kind) : matchingScore rx sa ev ref p = .zero := by
  unfold matchingScore kindIsInstance
  have h1 : (ev.kind == EvKind.plain) = false := by simpa using h
  have h2 : (ref.kind == ev.kind) = false := by simpa using hk
  simp [h1, h2]


/-! ### A waiting statement over a history: "a waiting `match` statement advances on an event exactly when … every
    parameter written in the statement is matched by the event's value" — the parameters are expressions; what they are
    worth is decided by the state current WHEN THE EVENT IS PROCESSED (`Models/MatchHist.lean`).  `Stmt` is an arbitrary
    function of the environment, so the theorems hold for every expression semantics. -/

/-- A head that is still waiting after the history `pre` advances on the event `e` exactly when `e` is a candidate for
    it and the statement, evaluated in the environment produced by the `set` steps of `pre` (and by nothing else),
    yields a reference event with a positive matching score. -/
theorem waiting_statement_follows_current_state (rx : Rx) (sa : String → Option (List (String × Val)))
    (env : Env) (h : Head) (pre : List Step) (e : Ev)
    (h0 : h.waiting = true) (hw : (runState rx sa env h pre).2.waiting = true) :
    outcomeAfter rx sa env h pre e = .hit ↔
      isCandidate h.evName e.name = true ∧
      ∃ ms ref k p, h.stmt (envAfter env pre) = some ms ∧ refEvent ms = some ref ∧
        matchingScore rx sa e ref h.prio = .pos k p := by
  unfold outcomeAfter
  rw [runState_head_waiting rx sa env h pre h0 hw, runState_env]
  exact stepHead_ev_hit rx sa (envAfter env pre) h e h0

/-- Earlier events leave no trace: two histories that leave the head waiting and produce the same environment give
    the same outcome for every next event — whatever events were compared (and rejected) before. -/
theorem earlier_events_leave_no_trace (rx : Rx) (sa : String → Option (List (String × Val)))
    (env : Env) (h : Head) (pre pre' : List Step) (e : Ev) (h0 : h.waiting = true)
    (hw : (runState rx sa env h pre).2.waiting = true) (hw' : (runState rx sa env h pre').2.waiting = true)
    (henv : envAfter env pre = envAfter env pre') :
    outcomeAfter rx sa env h pre e = outcomeAfter rx sa env h pre' e := by
  unfold outcomeAfter
  rw [runState_head_waiting rx sa env h pre h0 hw, runState_head_waiting rx sa env h pre' h0 hw', runState_env,
    runState_env, henv]

/-- … in particular all events of the history can be dropped: only its `set` steps count. -/
theorem outcome_depends_on_sets_only (rx : Rx) (sa : String → Option (List (String × Val)))
    (env : Env) (h : Head) (pre : List Step) (e : Ev) (h0 : h.waiting = true)
    (hw : (runState rx sa env h pre).2.waiting = true) :
    outcomeAfter rx sa env h pre e = outcomeAfter rx sa env h (setsOf pre) e := by
  apply earlier_events_leave_no_trace rx sa env h pre (setsOf pre) e h0 hw
  · rw [runState_setsOf]; exact h0
  · rw [envAfter_setsOf]

/-- The property for a plain event statement `match Name(params)` in a history: the head advances on a (plain) event
    exactly when the event has the statement's name and the documented relation holds between the event's arguments
    and the parameters AS THEY EVALUATE NOW (hypotheses as in `match_iff_documented`). -/
theorem plain_statement_advances_iff_documented_now (rx : Rx) (sa : String → Option (List (String × Val)))
    (env : Env) (h : Head) (pre : List Step) (e : Ev) (name : String) (ps : List (String × Val))
    (h0 : h.waiting = true) (hw : (runState rx sa env h pre).2.waiting = true)
    (hs : h.stmt (envAfter env pre) = some (.bare name false ps)) (hn : h.evName = name)
    (hni : name ∉ internalEventsAll) (hna : (name.splitOn "Action").length ≤ 1)
    (hk : e.kind = .plain) (hr : NoReserved F (.dict ps)) (hne : score F rx (.dict e.args) (.dict ps) ≠ .err) :
    outcomeAfter rx sa env h pre e = .hit ↔ e.name = name ∧ Matches [] rx (.dict e.args) (.dict ps) := by
  rw [waiting_statement_follows_current_state rx sa env h pre e h0 hw, ← match_iff_documented rx _ _ hr hne]
  have href : refEvent (.bare name false ps) = some { kind := .plain, name := name, args := ps } := by
    have : ¬ (name.splitOn "Action").length > 1 := by omega
    simp [refEvent, hni, this]
  have hms : matchingScore rx sa e { kind := .plain, name := name, args := ps } h.prio =
      if name ≠ e.name then .zero else
        match score F rx (.dict e.args) (.dict ps) with
        | .ok k => .pos k h.prio
        | .no => .zero
        | .err => .err := by
    have hc := eventCore_plain rx sa e { kind := .plain, name := name, args := ps } hk hni
    simp only [matchingScore, kindIsInstance, hk, eventScore, hc]
    by_cases hnn : name = e.name
    · cases hsc : score argumentFilter rx (.dict e.args) (.dict ps) <;> simp [hnn, resToEv]
    · simp [hnn]
  constructor
  · rintro ⟨_, ms, ref, k, p, h1, h2, h3⟩
    rw [hs] at h1
    cases h1
    rw [href] at h2
    cases h2
    rw [hms] at h3
    by_cases hnn : name = e.name
    · refine ⟨hnn.symm, ?_⟩
      cases hsc : score F rx (.dict e.args) (.dict ps) <;> simp_all [Res.isOk]
    · simp [hnn] at h3
  · rintro ⟨hnn, hok⟩
    refine ⟨by simp [isCandidate, hn, hnn], .bare name false ps, { kind := .plain, name := name, args := ps }, ?_⟩
    cases hsc : score F rx (.dict e.args) (.dict ps) with
    | ok k =>
      refine ⟨k, h.prio, hs, href, ?_⟩
      rw [hms]; simp [hnn, hsc]
    | no => rw [hsc] at hok; simp [Res.isOk] at hok
    | err => exact absurd hsc hne

/-- Instance references in a history: a waiting `match $action_ref.Finished(<expressions>)` never advances on an event
    of another (or of no) action instance — whatever its parameters are worth now and whatever was compared before. -/
theorem waiting_action_ref_only_own_instance (rx : Rx) (sa : String → Option (List (String × Val)))
    (env : Env) (h : Head) (pre : List Step) (e : Ev) (a : ActionObj) (member : String)
    (h0 : h.waiting = true) (hw : (runState rx sa env h pre).2.waiting = true)
    (hs : ∀ ms, h.stmt (envAfter env pre) = some ms → ∃ args, ms = .actionRef a member args)
    (hk : e.kind = .action) (hi : e.name ∉ internalEventsAll) (hu : e.actionUid ≠ some a.uid) :
    outcomeAfter rx sa env h pre e ≠ .hit := by
  intro hhit
  obtain ⟨_, ms, ref, k, p, h1, h2, h3⟩ := (waiting_statement_follows_current_state rx sa env h pre e h0 hw).1 hhit
  obtain ⟨args, rfl⟩ := hs ms h1
  have hz : eventScore rx sa e ref h.prio = .zero :=
    action_ref_only_own_instance rx sa a member args e ref h.prio h2 hk (fun hh => hi hh.1)
      (fun hh => hi (by rw [hh.1]; decide)) hu
  unfold matchingScore at h3
  split at h3
  · rw [hz] at h3; cases h3
  · cases h3

/-- What the code must not do (the seeded change `C04-e`): with the reference event kept per head from the first
    comparison on, `match $a.Finished(final_script=$g)` with `$g` changed from "a" to "b" after a first non-matching
    event of that action advances on `final_script="a"` — while the statement evaluated now asks for "b" (`runHist`,
    the model of the code as it is, stays idle). -/
theorem cached_reference_event_counterexample :
    let h : Head := { stmt := fun env => env[0]?.map fun v =>
                        .actionRef { uid := "u1", name := "A", startArgs := [] } "Finished" [("final_script", v)],
                      evName := "AFinished" }
    let ev (s : String) : Step :=
      .ev { kind := .action, name := "AFinished", args := [("final_script", .str s)], actionUid := some "u1" }
    let hist := [ev "zz", .set 0 (.str "b"), ev "a"]
    runHistCached (fun _ _ => false) (fun _ => none) [.str "a"] h none hist = [.idle, .idle, .hit]
    ∧ runHist (fun _ _ => false) (fun _ => none) [.str "a"] h hist = [.idle, .idle, .idle]
    ∧ ¬ Matches [] (fun _ _ => false) (.dict [("final_script", .str "a")]) (.dict [("final_script", .str "b")]) := by
  refine ⟨?_, ?_, ?_⟩
  · simp [runHistCached, stepHeadCached, isCandidate, refEvent, ActionObj.matchEvent, matchingScore, kindIsInstance,
      eventScore, eventCore, score, scoreDict, lookup, outcomeOf, internalEventsAll, evStartFlow, evFlowFinished,
      evFlowFailed, evFlowStarted, argumentFilter, Val.isInstanceOfTypeOf, Val.pyType, PyType.isSub, Val.scalarEq]
  · simp [runHist, stepHead, headScore, isCandidate, refEvent, ActionObj.matchEvent, matchingScore, kindIsInstance,
      eventScore, eventCore, score, scoreDict, lookup, outcomeOf, internalEventsAll, evStartFlow, evFlowFinished,
      evFlowFailed, evFlowStarted, argumentFilter, Val.isInstanceOfTypeOf, Val.pyType, PyType.isSub, Val.scalarEq]
  · simp [Matches, DictOk, lookup]

/-- non-vacuity of `waiting_statement_follows_current_state` / `earlier_events_leave_no_trace`: a head that is still
    waiting after a non-matching event and a change of `$g`, and then advances on the value `$g` has NOW -/
example :
    let h : Head := { stmt := fun env => env[0]?.map fun v =>
                        .actionRef { uid := "u1", name := "A", startArgs := [] } "Finished" [("final_script", v)],
                      evName := "AFinished" }
    let ev (s : String) : Ev :=
      { kind := .action, name := "AFinished", args := [("final_script", .str s)], actionUid := some "u1" }
    let pre : List Step := [.ev (ev "zz"), .set 0 (.str "b")]
    h.waiting = true ∧ (runState (fun _ _ => false) (fun _ => none) [.str "a"] h pre).2.waiting = true
    ∧ outcomeAfter (fun _ _ => false) (fun _ => none) [.str "a"] h pre (ev "b") = .hit
    ∧ outcomeAfter (fun _ _ => false) (fun _ => none) [.str "a"] h pre (ev "a") = .idle := by
  simp [outcomeAfter, runState, stepHead, headScore, isCandidate, refEvent, ActionObj.matchEvent, matchingScore,
    kindIsInstance, eventScore, eventCore, score, scoreDict, lookup, outcomeOf, internalEventsAll, evStartFlow,
    evFlowFinished, evFlowFailed, evFlowStarted, argumentFilter, Val.isInstanceOfTypeOf, Val.pyType, PyType.isSub,
    Val.scalarEq]

/-- non-vacuity of `waiting_action_ref_only_own_instance`: the hypotheses hold for the head above and an event of
    action `u2` that carries exactly the value the statement asks for now; it stays idle -/
example :
    let a : ActionObj := { uid := "u1", name := "A", startArgs := [] }
    let h : Head := { stmt := fun env => env[0]?.map fun v => .actionRef a "Finished" [("final_script", v)],
                      evName := "AFinished" }
    let e : Ev := { kind := .action, name := "AFinished", args := [("final_script", .str "b")], actionUid := some "u2" }
    let pre : List Step := [.set 0 (.str "b")]
    (∀ ms, h.stmt (envAfter [.str "a"] pre) = some ms → ∃ args, ms = .actionRef a "Finished" args)
    ∧ e.name ∉ internalEventsAll ∧ e.actionUid ≠ some a.uid
    ∧ outcomeAfter (fun _ _ => false) (fun _ => none) [.str "a"] h pre e = .idle := by
  refine ⟨?_, ?_, ?_, ?_⟩
  · intro ms hms
    simp [envAfter] at hms
    exact ⟨_, hms.symm⟩
  · simp [internalEventsAll]
  · simp
  · simp [outcomeAfter, runState, stepHead, headScore, isCandidate, refEvent, ActionObj.matchEvent, matchingScore,
      kindIsInstance, eventScore, eventCore, outcomeOf, internalEventsAll, evStartFlow, evFlowFinished, evFlowFailed,
      evFlowStarted]

/-- non-vacuity of `plain_statement_advances_iff_documented_now` for `match Ev(x=$g)`.  The kernel cannot evaluate
    `String.splitOn` (recursion over byte positions), so the fact `"Action" not in "Ev"` is a hypothesis here; the
    compiled driver evaluates `refEvent (.bare "Ev" false _)` on every `C04.hist` request and the harness requires the
    answer `plain` (`ref_kind`). -/
example (hsp : ("Ev".splitOn "Action").length ≤ 1) :
    let h : Head := { stmt := bareStmt "Ev" false [("x", .var 0)] [], evName := "Ev" }
    let pre : List Step := [.set 0 (.str "b")]
    h.waiting = true ∧ (runState (fun _ _ => false) (fun _ => none) [.str "a"] h pre).2.waiting = true
    ∧ h.stmt (envAfter [.str "a"] pre) = some (.bare "Ev" false [("x", .str "b")])
    ∧ "Ev" ∉ internalEventsAll ∧ ("Ev".splitOn "Action").length ≤ 1
    ∧ NoReserved F (.dict [("x", .str "b")])
    ∧ score F (fun _ _ => false) (.dict [("x", .str "b"), ("y", .int 1)]) (.dict [("x", .str "b")]) = .ok 1 := by
  refine ⟨rfl, ?_, ?_, ?_, hsp, ?_, ?_⟩
  · simp [runState, stepHead]
  · simp [bareStmt, envAfter, Tm.evalKvs, Tm.eval]
  · simp [internalEventsAll]
  · simp [NoReserved, NoReservedKvs, F, argumentFilter]
  · simp [score, scoreDict, lookup, F, argumentFilter, Val.isInstanceOfTypeOf, Val.pyType, PyType.isSub, Val.scalarEq]

/-! ### The open finding, kernel-checked on the model of the code as it is -/

/-- `{"return_value": 1}` matches `{"return_value": 2, "a": 1}` (score 0.9^1) although the
    documented relation (empty filter) does not hold. -/
theorem reserved_keys_ignored_witness :
    score ["return_value", "activated", "source_flow_instance_uid"] (fun _ _ => false)
      (.dict [("return_value", .int 2), ("a", .int 1)]) (.dict [("return_value", .int 1)]) = .ok 1
    ∧ ¬ Matches [] (fun _ _ => false)
      (.dict [("return_value", .int 2), ("a", .int 1)]) (.dict [("return_value", .int 1)]) := by
  constructor
  · simp [score, scoreDict]
  · simp [Matches, DictOk, lookup, Val.isInstanceOfTypeOf, Val.pyType, PyType.isSub, Val.scalarEq]

/-! ### Non-vacuity: the hypotheses are met by concrete non-trivial instances (tests, not theorems) -/

example : score F (fun id v => id == 0 && v.key == "s:ab") (.dict [("x", .list [.str "ab", .int 3, .int 4]), ("y", .none)])
    (.dict [("x", .list [.regex 0, .int 4])]) = .ok 2 := by
  simp [score, scoreDict, scoreList, firstHit, lookup, F, argumentFilter, isStrIntFloat, Val.key, Val.isInstanceOfTypeOf, Val.pyType, PyType.isSub, Val.scalarEq]
example : NoReserved F (.dict [("x", .list [.regex 0, .int 4])]) := by
  simp [NoReserved, NoReservedKvs, NoReservedList, F, argumentFilter]
example : score F (fun _ _ => false) (.set [.int 1]) (.set [.int 1, .int 2]) = .no := by simp [score]
example : score F (fun _ _ => false) (.str "a") (.cmp .lt (.int 3)) = .err := by
  simp [score, cmpCompare, Val.isInstanceOfTypeOf, Val.pyType, PyType.isSub]

end NemoVerif.C04
