/-
  C10 — event processing terminates and a faulty flow fails alone.  PROPERTY THEOREMS ONLY.

  Models: `Models/SlideGraph.lean` (control flow of `slide()` over one flow's element list),
          `Models/ErrContain.lean`  (`_advance_head_front`'s try/except for one head, restart logic of
                                      `_abort_flow`/`_finish_flow`, the matching phase of `run_to_completion`).
  All theorems below are unbounded (∀ programs, oracles, states) unless labelled "witness".

  What is NOT carried by a theorem (kept visible here, decided by the step-budget oracle on the real
  interpreter; see design_notes/C10.md):

    T2  run_terminates :
        ∀ program, (∀ flow, SlideAcyclic flow) → StartAcyclic program →
          ∀ state event, ∃ fuel ≤ B(|program|, |instances|), runToCompletion fuel state event ≠ none
    needs the whole-interpreter model (CoreVM, built under C09).  The function-level facts it rests on are
    proved here: `slide_terminates` (each `slide` call is bounded by the flow's size),
    `restart_guard` (an activated flow that finishes before waiting is not restarted) and — for the
    repaired tree — `restart_guard_fail_repaired`.  On the pinned tree the statement is FALSE for an
    activated flow that fails before its first waiting statement: `activated_failure_restarts_as_is`.
-/
import NemoVerif.Lemmas.SlideGraph
import NemoVerif.Lemmas.ErrContain
import NemoVerif.Lemmas.RoundMachine
import NemoVerif.Lemmas.SlideGraphComplete
import NemoVerif.Lemmas.ErrFrameAdvVM
import NemoVerif.Lemmas.ErrFrameCorVM
import NemoVerif.Lemmas.ErrLeafVM
import NemoVerif.Lemmas.ErrRestartVM
import NemoVerif.Lemmas.ErrExtVM
import NemoVerif.Lemmas.SlideStepVM
import NemoVerif.Lemmas.ErrHandleVM
import NemoVerif.Lemmas.ErrReport
import NemoVerif.Lemmas.ProcessEvents

namespace NemoVerif.C10
open NemoVerif.SlideGraph NemoVerif.ErrContain NemoVerif.RoundMachine

/-! ## Termination of `slide` -/

/-- Every loop iteration of `slide` that moves the head follows an edge of the sliding graph
    (so the graph really over-approximates the control flow the model executes). -/
theorem slide_step_is_edge (p : Prog) (a : Ans) (h h' : Head) (hs : stepAt p a h = .next h') (hc : CatchOk p h) :
    Edge p h.pos h'.pos ∧ CatchOk p h' :=
  ⟨(stepAt_next hs hc).1, (stepAt_next hs hc).2.1⟩

/-- **T1 `slide_terminates`.** If no cycle of sliding elements exists in a flow (every loop contains a waiting
    statement), then from ANY position, for EVERY outcome of the evaluated expressions, `slide` leaves its
    `while True` loop within `|elements| + 1` iterations. -/
theorem slide_terminates (p : Prog) (hac : SlideAcyclic p) (h : Head) (hc : CatchOk p h) (o : Nat → Ans) (k : Nat) :
    (slide p o (slideBound p) k h).stop ≠ none := by
  intro hnone
  obtain ⟨hlen, hb⟩ := slide_out_of_fuel (slideBound p) k h hc hnone
  have hnd := slide_trace_nodup (o := o) hac (slideBound p) k h hc
  have := nodup_bounded_length hnd hb
  rw [hlen] at this
  unfold slideBound at this
  omega

/-- … and more fuel changes nothing: the run with fuel `|elements| + 1` is THE run, its trace never repeats a position. -/
theorem slide_bound_exact (p : Prog) (hac : SlideAcyclic p) (h : Head) (hc : CatchOk p h) (o : Nat → Ans) (k extra : Nat) :
    slide p o (slideBound p + extra) k h = slide p o (slideBound p) k h ∧
    (slide p o (slideBound p + extra) k h).trace.Nodup ∧
    (slide p o (slideBound p + extra) k h).trace.length ≤ p.length + 1 := by
  have e := slide_fuel_mono (slideBound p) k h (slide_terminates p hac h hc o k) extra
  refine ⟨e, slide_trace_nodup hac _ k h hc, ?_⟩
  rw [e]
  -- trace length ≤ fuel
  have : ∀ (fuel k : Nat) (h : Head), (slide p o fuel k h).trace.length ≤ fuel := by
    intro fuel
    induction fuel with
    | zero => intro k h; simp [slide]
    | succ n ih =>
      intro k h
      unfold slide
      cases hs : stepAt p (o k) h with
      | stop s => simp
      | next h' => simp only [List.length_cons]; exact Nat.succ_le_succ (ih (k + 1) h')
  exact this (slideBound p) k h

/-- **The verified checker is sound**: a flow accepted by `slideAcyclic` (run by the harness on every generated
    program and on all shipped library flows, compiled by the repo's own parser + expander) has no sliding cycle. -/
theorem slideAcyclic_sound (p : Prog) (h : slideAcyclic p = true) : SlideAcyclic p :=
  checkRank_sound h

/-- **checker completeness** (phase 4): an acyclic sliding graph is ALWAYS accepted — the verified checker never rejects a flow
    whose loops all contain a waiting statement (no false alarm by construction; `Wit`/`Low` invariants of the Gauss–Seidel
    sweeps, `Lemmas/SlideGraphComplete.lean`). -/
theorem slideAcyclic_complete (p : Prog) (h : SlideAcyclic p) : slideAcyclic p = true :=
  NemoVerif.SlideGraph.slideAcyclic_complete p h

/-- the checker DECIDES acyclicity of the sliding graph -/
theorem slideAcyclic_iff (p : Prog) : slideAcyclic p = true ↔ SlideAcyclic p :=
  NemoVerif.SlideGraph.slideAcyclic_iff p

/-- Corollary used by the harness: checker says yes ⇒ every `slide` call on that flow is bounded. -/
theorem checked_flow_slide_terminates (p : Prog) (hck : slideAcyclic p = true) (h : Head) (hc : CatchOk p h)
    (o : Nat → Ans) (k : Nat) : (slide p o (p.length + 1) k h).stop ≠ none :=
  slide_terminates p (slideAcyclic_sound p hck) h hc o k

/-- **T1, stack-sensitive form `slide_terminates_ranked`.** A certificate accepted by the VERIFIED check `certOk`
    (which catch stacks can occur at which position + a rank of the positions) bounds every `slide` that starts in an
    allowed state by `|elements| + 1` iterations, for every oracle.  `slideRanked p` = the check on the certificate the
    (un-verified) search `buildCert` finds; the harness runs it on every compiled flow and checks that every recorded real
    `slide` call starts in an allowed state. -/
theorem slide_terminates_ranked (p : Prog) (c : Cert) (hc : certOk p c = true) (h : Head)
    (ha : c.allowed h.pos h.cstack = true) (o : Nat → Ans) (k : Nat) :
    (slide p o (slideBound p) k h).stop ≠ none := by
  by_cases hle : h.pos ≤ p.length
  · exact slide_stops_ranked hc (slideBound p) k h ha (by have := certOk_rank_le hc hle; unfold slideBound; omega)
  · unfold slideBound slide
    have : p[h.pos]? = none := List.getElem?_eq_none_iff.mpr (by omega)
    simp [stepAt, this]

/-- the allowed states are closed under what the interpreter does with a head: the state in which a run of `slide` ends,
    and the states in which the next `slide` of a parked head starts (one element on; behind the innermost catch label
    after a pattern failure) — so, starting from `(0, [])`, every `slide` call starts in an allowed state. -/
theorem allowed_states_closed (p : Prog) (c : Cert) (hc : certOk p c = true) :
    c.allowed 0 [] = true ∧
    (∀ (h : Head) (o : Nat → Ans) (fuel k : Nat), c.allowed h.pos h.cstack = true →
      c.allowed (slide p o fuel k h).final.pos (slide p o fuel k h).final.cstack = true) ∧
    (∀ (u : Nat) (s : List Nat), u < p.length → c.allowed u s = true → ∀ m ∈ resumeMoves p u s, c.allowed m.1 m.2 = true) := by
  refine ⟨?_, fun h o fuel k ha => slide_final_allowed hc fuel k h ha, fun u s hu ha m hm => certOk_resume hc hu ha hm⟩
  unfold certOk at hc
  simp only [Bool.and_eq_true] at hc
  exact hc.1.1

/-- `when`-shaped flow (catch label pushed, wait, jump over the failure handler `label; catchPop; abort`, end label,
    catchPop): rejected by the coarse position graph (abort → the already popped label), accepted by the refined check -/
def whenShape : Prog :=
  [.catchPush 3, .wait false, .goto (some 6), .step false, .catchPop, .abort, .step false, .catchPop]
example : slideAcyclic whenShape = false := by decide
example : slideRanked whenShape = true := by decide

/-- non-vacuity: `while $c: (match …)`-shaped flow — label, goto-out, WAIT, goto-back, label — is accepted -/
def loopWithWait : Prog := [.step false, .goto (some 4), .wait false, .goto (some 0), .step false]
example : slideAcyclic loopWithWait = true := by decide
/-- non-vacuity of `slideAcyclic_complete`: a loop WITH a wait is acyclic -/
example : SlideAcyclic loopWithWait := slideAcyclic_sound _ (by decide)
example : CatchOk loopWithWait { pos := 0, cstack := [] } := by intro t ht; simp at ht

/-- witness that the hypothesis is needed: `while True: $x = 1` (no waiting statement) is rejected by the checker
    and the model `slide` runs out of EVERY fuel when the condition stays true. -/
def busyLoop : Prog := [.step false, .goto (some 4), .step true, .goto (some 0), .step false]
example : slideAcyclic busyLoop = false := by decide

/-- the smallest busy loop `L: goto L if True`: the model `slide` runs out of EVERY fuel -/
theorem busy_loop_never_stops (fuel : Nat) : ∀ k,
    (slide [.step false, .goto (some 0)] (fun _ => .tt) fuel k { pos := 1, cstack := [] }).stop = none := by
  induction fuel with
  | zero => intro k; rfl
  | succ n ih =>
    intro k
    unfold slide
    have : stepAt [.step false, .goto (some 0)] Ans.tt { pos := 1, cstack := [] } = .next { pos := 1, cstack := [] } := by decide
    simp only [this]
    exact ih (k + 1)

/-! ## Containment of evaluation errors (`_advance_head_front`) -/

/-- **T1 `error_contained`** (frame theorem, both variants): when `slide` of head `huid` of instance `fuid` raises,
    * a `ColangError` event is queued and nothing that was queued is lost,
    * the instance is STOPPED and holds no head,
    * every record other than the instance and its parent is unchanged; the parent only loses the instance from its
      child list (`AbortRel`). -/
theorem error_contained (v : Variant) (progs : Nat → Prog) (s : St) (fuid huid : Nat) (o : Nat → Ans) (fuel : Nat)
    (f : Inst) (h : HeadRec) (run : Run)
    (hs : slideOf progs s fuid huid o fuel = some (f, h, run)) (he : run.stop = some .error) :
    IEv.colangError ∈ (advanceOne v progs s fuid huid o fuel).queue ∧
    (∃ pre post, (advanceOne v progs s fuid huid o fuel).queue = pre ++ s.queue ++ post) ∧
    Upd (AbortRel f) s (advanceOne v progs s fuid huid o fuel) := by
  obtain ⟨hu, src, hq⟩ := advanceOne_error (v := v) hs he
  generalize (if (decide ((errMap v f fuid f).activated > 0) && !(errMap v f fuid f).newInstanceStarted) = true then
      [IEv.startFlow f.flowId src] else []) = pre at hq
  refine ⟨?_, ⟨pre, [.colangError, .flowFailed fuid], ?_⟩, hu⟩
  · rw [hq]; simp
  · rw [hq]; simp [List.append_assoc]

/-- **T1 `restart_guard`** (both variants): an activated flow that reaches its end before it ever waited (status still
    STARTING) is not finished and therefore not restarted in this processing round — only `FlowStarted` is queued, even if
    the run passed `start_new_flow_instance` labels (they only fire in status STARTED). -/
theorem restart_guard (v : Variant) (progs : Nat → Prog) (s : St) (fuid huid : Nat) (o : Nat → Ans) (fuel : Nat)
    (f : Inst) (h : HeadRec) (run : Run)
    (hs : slideOf progs s fuid huid o fuel = some (f, h, run)) (he : run.stop = some .atEnd)
    (hns : run.final.stopping = false) (hst : entryStatus f = .starting) (hact : f.activated > 0) :
    (advanceOne v progs s fuid huid o fuel).queue = s.queue ++ [.flowStarted fuid] :=
  advanceOne_immediate_finish hs he hns hst hact

/-- **Finding (pinned tree) `activated_failure_restarts_as_is`**: there is no such guard for FAILING: whenever an
    activated flow (not yet restarted) raises in `slide`, a `StartFlow` for the same flow is pushed to the FRONT of the
    deque — also when the flow has not waited yet, so the new instance raises again, … (non-termination; the real
    interpreter is shown to exceed every step budget on the witness in harness/corpus/C10). -/
theorem activated_failure_restarts_as_is (progs : Nat → Prog) (s : St) (fuid huid : Nat) (o : Nat → Ans) (fuel : Nat)
    (f : Inst) (h : HeadRec) (run : Run)
    (hs : slideOf progs s fuid huid o fuel = some (f, h, run)) (he : run.stop = some .error)
    (hact : f.activated > 0) (hnis : f.newInstanceStarted = false) :
    ∃ src, (advanceOne .asIs progs s fuid huid o fuel).queue =
      IEv.startFlow f.flowId src :: (s.queue ++ [.colangError, .flowFailed fuid]) := by
  obtain ⟨_, src, hq⟩ := advanceOne_error (v := .asIs) hs he
  have hfu : f.uid = fuid := find_uid (slideOf_some hs).1
  refine ⟨src, ?_⟩
  rw [hq]
  simp [errMap, hfu, hact, hnis]

/-- **`restart_guard_fail_repaired`** (tree with fixes/C10-activated-fail-restart-guard.diff): an activated flow that
    raises while still STARTING is aborted without a restart: exactly `ColangError` and `FlowFailed` are queued. -/
theorem restart_guard_fail_repaired (progs : Nat → Prog) (s : St) (fuid huid : Nat) (o : Nat → Ans) (fuel : Nat)
    (f : Inst) (h : HeadRec) (run : Run)
    (hs : slideOf progs s fuid huid o fuel = some (f, h, run)) (he : run.stop = some .error)
    (hst : entryStatus f = .starting) (hact : f.activated > 0) :
    (advanceOne .repaired progs s fuid huid o fuel).queue = s.queue ++ [.colangError, .flowFailed fuid] := by
  obtain ⟨_, src, hq⟩ := advanceOne_error (v := .repaired) hs he
  have hfu : f.uid = fuid := find_uid (slideOf_some hs).1
  rw [hq]
  simp [errMap, hfu, hact, hst]

/-- non-vacuity of the hypotheses of the four theorems above: a concrete state with an activated instance whose first
    statement raises / whose flow is empty (witness, by evaluation). -/
def demoProgs : Nat → Prog
  | 1 => [.wait false, .step true, .wait false]     -- flow `a`:  (match StartFlow) ; $v = "t" + 3 ; match Ev()
  | 2 => [.wait false, .step false]           -- flow `e`:  (match StartFlow) ; $v = 1     (finishes immediately)
  | _ => [.wait false]
def demoState : St :=
  { insts := [
      { uid := 10, flowId := 0, status := .started, activated := 0, newInstanceStarted := false, parent := none, children := [11, 12, 13],
        heads := [{ uid := 1, pos := 0, status := .active, cstack := [] }] },
      { uid := 11, flowId := 1, status := .waiting, activated := 1, newInstanceStarted := false, parent := some 10, children := [],
        heads := [{ uid := 2, pos := 0, status := .active, cstack := [] }] },
      { uid := 12, flowId := 2, status := .waiting, activated := 1, newInstanceStarted := false, parent := some 10, children := [],
        heads := [{ uid := 3, pos := 0, status := .active, cstack := [] }] },
      { uid := 13, flowId := 3, status := .started, activated := 1, newInstanceStarted := false, parent := some 10, children := [],
        heads := [{ uid := 4, pos := 0, status := .active, cstack := [] }] }],
    queue := [.other 7] }
/-- the erroring oracle: every evaluation raises -/
def allErr : Nat → Ans := fun _ => .err

example : ∃ f h run, slideOf demoProgs demoState 11 2 allErr 3 = some (f, h, run) ∧ run.stop = some .error ∧
    entryStatus f = .starting ∧ f.activated > 0 ∧ f.newInstanceStarted = false := by
  refine ⟨_, _, _, rfl, ?_⟩; decide
example : ∃ f h run, slideOf demoProgs demoState 12 3 allErr 3 = some (f, h, run) ∧ run.stop = some .atEnd ∧
    run.final.stopping = false ∧ entryStatus f = .starting ∧ f.activated > 0 := by
  refine ⟨_, _, _, rfl, ?_⟩; decide
/-- witness: on the pinned tree the failing activated instance 11 queues its own restart in front of everything … -/
example : (advanceOne .asIs demoProgs demoState 11 2 allErr 3).queue =
    [.startFlow 1 11, .other 7, .colangError, .flowFailed 11] := by decide
/-- … and the observer instance 13 (and the sibling 12) are untouched -/
example : (advanceOne .asIs demoProgs demoState 11 2 allErr 3).insts[3]? = demoState.insts[3]? := by decide

/-! ## Errors raised while MATCHING (`run_to_completion`, loop over `head_candidates`) -/

/-- **Finding (pinned tree) `matching_error_escapes_as_is`**: as soon as `_compute_event_matching_score` raises for ONE
    candidate head, the whole matching phase is abandoned (the exception leaves `run_to_completion`): no candidate — not even
    those scanned before — is advanced for this event. -/
theorem matching_error_escapes_as_is (cands : List Cand) (h : ∃ c ∈ cands, c.score = .err) :
    matchPhaseAsIs cands = none :=
  matchPhaseAsIs_none h

/-- outside the finding's region both variants agree (`…_partial` form of containment for the pinned tree) -/
theorem matching_phase_partial (cands : List Cand) (h : ∀ c ∈ cands, c.score ≠ .err) :
    matchPhaseAsIs cands = some (matchPhaseRepaired cands) :=
  matchPhaseAsIs_some h

/-- **`matching_error_contained`** (tree with fixes/C10-matching-error-contained.diff): for EVERY candidate list
    * the heads that match / mismatch are exactly those that would match / mismatch if the raising candidates did not
      exist (unrelated flows receive the same event),
    * one `ColangError` per raising candidate is queued and nothing queued is lost,
    * after aborting the raising heads' flows every record of a flow that did not raise keeps its status, heads,
      activation and parent (only its child list may lose an aborted child). -/
theorem matching_error_contained (s : St) (cands : List Cand) :
    (matchPhaseRepaired cands).matching = (matchPhaseRepaired (cands.filter (fun c => !isErr c))).matching ∧
    (matchPhaseRepaired cands).failing = (matchPhaseRepaired (cands.filter (fun c => !isErr c))).failing ∧
    (matchPhaseRepaired cands).erroring = cands.filter isErr ∧
    (queueErrors s (matchPhaseRepaired cands).erroring).queue
        = s.queue ++ List.replicate (cands.filter isErr).length IEv.colangError ∧
    Upd (KeepsButChildren ((cands.filter isErr).map (·.fuid))) s
        (abortErroring (queueErrors s (matchPhaseRepaired cands).erroring) (matchPhaseRepaired cands).erroring) := by
  obtain ⟨h1, h2, h3⟩ := matchPhaseRepaired_spec cands
  obtain ⟨g1, g2, _⟩ := matchPhaseRepaired_spec (cands.filter (fun c => !isErr c))
  have q := queueErrors_queue (matchPhaseRepaired cands).erroring s
  refine ⟨?_, ?_, h3, ?_, ?_⟩
  · rw [h1, g1, List.filter_filter]
    apply List.filter_congr
    intro c _
    unfold isPos isErr
    cases c.score <;> simp
  · rw [h2, g2, List.filter_filter]
    apply List.filter_congr
    intro c _
    unfold isNeg isErr
    cases c.score <;> simp
  · rw [q.1, h3]
  · have u := abortErroring_upd (matchPhaseRepaired cands).erroring (queueErrors s (matchPhaseRepaired cands).erroring)
    rw [h3] at u ⊢
    refine ⟨by rw [u.1, (queueErrors_queue _ s).2], ?_⟩
    intro k i hi
    have hi' : (queueErrors s (List.filter isErr cands)).insts[k]? = some i := by
      rw [(queueErrors_queue _ s).2]; exact hi
    exact u.2 k i hi'

/-- **`matching_phase_lookup_safe`** (current tree: abort AFTER the loop). Several candidates of one scan may belong to the
    same flow (heads of an and/or-group, `when … or when …`) or to child flows of a raising flow.  Because the scan only
    collects the raising heads, it never changes an instance record: every candidate whose head existed when the scan began is
    looked up successfully (no KeyError can leave `run_to_completion`), the scan result is exactly `matchPhaseRepaired`, and only
    `ColangError` events are appended. -/
theorem matching_phase_lookup_safe (s : St) (cands : List Cand) (hp : ∀ c ∈ cands, headPresent s c = true) :
    ∃ s', scanLookup false s cands = some (s', matchPhaseRepaired cands) ∧ s'.insts = s.insts ∧
      s'.queue = s.queue ++ List.replicate (cands.filter isErr).length IEv.colangError :=
  scanLookup_safe cands s hp

/-- witness (by evaluation) that the order matters — the seeded alternative "abort the raising flow inside the loop":
    instance 11 waits with TWO heads for the same event (`match M(x=$nope.value) and M(x="str")`), the first raises; aborting
    right away clears the heads, the look-up of the second candidate fails and the whole scan is lost, although the
    observer candidate (instance 13) had already matched. -/
def siblingState : St :=
  { insts := [
      { uid := 13, flowId := 3, status := .started, activated := 1, newInstanceStarted := false, parent := none, children := [],
        heads := [{ uid := 4, pos := 1, status := .active, cstack := [] }] },
      { uid := 11, flowId := 1, status := .started, activated := 0, newInstanceStarted := false, parent := none, children := [],
        heads := [{ uid := 2, pos := 3, status := .active, cstack := [] }, { uid := 3, pos := 5, status := .active, cstack := [] }] }],
    queue := [] }
def siblingCands : List Cand :=
  [{ fuid := 13, huid := 4, score := .pos 0 }, { fuid := 11, huid := 2, score := .err }, { fuid := 11, huid := 3, score := .pos 0 }]
example : ∀ c ∈ siblingCands, headPresent siblingState c = true := by decide
theorem abort_inside_loop_lookup_fails : scanLookup true siblingState siblingCands = none := by decide
example : (scanLookup false siblingState siblingCands).map (·.2.matching) =
    some [{ fuid := 13, huid := 4, score := .pos 0 }, { fuid := 11, huid := 3, score := .pos 0 }] := by decide

/-- non-vacuity / witness of the probe: candidates `a` (raises: `less_than(3)` against a string) and observer `b` -/
example : matchPhaseAsIs [{ fuid := 1, huid := 1, score := .pos 0 }, { fuid := 2, huid := 2, score := .err }] = none := by decide
example : (matchPhaseRepaired [{ fuid := 1, huid := 1, score := .pos 0 }, { fuid := 2, huid := 2, score := .err }]).matching
    = [{ fuid := 1, huid := 1, score := .pos 0 }] := by decide


/-! ## T2 — whole-round termination on the token abstraction (`Models/RoundMachine.lean`)

  The abstraction is tied to the real interpreter on every run: each recorded real processing round (internal events
  popped, slide iterations, resumes, flow ends, with the events they push) is replayed as a run of this machine
  (harness/props/C10.py `round_*`, driver op `C10.round`), and the measured number of steps is compared with `roundBound`. -/

/-- **`round_step_decreases`**: with a verified potential every step of the machine — popping an internal event of any kind,
    a slide iteration, a resume behind an internally servable wait, a fork, the end / abort of a flow with its terminal events
    and restart — lowers the total potential by at least one. -/
theorem round_step_decreases (P : RProg) (p : Pot) (hk : potOk P p = true) (T T' : List Token) (hs : Step P T T') :
    sumPot P p T' < sumPot P p T := by
  have := step_decreases hk hs; omega

/-- **T2 `run_terminates`**: for a program accepted by the verified check, EVERY run of the machine from the token multiset
    `T` of a state has at most `B(program, state) = roundBound P p T` steps — fuel `B` never runs out. -/
theorem run_terminates (P : RProg) (p : Pot) (hk : potOk P p = true) (T T' : List Token) (k : Nat) (hr : Run P k T T') :
    k ≤ roundBound P p T := by
  have := run_bound hk hr; unfold roundBound; omega

/-- … in particular for the potential the search finds when `roundRanked P` holds -/
theorem run_terminates_checked (P : RProg) (hk : roundRanked P = true) (T T' : List Token) (k : Nat) (hr : Run P k T T') :
    k ≤ roundBound P (buildPot P) T :=
  run_terminates P (buildPot P) hk T T' k hr

/-- there is no infinite run -/
theorem no_infinite_run (P : RProg) (p : Pot) (hk : potOk P p = true) (seq : Nat → List Token)
    (hs : ∀ i, Step P (seq i) (seq (i + 1))) : False := by
  have key : ∀ i, i + sumPot P p (seq i) ≤ sumPot P p (seq 0) := by
    intro i
    induction i with
    | zero => omega
    | succ n ih => have := step_decreases hk (hs n); omega
  have := key (sumPot P p (seq 0) + 1)
  omega

/-- "no cycle of flows that start / await / activate each other — or restart themselves — before a statement that waits
    for an external event": starting flow `g` can never lead (through any number of machine steps) to another StartFlow of `g`. -/
def StartAcyclic (P : RProg) : Prop := ∀ g, ¬ ProducesPlus P (.ev (.start g)) (.ev (.start g))

/-- the verified check establishes `StartAcyclic` (and, more generally, that no token ever reproduces itself: this also
    covers cycles of sliding elements and cycles through internally served waits) -/
theorem potOk_startAcyclic (P : RProg) (p : Pot) (hk : potOk P p = true) : StartAcyclic P := by
  intro g h
  have := producesPlus_pot hk h
  omega

theorem no_token_reproduces_itself (P : RProg) (p : Pot) (hk : potOk P p = true) (tok : Token) : ¬ ProducesPlus P tok tok := by
  intro h
  have := producesPlus_pot hk h
  omega

/-- The boundary case: `@active flow a: await b`, `flow b: $x = 1`.  The body of the activated flow is served by internal
    events only (b starts and finishes in the same round), `a` becomes STARTED at `match b.Finished()`, finishes, restarts, … -/
def boundaryProg : RProg :=
  [ { ctl := [.wait false, .step true, .wait false, .wait false],
      emit := [[], [.start 1], [], []], wk := [.ext, .ext, .intTagged, .int], restartable := true },
    { ctl := [.wait false, .step true], emit := [[], []], wk := [.ext, .ext], restartable := false } ]

/-- it violates `StartAcyclic` (explicit chain: StartFlow a → head behind its start match → `send StartFlow(b)` → resume behind
    the tagged FlowStarted match → resume behind `match b.Finished()` in mode STARTED → end of the flow with restart) … -/
theorem boundary_violates_startAcyclic : ¬ StartAcyclic boundaryProg := by
  intro h
  apply h 0
  refine .more (b := .head 0 1 false) ⟨[.head 0 1 false], by decide, by decide⟩ ?_
  refine .more (b := .head 0 2 false) ⟨[.ev (.start 1), .head 0 2 false], by decide, by decide⟩ ?_
  refine .more (b := .head 0 3 false) ⟨[.head 0 3 false], by decide, by decide⟩ ?_
  refine .more (b := .head 0 4 true) ⟨[.head 0 4 true], by decide, by decide⟩ ?_
  exact .one ⟨[.ev (.start 0)], by decide, by decide⟩

/-- … so NO potential passes the verified check: the checker must reject it (whatever the search does) -/
theorem boundary_rejected (p : Pot) : potOk boundaryProg p = false := by
  cases h : potOk boundaryProg p with
  | false => rfl
  | true => exact absurd (potOk_startAcyclic boundaryProg p h) boundary_violates_startAcyclic

/-- non-vacuity: the same flow with a statement that waits for an external event first is accepted, with an explicit bound -/
def guardedProg : RProg :=
  [ { ctl := [.wait false, .wait false, .step true, .wait false, .wait false],
      emit := [[], [], [.start 1], [], []], wk := [.ext, .ext, .ext, .intTagged, .int], restartable := true },
    { ctl := [.wait false, .step true], emit := [[], []], wk := [.ext, .ext], restartable := false } ]
example : roundRanked guardedProg = true := by decide +kernel

end NemoVerif.C10

namespace NemoVerif.C10.VM
open NemoVerif NemoVerif.CoreIndex NemoVerif.CoreVM

/-! ## Error containment on the whole-interpreter model `CoreVM` (Models/CoreVM/*, built under C09)

  `M = EStateM VMErr VM`; a result is `.ok a s'` (normal return), `.error (.py cls msg) s'` (a Python-level exception leaves
  the function, with the state at the moment of the raise), `.error .outOfFuel s'` (says nothing about Python, kept apart),
  `.error (.unsupported _) s'` / `.error (.guardFailed _) s'` (the model stops).  `outState r` = the state of a result. -/

/-- `try: … except Exception` of the model (`attemptPy`, used around `head.position += 1` + `slide` + fork recursion, around the
    second half of the try block of `_advance_head_front`, around `_compute_event_matching_score` in the candidate scan, and
    around the work per matched head in `_handle_event_matching`): whatever the guarded computation does, no Python-level
    exception leaves it — for every computation and every state. -/
theorem vm_try_never_propagates {α : Type} (x : M α) (s s' : VM) (c m : String) :
    attemptPy x s ≠ .error (.py c m) s' := attemptPy_never_py x s s' c m

/-- … it is turned into a value, and the state is the one at the moment of the raise (nothing is rolled back) -/
theorem vm_try_catches {α : Type} (x : M α) (s s' : VM) (c m : String) (h : x s = .error (.py c m) s') :
    attemptPy x s = .ok (.error (c, m)) s' := attemptPy_of_py h


/-- **the `except` branch of `_advance_head_front`, as an equation.**  One ACTIVE head `k` of a listening instance is advanced;
    after WAITING → STARTING (`hpre`: the only statements in front of the try block) the first part of the try block —
    `head.position += 1` (which fires the head-changed callback: the event name of the match statement the head arrives at is
    evaluated), `slide`, the recursion into freshly forked heads — raises `cls: msg` in state `s2`, the head still standing on an
    element (`hpos`).  Then the whole call IS the handler run from `s2`: push `ColangError(type=cls, error=msg)`, (an activated
    flow that was still STARTING is marked so that it is not restarted), `_abort_flow(deactivate_flow=False)`, nothing handed back.
    [Synced with fixes/C10-head-advance-inside-try.diff: `head.position += 1` used to be part of `hpre`, i.e. outside the region
    the theorem covers — the former finding `error-raised-by-head-advance-outside-try`.] -/
theorem vm_except_branch (fuel : Nat) (k : Key) (s s1 s2 : VM) (i : Inst) (hd hd2 : Head) (cfg : FlowCfg) (c m : String)
    (starting : Bool)
    (hi : findInst s.ixs.ix k.1 = some i) (hl : i.status.listening = true)
    (hcfg : cfgOfInst k.1 s = .ok cfg s)
    (hhd : i.findHead k.2 = some hd) (hact : hd.status = .active)
    (hpre : (do
        if (← getInst k.1).status = FlowStatus.waiting then setFlowStatus k.1 FlowStatus.starting
        pure (decide ((← getInst k.1).status = FlowStatus.starting))) s = .ok starting s1)
    (hraise : (do
        setHeadPos k (hd.pos + 1)
        let newHeads ← slide fuel k.1 k.2
        if newHeads.isEmpty then pure [] else advanceHeadFront fuel newHeads) s1 = .error (.py c m) s2)
    (hhd2 : (findInst s2.ixs.ix k.1).bind (·.findHead k.2) = some hd2) (hpos : hd2.pos < cfg.elements.size) :
    advanceHeadFront (fuel + 1) [k] s = errHandler fuel k c m starting s2 :=
  advance_error_path fuel k s s1 s2 i hd hd2 cfg c m starting hi hl hcfg hhd hact hpre hraise hhd2 hpos

/-- **`error_contained` on CoreVM** (same hypotheses, one more unit of fuel so that `_abort_flow` can run).
    (1) Whatever the result of `_advance_head_front`, the `ColangError` event is in the queue of the final state.
    (2) On normal return nothing is handed back for the faulty head, nothing that was queued when the exception was raised is
        lost, no instance disappeared, and — if the faulty instance was still listening or STOPPING when the exception was
        raised — it ends STOPPED (FAILED) without heads with its `FlowFailed` event queued.
    (3) PROVENANCE: if anything but a normal return leaves `_advance_head_front`, it was raised by `_abort_flow` itself (its
        clean-up of child flows / actions / the parent link) or by the handler's look-up of the faulty flow's own record — never
        by the faulty statement.  [`outOfFuel` included: it can only come out of `_abort_flow`'s recursion.] -/
theorem vm_error_contained (fuel : Nat) (k : Key) (s s1 s2 : VM) (i : Inst) (hd hd2 : Head) (cfg : FlowCfg) (c m : String)
    (starting : Bool)
    (hi : findInst s.ixs.ix k.1 = some i) (hl : i.status.listening = true)
    (hcfg : cfgOfInst k.1 s = .ok cfg s)
    (hhd : i.findHead k.2 = some hd) (hact : hd.status = .active)
    (hpre : (do
        if (← getInst k.1).status = FlowStatus.waiting then setFlowStatus k.1 FlowStatus.starting
        pure (decide ((← getInst k.1).status = FlowStatus.starting))) s = .ok starting s1)
    (hraise : (do
        setHeadPos k (hd.pos + 1)
        let newHeads ← slide (fuel + 1) k.1 k.2
        if newHeads.isEmpty then pure [] else advanceHeadFront (fuel + 1) newHeads) s1 = .error (.py c m) s2)
    (hhd2 : (findInst s2.ixs.ix k.1).bind (·.findHead k.2) = some hd2) (hpos : hd2.pos < cfg.elements.size) :
    colangErrorEvent c m ∈ (outState (advanceHeadFront (fuel + 2) [k] s)).r.queue ∧
    (∀ r s', advanceHeadFront (fuel + 2) [k] s = .ok r s' →
      r = [] ∧ Ext s2 s' ∧
      ∀ i2, findInst s2.ixs.ix k.1 = some i2 → (i2.status.listening = true ∨ i2.status = .stopping) →
        ∃ sc, Aborted k.1 sc s') ∧
    (∀ e s', advanceHeadFront (fuel + 2) [k] s = .error e s' →
      (∃ s3 sc, Ext s2 s3 ∧ s3.ixs = s2.ixs ∧ abortFlow (fuel + 1) k.1 sc false s3 = .error e s') ∨
      errPrefix k c m starting s2 = .error e s') := by
  have heq := advance_error_path (fuel + 1) k s s1 s2 i hd hd2 cfg c m starting hi hl hcfg hhd hact hpre hraise hhd2 hpos
  refine ⟨?_, ?_, ?_⟩
  · rw [heq]; exact errHandler_queues _ k c m starting s2
  · intro r s' h; rw [heq] at h; exact errHandler_ok fuel k c m starting s2 s' r h
  · intro e s' h; rw [heq] at h; exact errHandler_error (fuel + 1) k c m starting s2 s' e h

/-- **post-condition of `_abort_flow(deactivate_flow=False)`** on an instance that is listening or STOPPING: every normal
    return leaves it STOPPED without heads, its `FlowFailed` internal event (with the given matching scores) queued. -/
theorem vm_abort_postcondition (fuel : Nat) (f : FUid) (sc : List Score) (s s' : VM) (i : Inst)
    (hi : findInst s.ixs.ix f = some i) (hl : i.status.listening = true ∨ i.status = .stopping)
    (h : abortFlow (fuel + 1) f sc false s = .ok () s') : Aborted f sc s' :=
  abortFlow_aborts fuel f sc s s' i hi hl h

/-- `_abort_flow` (any `deactivate_flow`, full recursion into child flows, action clean-up), on normal return AND when an
    exception leaves it: nothing that is queued is lost (events are only added), no instance disappears, the program is kept -/
theorem vm_abort_keeps_queue_and_instances (fuel : Nat) (f : FUid) (sc : List Score) (d : Bool) (s : VM) :
    Ext s (outState (abortFlow fuel f sc d s)) := (Ext.abortFlow fuel f sc d).app s

/-- `_advance_head_front` as a whole (any heads, any outcome): nothing that is queued is lost — events are only added —, no
    instance disappears, the program is kept.  In particular a `ColangError` pushed by an `except` branch for one head is still
    queued when the call returns, whatever the remaining heads do. -/
theorem vm_advance_keeps_queue_and_instances (fuel : Nat) (heads : List Key) (s : VM) :
    Ext s (outState (advanceHeadFront fuel heads s)) := (Ext.advanceHeadFront fuel heads).app s

/-- evaluating an expression, building an event from an element and computing a matching score never change the state
    (only the uid counter can move) — also when they raise.  With `vm_try_never_propagates` this is the matching-phase part:
    a candidate whose match statement raises leaves no trace but the `ColangError` the scan pushes. -/
theorem vm_evaluation_read_only (f : FUid) (e : Expr) (sp : Spec) (ev : Event) (b : Bool) (s : VM) :
    Same s (outState (evalIn f e s)) ∧ Same s (outState (getEvent f sp b s)) ∧ Same s (outState (eventMatchingScore f sp ev s)) :=
  ⟨(Same.evalIn f e).app s, (Same.getEvent f sp b).app s, (Same.eventMatchingScore f sp ev).app s⟩

/-- **conditional no-propagation on CoreVM** (`vm_leaf_error_never_propagates`): the hypotheses of `vm_error_contained`, and at the
    moment of the raise the faulty instance is a LEAF — no child flows, no actions, its own context dict, its parent (if any)
    exists and, when the instance is not activated, lists it (`Leafish1`; decidable on a concrete state, checked at run time on
    the real `FlowState`s).  Then NO Python-level exception leaves `_advance_head_front`: the call returns normally (clauses (1),
    (2) of `vm_error_contained` apply) or the model stops for a reason that says nothing about Python (fuel / unsupported /
    index guard).  [For instances with children or actions `_abort_flow` recurses / releases actions; there the provenance
    clause of `vm_error_contained` is what is proved.] -/
theorem vm_leaf_error_never_propagates (fuel : Nat) (k : Key) (s s1 s2 : VM) (i : Inst) (hd hd2 : Head) (cfg : FlowCfg)
    (c m : String) (starting : Bool) (par : Option FUid) (act : Int)
    (hi : findInst s.ixs.ix k.1 = some i) (hl : i.status.listening = true)
    (hcfg : cfgOfInst k.1 s = .ok cfg s)
    (hhd : i.findHead k.2 = some hd) (hact : hd.status = .active)
    (hpre : (do
        if (← getInst k.1).status = FlowStatus.waiting then setFlowStatus k.1 FlowStatus.starting
        pure (decide ((← getInst k.1).status = FlowStatus.starting))) s = .ok starting s1)
    (hraise : (do
        setHeadPos k (hd.pos + 1)
        let newHeads ← slide (fuel + 1) k.1 k.2
        if newHeads.isEmpty then pure [] else advanceHeadFront (fuel + 1) newHeads) s1 = .error (.py c m) s2)
    (hhd2 : (findInst s2.ixs.ix k.1).bind (·.findHead k.2) = some hd2) (hpos : hd2.pos < cfg.elements.size)
    (hleaf : Leafish1 k.1 par act s2) :
    ∀ c' m' s', advanceHeadFront (fuel + 2) [k] s ≠ .error (.py c' m') s' := by
  rw [advance_error_path (fuel + 1) k s s1 s2 i hd hd2 cfg c m starting hi hl hcfg hhd hact hpre hraise hhd2 hpos]
  exact errHandler_leaf_no_py fuel k rfl c m starting s2 hleaf


/-- **restart guard on CoreVM** (`vm_restart_guard`; the CoreVM counterpart of `restart_guard_fail_repaired`, guard 0a36b0f of the
    code): the hypotheses of `vm_except_branch` with the flow still STARTING (`starting = true`), the faulty instance activated.
    Then `_advance_head_front` — whatever the instance's children and actions, whatever the outcome — adds NO `StartFlow` event to
    the queue: an activated flow that fails before it was started is not restarted in the same round (no restart loop). -/
theorem vm_restart_guard (fuel : Nat) (k : Key) (s s1 s2 : VM) (i : Inst) (hd hd2 : Head) (cfg : FlowCfg) (c m : String) (x : InstX)
    (hi : findInst s.ixs.ix k.1 = some i) (hl : i.status.listening = true)
    (hcfg : cfgOfInst k.1 s = .ok cfg s)
    (hhd : i.findHead k.2 = some hd) (hact : hd.status = .active)
    (hpre : (do
        if (← getInst k.1).status = FlowStatus.waiting then setFlowStatus k.1 FlowStatus.starting
        pure (decide ((← getInst k.1).status = FlowStatus.starting))) s = .ok true s1)
    (hraise : (do
        setHeadPos k (hd.pos + 1)
        let newHeads ← slide (fuel + 1) k.1 k.2
        if newHeads.isEmpty then pure [] else advanceHeadFront (fuel + 1) newHeads) s1 = .error (.py c m) s2)
    (hhd2 : (findInst s2.ixs.ix k.1).bind (·.findHead k.2) = some hd2) (hpos : hd2.pos < cfg.elements.size)
    (hx : OMap.lookup k.1 s2.r.fx = some x) (hactv : x.activated > 0) :
    startCount (outState (advanceHeadFront (fuel + 2) [k] s)) ≤ startCount s2 := by
  rw [advance_error_path (fuel + 1) k s s1 s2 i hd hd2 cfg c m true hi hl hcfg hhd hact hpre hraise hhd2 hpos]
  exact errHandler_restart_guard fuel k c m s2 x hx hactv


/-! ### frame: a family `G` of instances closed under child / scope flows, owning its contexts -/

/-- `_abort_flow` on a member of `G` — any `deactivate_flow`, any outcome — leaves every instance outside `G` untouched: same
    status, heads, positions, head data (scores, catch labels, scopes), same record (context, arguments, activation, scopes,
    actions …) except that a child list may lose entries (`parent.child_flow_uids.remove`); and `G` stays closed. -/
theorem vm_abort_frame (G : FUid → Prop) (fuel : Nat) (f : FUid) (sc : List Score) (d : Bool) (hG : G f) (s : VM)
    (hc : Closed G s) :
    Closed G (outState (abortFlow fuel f sc d s)) ∧ FrameOut G s (outState (abortFlow fuel f sc d s)) :=
  (Fr.abortFlow fuel f sc d hG).app s hc

/-- the same for `_finish_flow` -/
theorem vm_finish_frame (G : FUid → Prop) (fuel : Nat) (f : FUid) (sc : List Score) (d : Bool) (hG : G f) (s : VM)
    (hc : Closed G s) :
    Closed G (outState (finishFlow fuel f sc d s)) ∧ FrameOut G s (outState (finishFlow fuel f sc d s)) :=
  (Fr.finishFlow fuel f sc d hG).app s hc

/-- the same for `slide` on a head of a member of `G`: all 22 element kinds, expression errors, scope clean-up with its
    `_abort_flow` calls, forks and merges included — also when an exception leaves `slide` -/
theorem vm_slide_frame (G : FUid → Prop) (fuel : Nat) (f : FUid) (h : HUid) (hG : G f) (s : VM) (hc : Closed G s) :
    Closed G (outState (slide fuel f h s)) ∧ FrameOut G s (outState (slide fuel f h s)) :=
  (Fr.slide fuel f h hG).app s hc

/-- the heads `slide` hands back (forked heads, the merged parent head) are heads of the flow that was slid -/
theorem vm_slide_returns_own_heads (fuel : Nat) (f : FUid) (h : HUid) (s s' : VM) (r : List Key)
    (hr : slide fuel f h s = .ok r s') : ∀ k ∈ r, k.1 = f := slide_keys fuel f h s s' r hr


/-- **frame theorem for `_advance_head_front` as a whole** (`vm_advance_frame`).  All heads belong to members of `G`; then —
    skip conditions, `head.position += 1`, WAITING → STARTING, `slide`, the recursion into freshly forked heads, both halves
    of the try block, the `except` branch, `_finish_flow`, `_abort_flow`, whatever the outcome (normal return, a Python-level
    exception, fuel) — every instance outside `G` is untouched (`FrameOut`) and `G` stays closed.  This is the "fails only that
    flow" half of the property on the whole-interpreter model: with `G` = the faulty instance and its descendants, everything
    else has the same status, heads, head data and context as before the faulty statement was executed — hence the same as in
    the run in which that statement is replaced by `abort` (which, by the same theorem, also changes nothing outside `G`). -/
theorem vm_advance_frame (G : FUid → Prop) (fuel : Nat) (heads : List Key) (hH : ∀ k ∈ heads, G k.1) (s : VM)
    (hc : Closed G s) :
    Closed G (outState (advanceHeadFront fuel heads s)) ∧ FrameOut G s (outState (advanceHeadFront fuel heads s)) :=
  (Fr.advanceHeadFront fuel heads hH).app s hc

/-- **the faulty run and the run in which the faulty statement is replaced by `abort`** agree outside the faulty family.
    `s` and `sA` are the states before `_advance_head_front` in the two runs: they may differ in the program (the replaced
    statement) and inside `G`, and agree outside `G`.  Whatever the two calls do — the faulty one raises inside `slide` and goes
    through the `except` branch, the other executes `abort` — every instance outside `G` ends with the same status, heads,
    head positions / statuses, head data and the same record (context included; child lists apart) in both runs. -/
theorem vm_faulty_vs_abort (G : FUid → Prop) (fuel fuelA : Nat) (heads headsA : List Key)
    (hH : ∀ k ∈ heads, G k.1) (hHA : ∀ k ∈ headsA, G k.1) (s sA : VM) (hc : Closed G s) (hcA : Closed G sA)
    (hix : ∀ g, ¬ G g → findInst s.ixs.ix g = findInst sA.ixs.ix g)
    (hhx : ∀ g h, ¬ G g → OMap.lookup (g, h) s.r.hx = OMap.lookup (g, h) sA.r.hx)
    (hfx : ∀ g, ¬ G g → OMap.lookup g s.r.fx = OMap.lookup g sA.r.fx) :
    let o := outState (advanceHeadFront fuel heads s)
    let oA := outState (advanceHeadFront fuelA headsA sA)
    (∀ g, ¬ G g → findInst o.ixs.ix g = findInst oA.ixs.ix g) ∧
    (∀ g h, ¬ G g → OMap.lookup (g, h) o.r.hx = OMap.lookup (g, h) oA.r.hx) ∧
    (∀ g, ¬ G g → (OMap.lookup g o.r.fx).map (fun x => { x with childFlowUids := [] }) =
                   (OMap.lookup g oA.r.fx).map (fun x => { x with childFlowUids := [] })) := by
  intro o oA
  have f1 := (vm_advance_frame G fuel heads hH s hc).2
  have f2 := (vm_advance_frame G fuelA headsA hHA sA hcA).2
  refine ⟨fun g hg => ?_, fun g h hg => ?_, fun g hg => ?_⟩
  · rw [f1.ix g hg, f2.ix g hg, hix g hg]
  · rw [f1.hx g h hg, f2.hx g h hg, hhx g h hg]
  · rw [ctx_of_frame f1 g hg, ctx_of_frame f2 g hg, hfx g hg]

/-- **`vm_faulty_flow_fails_alone` — the CoreVM statements put together** for one faulty head `k` whose statement raises inside
    `slide` (trace hypotheses of `vm_except_branch`), whose instance is a leaf at the raise (`Leafish1`), inside any family `G`
    closed under child / scope flows (`Closed`; e.g. `G = {k.1}` for a leaf that owns its context):
    * no Python-level exception leaves `_advance_head_front`;
    * the `ColangError` event is in the final queue, whatever the outcome;
    * every instance outside `G` is untouched, whatever the outcome (`FrameOut`), and `G` stays closed;
    * on normal return nothing is handed back, nothing queued at the raise is lost, and if the instance was listening / STOPPING at
      the raise it is STOPPED without heads with its `FlowFailed` queued. -/
theorem vm_faulty_flow_fails_alone (G : FUid → Prop) (fuel : Nat) (k : Key) (s s1 s2 : VM) (i : Inst) (hd hd2 : Head)
    (cfg : FlowCfg) (c m : String) (starting : Bool) (par : Option FUid) (act : Int)
    (hG : G k.1) (hc : Closed G s)
    (hi : findInst s.ixs.ix k.1 = some i) (hl : i.status.listening = true)
    (hcfg : cfgOfInst k.1 s = .ok cfg s)
    (hhd : i.findHead k.2 = some hd) (hact : hd.status = .active)
    (hpre : (do
        if (← getInst k.1).status = FlowStatus.waiting then setFlowStatus k.1 FlowStatus.starting
        pure (decide ((← getInst k.1).status = FlowStatus.starting))) s = .ok starting s1)
    (hraise : (do
        setHeadPos k (hd.pos + 1)
        let newHeads ← slide (fuel + 1) k.1 k.2
        if newHeads.isEmpty then pure [] else advanceHeadFront (fuel + 1) newHeads) s1 = .error (.py c m) s2)
    (hhd2 : (findInst s2.ixs.ix k.1).bind (·.findHead k.2) = some hd2) (hpos : hd2.pos < cfg.elements.size)
    (hleaf : Leafish1 k.1 par act s2) :
    (∀ c' m' s', advanceHeadFront (fuel + 2) [k] s ≠ .error (.py c' m') s') ∧
    colangErrorEvent c m ∈ (outState (advanceHeadFront (fuel + 2) [k] s)).r.queue ∧
    (Closed G (outState (advanceHeadFront (fuel + 2) [k] s)) ∧ FrameOut G s (outState (advanceHeadFront (fuel + 2) [k] s))) ∧
    (∀ r s', advanceHeadFront (fuel + 2) [k] s = .ok r s' →
      r = [] ∧ Ext s2 s' ∧
      ∀ i2, findInst s2.ixs.ix k.1 = some i2 → (i2.status.listening = true ∨ i2.status = .stopping) → ∃ sc, Aborted k.1 sc s') := by
  have h1 := vm_error_contained fuel k s s1 s2 i hd hd2 cfg c m starting hi hl hcfg hhd hact hpre hraise hhd2 hpos
  refine ⟨vm_leaf_error_never_propagates fuel k s s1 s2 i hd hd2 cfg c m starting par act hi hl hcfg hhd hact hpre hraise hhd2 hpos hleaf,
    h1.1, ?_, h1.2.1⟩
  exact vm_advance_frame G (fuel + 2) [k] (by intro k' hk'; simp at hk'; subst hk'; exact hG) s hc

/-! ### step labelling: CoreVM micro-steps are steps of the abstract models (phase 4, goal 3) -/

/-- one non-stopping iteration of CoreVM's `slide` loop moves the head along an EDGE of the sliding graph of the classified
    flow (`classify`, the Lean counterpart of `translate/c10.py::classify_flow`), for all 22 element kinds; explicit
    hypotheses: not `EndScope` (calls `_abort_flow`), on `MergeHeads` the head is ACTIVE, on `Abort` the catch labels on the
    head's stack are labels of `CatchPatternFailure` elements of the flow.  Hence `slide_terminates` speaks about CoreVM. -/
theorem corevm_slide_step_is_edge (fuel : Nat) (f : FUid) (h : HUid) (s s' : VM) (cfg : FlowCfg) (hd : Head) (nh : List Key)
    (hcfg : cfgOfInst f s = .ok cfg s)
    (hhd : (findInst s.ixs.ix f).bind (·.findHead h) = some hd)
    (hrun : slideStep fuel f h s = .ok (false, nh) s')
    (hscope : ∀ n, cfg.elements[hd.pos]? ≠ some (.endScope n))
    (hmerge : ∀ u, cfg.elements[hd.pos]? = some (.merge u) → hd.status = .active)
    (hcatch : cfg.elements[hd.pos]? = some .abort → CatchNamesOk cfg ((OMap.lookup (f, h) s.r.hx).getD {})) :
    ∃ hd', (findInst s'.ixs.ix f).bind (·.findHead h) = some hd' ∧ hd'.status = hd.status ∧
      cfgOfInst f s' = .ok cfg s' ∧ SlideGraph.Edge (classify cfg) hd.pos hd'.pos :=
  slideStep_moves_along_edge fuel f h s s' cfg hd nh hcfg hhd hrun hscope hmerge hcatch

/-- when `slide` raises, the head still stands on an element of the flow (the hypothesis `hpos` of `vm_except_branch`;
    every kind but fork / merge / EndScope): the handler's `flow_config.elements[head.position]` cannot raise IndexError -/
theorem corevm_slide_error_position (fuel : Nat) (f : FUid) (h : HUid) (s s' : VM) (cfg : FlowCfg) (hd : Head) (c m : String)
    (hcfg : cfgOfInst f s = .ok cfg s)
    (hhd : (findInst s.ixs.ix f).bind (·.findHead h) = some hd)
    (hlt : hd.pos < cfg.elements.size) (hk : (cfg.elements[hd.pos]!).slides = true)
    (hrun : slideStep fuel f h s = .error (.py c m) s') :
    ∃ hd', (findInst s'.ixs.ix f).bind (·.findHead h) = some hd' ∧ hd'.status = hd.status ∧
      cfgOfInst f s' = .ok cfg s' ∧ hd'.pos < cfg.elements.size :=
  slideStep_error_pos fuel f h s s' cfg hd c m hcfg hhd hlt hk hrun

/-- **`corevm_step_is_machine_step`** (slide iteration, the element kinds without queue effect: assignment, log, print, global,
    unknown element, goto, break / continue, priority, begin-scope, catch-pattern-failure, return, new action instance, plain
    label): the CoreVM micro-step maps the token abstraction of the state (`absTokens`: queued events by kind, every non-INACTIVE
    head of every listening instance) to a permutation of a `RoundMachine.Step` successor.  NOT reached: `send` (needs the emit
    lists), restart label, wait-for-heads, abort, fork, and the non-slide micro-steps (pop of an internal event, resume) — these
    remain tied by the replay of recorded real rounds (design_notes/C10.md §Tie 6). -/
theorem corevm_step_is_machine_step (idx : String → Option Nat) (P : RoundMachine.RProg) (fl : RoundMachine.RFlow) (n fuel : Nat)
    (f : FUid) (h : HUid) (cfg : FlowCfg) (hd : Head) (i : Inst) (s s' : VM) (b : Bool × List Key)
    (hcfg : cfgOfInst f s = .ok cfg s) (hi : findInst s.ixs.ix f = some i) (hhd : i.findHead h = some hd)
    (hlt : hd.pos < cfg.elements.size) (hact : hd.status ≠ .inactive) (hk : (cfg.elements[hd.pos]!).simple = true)
    (hlisten : i.status.listening = true) (hidx : (OMap.lookup f (fxIds s.r.fx)).bind idx = some n)
    (hP : P[n]? = some fl) (hctl : fl.ctl = classify cfg) (hemit : fl.emit.getD hd.pos [] = [])
    (hrun : slideStep fuel f h s = .ok b s') :
    b = (false, []) ∧ ∃ T', RoundMachine.Step P (absTokens idx s) T' ∧ (absTokens idx s').Perm T' :=
  corevm_slide_step_is_machine_step idx P fl n fuel f h cfg hd i s s' b hcfg hi hhd hlt hact hk hlisten hidx hP hctl hemit hrun

/-! ### non-vacuity of the CoreVM statements (kernel-evaluated on concrete states) -/

/-- non-vacuity witness: one instance of `flow f: <noop>; $x = boom` (a bare name: NameNotDefined), WAITING, head on element 0 -/
def demoCfg : FlowCfg :=
  { id := "f", elements := #[.other, .assign "x" (.name "boom")], labels := [], params := [], returnMembers := [],
    loopId := none, loopPriority := 0, metaTags := [] }
def demoIx : IxS := ({} : IxS).apply (.addInst "f" "h" none) (by decide)
def demoVM : VM :=
  { ixs := demoIx,
    r := { prog := ⟨[demoCfg]⟩, fx := [("f", { flowId := "f", loopId := none, hierPos := "0" })], hx := [(("f", "h"), {})] } }

/-- the hypotheses of `vm_except_branch` / `vm_error_contained` hold of a concrete state (evaluated by the kernel) -/
example : ∃ (i : Inst) (hd hd2 : Head) (s1 s2 : VM) (starting : Bool) (c m : String),
    findInst demoVM.ixs.ix "f" = some i ∧ i.status.listening = true ∧ cfgOfInst "f" demoVM = .ok demoCfg demoVM ∧
    i.findHead "h" = some hd ∧ hd.status = .active ∧
    (do
        if (← getInst "f").status = FlowStatus.waiting then setFlowStatus "f" FlowStatus.starting
        pure (decide ((← getInst "f").status = FlowStatus.starting))) demoVM = .ok starting s1 ∧
    (do
        setHeadPos ("f", "h") (hd.pos + 1)
        let newHeads ← slide 3 "f" "h"
        if newHeads.isEmpty then pure [] else advanceHeadFront 3 newHeads) s1 = .error (.py c m) s2 ∧
    (findInst s2.ixs.ix "f").bind (·.findHead "h") = some hd2 ∧ hd2.pos < demoCfg.elements.size :=
  ⟨_, _, _, _, _, _, _, _, rfl, rfl, rfl, rfl, rfl, rfl, rfl, rfl, by decide⟩

/-- … and the conclusion, computed: the call returns normally with nothing handed back -/
example : ∃ s', advanceHeadFront 4 [("f", "h")] demoVM = .ok [] s' := ⟨_, rfl⟩
/-- two instances: the faulty `f` and a bystander `g` (same flow config, for brevity) -/
def demoIx2 : IxS := (({} : IxS).apply (.addInst "f" "h" none) (by decide)).apply (.addInst "g" "h2" none) (by decide)
def demoVM2 : VM :=
  { ixs := demoIx2,
    r := { prog := ⟨[demoCfg]⟩,
           fx := [("f", { flowId := "f", loopId := none, hierPos := "0" }), ("g", { flowId := "f", loopId := none, hierPos := "1", context := [("y", .int 1)] })],
           hx := [(("f", "h"), {}), (("g", "h2"), {})] } }

/-- non-vacuity of the frame theorems: `G = {f}` is closed in a state with a bystander `g`, … -/
theorem demo_closed : Closed (· = "f") demoVM2 := by
  intro g x hg hl
  subst hg
  have : x = { flowId := "f", loopId := none, hierPos := "0" } := by
    have h : OMap.lookup "f" demoVM2.r.fx = some { flowId := "f", loopId := none, hierPos := "0" } := rfl
    rw [h] at hl; cases hl; rfl
  subst this
  exact ⟨fun c hc => absurd hc (by simp [kids, scopeFlows]), rfl⟩

/-- … and the faulty advance, computed by the kernel, really leaves `g` alone while `f` ends STOPPED -/
example : ∃ s', advanceHeadFront 4 [("f", "h")] demoVM2 = .ok [] s' ∧
    findInst s'.ixs.ix "g" = findInst demoVM2.ixs.ix "g" ∧ OMap.lookup "g" s'.r.fx = OMap.lookup "g" demoVM2.r.fx ∧
    (findInst s'.ixs.ix "f").map (·.status) = some .stopped :=
  ⟨_, rfl, rfl, rfl, rfl⟩

/-- the same state over the program in which the faulty statement is replaced by `abort` -/
def demoCfgA : FlowCfg := { demoCfg with elements := #[.other, .abort] }
def demoVM2A : VM := { demoVM2 with r := { demoVM2.r with prog := ⟨[demoCfgA]⟩ } }
theorem demo_closedA : Closed (· = "f") demoVM2A := demo_closed

/-- non-vacuity of `vm_faulty_vs_abort`: its hypotheses hold of the two concrete runs, and both runs, computed by the kernel,
    end with `f` STOPPED and the bystander `g` exactly as it was -/
example : Closed (· = "f") demoVM2 ∧ Closed (· = "f") demoVM2A ∧
    (∀ g, ¬ g = "f" → findInst demoVM2.ixs.ix g = findInst demoVM2A.ixs.ix g) ∧
    (∀ g h, ¬ g = "f" → OMap.lookup (g, h) demoVM2.r.hx = OMap.lookup (g, h) demoVM2A.r.hx) ∧
    (∀ g, ¬ g = "f" → OMap.lookup g demoVM2.r.fx = OMap.lookup g demoVM2A.r.fx) :=
  ⟨demo_closed, demo_closedA, fun _ _ => rfl, fun _ _ _ => rfl, fun _ _ => rfl⟩
example : ∃ s', advanceHeadFront 4 [("f", "h")] demoVM2A = .ok [] s' ∧
    findInst s'.ixs.ix "g" = findInst demoVM2.ixs.ix "g" ∧ (findInst s'.ixs.ix "f").map (·.status) = some .stopped :=
  ⟨_, rfl, rfl, rfl⟩

/-- non-vacuity of `vm_abort_postcondition` -/
example : ∃ i s', findInst demoVM.ixs.ix "f" = some i ∧ (i.status.listening = true ∨ i.status = .stopping) ∧
    abortFlow 2 "f" [] false demoVM = .ok () s' := ⟨_, _, rfl, Or.inl rfl, rfl⟩

/-- non-vacuity of `corevm_slide_step_is_edge` (the head of `demoVM` stands on the no-op element 0) -/
example : ∃ hd s', cfgOfInst "f" demoVM = .ok demoCfg demoVM ∧
    (findInst demoVM.ixs.ix "f").bind (·.findHead "h") = some hd ∧
    slideStep 3 "f" "h" demoVM = .ok (false, []) s' ∧
    (∀ n, demoCfg.elements[hd.pos]? ≠ some (.endScope n)) ∧
    (∀ u, demoCfg.elements[hd.pos]? = some (.merge u) → hd.status = .active) ∧
    (demoCfg.elements[hd.pos]? = some .abort → CatchNamesOk demoCfg ((OMap.lookup ("f", "h") demoVM.r.hx).getD {})) :=
by
  refine ⟨_, _, rfl, rfl, rfl, ?_, ?_, ?_⟩
  · intro n h; cases h
  · intro u h; cases h
  · intro h; cases h

/-- non-vacuity of `corevm_slide_error_position`: after `head.position += 1` the head stands on `$x = boom`, which raises -/
example : ∃ s1 hd s' c m, setHeadPos ("f", "h") 1 demoVM = .ok () s1 ∧ cfgOfInst "f" s1 = .ok demoCfg s1 ∧
    (findInst s1.ixs.ix "f").bind (·.findHead "h") = some hd ∧ hd.pos < demoCfg.elements.size ∧
    (demoCfg.elements[hd.pos]!).slides = true ∧ slideStep 3 "f" "h" s1 = .error (.py c m) s' :=
  ⟨_, _, _, _, _, rfl, rfl, rfl, by decide, rfl, rfl⟩

/-- non-vacuity of `corevm_step_is_machine_step` -/
example : ∃ (P : RoundMachine.RProg) (fl : RoundMachine.RFlow) (i : Inst) (hd : Head) (b : Bool × List Key) (s' : VM),
    cfgOfInst "f" demoVM = .ok demoCfg demoVM ∧ findInst demoVM.ixs.ix "f" = some i ∧ i.findHead "h" = some hd ∧
    hd.pos < demoCfg.elements.size ∧ hd.status ≠ .inactive ∧ (demoCfg.elements[hd.pos]!).simple = true ∧
    i.status.listening = true ∧ (OMap.lookup "f" (fxIds demoVM.r.fx)).bind (fun _ => some 0) = some 0 ∧
    P[0]? = some fl ∧ fl.ctl = classify demoCfg ∧ fl.emit.getD hd.pos [] = [] ∧ slideStep 3 "f" "h" demoVM = .ok b s' :=
  ⟨[{ ctl := classify demoCfg, emit := [[], []], wk := [.ext, .ext], restartable := false }], _, _, _, _, _,
    rfl, rfl, rfl, by decide, by decide, rfl, rfl, rfl, rfl, rfl, rfl, rfl⟩

/-- witness with a parent: `m` (main) lists the faulty instance `f` as its child -/
def demoVM3 : VM :=
  { ixs := demoIx,
    r := { prog := ⟨[demoCfg]⟩,
           fx := [("m", { flowId := "main", loopId := none, hierPos := "0", childFlowUids := ["f"] }),
                  ("f", { flowId := "f", loopId := none, hierPos := "0.0", parentUid := some "m" })],
           hx := [(("f", "h"), {})] } }

/-- non-vacuity of `vm_leaf_error_never_propagates`: the leaf hypothesis holds at the raise state of the concrete run … -/
example : ∃ (s1 s2 : VM) (c m : String),
    (do
        if (← getInst "f").status = FlowStatus.waiting then setFlowStatus "f" FlowStatus.starting
        pure (decide ((← getInst "f").status = FlowStatus.starting))) demoVM3 = .ok true s1 ∧
    (do
        setHeadPos ("f", "h") 1
        let newHeads ← slide 3 "f" "h"
        if newHeads.isEmpty then pure [] else advanceHeadFront 3 newHeads) s1 = .error (.py c m) s2 ∧
    Leafish1 "f" (some "m") 0 s2 :=
  ⟨_, _, _, _, rfl, rfl,
    ⟨⟨⟨_, rfl, ⟨rfl, rfl, rfl, rfl, rfl⟩⟩, rfl, fun p h => by cases h; rfl⟩, fun _ p h => by cases h; exact ⟨_, rfl, by decide⟩⟩⟩
/-- … and the computed run: normal return, the parent no longer lists `f`, `f` is STOPPED -/
example : ∃ s', advanceHeadFront 4 [("f", "h")] demoVM3 = .ok [] s' ∧
    (OMap.lookup "m" s'.r.fx).map (·.childFlowUids) = some [] ∧ (findInst s'.ixs.ix "f").map (·.status) = some .stopped :=
  ⟨_, rfl, rfl, rfl⟩

/-! ### the three findings of phase 4, repaired (fixes/C10-head-advance-inside-try.diff, fixes/C10-startflow-requires-flow-id.diff,
     fixes/C10-handle-match-error-contained.diff): CoreVM mirrors the repaired code, the former counterexamples
     (`advance_position_error_escapes_as_is`, `startflow_without_flow_id_escapes_as_is`, `start_flow_error_escapes_as_is`) are now
     instances of the containment theorems -/

/-- `<noop>; match UtteranceBotAction(..).Nope()`: the event name of the match statement cannot be computed -/
def badMatchSpec : Spec := Spec.mk (some "UtteranceBotAction") .action [] none (some [Member.mk "Nope" []]) none
def badMatchCfg : FlowCfg := { demoCfg with elements := #[.other, .matchOp badMatchSpec false] }
def badMatchVM : VM := { demoVM with r := { demoVM.r with prog := ⟨[badMatchCfg]⟩ } }

/-- REPAIRED `error-raised-by-head-advance-outside-try`: the hypotheses of `vm_except_branch` / `vm_error_contained` hold of the
    former counterexample — the raise (`ColangSyntaxError`, "Invalid action event Nope!") comes out of `head.position += 1` itself
    (the head-changed callback evaluates the event name of the match statement the head arrives at), which is now the first
    statement of the raise block `hraise`; the head then stands on that match statement (`hpos`). -/
theorem advance_position_error_in_try_block : ∃ (i : Inst) (hd hd2 : Head) (s1 s2 : VM) (starting : Bool) (m : String),
    findInst badMatchVM.ixs.ix "f" = some i ∧ i.status.listening = true ∧ cfgOfInst "f" badMatchVM = .ok badMatchCfg badMatchVM ∧
    i.findHead "h" = some hd ∧ hd.status = .active ∧
    (do
        if (← getInst "f").status = FlowStatus.waiting then setFlowStatus "f" FlowStatus.starting
        pure (decide ((← getInst "f").status = FlowStatus.starting))) badMatchVM = .ok starting s1 ∧
    setHeadPos ("f", "h") (hd.pos + 1) s1 = .error (.py "ColangSyntaxError" m) s2 ∧
    (do
        setHeadPos ("f", "h") (hd.pos + 1)
        let newHeads ← slide 3 "f" "h"
        if newHeads.isEmpty then pure [] else advanceHeadFront 3 newHeads) s1 = .error (.py "ColangSyntaxError" m) s2 ∧
    (findInst s2.ixs.ix "f").bind (·.findHead "h") = some hd2 ∧ hd2.pos < badMatchCfg.elements.size :=
  ⟨_, _, _, _, _, _, _, rfl, rfl, rfl, rfl, rfl, rfl, rfl, rfl, rfl, by decide⟩

/-- … and the conclusion, computed by the kernel: no exception leaves `_advance_head_front`; `ColangError` and `FlowFailed` are
    queued, the flow is STOPPED (FAILED) -/
theorem advance_position_error_contained : ∃ s', advanceHeadFront 4 [("f", "h")] badMatchVM = .ok [] s' ∧
    s'.r.queue.map (·.ev.name) = ["ColangError", "FlowFailed"] ∧ (findInst s'.ixs.ix "f").map (·.status) = some .stopped :=
  ⟨_, rfl, rfl, rfl⟩

/-- **`send StartFlow(...)` without `flow_id` fails the SENDER, inside `slide`** (repaired
    `error-raised-while-processing-internal-event`), for every state / flow / head: the head stands on a `send` element whose
    event evaluates (in state `s1`) to an internal `StartFlow` event without `flow_id`; then the slide iteration raises
    `ColangRuntimeError` in that very state — nothing is queued, the head does not move — and, `slide` being inside the try block
    of `_advance_head_front`, `vm_except_branch` / `vm_error_contained` apply.  Hence a `StartFlow` event that a flow's `send`
    puts into the queue always carries a `flow_id`: `_process_internal_events_without_default_matchers` (outside every try
    block) cannot raise `KeyError: 'flow_id'` on behalf of a `send`. -/
theorem startflow_without_flow_id_fails_sender (fuel : Nat) (f : FUid) (h : HUid) (s s1 : VM) (cfg : FlowCfg) (hd : Head)
    (spec : Spec) (e : Match.Ev)
    (hcfg : cfgOfInst f s = .ok cfg s) (hhd : getHead? (f, h) s = .ok (some hd) s)
    (hlt : hd.pos < cfg.elements.size) (hlive : hd.status ≠ .inactive)
    (hel : cfg.elements[hd.pos]! = .sendOp spec)
    (hev : getEvent f spec false s = .ok e s1) (hname : e.name = "StartFlow") (hnoid : lookupArg "flow_id" e.args = none) :
    slideStep fuel f h s = .error (.py "ColangRuntimeError" "Event 'StartFlow' needs a 'flow_id' parameter!") s1 :=
  slideStep_startflow_requires_flow_id fuel f h s s1 cfg hd spec e hcfg hhd hlt hlive hel hev hname hnoid

/-- `<noop>; send $e`, the context variable `$e` holding the event object of a `StartFlow` event without `flow_id` (the literal
    form `send StartFlow()` takes the same branch of `slide`; its event name test runs through string functions the kernel does not
    evaluate, so the witness uses the reference form) -/
def startNoIdSpec : Spec := { name := none, specType := .reference, args := [], ref := none, members := none, varName := some "e" }
def startNoIdCfg : FlowCfg := { demoCfg with elements := #[.other, .sendOp startNoIdSpec] }
def startNoIdFx : List (FUid × InstX) := [("f", { flowId := "f", loopId := none, hierPos := "0", context := [("e", .ref "event" "e0")] })]
def startNoIdRest : Rest := { demoVM.r with prog := ⟨[startNoIdCfg]⟩, fx := startNoIdFx, events := [("e0", { ev := { kind := .internal, name := "StartFlow", args := [] } })] }
def startNoIdVM : VM := { demoVM with r := startNoIdRest }

/-- the same state after `head.position += 1`: the head stands on the `send` -/
def startNoIdVM1 : VM := { startNoIdVM with ixs := startNoIdVM.ixs.apply (.setPos "f" "h" 1 none) (by decide) }

/-- decidable digests of results (the kernel evaluates them; `VM` itself has no decidable equality) -/
def evDigest : EStateM.Result VMErr VM Match.Ev → Option (String × Bool)
  | .ok e _ => some (e.name, (lookupArg "flow_id" e.args).isNone)
  | .error _ _ => none
def advDigest (f : FUid) : EStateM.Result VMErr VM (List Key) → Option (List Key × List String × Option FlowStatus)
  | .ok r s => some (r, s.r.queue.map (·.ev.name), (findInst s.ixs.ix f).map (·.status))
  | .error _ _ => none

/-- non-vacuity of `startflow_without_flow_id_fails_sender`: its hypotheses hold of `startNoIdVM1` -/
example : ∃ hd e s1, cfgOfInst "f" startNoIdVM1 = .ok startNoIdCfg startNoIdVM1 ∧
    getHead? ("f", "h") startNoIdVM1 = .ok (some hd) startNoIdVM1 ∧ hd.pos < startNoIdCfg.elements.size ∧ hd.status ≠ .inactive ∧
    startNoIdCfg.elements[hd.pos]! = .sendOp startNoIdSpec ∧ getEvent "f" startNoIdSpec false startNoIdVM1 = .ok e s1 ∧
    e.name = "StartFlow" ∧ lookupArg "flow_id" e.args = none := by
  have hd : evDigest (getEvent "f" startNoIdSpec false startNoIdVM1) = some ("StartFlow", true) := by decide +kernel
  cases hg : getEvent "f" startNoIdSpec false startNoIdVM1 with
  | error e s => rw [hg] at hd; cases hd
  | ok e s1 =>
    rw [hg] at hd
    simp only [evDigest, Option.some.injEq, Prod.mk.injEq, Option.isNone_iff_eq_none] at hd
    exact ⟨_, e, s1, rfl, rfl, by decide, by decide, rfl, rfl, hd.1, hd.2⟩

/-- … and the computed run of `_advance_head_front` on `<noop>; send $e`: normal return, nothing handed back, the SENDER
    is failed (`ColangError`, `FlowFailed` queued, status STOPPED) and no `StartFlow` event was queued -/
theorem startflow_without_flow_id_contained :
    advDigest "f" (advanceHeadFront 4 [("f", "h")] startNoIdVM) = some ([], ["ColangError", "FlowFailed"], some .stopped) := by
  decide +kernel

/-- **error containment in `_handle_event_matching`** (repaired `error-raised-while-handling-match`), for every event, every
    list of matched heads and every state:
    (1) no Python-level exception raised by the work per matched head (`_create_event_reference`, `_start_flow`, the scope
        registration of `FlowStarted`) leaves the function — PROVENANCE of any Python-level exception that does: the look-up of
        the flow state / configuration of a matched head in front of the try block (the instance of a matched head is gone);
    (2) on normal return the heads handed back are among the matched heads (`run_to_completion` moves exactly these to
        `heads_erroring`, whose flows it fails with `_abort_flow`: `vm_abort_postcondition`), if any head is handed back a
        `ColangError` event is in the queue, nothing that was queued is lost, no instance disappeared;
    (3) in EVERY outcome nothing that was queued is lost and no instance disappears (`Ext`). -/
theorem vm_handle_match_error_contained (event : Event) (heads : List Key) (s : VM) :
    (∀ c m s', handleEventMatching event heads s = .error (.py c m) s' →
      ∃ k ∈ heads, ∃ s0, cfgOfInst k.1 s0 = .error (.py c m) s') ∧
    (∀ errs s', handleEventMatching event heads s = .ok errs s' →
      (∀ k ∈ errs, k ∈ heads) ∧ Ext s s' ∧ (errs ≠ [] → ∃ c m, colangErrorEvent c m ∈ s'.r.queue) ∧
      (∀ e ∈ s.r.queue, e ∈ s'.r.queue)) ∧
    Ext s (outState (handleEventMatching event heads s)) :=
  ⟨fun c m s' h => handleEventMatching_py_provenance event heads s s' c m h,
   fun errs s' h => handleEventMatching_ok event heads s s' errs h,
   (Ext.handleEventMatching event heads).app s⟩

/-- **the `except` branch of `_handle_event_matching`, as an equation** (one matched head): the work for head `k` raises `c: m`
    in state `s2`; then the call returns normally, hands `k` back, and the final state is `s2` plus the queued
    `ColangError(type=c, error=m)` (and the log entry) — nothing else -/
theorem vm_handle_match_except_branch (event : Event) (k : Key) (cfg : FlowCfg) (hd : Head) (s s2 : VM) (c m : String)
    (hcfg : cfgOfInst k.1 s = .ok cfg s) (hhd : getHead? k s = .ok (some hd) s)
    (hraise : handleMatch event k cfg hd s = .error (.py c m) s2) :
    handleEventMatching event [k] s = .ok [k] (handleErrState c m s2) ∧
    colangErrorEvent c m ∈ (handleErrState c m s2).r.queue :=
  ⟨handleEventMatching_error_path event k cfg hd s s2 c m hcfg hhd hraise, by simp [handleErrState]⟩

/-- the class of the Python-level exception a result carries -/
def pyClassOf {α : Type} : EStateM.Result VMErr VM α → Option String
  | .error (.py c _) _ => some c
  | _ => none

/-- a freshly created instance `p` of `flow helper_p $a` (one parameter), started by `f` with THREE positional arguments -/
def paramCfg : FlowCfg :=
  { id := "helper_p", elements := #[.other], labels := [], params := [{ name := "a", default := none }], returnMembers := [],
    loopId := none, loopPriority := 0, metaTags := [] }
def paramIx : IxS := (({} : IxS).apply (.addInst "f" "h" none) (by decide)).apply (.addInst "p" "hp" none) (by decide)
def paramVM : VM :=
  { ixs := paramIx,
    r := { prog := ⟨[demoCfg, paramCfg]⟩,
           fx := [("f", { flowId := "f", loopId := none, hierPos := "0" }),
                  ("p", { flowId := "helper_p", loopId := none, hierPos := "0.1", arguments := [("a", .none)] })],
           hx := [(("f", "h"), {}), (("p", "hp"), {})] } }
def startP : Event :=
  { ev := { kind := .internal, name := "StartFlow",
            args := [("flow_id", .str "helper_p"), ("flow_instance_uid", .str "p"), ("source_flow_instance_uid", .str "f"),
                     ("source_head_uid", .str "h"), ("$0", .int 1), ("$1", .int 2), ("$2", .int 3)] } }

theorem pyClassOf_some {α : Type} {r : EStateM.Result VMErr VM α} {c : String} (h : pyClassOf r = some c) :
    ∃ m s, r = .error (.py c m) s := by
  cases r with
  | ok a s => cases h
  | error e s =>
    cases e with
    | py c' m => simp only [pyClassOf, Option.some.injEq] at h; subst h; exact ⟨m, s, rfl⟩
    | outOfFuel => cases h
    | unsupported w => cases h
    | guardFailed w => cases h

/-- decidable digest of a result of `_handle_event_matching`: the heads handed back and the names of the queued events -/
def hmDigest : EStateM.Result VMErr VM (List Key) → Option (List Key × List String)
  | .ok r s => some (r, s.r.queue.map (·.ev.name))
  | .error _ _ => none

/-- non-vacuity of `vm_handle_match_except_branch` on the former counterexample: `_start_flow` raises `ColangRuntimeError` ("To many
    parameters provided in start of flow") for the new instance `p` — now inside the try block … -/
theorem start_flow_error_in_try_block : ∃ cfg hd m s2,
    cfgOfInst "p" paramVM = .ok cfg paramVM ∧ getHead? ("p", "hp") paramVM = .ok (some hd) paramVM ∧
    handleMatch startP ("p", "hp") cfg hd paramVM = .error (.py "ColangRuntimeError" m) s2 := by
  have h : pyClassOf (handleMatch startP ("p", "hp") paramCfg (newHead "hp" none) paramVM) = some "ColangRuntimeError" := by
    decide +kernel
  obtain ⟨m, s2, hr⟩ := pyClassOf_some h
  exact ⟨paramCfg, newHead "hp" none, m, s2, rfl, rfl, hr⟩

/-- … and the conclusion, computed by the kernel: `_handle_event_matching` returns normally, hands the head of `p` back and has
    queued the `ColangError` (REPAIRED `error-raised-while-handling-match`; formerly `start_flow_error_escapes_as_is`) -/
theorem start_flow_error_contained :
    hmDigest (handleEventMatching startP [("p", "hp")] paramVM) = some ([("p", "hp")], ["ColangError"]) := by decide +kernel


/-- non-vacuity of `vm_faulty_flow_fails_alone`: besides the trace hypotheses (witnessed above for `demoVM3`) the family `{f}` is closed
    in `demoVM3` — its parent `m` is outside and only loses `f` from its child list -/
example : Closed (· = "f") demoVM3 := by
  intro g x hg hl
  subst hg
  have h : OMap.lookup "f" demoVM3.r.fx = some { flowId := "f", loopId := none, hierPos := "0.0", parentUid := some "m" } := rfl
  rw [h] at hl; cases hl
  exact ⟨fun c hc => absurd hc (by simp [kids, scopeFlows]), rfl⟩

/-- non-vacuity of `vm_try_catches` and `vm_slide_returns_own_heads` -/
example : attemptPy (pyRaise "E" "m" : M Unit) demoVM = .ok (.error ("E", "m")) demoVM := vm_try_catches _ _ _ _ _ rfl
example : ∃ r s', slide 3 "f" "h" demoVM2A = .ok r s' := ⟨_, _, rfl⟩

/-- witness: the same flow, ACTIVATED (`@active`), instance still WAITING (so the advance makes it STARTING) -/
def demoVM4 : VM :=
  { demoVM with r := { demoVM.r with fx := [("f", { flowId := "f", loopId := none, hierPos := "0", activated := 1 })] } }

/-- non-vacuity of `vm_restart_guard` … -/
example : ∃ (s1 s2 : VM) (c m : String) (x : InstX),
    (do
        if (← getInst "f").status = FlowStatus.waiting then setFlowStatus "f" FlowStatus.starting
        pure (decide ((← getInst "f").status = FlowStatus.starting))) demoVM4 = .ok true s1 ∧
    (do
        setHeadPos ("f", "h") 1
        let newHeads ← slide 3 "f" "h"
        if newHeads.isEmpty then pure [] else advanceHeadFront 3 newHeads) s1 = .error (.py c m) s2 ∧
    OMap.lookup "f" s2.r.fx = some x ∧ x.activated > 0 :=
  ⟨_, _, _, _, _, rfl, rfl, rfl, by decide⟩
/-- … and the computed run: the activated flow fails (STOPPED), two events are queued (ColangError, FlowFailed), no StartFlow -/
example : ∃ s', advanceHeadFront 4 [("f", "h")] demoVM4 = .ok [] s' ∧ startCount s' = 0 ∧ s'.r.queue.length = 2 ∧
    (findInst s'.ixs.ix "f").map (·.status) = some .stopped := ⟨_, rfl, rfl, rfl, rfl⟩

/-- contrast (kernel-evaluated): the same activated flow already STARTED (it passed a wait) — here the restart is wanted: the
    `except` branch puts the restart `StartFlow` at the FRONT of the queue, before `ColangError` and `FlowFailed` -/
def demoIx5 : IxS :=
  ((({} : IxS).apply (.addInst "f" "h" none) (by decide)).apply (.setFlowStatus "f" .starting) (by decide)).apply
    (.setFlowStatus "f" .started) (by decide)
def demoVM5 : VM := { demoVM4 with ixs := demoIx5 }
example : ∃ s', advanceHeadFront 4 [("f", "h")] demoVM5 = .ok [] s' ∧ startCount s' = 1 ∧
    s'.r.queue.map (·.ev.name) = ["StartFlow", "ColangError", "FlowFailed"] := ⟨_, rfl, rfl, rfl⟩
end NemoVerif.C10.VM

/-! ## Phase 5 — the error-report loop: flows that REACT to `ColangError` (`Models/ErrReport.lean`)

  A flow `match ColangError() as $event ; <body>` that is activated is woken by every reported runtime error; if its own body raises
  while it handles a report, that error is reported, the flow is restarted, matches the new report, … inside one `run_to_completion`
  call.  The loop terminates iff the handler does not raise on the texts that are reported — for the shipped helper
  `warning of colang errors` (`$info = "Colang error: {$event.type} - {escape($event.error)}"`) this is `escape` being total and
  producing a text that can stand inside a string literal: `escape_yields_valid_literal`.
  Tie (every run): driver op `C10.escape` — the model's `escapeStr` / `escSpecial` / `validLit ∘ render` against the real `_escape_string`,
  `escape_special_string_characters` and `eval_expression` on every error text of every generated run; the static analysis of handler
  flows (`harness/impl/c10_handlers.py::handler_total`) against `tplTotal`; the rounds of programs with handler flows are replayed in
  phases on the token machine (`phased_round_bound`). -/
namespace NemoVerif.C10.Report
open NemoVerif.ErrReport

/-- what `escape` guarantees: its result is accepted by the scanner `A5` — every backslash starts a pair `\\ \{ \} \' \" \0`, no
    quote and no NUL stands bare -/
theorem escape_scanned (s : Str) : A5.run .N (escapeStr s) = some .N := by
  have h0 := rep1_backslash s
  have h1 := rep2_pass A0 '{' (by decide) (by decide) _ _ (Nat.le_refl _) .N .N h0
  have h2 := rep2_pass A1 '}' (by decide) (by decide) _ _ (Nat.le_refl _) .N .N h1
  have h3 := rep1_pass A2 '\'' '\'' [] (by decide) (by decide) rfl _ .N .N h2
  have h4 := rep1_pass A3 '"' '"' [] (by decide) (by decide) rfl _ .N .N h3
  exact rep1_pass A4 nul '0' ['0', '0'] (by decide) (by decide) (by decide) _ .N .N h4

theorem quotes_bad_A5 : ∀ c, isQuote c = true → A5.nbad c = true ∧ c ≠ '\\' := by
  intro c hc
  simp only [isQuote, Bool.or_eq_true, decide_eq_true_eq] at hc
  rcases hc with rfl | rfl <;> decide

/-- … and `escape_special_string_characters` applied to it (as `eval_expression` does with the value of every inner expression)
    leaves the quotes alone and writes the control characters as escapes -/
theorem escape_special_scanned (s : Str) : A11.run .N (escSpecial (escapeStr s)) = some .N := by
  have h5 := escape_scanned s
  have e : escQ0 (escapeStr s) = escapeStr s := escQ0_id A5 quotes_bad_A5 _ _ h5
  unfold escSpecial
  rw [e]
  have h6 := rep1_pass A5 '\n' 'n' [] (by decide) (by decide) rfl _ .N .N h5
  have h7 := rep1_pass A6 '\t' 't' [] (by decide) (by decide) rfl _ .N .N h6
  have h8 := rep1_pass A7 '\r' 'r' [] (by decide) (by decide) rfl _ .N .N h7
  have h9 := rep1_pass A8 '\x08' 'b' [] (by decide) (by decide) rfl _ .N .N h8
  have h10 := rep1_pass A9 '\x0c' 'f' [] (by decide) (by decide) rfl _ .N .N h9
  exact rep1_pass A10 '\x0b' 'v' [] (by decide) (by decide) rfl _ .N .N h10

theorem A11_le_Py (d : Char) (hd : d = '"' ∨ d = '\'') (s : Str) (q q' : Q) (h : A11.run q s = some q') : (Py d).run q s = some q' := by
  refine run_mono A11 (Py d) ?_ ?_ s q q' h
  · intro c hc
    simp only [Py, Bool.or_eq_true, decide_eq_true_eq] at hc
    rcases hd with rfl | rfl <;> rcases hc with ((rfl | rfl) | rfl) | rfl <;> decide
  · intro c hc
    simp only [A11, A10, A9, A8, A7, A6, A5, A4, A3, A2, A1, A0, Aut.ext1, Aut.ext2, Bool.or_eq_true, decide_eq_true_eq] at hc
    rcases hd with rfl | rfl <;> rcases hc with rfl | rfl | rfl | rfl | rfl | rfl | rfl | rfl | rfl | rfl | rfl | rfl <;> decide


theorem brace_ok (d : Char) (hd : d = '"' ∨ d = '\'') (a : Char) (ha : a = '{' ∨ a = '}') :
    a ≠ '\\' ∧ (Py d).nbad a = false ∧ (Py d).eok a = true := by
  rcases hd with rfl | rfl <;> rcases ha with rfl | rfl <;> decide

/-- the `{{` / `}}` collapse of `eval_expression` does not change whether the literal is well formed -/
theorem collapse_valid (d : Char) (hd : d = '"' ∨ d = '\'') (s : Str) : validLit d (collapse s) = validLit d s := by
  unfold validLit collapse
  have b1 := brace_ok d hd '}' (Or.inr rfl)
  have b2 := brace_ok d hd '{' (Or.inl rfl)
  rw [col_run (Py d) '}' b1.1 b1.2.1 b1.2.2 _ _ (Nat.le_refl _), col_run (Py d) '{' b2.1 b2.2.1 b2.2.2 _ _ (Nat.le_refl _)]

/-- **`escape_yields_valid_literal`**: for EVERY text `s`, the text `escape(s)` interpolated (`{escape(…)}`: `eval_expression` applies
    `escape_special_string_characters` to the value and collapses `{{` / `}}` afterwards) between well-formed literal pieces `pre` / `post`
    of a single- or double-quoted template yields a well-formed Python string literal — `escape` is total and its result never ends or
    breaks the literal it is put into.  (Seed C10-d breaks exactly this: `seed_escape_counterexample`.) -/
theorem escape_yields_valid_literal (d : Char) (hd : d = '"' ∨ d = '\'') (pre post s : Str)
    (hpre : (Py d).run .N pre = some .N) (hpost : (Py d).run .N post = some .N) :
    validLit d (collapse (pre ++ escSpecial (escapeStr s) ++ post)) = true := by
  rw [collapse_valid d hd]
  have hm := A11_le_Py d hd _ .N .N (escape_special_scanned s)
  have := run_append_ok (Py d) (run_append_ok (Py d) hpre hm) hpost
  rw [List.append_assoc] at this
  simp [validLit, this]

theorem segs_valid (d : Char) (hd : d = '"' ∨ d = '\'') (txt sv : Nat → Str) (hsv : ∀ i, (Py d).run .N (sv i) = some .N) :
    ∀ (tpl : List Seg) (i : Nat), tplTotal d tpl = true → (Py d).run .N (renderSegs txt sv i tpl) = some .N := by
  intro tpl
  induction tpl with
  | nil => intro i _; rfl
  | cons sg r ih =>
    intro i ht
    simp only [tplTotal, List.all_cons, Bool.and_eq_true] at ht
    have hr := ih (i + 1) (by simpa [tplTotal] using ht.2)
    have hh : (Py d).run .N (segStr txt sv i sg) = some .N := by
      cases sg with
      | lit s => simpa [Seg.total, segStr] using ht.1
      | esc => exact A11_le_Py d hd _ .N .N (escape_special_scanned (txt i))
      | raw => simp [Seg.total] at ht
      | safe => exact hsv i
    exact run_append_ok (Py d) hh hr

/-- **`handler_literal_valid`**: a handler template in which the error text occurs only as `{escape(…)}` (`tplTotal`: literal pieces
    well formed, no raw interpolation) assembles a well-formed literal for ALL error texts `txt` (and all harmless values `sv`):
    the statement cannot raise, whatever is reported. -/
theorem handler_literal_valid (d : Char) (hd : d = '"' ∨ d = '\'') (tpl : List Seg) (ht : tplTotal d tpl = true) (txt sv : Nat → Str)
    (hsv : ∀ i, (Py d).run .N (sv i) = some .N) : validLit d (render txt sv tpl) = true := by
  unfold render
  rw [collapse_valid d hd]
  simp [validLit, segs_valid d hd txt sv hsv tpl 0 ht]

/-- the template of the shipped helper `warning of colang errors`:  "Colang error: {$event.type} - {escape($event.error)}" -/
def shippedTpl : List Seg := [.lit "Colang error: ".toList, .safe, .lit " - ".toList, .esc]
example : tplTotal '"' shippedTpl = true := by decide

/-- **`report_loop_terminates`**: if the handler raises on none of the queued reports, the error-report loop performs exactly one
    handler activation per report and stops (any surplus fuel is left unused). -/
theorem report_loop_terminates {Text : Type} (h : Text → Option Text) (q : List Text) (k : Nat) (hq : ∀ t ∈ q, h t = none) :
    runLoop h (q.length + k) q = (q.length, []) := runLoop_total h q k hq

/-- **`report_loop_diverges`**: if there is a class of texts on which the handler raises and whose new report is in the class again,
    a non-empty queue of such reports is never worked off: every unit of fuel is used, the queue never empties (the hypothesis of
    `report_loop_terminates` is needed). -/
theorem report_loop_diverges {Text : Type} (h : Text → Option Text) (Bad : Text → Prop)
    (hb : ∀ t, Bad t → ∃ t', h t = some t' ∧ Bad t') (fuel : Nat) (q : List Text) (hq : q ≠ []) (hall : ∀ t ∈ q, Bad t) :
    (runLoop h fuel q).1 = fuel ∧ (runLoop h fuel q).2 ≠ [] := runLoop_diverges h Bad hb fuel q hq hall

/-- **`shipped_helper_terminates`**: the loop of the shipped helper (class name `ty`: any well-formed piece) stops after one activation per
    report, for EVERY queue of error texts. -/
theorem shipped_helper_terminates (ty : Str) (hty : (Py '"').run .N ty = some .N) (q : List Str) (k : Nat) :
    runLoop (tplHandler (fun t => render (fun _ => t) (fun _ => ty) shippedTpl) '"') (q.length + k) q = (q.length, []) := by
  apply report_loop_terminates
  intro t _
  have := handler_literal_valid '"' (Or.inl rfl) shippedTpl (by decide) (fun _ => t) (fun _ => ty) (fun _ => hty)
  simp [tplHandler, this]

example : (Py '"').run .N "ColangValueError".toList = some .N := by decide

/-! #### what breaks it -/

/-- seed C10-d: `escape` delegates the quotes to `escape_special_string_characters` (after doubling the backslashes) -/
def seedEscape (s : Str) : Str := escSpecial (rep2 '}' (rep2 '{' (rep1 '\\' ['\\', '\\'] s)))

/-- a backslash in front of a double quote: after the doubling the quote still follows a backslash and stays bare — the literal of
    the shipped helper ends early -/
theorem seed_escape_counterexample :
    validLit '"' (collapse ("Colang error: T - ".toList ++ escSpecial (seedEscape ['\\', '"']))) = false := by decide

/-- the pinned tree without fixes/C10-escape-unencodable.diff: a NUL in the error text survives `escape` -/
theorem escape_nul_as_is_counterexample :
    validLit '"' (renderAsIs (fun _ => ['a', nul, 'b']) (fun _ => ['T']) shippedTpl) = false := by decide

example : validLit '"' (render (fun _ => ['a', nul, 'b']) (fun _ => ['T']) shippedTpl) = true := by decide

/-- interpolating the error text WITHOUT `escape` (`"E: {$ev.error}"`) is not total: the quote pass of
    `escape_special_string_characters` leaves the second of two adjacent quotes bare — and every evaluation error text starts with
    `Error evaluating '"…` when the failing expression starts with a string literal -/
theorem raw_interpolation_counterexample :
    validLit '"' (render (fun _ => "Error evaluating '\"t\" + 3'".toList) (fun _ => []) [.lit "E: ".toList, .raw]) = false := by decide

example : tplTotal '"' [.lit "E: ".toList, .raw] = false := by decide

/-- the seeded helper on `\"`: three activations, three new reports, nothing worked off (kernel-evaluated instance of divergence) -/
example : (runLoop (tplHandler (fun t => collapse ("Colang error: T - ".toList ++ escSpecial (seedEscape t))) '"') 3 [['\\', '"']]).1 = 3 ∧
    (runLoop (tplHandler (fun t => collapse ("Colang error: T - ".toList ++ escSpecial (seedEscape t))) '"') 3 [['\\', '"']]).2.length = 1 := by
  decide

/-! #### the round in phases -/
open NemoVerif.RoundMachine in
/-- **`phased_round_bound`**: a round read in phases (one phase per popped ColangError; each phase a run of the token machine from the
    snapshot `T` of the state at that pop) takes at most the sum of the phase bounds `B(program, T)` steps. With `report_loop_terminates`
    (one phase per error raised by a flow other than the handlers) this bounds the whole round. -/
theorem phased_round_bound (P : RProg) (p : Pot) (hk : potOk P p = true) :
    ∀ (phases : List (Nat × List Token × List Token)), (∀ ph ∈ phases, Run P ph.1 ph.2.1 ph.2.2) →
      (phases.map (·.1)).sum ≤ (phases.map fun ph => roundBound P p ph.2.1).sum := by
  intro phases
  induction phases with
  | nil => intro _; simp
  | cons ph r ih =>
    intro h
    have h1 := run_bound hk (h ph (by simp))
    have h2 := ih (fun x hx => h x (by simp [hx]))
    simp only [List.map_cons, List.sum_cons, roundBound] at h2 ⊢
    omega

end NemoVerif.C10.Report


/-! ## Wave 6 — the conversion step of `process_events` (`Models/ProcessEvents.lean`)

  Third mechanism of the property's anchors: an exception that LEAVES `run_to_completion()` is converted into a `ColangError` event
  and fed back into the state machine.  "Reported as a ColangError event" means: an event a flow can match.  That depends on two
  sites that do not know of each other — the class of the object `process_events` creates, and the class test
  `isinstance(ref_event, type(event))` of `_compute_event_matching_score` against the reference event `match ColangError()` builds —
  both extracted as data by `harness/translate/c10_classes.py` (`Generated/C10Classes.lean`).

  "Nothing escapes the conversion loop" is structural in the model (`convertLoop` has no raising outcome: the `except Exception`
  branch catches every exception of the call); what needs proof is termination of the loop and delivery of the report. -/
namespace NemoVerif.C10.Convert
open NemoVerif.ProcessEvents

/-- **`convert_terminates`** (every `run_to_completion`, every state, every event): if the state machine accepts the converted
    ColangError events (it raises on none of them), the `while new_event is not None` loop ends after at most two calls, and what
    was handed to `run_to_completion` is the input event, followed — iff it raised — by exactly one event of the converted class
    carrying the exception's class name. -/
theorem convert_terminates {σ : Type} (t : Tie) (rtc : Rtc σ)
    (hacc : ∀ s e, ∃ s', rtc s (convertedEvent t e) = .ok s') (s : σ) (ev : Ev) (fuel : Nat) :
    ∃ s' l, convertLoop t rtc (fuel + 2) s ev = some (s', l) ∧
      (l = [ev] ∨ ∃ s1 e, rtc s ev = .raised s1 e ∧ l = [ev, convertedEvent t e] ∧ rtc s1 (convertedEvent t e) = .ok s') := by
  simp only [convertLoop]
  cases h : rtc s ev with
  | ok s1 => exact ⟨s1, [ev], rfl, .inl rfl⟩
  | raised s1 e =>
    obtain ⟨s2, h2⟩ := hacc s1 e
    simp only [h2]
    exact ⟨s2, [ev, convertedEvent t e], rfl, .inr ⟨s1, e, rfl, rfl, h2⟩⟩

/-- non-vacuity + the hypothesis is needed: a state machine that raises on EVERY event (also on the reports) keeps the loop spinning
    for every fuel — `runtime.max_events` does not bound this inner loop. -/
theorem convert_diverges {σ : Type} (t : Tie) (rtc : Rtc σ) (h : ∀ s ev, ∃ s' e, rtc s ev = .raised s' e) :
    ∀ fuel s ev, convertLoop t rtc fuel s ev = none := by
  intro fuel
  induction fuel with
  | zero => intro s ev; rfl
  | succ n ih =>
    intro s ev
    obtain ⟨s', e, he⟩ := h s ev
    simp only [convertLoop, he, ih]

theorem obsRtc_converted (t : Tie) (faulty : Ev → Option Nat) (hacc : ∀ e, faulty (convertedEvent t e) = none) (s : ObsState) (e : Nat) :
    obsRtc t faulty s (convertedEvent t e)
      = .ok (if t.headMayMatch t.converted then { reactions := s.reactions + 1, delivered := s.delivered + 1 }
             else { s with delivered := s.delivered + 1 }) := by
  simp only [obsRtc, hacc]
  cases h : t.headMayMatch t.converted <;> simp [convertedEvent, h]

/-- **`escaped_error_is_reported`** (every tree `t`, every set of faulty events, every state): if the class test of the matcher lets
    the reference event of `match ColangError()` match an event of the CONVERTED class, then an input event whose processing raises
    (outside every try block of the state machine) ends with the activated observer having reacted exactly once, both events delivered,
    nothing escaping. -/
theorem escaped_error_is_reported (t : Tie) (faulty : Ev → Option Nat) (hm : t.headMayMatch t.converted = true)
    (hacc : ∀ e, faulty (convertedEvent t e) = none) (s : ObsState) (ev : Ev) (e : Nat) (hf : faulty ev = some e) (fuel : Nat) :
    convertLoop t (obsRtc t faulty) (fuel + 2) s ev
      = some ({ reactions := s.reactions + 1, delivered := s.delivered + 1 }, [ev, convertedEvent t e]) := by
  have h1 : obsRtc t faulty s ev = .raised s e := by simp [obsRtc, hf]
  simp only [convertLoop, h1, obsRtc_converted t faulty hacc, hm]
  simp

/-- the converse (why the hypothesis is THE condition): if the class test rejects the converted class, the report is delivered to
    nobody — same run, no reaction: the error is swallowed silently. -/
theorem unmatchable_conversion_is_swallowed (t : Tie) (faulty : Ev → Option Nat) (hm : t.headMayMatch t.converted = false)
    (hacc : ∀ e, faulty (convertedEvent t e) = none) (s : ObsState) (ev : Ev) (e : Nat) (hf : faulty ev = some e) (fuel : Nat) :
    convertLoop t (obsRtc t faulty) (fuel + 2) s ev
      = some ({ reactions := s.reactions, delivered := s.delivered + 1 }, [ev, convertedEvent t e]) := by
  have h1 : obsRtc t faulty s ev = .raised s e := by simp [obsRtc, hf]
  simp only [convertLoop, h1, obsRtc_converted t faulty hacc, hm]
  simp

/-- **the tie** (finite fact about the data the translator extracted from the tree under test, re-checked on every run): the class of
    the event `process_events` creates is one the reference event of `match ColangError()` is an instance of. -/
theorem generated_converted_error_is_matchable : generatedTie.headMayMatch generatedTie.converted = true := by decide

/-- the same for the ColangError events the state machine creates itself (three sites) -/
theorem generated_state_machine_errors_are_matchable :
    ∀ c ∈ NemoVerif.Generated.C10Classes.stateMachineErrorClasses, generatedTie.headMayMatch c = true := by decide

/-- `escaped_error_is_reported` for the tree under test -/
theorem generated_escaped_error_is_reported (faulty : Ev → Option Nat) (hacc : ∀ e, faulty (convertedEvent generatedTie e) = none)
    (s : ObsState) (ev : Ev) (e : Nat) (hf : faulty ev = some e) (fuel : Nat) :
    convertLoop generatedTie (obsRtc generatedTie faulty) (fuel + 2) s ev
      = some ({ reactions := s.reactions + 1, delivered := s.delivered + 1 }, [ev, convertedEvent generatedTie e]) :=
  escaped_error_is_reported generatedTie faulty generated_converted_error_is_matchable hacc s ev e hf fuel

/-- seed C10-e as a theorem: the converted event created as `InternalEvent` (class 1) while `match ColangError()` builds a plain
    `Event` (class 0) — `isinstance(Event(...), InternalEvent)` is false in the pinned hierarchy: no head may match. -/
theorem seed_internal_event_counterexample :
    ({ converted := 1, matchRef := 0, subclass := pinnedSubclass, guard := true } : Tie).headMayMatch 1 = false := by decide

/-- non-vacuity of `escaped_error_is_reported` / `generated_escaped_error_is_reported`: events that are not reports raise `7`
    (a wrong-typed action parameter, say), reports are accepted; kernel-evaluated run: one reaction, two deliveries -/
example : convertLoop generatedTie (obsRtc generatedTie (fun ev => if ev.isColangError then none else some 7)) 2 ⟨0, 0⟩ ⟨0, false, 0⟩
    = some (⟨1, 1⟩, [⟨0, false, 0⟩, ⟨0, true, 7⟩]) := by decide

/-- the same run on the seeded tree: delivered, nobody reacts -/
example : convertLoop { converted := 1, matchRef := 0, subclass := pinnedSubclass, guard := true }
    (obsRtc { converted := 1, matchRef := 0, subclass := pinnedSubclass, guard := true } (fun ev => if ev.isColangError then none else some 7))
    2 ⟨0, 0⟩ ⟨0, false, 0⟩ = some (⟨0, 1⟩, [⟨0, false, 0⟩, ⟨1, true, 7⟩]) := by decide

/-- non-vacuity of `convert_terminates`: the observer machine accepts every report -/
example : ∀ s e, ∃ s', obsRtc generatedTie (fun ev => if ev.isColangError then none else some 7) s (convertedEvent generatedTie e) = .ok s' := by
  intro s e
  exact ⟨_, obsRtc_converted generatedTie _ (by intro e; simp [convertedEvent]) s e⟩

/-- non-vacuity of `convert_diverges` -/
example : ∀ (s : Nat) (ev : Ev), ∃ s' e, (fun (s : Nat) (_ : Ev) => Outcome.raised s 1) s ev = .raised s' e := fun s _ => ⟨s, 1, rfl⟩


/-! ### the repaired guard of `_resolve_action_conflicts` (fixes/C10-escaping-statement-errors.diff; model `guardHeads`)

  On the pinned tree the action event of an actionable head is built INSIDE the conflict resolution, outside every try block: an invalid
  one (`start UtteranceBotAction(script=3)`) raises there, the round is abandoned and every other pending action is lost (open finding
  error-raised-while-creating-action-event). The repair validates all heads first; these theorems are about that scan. -/

/-- **every head that reaches the conflict resolution has an action event that can be built**: nothing can raise there any more -/
theorem guardHeads_survivors_valid (build : AHead → Option Nat) (kills : Nat → List Nat) (hself : ∀ f, f ∈ kills f) (heads : List AHead) :
    ∀ h ∈ (guardHeads build kills heads).1, build h = none := by
  intro h hm
  simp only [guardHeads, List.mem_filter] at hm
  by_cases hb : build h = none
  · exact hb
  · have := failInvalid_invalid_stopped build kills hself heads [] [] h hm.1 hb
    simp [this] at hm

/-- **a faulty flow fails alone**: a head with a valid action event whose flow is not stopped together with any faulty flow keeps its
    place (and its order) among the heads handed to the conflict resolution — its pending action is not lost -/
theorem guardHeads_bystander_kept (build : AHead → Option Nat) (kills : Nat → List Nat) (heads : List AHead) (h : AHead) (hm : h ∈ heads)
    (hun : ∀ g ∈ heads, build g ≠ none → h.flow ∉ kills g.flow) : h ∈ (guardHeads build kills heads).1 := by
  simp only [guardHeads, List.mem_filter]
  refine ⟨hm, ?_⟩
  have : h.flow ∉ (failInvalid build kills heads [] []).1 := by
    intro hc
    rcases failInvalid_stopped_origin build kills heads [] [] h.flow hc with h0 | ⟨g, hg, hb, hk⟩
    · simp at h0
    · exact hun g hg hb hk
  simpa using this

/-- no invalid head ⇒ the guard changes nothing (the conflict resolution sees the same heads; no report) -/
theorem guardHeads_all_valid (build : AHead → Option Nat) (kills : Nat → List Nat) (heads : List AHead) (hv : ∀ h ∈ heads, build h = none) :
    guardHeads build kills heads = (heads, []) := by
  have key : ∀ (hs : List AHead) (st er : List Nat), (∀ h ∈ hs, build h = none) → failInvalid build kills hs st er = (st, er) := by
    intro hs
    induction hs with
    | nil => intro st er _; rfl
    | cons x rest ih =>
      intro st er hv
      simp only [failInvalid, hv x List.mem_cons_self]
      split <;> exact ih st er (fun h hm => hv h (List.mem_cons_of_mem _ hm))
  simp [guardHeads, key heads [] [] hv]

/-- at most one report per head whose action event cannot be built -/
theorem guardHeads_reports_le (build : AHead → Option Nat) (kills : Nat → List Nat) (heads : List AHead) :
    (guardHeads build kills heads).2.length ≤ (heads.filter fun h => (build h).isSome).length := by
  have := failInvalid_errs_le build kills heads [] []
  simpa [guardHeads] using this

/-- non-vacuity (kernel-evaluated): the faulty flow 1 (invalid action event, class 7) with its child flow 2, and the bystander flow 3 —
    the bystander's head survives in place, one report is queued, the faulty flow's and its child's heads are gone -/
example : guardHeads (fun h => if h.flow = 1 then some 7 else none) (fun f => if f = 1 then [1, 2] else [f]) [⟨10, 3⟩, ⟨11, 1⟩, ⟨12, 2⟩, ⟨13, 3⟩]
    = ([⟨10, 3⟩, ⟨13, 3⟩], [7]) := by decide

example : ∀ f, f ∈ (fun f => if f = 1 then [1, 2] else [f]) f := by
  intro f; by_cases h : f = 1 <;> simp [h]

/-- the hypothesis of `guardHeads_bystander_kept` holds of the bystander above -/
example : ∀ g ∈ [(⟨10, 3⟩ : AHead), ⟨11, 1⟩, ⟨12, 2⟩, ⟨13, 3⟩], (fun h : AHead => if h.flow = 1 then some 7 else none) g ≠ none →
    (3 : Nat) ∉ (fun f => if f = 1 then [1, 2] else [f]) g.flow := by decide

end NemoVerif.C10.Convert
