/-
  C15 — conversations served by one LLMRails instance do not influence each other.
  Property theorems only (helper lemmas live in Lemmas/Isolation.lean).

  Setting of part 1: `runT key conv turn C s` serves the schedule `s : List (conversation id × request)`
  sequentially on one instance whose `events_history_cache` is `C`; a step records the request, the
  events handed to the runtime, the reply and the new events.  `ofConv c` selects the turns of
  conversation `c`.  "Replayed alone on a fresh instance" is `runT key conv turn [] (ofConv c s)`.
  `key`, the message→event conversion `conv` and the turn function `turn` (runtime + LLM, a deterministic
  function of the events it is handed) are universally quantified.
-/
import NemoVerif.Lemmas.Isolation
import NemoVerif.Lemmas.IsolationConvert
import NemoVerif.Lemmas.IsolationRepaired
namespace NemoVerif.C15
open NemoVerif.Isolation

section Cache
variable {K : Type} [DecidableEq K] {Ev : Type}

/-- the isolated replays of all conversations of a schedule -/
def isoRuns (key : List Msg → K) (conv : List Msg → List Ev) (turn : List Ev → Msg × List Ev)
    (s : List (Nat × List Msg)) : Nat → List (Nat × Step Ev) :=
  fun c => runT key conv turn [] (ofConv c s)

/-- Main theorem.  If the cache key is injective then, for every set of conversations, every
    sequential interleaving `s` of their turns on a shared instance and every conversation `c`:
    each turn of `c` is handed the same events, gets the same reply and produces the same new events
    as when `c` is replayed alone on a fresh instance.
    `Compatible` only speaks about conversations whose *genuine* message histories coincide (a stored
    history of one is a proper prefix of a request of the other): such conversations must have stored the
    same events for it; it is vacuous for conversations with different messages (`isolated_if_disjoint`). -/
theorem isolated_if_injective (key : List Msg → K) (hinj : ∀ a b, key a = key b → a = b)
    (conv : List Msg → List Ev) (turn : List Ev → Msg × List Ev) (s : List (Nat × List Msg))
    (hc : Compatible (isoRuns key conv turn s)) (c : Nat) :
    ofConv c (runT key conv turn [] s) = runT key conv turn [] (ofConv c s) := by
  have := isolation_general key conv turn (isoRuns key conv turn s)
    (fun _ _ _ _ _ _ _ _ _ h => hinj _ _ h) hc s [] (fun c => by simp [isoRuns, ofConv, cacheOf]) c
  simpa [cacheOf, ofConv] using this

/-- no history stored by one conversation (in its isolated replay) is a proper prefix of a request of another -/
def Disjoint (L : Nat → List (Nat × Step Ev)) : Prop :=
  ∀ c c', c' ≠ c → ∀ x' ∈ L c', ∀ x ∈ L c, ¬ ProperPrefix x'.2.hist x.2.req

theorem compatible_of_disjoint (L : Nat → List (Nat × Step Ev)) (h : Disjoint L) : Compatible L := by
  intro c c' hne x' hx' pre x post hdec hp
  exact absurd hp (h c c' hne x' hx' x (by rw [hdec]; simp))

/-- Conversations with different message histories: injective key ⇒ isolation, for all interleavings. -/
theorem isolated_if_disjoint (key : List Msg → K) (hinj : ∀ a b, key a = key b → a = b)
    (conv : List Msg → List Ev) (turn : List Ev → Msg × List Ev) (s : List (Nat × List Msg))
    (hd : Disjoint (isoRuns key conv turn s)) (c : Nat) :
    ofConv c (runT key conv turn [] s) = runT key conv turn [] (ofConv c s) :=
  isolated_if_injective key hinj conv turn s (compatible_of_disjoint _ hd) c

/-- The statement that holds for ANY key function (in particular the lossy one of the current source):
    isolation, provided the key does not confuse a stored history with a different looked-up prefix
    among the conversations at hand (`InjOn` — the explicit hypothesis that excludes exactly the region
    of the open finding `history-cache-key-collision`).
    Full statement (false for `cacheKeyAsIs`, see `as_is_counterexample`): the same without `hinj`. -/
theorem isolated_partial (key : List Msg → K)
    (conv : List Msg → List Ev) (turn : List Ev → Msg × List Ev) (s : List (Nat × List Msg))
    (hinj : InjOn key (isoRuns key conv turn s))
    (hc : Compatible (isoRuns key conv turn s)) (c : Nat) :
    ofConv c (runT key conv turn [] s) = runT key conv turn [] (ofConv c s) := by
  have := isolation_general key conv turn (isoRuns key conv turn s) hinj hc s []
    (fun c => by simp [isoRuns, ofConv, cacheOf]) c
  simpa [cacheOf, ofConv] using this

/-- Turn-by-turn clients (every request = previous request + previous reply + one new message, starting with
    a single message — the way chat front-ends and the server's thread store use the API), any number of
    them, with arbitrary texts — identical conversations included ("hi" / "hi"): injective key ⇒ every
    interleaving gives every conversation exactly its isolated replay.  `Compatible` is derived, not assumed:
    in a turn-by-turn conversation the stored events are a function of the message history. -/
theorem isolated_turn_by_turn (key : List Msg → K) (hinj : ∀ a b, key a = key b → a = b)
    (conv : List Msg → List Ev) (turn : List Ev → Msg × List Ev) (s : List (Nat × List Msg))
    (htt : TurnByTurn (isoRuns key conv turn s)) (c : Nat) :
    ofConv c (runT key conv turn [] s) = runT key conv turn [] (ofConv c s) :=
  isolated_if_injective key hinj conv turn s (compatible_of_turn_by_turn key conv turn s htt) c

end Cache

/-- `_get_events_for_messages` continues from the longest proper prefix of the request that has a cache entry,
    and converts exactly the remaining messages (declarative specification of `eventsFor`). -/
theorem eventsFor_longest_prefix {K : Type} [DecidableEq K] {Ev : Type} (key : List Msg → K)
    (conv : List Msg → List Ev) (C : Cache K Ev) (msgs : List Msg) :
    ∃ p ev, eventsFor key conv C msgs = ev ++ conv (msgs.drop p) ∧ p ≤ msgs.length - 1 ∧
      (p = 0 → ev = []) ∧ (0 < p → find (key (msgs.take p)) C = some ev) ∧
      (∀ q, p < q → q < msgs.length → find (key (msgs.take q)) C = none) := by
  obtain ⟨h1, h2, h3, h4⟩ := lookupLongest_spec key C msgs (msgs.length - 1)
  exact ⟨_, _, rfl, h1, h2, h3, fun q a b => h4 q a (by omega)⟩

/-! ### requests with generation options / with an explicit state object -/

/-- `generate_async(options=…)`: the options travel as a leading `context` message (text = `json.dumps` of the
    options); everything else is the same request path -/
def withOptions (opt : Option Str) (msgs : List Msg) : List Msg :=
  match opt with
  | some o => ⟨rContext, o⟩ :: msgs
  | none => msgs

/-- Isolation for requests WITH generation options: the schedule of effective requests is a schedule like any
    other (instance of `isolated_if_injective`: the theorem quantifies over all requests). -/
theorem isolated_with_options {K : Type} [DecidableEq K] {Ev : Type} (key : List Msg → K)
    (hinj : ∀ a b, key a = key b → a = b) (conv : List Msg → List Ev) (turn : List Ev → Msg × List Ev)
    (s : List (Nat × Option Str × List Msg))
    (hc : Compatible (isoRuns key conv turn (s.map fun x => (x.1, withOptions x.2.1 x.2.2)))) (c : Nat) :
    ofConv c (runT key conv turn [] (s.map fun x => (x.1, withOptions x.2.1 x.2.2)))
      = runT key conv turn [] ((ofConv c s).map fun x => (x.1, withOptions x.2.1 x.2.2)) := by
  have h := isolated_if_injective key hinj conv turn (s.map fun x => (x.1, withOptions x.2.1 x.2.2)) hc c
  have e : ofConv c (s.map fun x => (x.1, withOptions x.2.1 x.2.2))
      = (ofConv c s).map fun x => (x.1, withOptions x.2.1 x.2.2) := by
    simp only [ofConv, List.filter_map]; rfl
  rw [← e]; exact h

/-- With the lookup guarded by `state is None` a request that carries a state object is handed events that do not
    depend on the implicit cache at all, i.e. on no other conversation served by the instance (and such a request
    never writes the cache: `if state is None` around the write, located by the static tie). -/
theorem state_request_independent_of_cache {K : Type} [DecidableEq K] {Ev : Type} (key : List Msg → K)
    (conv : List Msg → List Ev) (C C' : Cache K Ev) (stateEv : List Ev) (msgs : List Msg) :
    eventsForState true key conv C stateEv msgs = eventsForState true key conv C' stateEv msgs := rfl

/-- As the code is, the lookup ignores `state`: a request with a state object whose messages extend a history
    stored for another conversation is continued from THAT conversation's events (finite fact, `decide`). -/
theorem state_request_as_is_counterexample :
    eventsForState false (fun m => m) convTailC
        [([⟨rUser, ['a']⟩, ⟨rAssistant, ['b']⟩], [CEv.opaque 1])] []
        [⟨rUser, ['a']⟩, ⟨rAssistant, ['b']⟩, ⟨rUser, ['x']⟩]
      ≠ eventsForState false (fun m => m) convTailC [] []
        [⟨rUser, ['a']⟩, ⟨rAssistant, ['b']⟩, ⟨rUser, ['x']⟩] := by
  decide

/-! ### the conversion of the current source (`convTailC`): declarative specification

  Every tail falls in exactly one of three classes: it contains no user/assistant message at all, its last
  user/assistant message is a user message (the new turn), or it is an assistant message (already answered). -/

/-- The new turn: the last user message that is only followed by messages that are neither user nor assistant
    messages gets no `UserMessage` and its `UtteranceUserActionFinished` is the LAST event of the request —
    whatever follows it (a trailing context/system/event message does not make it an already processed turn). -/
theorem convTailC_new_turn (pre post : List Msg) (u : Msg) (hu : u.role = rUser) (hpost : ∀ m ∈ post, Neutral m) :
    convTailC (pre ++ u :: post)
      = pre.flatMap (convC false) ++ post.flatMap (convC false) ++ [.userFinished u.text] := by
  unfold convTailC
  rw [convertTail_new_turn convC newTurnC pre post u hu hpost]
  simp [convC, hu, newTurnC]

/-- A tail whose last user/assistant message is an assistant message has no new turn: every message is converted
    as an already processed one. -/
theorem convTailC_answered (pre post : List Msg) (a : Msg) (ha : a.role = rAssistant) (hpost : ∀ m ∈ post, Neutral m) :
    convTailC (pre ++ a :: post) = (pre ++ a :: post).flatMap (convC false) :=
  convertTail_no_new_turn convC newTurnC _ (newTurnIdx_assistant pre post a ha hpost)

/-- A tail without user and assistant messages has no new turn. -/
theorem convTailC_neutral (l : List Msg) (hl : ∀ m ∈ l, Neutral m) : convTailC l = l.flatMap (convC false) :=
  convertTail_no_new_turn convC newTurnC _ (newTurnIdx_neutral l hl)

/-- the witness of the repaired defect (C01, /repo 46a7ec9): `[user "hi", context {}]` -/
example : convTailC [⟨rUser, ['h', 'i']⟩, ⟨rContext, ['{', '}']⟩]
    = [.contextUpdate ['{', '}'], .userFinished ['h', 'i']] := by decide

example : convTailC [⟨rUser, ['a']⟩, ⟨rAssistant, ['b']⟩, ⟨rUser, ['c']⟩, ⟨rUser, ['d']⟩, ⟨rEvent, ['e']⟩]
    = [.userFinished ['a'], .userMessage ['a'], .startBot ['b'], .botFinished ['b'],
       .userFinished ['c'], .userMessage ['c'], .raw ['e'], .userFinished ['d']] := by decide

/-- The proposed key (`len(role):role len(text):text` per message, every role) is injective on all
    message lists over all strings. -/
theorem key_injective : ∀ a b : List Msg, cacheKeyLP a = cacheKeyLP b → a = b :=
  cacheKeyLP_injective

/-- … hence isolation with the proposed key (instance of `isolated_if_injective`). -/
theorem isolated_with_proposed_key {Ev : Type}
    (conv : List Msg → List Ev) (turn : List Ev → Msg × List Ev) (s : List (Nat × List Msg))
    (hc : Compatible (isoRuns cacheKeyLP conv turn s)) (c : Nat) :
    ofConv c (runT cacheKeyLP conv turn [] s) = runT cacheKeyLP conv turn [] (ofConv c s) :=
  isolated_if_injective cacheKeyLP key_injective conv turn s hc c

/-! ### the key of the current source is not injective (kernel-checked witnesses, finite facts) -/

def u (t : Str) : Msg := ⟨rUser, t⟩
def a (t : Str) : Msg := ⟨rAssistant, t⟩

/-- roles are not part of the key -/
theorem join_not_injective_roles :
    cacheKeyAsIs [u ['a'], a ['b']] = cacheKeyAsIs [u ['a'], u ['b']] ∧ [u ['a'], a ['b']] ≠ [u ['a'], u ['b']] := by
  decide

/-- the separator is not escaped -/
theorem join_not_injective_separator :
    cacheKeyAsIs [u ['a'], a ['b']] = cacheKeyAsIs [u ['a', ':', 'b']] ∧ [u ['a'], a ['b']] ≠ [u ['a', ':', 'b']] := by
  decide

/-- messages of any other role (e.g. the `exception` reply) vanish from the key -/
theorem join_not_injective_dropped_role :
    cacheKeyAsIs [u ['a'], ⟨['e', 'x', 'c', 'e', 'p', 't', 'i', 'o', 'n'], ['x']⟩] = cacheKeyAsIs [u ['a']] := by
  decide

theorem join_not_injective : ¬ (∀ x y : List Msg, cacheKeyAsIs x = cacheKeyAsIs y → x = y) := by
  intro h
  exact join_not_injective_separator.2 (h _ _ join_not_injective_separator.1)

/-! ### as-is counterexample at the level of the service (finite fact, `decide`) -/

/-- turn function of the witness: always answers "b" and produces one runtime event -/
def turnW : List CEv → Msg × List CEv := fun _ => (a ['b'], [.opaque 0])

/-- conversation 0 says "a"; afterwards conversation 1 sends the two user messages "a:b", "x" -/
def schedW : List (Nat × List Msg) := [(0, [u ['a']]), (1, [u ['a', ':', 'b'], u ['x']])]

def stepEvents (l : List (Nat × Step CEv)) : List (List CEv) := l.map (·.2.events)

/-- With the key of the current source, conversation 1 is continued from conversation 0's cached
    events on the shared instance, but not when replayed alone. -/
theorem as_is_counterexample :
    stepEvents (ofConv 1 (runT cacheKeyAsIs convTailC turnW [] schedW))
      = [[.userFinished ['a'], .opaque 0, .userFinished ['x']]] ∧
    stepEvents (runT cacheKeyAsIs convTailC turnW [] (ofConv 1 schedW))
      = [[.userFinished ['a', ':', 'b'], .userMessage ['a', ':', 'b'], .userFinished ['x']]] := by
  decide

/-- the same schedule with the stand-in injective key `id` behaves like the isolated replay (sanity
    test of the model on the witness; the general fact is `isolated_if_injective`) -/
example :
    stepEvents (ofConv 1 (runT (fun m => m) convTailC turnW [] schedW))
      = stepEvents (runT (fun m => m) convTailC turnW [] (ofConv 1 schedW)) := by
  decide

/-- sanity / non-vacuity of `isolated_with_options` on a schedule with and without options (stand-in injective key) -/
example :
    let s : List (Nat × Option Str × List Msg) :=
      [(0, some ['o'], [u ['a']]), (1, none, [u ['a', ':', 'b'], u ['x']]), (0, some ['o'], [u ['a'], a ['b'], u ['y']])]
    stepEvents (ofConv 0 (runT (fun m => m) convTailC turnW [] (s.map fun x => (x.1, withOptions x.2.1 x.2.2))))
      = stepEvents (runT (fun m => m) convTailC turnW [] ((ofConv 0 s).map fun x => (x.1, withOptions x.2.1 x.2.2))) := by
  decide

/-- `Compatible` cannot be dropped even for an injective key (here: the identity): conversation 1 sends
    as an explicit transcript exactly the history that conversation 0 produced turn by turn; on the shared
    instance it is continued from conversation 0's stored events (which include runtime events), alone it
    is converted message by message.  (Open finding `same-history-other-conversation`: the cache is keyed by
    the message history only, not by the conversation.) -/
theorem compatible_needed_counterexample :
    let s : List (Nat × List Msg) := [(0, [u ['a']]), (1, [u ['a'], a ['b'], u ['x']])]
    stepEvents (ofConv 1 (runT (fun m => m) convTailC turnW [] s))
      = [[.userFinished ['a'], .opaque 0, .userFinished ['x']]] ∧
    stepEvents (runT (fun m => m) convTailC turnW [] (ofConv 1 s))
      = [[.userFinished ['a'], .userMessage ['a'], .startBot ['b'], .botFinished ['b'], .userFinished ['x']]] := by
  decide

/-- non-vacuity of `isolated_if_disjoint`: the two conversations of the witness are `Disjoint`
    (their genuine histories are unrelated) under an injective key -/
example : Disjoint (isoRuns (fun m : List Msg => m) convTailC turnW schedW) := by
  intro c c' hne x' hx' x hx hp
  obtain ⟨p, hp0, hp1, hp2⟩ := hp
  by_cases h0 : c = 0
  · subst h0
    simp [isoRuns, ofConv, schedW, runT, serveStep] at hx
    subst hx
    simp at hp1
    omega
  · by_cases h1 : c = 1
    · subst h1
      by_cases h0' : c' = 0
      · subst h0'
        simp [isoRuns, ofConv, schedW, runT, serveStep] at hx hx'
        subst hx hx'
        simp at hp1
        have : p = 1 := by omega
        subst this
        simp [Step.hist, u] at hp2
      · have e0 : ¬ (0 = c') := fun e => h0' e.symm
        have e1 : ¬ (1 = c') := fun e => hne e.symm
        simp [isoRuns, ofConv, schedW, runT, e0, e1] at hx'
    · have e0 : ¬ (0 = c) := fun e => h0 e.symm
      have e1 : ¬ (1 = c) := fun e => h1 e.symm
      simp [isoRuns, ofConv, schedW, runT, e0, e1] at hx

/-- non-vacuity: two identical turn-by-turn conversations of two turns (with the witness turn function) -/
example : TurnByTurn (isoRuns (fun m : List Msg => m) convTailC turnW
    [(0, [u ['a']]), (1, [u ['a']]), (1, [u ['a'], a ['b'], u ['x']]), (0, [u ['a'], a ['b'], u ['x']])]) := by
  intro c
  by_cases h0 : c = 0
  · subst h0
    simp [isoRuns, ofConv, runT, serveStep, ChainedFrom, Step.hist, turnW]
  · by_cases h1 : c = 1
    · subst h1
      simp [isoRuns, ofConv, runT, serveStep, ChainedFrom, Step.hist, turnW]
    · have e0 : ¬ (0 = c) := fun e => h0 e.symm
      have e1 : ¬ (1 = c) := fun e => h1 e.symm
      simp [isoRuns, ofConv, runT, ChainedFrom, e0, e1]

/-- The safe region of the key of the CURRENT source, stated positively: turn-by-turn conversations whose
    histories alternate user / assistant and never contain ':' (neither in user texts nor in bot replies) are
    isolated on a shared instance, for all interleavings — instance of `isolated_partial`. Everything outside
    (a ':' in any text, two user messages in a row, context / event / exception messages) is the region of
    the open finding `history-cache-key-collision`. -/
theorem as_is_isolated_clean {Ev : Type} (conv : List Msg → List Ev) (turn : List Ev → Msg × List Ev)
    (s : List (Nat × List Msg))
    (hclean : CleanRun (isoRuns cacheKeyAsIs conv turn s))
    (htt : TurnByTurn (isoRuns cacheKeyAsIs conv turn s)) (c : Nat) :
    ofConv c (runT cacheKeyAsIs conv turn [] s) = runT cacheKeyAsIs conv turn [] (ofConv c s) :=
  isolated_partial cacheKeyAsIs conv turn s (injOn_of_clean _ hclean)
    (compatible_of_turn_by_turn cacheKeyAsIs conv turn s htt) c

/-- non-vacuity of `as_is_isolated_clean`: two identical turn-by-turn conversations, separator-free -/
example : CleanRun (isoRuns cacheKeyAsIs convTailC turnW
    [(0, [u ['a']]), (1, [u ['a']]), (1, [u ['a'], a ['b'], u ['x']]), (0, [u ['a'], a ['b'], u ['x']])]) ∧
    TurnByTurn (isoRuns cacheKeyAsIs convTailC turnW
    [(0, [u ['a']]), (1, [u ['a']]), (1, [u ['a'], a ['b'], u ['x']]), (0, [u ['a'], a ['b'], u ['x']])]) := by
  constructor
  · intro c x hx
    by_cases h0 : c = 0
    · subst h0
      simp [isoRuns, ofConv, runT, serveStep, turnW] at hx
      rcases hx with rfl | rfl <;> simp [altFrom, Step.hist, u, a, rUser, rAssistant]
    · by_cases h1 : c = 1
      · subst h1
        simp [isoRuns, ofConv, runT, serveStep, turnW] at hx
        rcases hx with rfl | rfl <;> simp [altFrom, Step.hist, u, a, rUser, rAssistant]
      · have e0 : ¬ (0 = c) := fun e => h0 e.symm
        have e1 : ¬ (1 = c) := fun e => h1 e.symm
        simp [isoRuns, ofConv, runT, e0, e1] at hx
  · intro c
    by_cases h0 : c = 0
    · subst h0
      simp [isoRuns, ofConv, runT, serveStep, ChainedFrom, Step.hist, turnW]
    · by_cases h1 : c = 1
      · subst h1
        simp [isoRuns, ofConv, runT, serveStep, ChainedFrom, Step.hist, turnW]
      · have e0 : ¬ (0 = c) := fun e => h0 e.symm
        have e1 : ¬ (1 = c) := fun e => h1 e.symm
        simp [isoRuns, ofConv, runT, ChainedFrom, e0, e1]
/-! ## LLM parameters -/

open Params

/-- For every schedule whose critical sections are disjoint or properly nested with every call made
    while its own section is innermost (in particular: sequential service), every LLM call sees exactly
    the parameter values its own task set, and when no section is open the store is the configured one. -/
theorem params_nested_ok {V : Type} (tasks : Nat → List (Nat × V))
    (hnd : ∀ t, ((tasks t).map (·.1)).Nodup) (σ0 : Nat → V) (sched : List (Nat × Act))
    (h : nestedOK [] sched = true) :
    (∀ n, (runSched tasks (init σ0) sched).store n = σ0 n) ∧
    (∀ c ∈ (runSched tasks (init σ0) sched).calls, c.2 = tasks c.1) :=
  nested_general tasks hnd σ0 sched [] (init σ0) (fun _ => rfl) trivial (by simp [init]) h

/-- sequential service: each task runs `enter; call; exit` without interruption -/
def seqSched : List Nat → List (Nat × Act)
  | [] => []
  | t :: r => (t, .enter) :: (t, .call) :: (t, .exit) :: seqSched r

theorem seqSched_nested : ∀ ts, nestedOK [] (seqSched ts) = true := by
  intro ts
  induction ts with
  | nil => rfl
  | cons t r ih => simp [seqSched, nestedOK, ih]

theorem params_sequential_ok {V : Type} (tasks : Nat → List (Nat × V))
    (hnd : ∀ t, ((tasks t).map (·.1)).Nodup) (σ0 : Nat → V) (ts : List Nat) :
    (∀ n, (runSched tasks (init σ0) (seqSched ts)).store n = σ0 n) ∧
    (∀ c ∈ (runSched tasks (init σ0) (seqSched ts)).calls, c.2 = tasks c.1) :=
  params_nested_ok tasks hnd σ0 (seqSched ts) (seqSched_nested ts)

/-- non-vacuity: a nested, non-sequential schedule satisfies the hypothesis -/
example : nestedOK [] [(0, .enter), (1, .enter), (1, .call), (1, .exit), (0, .call), (0, .exit)] = true := by decide

/-- tasks of the witness: both set parameter 0 (say `temperature`), task 0 to 1, task 1 to 2; configured 7 -/
def tasksW : Nat → List (Nat × Nat) := fun t => if t = 0 then [(0, 1)] else [(0, 2)]

/-- Overlapping sections (enter A, enter B, exit A, call B, exit B): B's call runs with the configured
    value instead of its own, and afterwards — no request in flight — the shared LLM keeps A's value.
    Full statement (false, this is its counterexample): `params_nested_ok` without the hypothesis `h`. -/
theorem params_overlap_counterexample :
    let fin := runSched tasksW (init fun _ => 7) [(0, .enter), (1, .enter), (0, .exit), (1, .call), (1, .exit)]
    fin.calls = [(1, [(0, 7)])] ∧ fin.store 0 = 1 := by
  decide

/-- the 4-step witness of DESIGN §6: enter A, enter B, exit A, exit B leaves A's altered value behind -/
theorem params_overlap_counterexample4 :
    (runSched tasksW (init fun _ => 7) [(0, .enter), (1, .enter), (0, .exit), (1, .exit)]).store 0 = 1 := by
  decide

/-- `__enter__`/`__exit__` as they are: a parameter that is neither an attribute nor a key of
    `model_kwargs` is added to `model_kwargs` and "restored" to `None` instead of being removed. -/
theorem absent_param_not_restored :
    let σ0 : Store := { attr := fun _ => none, kw := some (fun _ => none) }
    let r := enter [(0, some 5)] σ0
    (exit r.2 r.1).get 0 = some none ∧ σ0.get 0 = none := by
  decide

/-- … while a parameter that exists (attribute or `model_kwargs` key) is restored exactly by one
    uninterrupted enter/exit pair (finite sanity fact tying the concrete functions to the abstract system) -/
example :
    let σ0 : Store := { attr := fun n => if n = 0 then some (some 7) else none, kw := some (fun n => if n = 1 then some (some 3) else none) }
    let r := enter [(0, some 5), (1, none)] σ0
    (r.1.get 0, r.1.get 1, (exit r.2 r.1).get 0, (exit r.2 r.1).get 1) = (some (some 5), some none, some (some 7), some (some 3)) := by
  decide

/-- Refinement: as long as every altered parameter exists on the LLM object (as an attribute or a key of
    `model_kwargs`), the mirrored `LLMParams.__enter__/__exit__` working on one shared object behave, for
    every schedule, exactly like the abstract save/set/restore system (values seen by calls, values a call
    would see afterwards, saved originals). -/
theorem concrete_refines_abstract (tasks : Nat → List (Nat × PVal)) (σ0 : Store)
    (hp : ∀ t, ∀ p ∈ tasks t, Present σ0 p.1) (sched : List (Nat × Act)) :
    (∀ m, absStore (runSchedC tasks (initC σ0) sched).store m = (runSched tasks (init (absStore σ0)) sched).store m) ∧
    (runSchedC tasks (initC σ0) sched).calls = (runSched tasks (init (absStore σ0)) sched).calls := by
  have h := runSchedC_refines tasks σ0 hp sched (initC σ0) (init (absStore σ0))
    ⟨fun _ => rfl, fun _ => rfl, rfl, fun _ => Iff.rfl, fun _ _ hq => by simp [init] at hq⟩
  exact ⟨h.store, h.calls⟩

/-- The statement about the mirrored code itself: for every schedule with disjoint or properly nested
    sections, every LLM call runs with exactly the values its own `llm_params(...)` set, and when no section
    is open every parameter of the shared LLM object has its configured value again. -/
theorem params_nested_ok_concrete (tasks : Nat → List (Nat × PVal)) (σ0 : Store)
    (hnd : ∀ t, ((tasks t).map (·.1)).Nodup) (hp : ∀ t, ∀ p ∈ tasks t, Present σ0 p.1)
    (sched : List (Nat × Act)) (h : nestedOK [] sched = true) :
    (∀ n, absStore (runSchedC tasks (initC σ0) sched).store n = absStore σ0 n) ∧
    (∀ c ∈ (runSchedC tasks (initC σ0) sched).calls, c.2 = tasks c.1) := by
  obtain ⟨r1, r2⟩ := concrete_refines_abstract tasks σ0 hp sched
  obtain ⟨a1, a2⟩ := params_nested_ok tasks hnd (absStore σ0) sched h
  exact ⟨fun n => (r1 n).trans (a1 n), fun c hc => a2 c (r2 ▸ hc)⟩


/-! ## the repaired `LLMParams` (fixes/C15-llm-params-overlap.diff): full strength, every interleaving

  `ParamsR.runR M (initR cfg) sched`: the labelled transition system of Models/IsolationRepaired.lean — the atomic
  sections of `LLMParams.__enter__` / `__exit__` / `llm_for_call` of any number of managers of any number of tasks
  on ONE shared LLM object, in ANY order (`sched` is an arbitrary list of labels; a label that the code cannot
  perform in a state — enter of an open section, call/exit of a closed one — is a no-op).  The only hypothesis is
  that `altered_params` is a dict (distinct parameter names). -/

namespace Repaired
open ParamsR

variable {V : Type}

/-- **Whenever no request is in flight, the LLM object's parameters are the configured ones** — for every schedule
    (every interleaving of critical sections: disjoint, nested, overlapping in any order), in the final state and,
    since every prefix of a schedule is a schedule, in every intermediate state in which no section is open. -/
theorem params_always_configured_when_idle (M : Mgrs V) (hdict : ∀ m, ((M.alt m).map (·.1)).Nodup)
    (cfg : Nat → V) (sched : List (Nat × Act)) (hidle : (runR M (initR cfg) sched).opn = []) :
    (runR M (initR cfg) sched).store = cfg :=
  idle_configured M cfg _ (invR_run M hdict cfg sched _ (invR_init M cfg)) hidle

/-- … stated for every intermediate state explicitly -/
theorem params_configured_at_every_idle_point (M : Mgrs V) (hdict : ∀ m, ((M.alt m).map (·.1)).Nodup)
    (cfg : Nat → V) (sched : List (Nat × Act)) (n : Nat) (hidle : (runR M (initR cfg) (sched.take n)).opn = []) :
    (runR M (initR cfg) (sched.take n)).store = cfg :=
  params_always_configured_when_idle M hdict cfg _ hidle

/-- Every LLM call runs with the configured values overridden by open sections of its OWN task only — all
    parameters, not only those the task sets; no value of another task ever reaches it. -/
theorem calls_run_with_own_params (M : Mgrs V) (hdict : ∀ m, ((M.alt m).map (·.1)).Nodup)
    (cfg : Nat → V) (sched : List (Nat × Act)) :
    ∀ c ∈ (runR M (initR cfg) sched).calls,
      ∃ secs, (∀ s ∈ secs, M.owner s = M.owner c.1) ∧ c.2 = applied M cfg secs := by
  suffices h : ∀ (sched : List (Nat × Act)) (st : ParamsR.Sys V), InvR M cfg st →
      (∀ c ∈ st.calls, ∃ secs, (∀ s ∈ secs, M.owner s = M.owner c.1) ∧ c.2 = applied M cfg secs) →
      ∀ c ∈ (runR M st sched).calls, ∃ secs, (∀ s ∈ secs, M.owner s = M.owner c.1) ∧ c.2 = applied M cfg secs by
    exact h sched _ (invR_init M cfg) (by simp [initR])
  intro sched
  induction sched with
  | nil => intro st _ h; exact h
  | cons l sched ih =>
    intro st hi h
    apply ih _ (invR_step M hdict cfg st l hi)
    obtain ⟨m, a⟩ := l
    rw [stepR_calls]
    cases a with
    | enter => exact h
    | exit => exact h
    | call =>
      simp only
      split
      · intro c hc
        simp only [List.mem_append, List.mem_singleton] at hc
        rcases hc with hc | rfl
        · exact h c hc
        · exact ⟨_, fun s hs => by simpa using (List.mem_filter.1 hs).2, viewR_eq M hdict cfg st m hi⟩
      · exact h

/-- **The parameters the LLM calls of a task run with do not depend on the schedule**: in every interleaving with
    the steps of any other tasks, the calls of task `t` (in order, with all their parameter values) are exactly those
    of `t` running alone on a fresh object. -/
theorem replies_independent_of_schedule (M : Mgrs V) (hdict : ∀ m, ((M.alt m).map (·.1)).Nodup)
    (cfg : Nat → V) (sched : List (Nat × Act)) (t : Nat) :
    callsOf M t (runR M (initR cfg) sched).calls = (runR M (initR cfg) (ofTask M t sched)).calls := by
  have h := sim_run M hdict cfg t sched (initR cfg) (initR cfg)
    ⟨invR_init M cfg, invR_init M cfg, rfl, rfl⟩
  exact h.calls_eq.symm

/-- … hence two schedules that agree on the steps of task `t` give `t` the same calls -/
theorem calls_equal_of_same_projection (M : Mgrs V) (hdict : ∀ m, ((M.alt m).map (·.1)).Nodup)
    (cfg : Nat → V) (s1 s2 : List (Nat × Act)) (t : Nat) (h : ofTask M t s1 = ofTask M t s2) :
    callsOf M t (runR M (initR cfg) s1).calls = callsOf M t (runR M (initR cfg) s2).calls := by
  rw [replies_independent_of_schedule M hdict, replies_independent_of_schedule M hdict, h]

/-- non-vacuity: two tasks (managers 0 and 1 set parameter 0; 2 and 3 are the parameterless sections that mark
    their LLM calls as in flight), the overlapping schedule of `params_overlap_counterexample` -/
def Mex : Mgrs Int :=
  { owner := fun m => m % 2, alt := fun m => if m = 0 then [(0, 10)] else if m = 1 then [(0, 11)] else [] }

example : ∀ m, ((Mex.alt m).map (·.1)).Nodup := by
  intro m; unfold Mex; simp only; split
  · decide
  · split <;> decide

def schedEx : List (Nat × Act) :=
  [(0, .enter), (1, .enter), (2, .enter), (2, .call), (3, .enter), (3, .call), (2, .exit), (0, .exit),
   (3, .exit), (1, .exit)]

/-- on the overlapping schedule both calls see their own value and the idle object is the configured one
    (kernel-checked on the model; the same schedule on the real code is a corpus case) -/
example : ((runR Mex (initR fun _ => 7) schedEx).calls.map fun c => (c.1, c.2 0)) = [(2, 10), (3, 11)]
    ∧ (runR Mex (initR fun _ => 7) schedEx).store 0 = 7 ∧ (runR Mex (initR fun _ => 7) schedEx).opn = [] := by
  decide

end Repaired

/-! ## context variables -/

open Ctx

/-- Per-task context copies never interfere: for every interleaving of `set`/`get` operations of any
    number of tasks, what task `t` reads is what it reads when its operations run alone. -/
theorem contextvars_isolated {V : Type} (c0 : Nat → V) (ops : List (Nat × Op V)) (t : Nat) :
    (runCtx (fun _ => c0) [] ops).2.filter (fun e => e.1 = t)
      = (runCtx (fun _ => c0) [] (ops.filter fun o => o.1 = t)).2 :=
  runCtx_frame t ops _ _ [] [] rfl rfl

/-! ### requests awaited one after the other in ONE task, and tasks spawned from it -/

/-- A per-request context variable that the prologue of `generate_async` sets UNCONDITIONALLY before any
    read: for every program of one task — any sequence of requests awaited in it, with tasks spawned at any
    point (recursively) — and every initial context, every read made inside a request returns that request's
    own value (never a value left behind by an earlier request of the same task or of the spawning task). -/
theorem request_sets_its_own_options {V : Type} (p : Prog V) : ∀ (w : V),
    ∀ e ∈ runProg prologueSet w p, e.2.2 = e.2.1 := by
  induction p with
  | done => intro w e he; simp [runProg] at he
  | req id own n rest ih =>
    intro w e he
    simp only [runProg, List.mem_append, List.mem_replicate] at he
    rcases he with ⟨_, rfl⟩ | he
    · rfl
    · exact ih _ e he
  | spawn child rest ih1 ih2 =>
    intro w e he
    simp only [runProg, List.mem_append] at he
    rcases he with he | he
    · exact ih1 w e he
    · exact ih2 w e he

/-- … and more generally for any prologue after which the variable holds the request's own value -/
theorem request_reads_own_of_prologue {V : Type} (prologue : V → V → V) (h : ∀ own w, prologue own w = own)
    (p : Prog V) : ∀ (w : V), ∀ e ∈ runProg prologue w p, e.2.2 = e.2.1 := by
  have : prologue = prologueSet := by funext own w; exact h own w
  rw [this]; exact request_sets_its_own_options p

/-- Counterexample for a conditional prologue (`if options: var.set(options)`): request 0 carries options 9,
    request 1 (no options) awaited afterwards in the same task reads 9; so does request 2 in a task spawned
    afterwards. (finite fact, `decide`) -/
theorem conditional_prologue_counterexample :
    runProg prologueIfSome none
      (.req 0 (some 9) 1 (.req 1 none 1 (.spawn (.req 2 none 1 .done) .done)))
      = [(0, some 9, some 9), (1, none, some 9), (2, none, some 9)] := by
  decide

/-- non-vacuity / sanity: the same program with the unconditional prologue -/
example :
    runProg prologueSet (none : Option Nat)
      (.req 0 (some 9) 1 (.req 1 none 1 (.spawn (.req 2 none 1 .done) .done)))
      = [(0, some 9, some 9), (1, none, none), (2, none, none)] := by
  decide

end NemoVerif.C15
