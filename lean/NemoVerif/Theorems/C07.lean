/-
  C07 — and/or groups behave like the boolean formula they spell.
  Property theorems only (helper lemmas: Lemmas/Dnf.lean, Lemmas/GroupExpand.lean).

  `G` = the group the parser hands to `normalize_element_groups` (atoms are indices of events/flows),
  `eval σ g` = the boolean formula the group spells, `normalize` = mirror of the Python function,
  `markers g es` = per received event, whether the element after `match g` is reached while processing it
  (abstraction of the fork/merge/wait head protocol, see Models/Dnf.lean part 2 and design_notes/C07.md).
-/
import NemoVerif.Lemmas.Dnf
import NemoVerif.Lemmas.GroupExpand
import NemoVerif.Lemmas.GroupVM
import NemoVerif.Lemmas.GroupExpandAwait
import NemoVerif.Lemmas.GroupExpandWhen
import NemoVerif.Lemmas.GroupFlowVM
import NemoVerif.Lemmas.GroupCoreVMCompose
import NemoVerif.Lemmas.GroupCoreVMTemplate
import NemoVerif.Lemmas.GroupCoreVMEvent
import NemoVerif.Lemmas.GroupCoreVMPick
import NemoVerif.Lemmas.GroupCoreVMLoop
import NemoVerif.Lemmas.GroupCoreVMRun
import NemoVerif.Lemmas.GroupCoreVMStart
import NemoVerif.Lemmas.GroupCoreVMOrRun
import NemoVerif.Lemmas.GroupCoreVMExit
import NemoVerif.Lemmas.GroupCoreVMOrStart
import NemoVerif.Lemmas.GroupCoreVMMirror
import NemoVerif.Lemmas.GroupCoreVMAdvance
namespace NemoVerif.C07
open NemoVerif NemoVerif.Dnf NemoVerif.GroupExpand NemoVerif.GroupVM

/-! ## `normalize_element_groups` -/

/-- The result is a single `or` group of `and` groups of atoms — for every (arbitrarily nested) group. -/
theorem normalize_is_dnf (g : G) : IsDnf (normalize g) :=
  ⟨dnf g, normalize_eq g⟩

/-- The normalised group, read as clauses, spells the same boolean formula as the source group. -/
theorem normalize_sound (g : G) (σ : Nat → Bool) : evalDnf (toDnf (normalize g)) σ = eval σ g := by
  rw [normalize_eq, toDnf_ofDnf, evalDnf_dnf]

/-- Same statement without going through the clause reading: the group dict returned by `normalize`
    evaluates like the argument. -/
theorem normalize_preserves_eval (g : G) (σ : Nat → Bool) : eval σ (normalize g) = eval σ g := by
  rw [normalize_eq, eval_ofDnf, evalDnf_dnf]

/-- The second expansion pass (`match <and-group>` of an or-branch is normalised again) keeps the clause. -/
theorem normalize_clause_fixed (c : List Nat) : normalize (andOf c) = ofDnf [c] := by
  rw [normalize_eq]
  simp only [andOf, dnf]
  rw [dnfAnd_atoms]
  simp

/-- `normalize` is idempotent up to the clause reading. -/
theorem normalize_normalize (g : G) (σ : Nat → Bool) :
    evalDnf (toDnf (normalize (normalize g))) σ = evalDnf (toDnf (normalize g)) σ := by
  rw [normalize_sound, normalize_preserves_eval, normalize_sound]

/-! ## completion of a match group at run time -/

/-- **group_completes_at_first_sat.**  For every group `g` (any nesting) and every sequence of received
    events `es` (irrelevant events = atoms that do not occur in `g`, repetitions allowed): the marker after
    the group is emitted while processing `es[k]` iff `k` is the least index such that the set of the
    events `es[0..k]` satisfies the formula. -/
theorem group_completes_at_first_sat (g : G) (es : List Nat) (k : Nat) :
    (markers g es)[k]? = some true ↔
      (k < es.length ∧ eval (seen es k) g = true ∧ ∀ j, j < k → eval (seen es j) g = false) := by
  have h := run_spec (toDnf (normalize g)) es [] k
  simp only [List.nil_append] at h
  have hmap : (toDnf (normalize g)).map (remaining []) = toDnf (normalize g) := by
    rw [show remaining [] = id from funext remaining_nil]; simp
  rw [hmap] at h
  have hs : ∀ i, sat (toDnf (normalize g)) (es.take (i + 1)) = eval (seen es i) g := by
    intro i; simp only [sat]; exact normalize_sound g _
  simp only [hs] at h
  exact h

/-- Not before: no marker while the events received so far do not satisfy the formula. -/
theorem marker_never_before (g : G) (es : List Nat) (k : Nat) (h : eval (seen es k) g = false) :
    (markers g es)[k]? ≠ some true := by
  intro hm
  have := ((group_completes_at_first_sat g es k).1 hm).2.1
  rw [h] at this; cases this

/-- Exactly once: the marker is emitted for at most one event of the sequence. -/
theorem marker_at_most_once (g : G) (es : List Nat) (i j : Nat)
    (hi : (markers g es)[i]? = some true) (hj : (markers g es)[j]? = some true) : i = j := by
  obtain ⟨_, hsi, halli⟩ := (group_completes_at_first_sat g es i).1 hi
  obtain ⟨_, hsj, hallj⟩ := (group_completes_at_first_sat g es j).1 hj
  rcases Nat.lt_trichotomy i j with h | h | h
  · have := hallj i h; rw [hsi] at this; cases this
  · exact h
  · have := halli j h; rw [hsj] at this; cases this

/-- More events never un-satisfy a group. -/
theorem eval_mono (g : G) (σ τ : Nat → Bool) (h : ∀ n, σ n = true → τ n = true) (hs : eval σ g = true) :
    eval τ g = true := by
  rw [← evalDnf_dnf] at hs ⊢
  exact evalDnf_mono _ σ τ h hs

/-- Independent of arrival order: whether the group has completed after `es` depends only on the *set*
    of received events — it has iff that set satisfies the formula.  (Hypothesis: the formula is not
    already true of the empty set, i.e. it is not the degenerate `and []`, which the grammar cannot spell.) -/
theorem group_completed_iff_set_sat (g : G) (es : List Nat) (hne : eval (fun _ => false) g = false) :
    (∃ k : Nat, (markers g es)[k]? = some true) ↔ eval (fun n => es.contains n) g = true := by
  constructor
  · rintro ⟨k, hk⟩
    obtain ⟨_, hs, _⟩ := (group_completes_at_first_sat g es k).1 hk
    refine eval_mono g (seen es k) _ ?_ hs
    intro n hn
    simp only [seen, List.contains_eq_mem, decide_eq_true_eq] at hn ⊢
    exact List.mem_of_mem_take hn
  · intro hs
    cases hes : es with
    | nil =>
      subst hes
      have : (fun n => ([] : List Nat).contains n) = fun _ => false := by funext n; simp
      rw [this, hne] at hs; cases hs
    | cons e es' =>
      have hlast : eval (seen es (es.length - 1)) g = true := by
        have : seen es (es.length - 1) = fun n => es.contains n := by
          funext n
          have hl : es.length - 1 + 1 = es.length := by rw [hes]; simp
          simp only [seen, hl, List.take_length]
        rw [this]; exact hs
      obtain ⟨k, hk, hpk, hall⟩ := exists_least (fun i => eval (seen es i) g) (es.length - 1) hlast
      refine ⟨k, ?_⟩
      rw [← hes]
      refine (group_completes_at_first_sat g es k).2 ⟨?_, hpk, hall⟩
      have : 0 < es.length := by rw [hes]; simp
      omega

/-- Two arrival orders of the same set of events: the group completes in one iff it does in the other. -/
theorem order_independent (g : G) (es es' : List Nat) (hne : eval (fun _ => false) g = false)
    (hset : ∀ n, n ∈ es ↔ n ∈ es') :
    (∃ k : Nat, (markers g es)[k]? = some true) ↔ (∃ k : Nat, (markers g es')[k]? = some true) := by
  rw [group_completed_iff_set_sat g es hne, group_completed_iff_set_sat g es' hne]
  have : (fun n => es.contains n) = fun n => es'.contains n := by
    funext n; simp only [List.contains_eq_mem]; exact decide_eq_decide.2 (hset n)
  rw [this]

/-! ## the fork / merge / wait head protocol (Models/GroupVM.lean)

  `GroupVM` is the head-level machine: one branch head per and-clause, one member head per atom, `WaitForHeads`
  as a count of parked heads, two-phase merging through a FIFO of MERGING heads, `random.choice` among ALL MERGING
  descendants as an explicit, universally quantified argument.  It is compared with the real interpreter on every
  run at head level (position and status of every head after every event, with the recorded tie-breaks). -/

/-- The head protocol refines the clause machine, for every tie-break: with `choices` arbitrary, the root
    head reaches the marker exactly when `Dnf.run` says so.  (No and-clause is empty: `ForkHead` with no label
    would leave no head at all — not expressible in Colang source.) -/
theorem vm_refines_clause_machine (d : Clauses) (hne : ∀ c ∈ d, c ≠ []) (es choices : List Nat) :
    vmMarkers d es choices = run (Dnf.init d) es :=
  runVM_eq es _ _ choices (Rel_init d hne)

/-- **group_completes_at_first_sat_vm.**  For every group `g` (any nesting), every sequence of received events and
    EVERY outcome of the tie-breaks: the head-level machine run on the clauses of the expanded group emits the
    marker while processing `es[k]` iff `k` is the least index whose prefix set satisfies the formula. -/
theorem group_completes_at_first_sat_vm (g : G) (hne : ∀ c ∈ toDnf (normalize g), c ≠ [])
    (es choices : List Nat) (k : Nat) :
    (vmMarkers (toDnf (normalize g)) es choices)[k]? = some true ↔
      (k < es.length ∧ eval (seen es k) g = true ∧ ∀ j, j < k → eval (seen es j) g = false) := by
  rw [vm_refines_clause_machine _ hne]
  exact group_completes_at_first_sat g es k

/-- The same with a syntactic hypothesis: no `and` group of `g` is empty (every group the grammar can spell). -/
theorem group_completes_at_first_sat_vm_spelled (g : G) (hg : g.noEmptyAnd = true)
    (es choices : List Nat) (k : Nat) :
    (vmMarkers (toDnf (normalize g)) es choices)[k]? = some true ↔
      (k < es.length ∧ eval (seen es k) g = true ∧ ∀ j, j < k → eval (seen es j) g = false) :=
  group_completes_at_first_sat_vm g (toDnf_normalize_nonempty g hg) es choices k

/-- Tie-breaks never change when (or whether) the group completes. -/
theorem vm_tie_break_independent (d : Clauses) (hne : ∀ c ∈ d, c ≠ []) (es c1 c2 : List Nat) :
    vmMarkers d es c1 = vmMarkers d es c2 := by
  rw [vm_refines_clause_machine d hne, vm_refines_clause_machine d hne]

/-- The merging loop: once some clause is complete, the root passes the group within the same event whatever
    `random.choice` returns (invariant: every MERGING head is queued, at most one MERGING member per clause,
    some head is MERGING; measure: queue length + 2 · MERGING members). -/
theorem merging_always_completes (fuel : Nat) (vm : VM) (queue : List QItem) (choices : List Nat)
    (hd : vm.done = false) (hI : I2 vm.brs queue) (hf : queue.length + 2 * totalMerging vm.brs < fuel) :
    (mergeLoop fuel vm queue choices).1.done = true :=
  mergeLoop_done fuel vm queue choices hd hI hf

/-
  Still open (kept visible):

  T2' groupvm_is_corevm_partial :
        `GroupVM.stepEvent` = `CoreVM.runToCompletion` (Models/CoreVM/Run.lean) restricted to one flow whose elements are
        `expandMatch g ++ [send marker, match never]`, through `renderHeads` (positions / statuses of all heads).
      GroupVM takes one macro-step per template segment (advance a matching head to its `WaitForHeads` / `MergeHeads`;
      merge; promote) where CoreVM's `slide` takes one step per element.  What is missing is the symbolic execution of
      `slide` over the segments of `expandClauses d k` (label look-ups, positions).  Until then this link is checked by
      execution on every run: heads (position, status) of the REAL interpreter after every event = `renderHeads`, with the
      recorded `random.choice` outcomes, and the real element list = `expandMatch g` (exactly) with `readBack` = clauses.

  T3  await_group_same_formula (behaviour): `await g` over flows f_i completes at es[k] ↔ (markers g es')[k]? = some true
      where es' reads "flow f_i finished" for atom i and forgets flows that failed.  The STRUCTURE of the await expansion is
      mirrored and checked (`readBackAwait_expandAwait` below: per clause the same and-template over `$ref.Finished()`,
      the or-level with scope and failure path); its run-time behaviour (child flows, FlowFinished / FlowFailed events,
      scopes) needs the whole interpreter and is checked by execution (ops await / awaitf).  `_expand_when_stmt_element`
      is not mirrored (ops when / whenmix / when2 / whenf: execution + oracle only).
-/

/-! ## GroupVM ⇔ CoreVM (T2', partial): phase 1 on and-clauses / or-groups of ANY size

  CoreVM (Models/CoreVM, import-only) is the whole-interpreter model: `slide`, `_advance_head_front`, `run_to_completion` over
  the real expanded program.  Proved here over CoreVM's `slide` itself (Lemmas/GroupCoreVM.lean, Lemmas/GroupCoreVMCompose.lean):

  * one-step lemmas `slideStep_goto / _wait_parks / _wait_passes / _merge_active` (closed-form result states: ONE guarded index
    operation each), the CLAUSE SEGMENT `clause_segment_parks / _passes` (`goto end → WaitForHeads n [→ MergeHeads]`, parametric
    in `n` and in the program) and the or-branch segment `branch_segment_merges`;
  * their composition over all members of a clause, by induction on the clause: the two theorems below.

  FULL statement that stays open (kept visible):
      groupvm_is_corevm : for `cfg.elements = expandMatch g ++ [send marker, match never]`, every event `e` and every recorded
        tie-break list, `CoreVM.runToCompletion` maps a state whose main-flow heads are `renderHeads d vm` to one whose heads are
        `renderHeads d (GroupVM.stepEvent vm e choices).1`, emitting the marker iff `(GroupVM.stepEvent vm e choices).2.1`.
  Missing for it: the FORK segment (`ForkHead` creating the heads, `_advance_head_front` moving them onto their `match`
  elements — needs `getEventName` for the index entry), the MERGE segment (`MergeHeads` on a MERGING head: candidate list through
  `get_child_head_uids`, `random.choice`, deletion loop) and the event loop of `runToCompletion` (matching heads through the
  index, `_advance_head_front`'s bookkeeping around `slide`, the merging loop).  These stay tied by execution on every run: for every
  generated `match` case the heads (position, status) of the REAL interpreter, of GroupVM and of CoreVM (`CoreVMJson.run` on the
  real expanded program with the recorded tie-breaks) agree after every event. -/

/-- **groupvm_is_corevm_partial (and-clause, phase 1).**  A flow instance of CoreVM whose heads are `others` (e.g. the INACTIVE
    forking head; none of them parked on the wait element) followed by the member heads of one and-clause in the states `ms` that
    `GroupVM` keeps for them; the program has, for every member, `match …; goto l` and at the end label `WaitForHeads n;
    MergeHeads` (`ClauseShape`, `MembersShape` — the and-template of `_expand_match_element`).  Advancing in order the member heads
    that wait on `match e` the way `_advance_head_front` does (`head.position += 1; slide`) yields exactly
    `GroupVM.p1Members e n [] ms` — a head passes `WaitForHeads n` iff the heads parked there, itself included, are at least `n` —
    and changes nothing else.  Any clause size, any `n`. -/
theorem groupvm_is_corevm_partial (fuel : Nat) (s : CoreVM.VM) (f : CoreIndex.FUid) (i : CoreIndex.Inst) (x : CoreVM.InstX)
    (cfg : CoreVM.FlowCfg) (l mu : String) (pe n e : Nat)
    (others : List CoreVM.HCore) (us : List (CoreIndex.HUid × Nat)) (ms : List (Nat × MLoc))
    (F : CoreVM.FlowAt s f i x cfg) (hown : x.ctxOwner = none) (C : CoreVM.ClauseShape cfg l mu pe n)
    (S : CoreVM.MembersShape cfg l pe us)
    (hlen : us.length = ms.length) (hnd : (others.map (·.1) ++ us.map (·.1)).Nodup)
    (hoth : others.filter (CoreVM.liveAt (pe + 1)) = [])
    (hv : CoreVM.hview i = others ++ CoreVM.renderU (pe + 1) us ms) :
    ∃ s' i', CoreVM.runMembers (fuel + 3) f (CoreVM.matchingU e us ms) s = .ok () s' ∧ CoreVM.FlowAt s' f i' x cfg ∧ s'.r = s.r ∧
      CoreVM.hview i' = others ++ CoreVM.renderU (pe + 1) us (p1Members e n [] ms) :=
  CoreVM.and_clause_phase1 fuel s f i x cfg l mu pe n e others us ms F hown C S hlen hnd hoth hv

/-- The same with the program hypotheses discharged for what the mirrored generator emits: the flow configuration contains
    `expandAnd c k` (the and-template of `_expand_match_element` for a clause of at least two atoms), translated element by element,
    at some offset `B`, and its label table resolves the end label.  Then phase 1 of `GroupVM` with `need = |c|` is what CoreVM does
    on the member heads (match positions `B + 3 + 3j`), for every clause `c`. -/
theorem groupvm_is_corevm_partial_expandAnd (fuel : Nat) (s : CoreVM.VM) (f : CoreIndex.FUid) (i : CoreIndex.Inst) (x : CoreVM.InstX)
    (cfg : CoreVM.FlowCfg) (spec : Nat → CoreVM.Spec) (B k e : Nat) (c : List Nat) (h2 : 2 ≤ c.length)
    (others : List CoreVM.HCore) (uids : List CoreIndex.HUid) (ms : List (Nat × MLoc))
    (F : CoreVM.FlowAt s f i x cfg) (hown : x.ctxOwner = none)
    (hc : CoreVM.ContainsAt cfg spec B (expandAnd c k).1)
    (hl : cfg.label (CoreVM.nmOf (k + 2)) = some (B + 2 + 3 * c.length + 4))
    (hu : uids.length = c.length) (hlen : uids.length = ms.length)
    (hnd : (others.map (·.1) ++ (uids.zipIdx.map fun p => (p.1, B + 3 + 3 * p.2)).map (·.1)).Nodup)
    (hoth : others.filter (CoreVM.liveAt (B + 2 + 3 * c.length + 4 + 1)) = [])
    (hv : CoreVM.hview i = others ++ CoreVM.renderU (B + 2 + 3 * c.length + 4 + 1) (uids.zipIdx.map fun p => (p.1, B + 3 + 3 * p.2)) ms) :
    ∃ s' i', CoreVM.runMembers (fuel + 3) f (CoreVM.matchingU e (uids.zipIdx.map fun p => (p.1, B + 3 + 3 * p.2)) ms) s = .ok () s' ∧
      CoreVM.FlowAt s' f i' x cfg ∧ s'.r = s.r ∧
      CoreVM.hview i' = others ++ CoreVM.renderU (B + 2 + 3 * c.length + 4 + 1) (uids.zipIdx.map fun p => (p.1, B + 3 + 3 * p.2))
        (p1Members e c.length [] ms) := by
  obtain ⟨C, S⟩ := CoreVM.shapes_of_expandAnd cfg spec B k c h2 uids hu hc hl
  exact CoreVM.and_clause_phase1 fuel s f i x cfg _ _ _ c.length e others _ ms F hown C S (by simpa using hlen) hnd hoth hv

/-- **groupvm_is_corevm_partial (or-group of single atoms, phase 1).**  The same for the branch heads of an or-group whose clauses
    are single atoms (any number of branches): the heads that wait on `match e` end MERGING on the or-level `MergeHeads`, exactly
    `GroupVM.p1Brs e 0 brs`. -/
theorem groupvm_is_corevm_partial_or (fuel : Nat) (s : CoreVM.VM) (f : CoreIndex.FUid) (i : CoreIndex.Inst) (x : CoreVM.InstX)
    (cfg : CoreVM.FlowCfg) (l mu : String) (pe e : Nat)
    (others : List CoreVM.HCore) (us : List (CoreIndex.HUid × Nat)) (brs : List Br)
    (F : CoreVM.FlowAt s f i x cfg) (hown : x.ctxOwner = none) (C : CoreVM.OrShape cfg l mu pe) (S : CoreVM.MembersShape cfg l pe us)
    (hlen : us.length = brs.length) (hnm : CoreVM.noMulti brs = true) (hnd : (others.map (·.1) ++ us.map (·.1)).Nodup)
    (hv : CoreVM.hview i = others ++ CoreVM.renderB (pe + 1) us brs) :
    ∃ s' i', CoreVM.runMembers (fuel + 2) f (CoreVM.matchingB e us brs) s = .ok () s' ∧ CoreVM.FlowAt s' f i' x cfg ∧ s'.r = s.r ∧
      CoreVM.hview i' = others ++ CoreVM.renderB (pe + 1) us (p1Brs e 0 brs).1 ∧ i'.status = i.status :=
  CoreVM.or_group_phase1 fuel s f i x cfg l mu pe e others us brs F hown C S hlen hnm hnd hv

/-- **groupvm_is_corevm_partial (fork segment).**  The root head ACTIVE on `CatchPatternFailure fl; ForkHead u [l_1 … l_n]`, every
    label followed by `match <plain event>`: CoreVM's `slide` hands back `n` new heads with fresh uids; advancing them in order
    (`_advance_head_front(new_heads)`) leaves the root INACTIVE on the fork element and the new heads ACTIVE on their match
    elements — the state `GroupVM.init` / `renderHeads` start from.  Any `n`. -/
theorem groupvm_is_corevm_partial_fork (fuel : Nat) (s : CoreVM.VM) (f : CoreIndex.FUid) (h : CoreIndex.HUid) (i : CoreIndex.Inst)
    (x : CoreVM.InstX) (cfg : CoreVM.FlowCfg) (hd : CoreIndex.Head) (fl u : String) (lps : List (String × Nat))
    (H : CoreVM.HeadAt s f h i x cfg hd) (hact : hd.status = .active) (hlis : i.status.listening = true)
    (hcatch : cfg.elements[hd.pos]! = .catchFail (some fl)) (hsz : hd.pos + 1 < cfg.elements.size)
    (hfork : cfg.elements[hd.pos + 1]! = .fork u (lps.map (·.1)))
    (hl : ∀ lp ∈ lps, cfg.label lp.1 = some lp.2 ∧ lp.2 ≠ 0 ∧ CoreVM.NotMatchAt cfg lp.2)
    (hnews : ∀ lp ∈ lps, lp.2 + 1 < cfg.elements.size ∧ ∃ spec b n, cfg.elements[lp.2 + 1]! = .matchOp spec b ∧ CoreVM.PlainSpec spec n)
    (hnd : ((CoreVM.hview i).map (·.1)).Nodup) (hfresh : ∀ m, m > s.r.nextUid → CoreVM.uidOf m ∉ i.headUids) :
    ∃ s1 s2 i2 x', CoreVM.slide (fuel + 2) f h s = .ok (CoreVM.newKeys f s.r.nextUid lps.length) s1 ∧
      CoreVM.runMembers (fuel + 1) f ((CoreVM.newKeys f s.r.nextUid lps.length).map (·.2)) s1 = .ok () s2 ∧
      CoreVM.FlowAt s2 f i2 x' cfg ∧ x'.ctxOwner = x.ctxOwner ∧
      CoreVM.hview i2 = (CoreVM.hview i).map (CoreVM.setCore h (hd.pos + 1) .inactive) ++
        (CoreVM.newView s.r.nextUid (lps.map (·.2))).map (fun t => (t.1, t.2.1 + 1, t.2.2)) ∧
      x'.forkUids = OMap.insert u h x.forkUids ∧ i2.status = i.status ∧ s2.r.nextUid = s.r.nextUid + lps.length ∧
      s2.r.choices = s.r.choices ∧
      -- the HeadX records: the forking head lists the new heads as its children, the new heads have none
      (∀ a0, OMap.lookup (f, h) s.r.hx = some a0 → (∀ m, m > s.r.nextUid → OMap.lookup (f, CoreVM.uidOf m) s.r.hx = none) →
        ((OMap.lookup (f, h) s2.r.hx).getD {}).childHeadUids = a0.childHeadUids ++ (CoreVM.newKeys f s.r.nextUid lps.length).map (·.2) ∧
        (∀ k ∈ CoreVM.newKeys f s.r.nextUid lps.length, ((OMap.lookup k s2.r.hx).getD {}).childHeadUids = [] ∧
          ((OMap.lookup k s2.r.hx).getD {}).scores = a0.scores)) :=
  CoreVM.fork_segment fuel s f h i x cfg hd fl u lps H hact hlis hcatch hsz hfork hl hnews hnd hfresh

/-- **groupvm_is_corevm_partial (merge segment, the and-clause completes).**  After phase 1 exactly one member head is MERGING, the
    others are ACTIVE (on their `match` or parked on `WaitForHeads`), the forking head `r` is INACTIVE.  CoreVM's `slide` on the MERGING
    head: `r` continues ACTIVE on the `MergeHeads` element, every member head is deleted, `[r]` is handed back — `GroupVM.mergeStep
    (.member 0 j)` of a group without or-level (`done := true`, no head of the group left).  Any clause size. -/
theorem groupvm_is_corevm_partial_merge (fuel : Nat) (s : CoreVM.VM) (f : CoreIndex.FUid) (i : CoreIndex.Inst) (x : CoreVM.InstX)
    (cfg : CoreVM.FlowCfg) (l mu : String) (pe n fp : Nat)
    (r : CoreIndex.HUid) (us : List (CoreIndex.HUid × Nat)) (ms : List (Nat × MLoc)) (j : Nat) (uj : CoreIndex.HUid × Nat) (a : Nat)
    (F : CoreVM.FlowAt s f i x cfg) (C : CoreVM.ClauseShape cfg l mu pe n)
    (hv : CoreVM.hview i = (r, fp, CoreIndex.HeadStatus.inactive) :: CoreVM.renderU (pe + 1) us ms)
    (hlen : us.length = ms.length) (hndu : (r :: us.map (·.1)).Nodup)
    (hju : us[j]? = some uj) (hjm : ms[j]? = some (a, MLoc.merging))
    (hone : ∀ j' m', ms[j']? = some m' → j' ≠ j → m'.2 = MLoc.atWait ∨ m'.2 = MLoc.atMatch)
    (hfu : OMap.lookup mu x.forkUids = some r)
    (hhx : ((OMap.lookup (f, r) s.r.hx).getD {}).childHeadUids = us.map (·.1))
    (hleaf : ∀ c ∈ us.map (·.1), ((OMap.lookup (f, c) s.r.hx).getD {}).childHeadUids = [])
    (hmu : mu ∉ us.map (·.1)) (hfp : fp ≠ pe + 2) :
    ∃ s' i' x', CoreVM.slide (fuel + 4) f uj.1 s = .ok [(f, r)] s' ∧ CoreVM.FlowAt s' f i' x' cfg ∧ x'.ctxOwner = x.ctxOwner ∧
      CoreVM.hview i' = [(r, pe + 2, CoreIndex.HeadStatus.active)] ∧ s'.r.nextUid = s.r.nextUid := by
  obtain ⟨s', i', x', h1, h2, h3, h4, h5, _⟩ :=
    CoreVM.and_clause_completes fuel s f i x cfg l mu pe n fp r us ms j uj a F C hv hlen hndu hju hjm hone hfu hhx hleaf hmu hfp
  exact ⟨s', i', x', h1, h2, h3, h4, h5⟩

/-- **groupvm_is_corevm_partial (one event on a pure and-group, any size).**  Composition of the segments: between two events the
    member heads are on their `match` elements or parked (`QMs ms`), the forking head `r` is INACTIVE.  Advancing the heads that wait
    on `match e` yields `GroupVM.p1Members e n [] ms`; if that completes the clause (`remMs … = []`), `slide` on the one MERGING head
    merges and `r` continues behind the group, all member heads gone — `GroupVM.stepEvent` on a group without or-level, carried out
    by CoreVM's own `slide`.  (What `runToCompletion` adds around it — finding the matching heads through the index, the bookkeeping
    of `_advance_head_front`, the merging loop calling `slide` on the MERGING head — is not part of this theorem.) -/
theorem groupvm_is_corevm_partial_and_event (fuel : Nat) (s : CoreVM.VM) (f : CoreIndex.FUid) (i : CoreIndex.Inst) (x : CoreVM.InstX)
    (cfg : CoreVM.FlowCfg) (l mu : String) (pe fp e : Nat)
    (r : CoreIndex.HUid) (us : List (CoreIndex.HUid × Nat)) (ms : List (Nat × MLoc))
    (F : CoreVM.FlowAt s f i x cfg) (hown : x.ctxOwner = none) (C : CoreVM.ClauseShape cfg l mu pe ms.length)
    (S : CoreVM.MembersShape cfg l pe us)
    (hlen : us.length = ms.length) (hndu : (r :: us.map (·.1)).Nodup) (hq : QMs ms)
    (hv : CoreVM.hview i = (r, fp, CoreIndex.HeadStatus.inactive) :: CoreVM.renderU (pe + 1) us ms)
    (hfu : OMap.lookup mu x.forkUids = some r)
    (hhx : ((OMap.lookup (f, r) s.r.hx).getD {}).childHeadUids = us.map (·.1))
    (hleaf : ∀ c ∈ us.map (·.1), ((OMap.lookup (f, c) s.r.hx).getD {}).childHeadUids = [])
    (hmu : mu ∉ us.map (·.1)) (hfp : fp ≠ pe + 2) :
    ∃ s1 i1, CoreVM.runMembers (fuel + 3) f (CoreVM.matchingU e us ms) s = .ok () s1 ∧ CoreVM.FlowAt s1 f i1 x cfg ∧ s1.r = s.r ∧
      CoreVM.hview i1 = (r, fp, CoreIndex.HeadStatus.inactive) :: CoreVM.renderU (pe + 1) us (p1Members e ms.length [] ms) ∧
      (remMs (p1Members e ms.length [] ms) = [] → remMs ms ≠ [] →
        ∃ (j : Nat) (uj : CoreIndex.HUid × Nat) (a : Nat), us[j]? = some uj ∧ (p1Members e ms.length [] ms)[j]? = some (a, MLoc.merging) ∧
          ∃ s2 i2 x2, CoreVM.slide (fuel + 4) f uj.1 s1 = .ok [(f, r)] s2 ∧ CoreVM.FlowAt s2 f i2 x2 cfg ∧ x2.ctxOwner = x.ctxOwner ∧
            CoreVM.hview i2 = [(r, pe + 2, CoreIndex.HeadStatus.active)]) :=
  CoreVM.and_group_event fuel s f i x cfg l mu pe fp e r us ms F hown C S hlen hndu hq hv hfu hhx hleaf hmu hfp

/-- **groupvm_is_corevm_partial (one event on a pure or-group of single atoms, any number of branches)**, when one branch matches the
    event (always the case for distinct atoms): phase 1 (`GroupVM.p1Brs`) then the merge with a single candidate.  Several branches
    MERGING in the same event (the same atom twice) need `random.choice` in `MergeHeads`; that case stays tied by execution. -/
theorem groupvm_is_corevm_partial_or_event (fuel : Nat) (s : CoreVM.VM) (f : CoreIndex.FUid) (i : CoreIndex.Inst) (x : CoreVM.InstX)
    (cfg : CoreVM.FlowCfg) (l mu : String) (pe fp e : Nat)
    (r : CoreIndex.HUid) (us : List (CoreIndex.HUid × Nat)) (brs : List Br) (j : Nat) (uj : CoreIndex.HUid × Nat)
    (F : CoreVM.FlowAt s f i x cfg) (hown : x.ctxOwner = none) (C : CoreVM.OrShape cfg l mu pe) (S : CoreVM.MembersShape cfg l pe us)
    (hlen : us.length = brs.length) (hnm : CoreVM.noMulti brs = true) (hndu : (r :: us.map (·.1)).Nodup)
    (hv : CoreVM.hview i = (r, fp, CoreIndex.HeadStatus.inactive) :: CoreVM.renderB (pe + 1) us brs)
    (hju : us[j]? = some uj) (hjm : (p1Brs e 0 brs).1[j]? = some Br.merging)
    (hone : ∀ j' m', (p1Brs e 0 brs).1[j']? = some m' → j' ≠ j → ∃ a, m' = Br.single a)
    (hl1 : (p1Brs e 0 brs).1.length = brs.length)
    (hfu : OMap.lookup mu x.forkUids = some r)
    (hhx : ((OMap.lookup (f, r) s.r.hx).getD {}).childHeadUids = us.map (·.1))
    (hleaf : ∀ c ∈ us.map (·.1), ((OMap.lookup (f, c) s.r.hx).getD {}).childHeadUids = [])
    (hmu : mu ∉ us.map (·.1)) (hfp : fp ≠ pe + 1) :
    ∃ s1 i1 s2 i2 x2, CoreVM.runMembers (fuel + 2) f (CoreVM.matchingB e us brs) s = .ok () s1 ∧ CoreVM.FlowAt s1 f i1 x cfg ∧
      CoreVM.hview i1 = (r, fp, CoreIndex.HeadStatus.inactive) :: CoreVM.renderB (pe + 1) us (p1Brs e 0 brs).1 ∧
      CoreVM.slide (fuel + 4) f uj.1 s1 = .ok [(f, r)] s2 ∧ CoreVM.FlowAt s2 f i2 x2 cfg ∧ x2.ctxOwner = x.ctxOwner ∧
      CoreVM.hview i2 = [(r, pe + 1, CoreIndex.HeadStatus.active)] :=
  CoreVM.or_group_event fuel s f i x cfg l mu pe fp e r us brs j uj F hown C S hlen hnm hndu hv hju hjm hone hl1 hfu hhx hleaf hmu hfp

/-- **groupvm_is_corevm_partial (`MergeHeads` with `random.choice`, the winner).**  A MERGING head `h` on `MergeHeads u`; the children
    `cs` of the forking head `r` are heads of the flow (none has forked itself), the MERGING ones among them are `MH` (in
    `get_child_head_uids` order) and have equal scores.  Either `h` is the only candidate (`random.choice` is not called) or the
    recorded outcome `c` of `random.choice` over `MH` selects `h`.  Then one step of CoreVM's `slide` lets the forking head continue
    ACTIVE at `h`'s position, deletes EVERY child head — ACTIVE, MERGING or an INACTIVE loser of an earlier pick (the guard of each
    deletion, "not in the reverse map", follows from the by-construction invariant `IndexOK`) — and hands `[r]` back.  This is the
    winner branch of `GroupVM.mergeStep` (`pick`), for every number of children and candidates. -/
theorem groupvm_is_corevm_partial_merge_choice (fuel : Nat) (s : CoreVM.VM) (f : CoreIndex.FUid) (h : CoreIndex.HUid) (i : CoreIndex.Inst)
    (x : CoreVM.InstX) (cfg : CoreVM.FlowCfg) (hd rd : CoreIndex.Head) (u : String) (r : CoreIndex.HUid) (cs : List CoreIndex.HUid)
    (H : CoreVM.HeadAt s f h i x cfg hd) (hel : cfg.elements[hd.pos]! = .merge u) (hm : hd.status = .merging)
    (hfu : OMap.lookup u x.forkUids = some r) (hroot : i.findHead r = some rd)
    (hcs : ((OMap.lookup (f, r) s.r.hx).getD {}).childHeadUids = cs)
    (hleaf : ∀ c ∈ cs, ((OMap.lookup (f, c) s.r.hx).getD {}).childHeadUids = [])
    (hex : ∀ c ∈ cs, ∃ cd, i.findHead c = some cd)
    (MH : List CoreIndex.HUid) (hMH : cs.filter (fun c => (i.findHead c).map (·.status) == some CoreIndex.HeadStatus.merging) = MH)
    (hpick : MH = [h] ∨ ∃ c rest sc0, s.r.choices = c :: rest ∧ c < MH.length ∧ MH[c]? = some h ∧ 1 < MH.length ∧
      ∀ k ∈ MH, ((OMap.lookup (f, k) s.r.hx).getD {}).scores = sc0)
    (hnd : cs.Nodup) (hmem : h ∈ cs)
    (hrh : r ≠ h) (hrpos : rd.pos ≠ hd.pos) (hrst : rd.status = .inactive) (hrcs : r ∉ cs) (hucs : u ∉ cs)
    (hns : i.status ≠ .stopping) :
    ∃ s' i' x', CoreVM.slideStep (fuel + 2) f h s = .ok (false, [(f, r)]) s' ∧ CoreVM.FlowAt s' f i' x' cfg ∧
      x'.ctxOwner = x.ctxOwner ∧
      CoreVM.hview i' = ((CoreVM.hview i).map (CoreVM.setCore r hd.pos .active)).filter (fun t => !cs.contains t.1) ∧
      s'.r.nextUid = s.r.nextUid :=
  CoreVM.slideStep_merge_pick fuel s f h i x cfg hd rd u r cs H hel hm hfu hroot hcs hleaf hex MH hMH hpick hnd hmem hrh hrpos hrst
    hrcs hucs hns

/-- **… the loser.**  `random.choice` selects another candidate `h' ≠ h`: `h` becomes INACTIVE (ONE index operation), one recorded
    choice is consumed, nothing else changes — the loser branch of `GroupVM.mergeStep`. -/
theorem groupvm_is_corevm_partial_merge_lose (fuel : Nat) (s : CoreVM.VM) (f : CoreIndex.FUid) (h : CoreIndex.HUid) (i : CoreIndex.Inst)
    (x : CoreVM.InstX) (cfg : CoreVM.FlowCfg) (hd rd : CoreIndex.Head) (u : String) (r : CoreIndex.HUid) (cs : List CoreIndex.HUid)
    (H : CoreVM.HeadAt s f h i x cfg hd) (hel : cfg.elements[hd.pos]! = .merge u) (hm : hd.status = .merging)
    (hfu : OMap.lookup u x.forkUids = some r) (hroot : i.findHead r = some rd)
    (hcs : ((OMap.lookup (f, r) s.r.hx).getD {}).childHeadUids = cs)
    (hleaf : ∀ c ∈ cs, ((OMap.lookup (f, c) s.r.hx).getD {}).childHeadUids = [])
    (hex : ∀ c ∈ cs, ∃ cd, i.findHead c = some cd)
    (MH : List CoreIndex.HUid) (hMH : cs.filter (fun c => (i.findHead c).map (·.status) == some CoreIndex.HeadStatus.merging) = MH)
    (c : Nat) (rest : List Nat) (sc0 : List CoreVM.Score) (h' : CoreIndex.HUid)
    (hch : s.r.choices = c :: rest) (hclt : c < MH.length) (hcget : MH[c]? = some h') (hne : h' ≠ h) (hlen1 : 1 < MH.length)
    (hsc : ∀ k ∈ MH, ((OMap.lookup (f, k) s.r.hx).getD {}).scores = sc0)
    (hnd : cs.Nodup) (hmem : h ∈ cs)
    (hrh : r ≠ h) (hrpos : rd.pos ≠ hd.pos) (hrst : rd.status = .inactive) (hrcs : r ∉ cs) (hucs : u ∉ cs)
    (hns : i.status ≠ .stopping) :
    ∃ s' hg, CoreVM.slideStep (fuel + 2) f h s = .ok (false, []) s' ∧
      s'.ixs = s.ixs.apply (.setStatus f h .inactive none) hg ∧ s'.r.choices = rest ∧ s'.r.hx = s.r.hx ∧ s'.r.fx = s.r.fx ∧
      s'.r.prog = s.r.prog ∧ s'.r.nextUid = s.r.nextUid :=
  CoreVM.slideStep_merge_lose fuel s f h i x cfg hd rd u r cs H hel hm hfu hroot hcs hleaf hex MH hMH c rest sc0 h' hch hclt hcget
    hne hlen1 hsc hnd hmem hrh hrpos hrst hrcs hucs hns

/-- **groupvm_is_corevm_partial (one event on a pure or-group of single atoms, EVERY tie-break).**  Phase 1 (`GroupVM.p1Brs`) and then the
    merging loop over all branch heads that became MERGING (several when an atom occurs more than once), advanced in order with CoreVM's
    `slide`: a head that `random.choice` does not pick becomes INACTIVE, the first picked one — at the latest the last remaining one —
    merges.  For EVERY list of recorded outcomes that is present and in range (`Adequate`) the forking head continues behind the group
    and no branch head is left: `GroupVM.stepEvent` / `merging_always_completes` on or-groups, by the interpreter model's own `slide`. -/
theorem groupvm_is_corevm_partial_or_event_all (fuel : Nat) (s : CoreVM.VM) (f : CoreIndex.FUid) (i : CoreIndex.Inst) (x : CoreVM.InstX)
    (cfg : CoreVM.FlowCfg) (l mu : String) (pe fp e : Nat)
    (r : CoreIndex.HUid) (us : List (CoreIndex.HUid × Nat)) (brs : List Br) (sc0 : List CoreVM.Score) (n : Nat)
    (I : CoreVM.OrMergeInv s f i x cfg l mu pe fp r us brs sc0) (hown : x.ctxOwner = none) (S : CoreVM.MembersShape cfg l pe us)
    (hnm : CoreVM.noMulti brs = true) (hl1 : (p1Brs e 0 brs).1.length = brs.length)
    (hMH : (CoreVM.mergingUids us (p1Brs e 0 brs).1).length = n + 1) (hadq : CoreVM.Adequate (n + 1) s.r.choices) :
    ∃ s1 i1 s2 i2 x2, CoreVM.runMembers (fuel + 2) f (CoreVM.matchingB e us brs) s = .ok () s1 ∧ CoreVM.FlowAt s1 f i1 x cfg ∧
      CoreVM.hview i1 = (r, fp, CoreIndex.HeadStatus.inactive) :: CoreVM.renderB (pe + 1) us (p1Brs e 0 brs).1 ∧
      CoreVM.slideUntil (fuel + 4) f (CoreVM.mergingUids us (p1Brs e 0 brs).1) s1 = .ok [(f, r)] s2 ∧ CoreVM.FlowAt s2 f i2 x2 cfg ∧
      x2.ctxOwner = x.ctxOwner ∧ CoreVM.hview i2 = [(r, pe + 1, CoreIndex.HeadStatus.active)] :=
  CoreVM.or_group_event_all fuel s f i x cfg l mu pe fp e r us brs sc0 n I hown S hnm hl1 hMH hadq

/-- **groupvm_is_corevm_partial (pure and-group of any size, EVERY event sequence).**  The events are processed at the level of CoreVM's
    `slide` (`CoreVM.andDriver`: per event the member heads that wait on it are advanced, a head that became MERGING is advanced again;
    which heads wait on the event is read off the `GroupVM` member states — in the interpreter the index selects them, C09).  The forking
    head is handed back while processing `es[k]` iff `k` is the least index such that every atom of the clause that was still awaited
    (`remMs ms`) occurs in `es[0..k]` — the property statement for and-groups — and never again. -/
theorem groupvm_is_corevm_partial_and_run (fuel : Nat) (f : CoreIndex.FUid) (x : CoreVM.InstX) (cfg : CoreVM.FlowCfg) (l mu : String)
    (pe fp : Nat) (r : CoreIndex.HUid) (us : List (CoreIndex.HUid × Nat)) (n : Nat)
    (hown : x.ctxOwner = none) (C : CoreVM.ClauseShape cfg l mu pe n) (S : CoreVM.MembersShape cfg l pe us)
    (hndu : (r :: us.map (·.1)).Nodup) (hfu : OMap.lookup mu x.forkUids = some r) (hmu : mu ∉ us.map (·.1)) (hfp : fp ≠ pe + 2)
    (es : List Nat) (s : CoreVM.VM) (i : CoreIndex.Inst) (ms : List (Nat × MLoc))
    (F : CoreVM.FlowAt s f i x cfg) (hmn : ms.length = n) (hun : us.length = n) (hq : QMs ms) (hrem : remMs ms ≠ [])
    (hv : CoreVM.hview i = (r, fp, CoreIndex.HeadStatus.inactive) :: CoreVM.renderU (pe + 1) us ms)
    (hhx : ((OMap.lookup (f, r) s.r.hx).getD {}).childHeadUids = us.map (·.1))
    (hleaf : ∀ c ∈ us.map (·.1), ((OMap.lookup (f, c) s.r.hx).getD {}).childHeadUids = []) :
    ∃ s' bs, CoreVM.andDriver fuel f us n ms false es s = .ok bs s' ∧
      ∀ k, bs[k]? = some true ↔
        (k < es.length ∧ sat [remMs ms] (es.take (k + 1)) = true ∧ ∀ j, j < k → sat [remMs ms] (es.take (j + 1)) = false) := by
  obtain ⟨s', hs'⟩ := CoreVM.and_group_run fuel f x cfg l mu pe fp r us n hown C S hndu hfu hmu hfp es s i ms F hmn hun hq hrem hv hhx hleaf
  refine ⟨s', _, hs', fun k => ?_⟩
  have := run_spec [remMs ms] es [] k
  simpa [remaining_nil] using this

/-- **groupvm_is_corevm_partial (a pure and-group from its first element to completion, every event sequence).**  The root head is the
    only head of the instance, ACTIVE on `CatchPatternFailure; ForkHead mu [l_1 … l_n]`, and the program has the and-template behind it
    (labels followed by `match <plain event>; goto l`, at the end label `WaitForHeads n; MergeHeads mu`).  CoreVM's `slide` forks the
    member heads, they are advanced onto their match elements, and for EVERY event sequence `es` the slide-level driver hands the root
    head back exactly as `markers (andOf c) es` says — the very object of `group_completes_at_first_sat`: at the first event after
    which every atom of the group has been received, and never again. -/
theorem groupvm_is_corevm_partial_and_group (fuel : Nat) (s : CoreVM.VM) (f : CoreIndex.FUid) (h : CoreIndex.HUid) (i : CoreIndex.Inst)
    (x : CoreVM.InstX) (cfg : CoreVM.FlowCfg) (hd : CoreIndex.Head)
    (fl mu l : String) (lps : List (String × Nat)) (c : List Nat) (pe : Nat) (a0 : CoreVM.HeadX)
    (H : CoreVM.HeadAt s f h i x cfg hd) (hact : hd.status = .active) (hlis : i.status.listening = true)
    (hcatch : cfg.elements[hd.pos]! = .catchFail (some fl)) (hsz : hd.pos + 1 < cfg.elements.size)
    (hfork : cfg.elements[hd.pos + 1]! = .fork mu (lps.map (·.1)))
    (hl : ∀ lp ∈ lps, cfg.label lp.1 = some lp.2 ∧ lp.2 ≠ 0 ∧ CoreVM.NotMatchAt cfg lp.2)
    (hnews : ∀ lp ∈ lps, lp.2 + 1 < cfg.elements.size ∧ ∃ spec b n, cfg.elements[lp.2 + 1]! = .matchOp spec b ∧ CoreVM.PlainSpec spec n)
    (hroot : CoreVM.hview i = [(h, hd.pos, CoreIndex.HeadStatus.active)])
    (hfresh : ∀ m, m > s.r.nextUid → CoreVM.uidOf m ∉ i.headUids) (hown : x.ctxOwner = none)
    (ha0 : OMap.lookup (f, h) s.r.hx = some a0) (ha0c : a0.childHeadUids = [])
    (hfx0 : ∀ m, m > s.r.nextUid → OMap.lookup (f, CoreVM.uidOf m) s.r.hx = none)
    (hmu : ∀ m, CoreVM.uidOf m ≠ mu)
    (C : CoreVM.ClauseShape cfg l mu pe lps.length)
    (S : ∀ lp ∈ lps, cfg.elements[lp.2 + 1 + 1]! = .goto (.lit (.bool true)) l ∧ lp.2 + 1 + 1 < pe + 1)
    (hfp : hd.pos + 1 ≠ pe + 2) (hc : c.length = lps.length) (hcne : c ≠ []) (es : List Nat) :
    ∃ s1 s2 s3, CoreVM.slide (fuel + 2) f h s = .ok (CoreVM.newKeys f s.r.nextUid lps.length) s1 ∧
      CoreVM.runMembers (fuel + 1) f ((CoreVM.newKeys f s.r.nextUid lps.length).map (·.2)) s1 = .ok () s2 ∧
      CoreVM.andDriver fuel f ((CoreVM.newsOf s.r.nextUid (lps.map (·.2))).map fun q => (q.1, q.2 + 1)) lps.length
        (CoreVM.allAtMatch c) false es s2 = .ok (markers (andOf c) es) s3 := by
  obtain ⟨s1, s2, s3, h1, h2, h3⟩ := CoreVM.and_group_from_start fuel s f h i x cfg hd fl mu l lps c pe a0 H hact hlis hcatch hsz hfork hl
    hnews hroot hfresh hown ha0 ha0c hfx0 hmu C S hfp hc hcne es
  refine ⟨s1, s2, s3, h1, h2, ?_⟩
  rw [h3]
  simp only [markers, normalize_clause_fixed, toDnf_ofDnf, Dnf.init]

theorem dnfOr_atoms (c : List Nat) : dnfOr (c.map G.atom) = c.map fun a => [a] := by
  induction c with
  | nil => rfl
  | cons a c ih => simp [dnfOr, dnf, ih]

/-- **groupvm_is_corevm_partial (a pure or-group of single atoms of any size, every event sequence, EVERY tie-break).**  Between events
    all branch heads wait on their `match` elements (`OrMergeInv` with `allSingle c`).  The slide-level driver (`CoreVM.orDriver`: advance
    the branch heads that wait on the event, then the merging loop over those that became MERGING) outputs exactly
    `markers (.or (c.map .atom)) es` — the first event that matches some atom completes the group, whatever `random.choice` returns
    when several branches wait for the same event (the recorded outcomes only have to be present and in range). -/
theorem groupvm_is_corevm_partial_or_run (fuel : Nat) (f : CoreIndex.FUid) (x : CoreVM.InstX) (cfg : CoreVM.FlowCfg) (l mu : String)
    (pe fp : Nat) (r : CoreIndex.HUid) (us : List (CoreIndex.HUid × Nat)) (c : List Nat) (sc0 : List CoreVM.Score)
    (hown : x.ctxOwner = none) (S : CoreVM.MembersShape cfg l pe us) (hlen : us.length = c.length)
    (es : List Nat) (s : CoreVM.VM) (i : CoreIndex.Inst)
    (I : CoreVM.OrMergeInv s f i x cfg l mu pe fp r us (CoreVM.allSingle c) sc0)
    (hadq : ∀ n, n ≤ us.length → CoreVM.Adequate n s.r.choices) :
    ∃ s', CoreVM.orDriver fuel f us (CoreVM.allSingle c) false es s = .ok (markers (.or (c.map .atom)) es) s' := by
  obtain ⟨s', hs'⟩ := CoreVM.or_group_run fuel f x cfg l mu pe fp r us c sc0 hown S hlen es s i I hadq
  refine ⟨s', ?_⟩
  rw [hs']
  simp only [markers, normalize_eq, toDnf_ofDnf, dnf, dnfOr_atoms, Dnf.init]

/-- **groupvm_is_corevm_partial (exit segment).**  The forking head, handed back ACTIVE on the group's last `MergeHeads`, is advanced
    (`head.position += 1; slide`) over `CatchPatternFailure(None)` onto the element after the group statement — the marker `send`
    (a plain, non-internal event), where `slide` stops: the element after the group is reached.  Only this head's position changes. -/
theorem groupvm_is_corevm_partial_exit (fuel : Nat) (s : CoreVM.VM) (f : CoreIndex.FUid) (h : CoreIndex.HUid) (i : CoreIndex.Inst)
    (x : CoreVM.InstX) (cfg : CoreVM.FlowCfg) (hd : CoreIndex.Head) (spec : CoreVM.Spec) (n : String)
    (H : CoreVM.HeadAt s f h i x cfg hd) (hsz : hd.pos + 2 < cfg.elements.size)
    (hc1 : cfg.elements[hd.pos + 1]! = .catchFail none) (hc2 : cfg.elements[hd.pos + 2]! = .sendOp spec)
    (hp : CoreVM.PlainSpec spec n) (hargs : spec.args = []) (hint : CoreVM.internalEvents.contains n = false)
    (hcl : ((OMap.lookup (f, h) s.r.hx).getD {}).catchLabels.isEmpty = false) :
    ∃ s' i', CoreVM.advanceMember (fuel + 2) f h s = .ok [] s' ∧ CoreVM.FlowAt s' f i' x cfg ∧
      CoreVM.hview i' = (CoreVM.hview i).map (CoreVM.setPosCore h (hd.pos + 2)) := by
  obtain ⟨s', i', h1, h2, h3, _⟩ := CoreVM.group_exit fuel s f h i x cfg hd spec n H hsz hc1 hc2 hp hargs hint hcl
  exact ⟨s', i', h1, h2, h3⟩

/-- **groupvm_is_corevm_partial (a pure or-group of single atoms from its first element to completion, every event sequence, EVERY
    tie-break).**  The root head is the only head of the instance, ACTIVE on `CatchPatternFailure; ForkHead mu [l_1 … l_n]`, and the
    program has the or-template with single-atom clauses behind it.  CoreVM's `slide` forks the branch heads, they are advanced onto
    their match elements, and for EVERY event sequence and EVERY adequate list of `random.choice` outcomes the slide-level driver
    outputs exactly `markers (.or (c.map .atom)) es`. -/
theorem groupvm_is_corevm_partial_or_group (fuel : Nat) (s : CoreVM.VM) (f : CoreIndex.FUid) (h : CoreIndex.HUid) (i : CoreIndex.Inst)
    (x : CoreVM.InstX) (cfg : CoreVM.FlowCfg) (hd : CoreIndex.Head)
    (fl mu l : String) (lps : List (String × Nat)) (c : List Nat) (pe : Nat) (a0 : CoreVM.HeadX)
    (H : CoreVM.HeadAt s f h i x cfg hd) (hact : hd.status = .active) (hlis : i.status.listening = true)
    (hcatch : cfg.elements[hd.pos]! = .catchFail (some fl)) (hsz : hd.pos + 1 < cfg.elements.size)
    (hfork : cfg.elements[hd.pos + 1]! = .fork mu (lps.map (·.1)))
    (hl : ∀ lp ∈ lps, cfg.label lp.1 = some lp.2 ∧ lp.2 ≠ 0 ∧ CoreVM.NotMatchAt cfg lp.2)
    (hnews : ∀ lp ∈ lps, lp.2 + 1 < cfg.elements.size ∧ ∃ spec b n, cfg.elements[lp.2 + 1]! = .matchOp spec b ∧ CoreVM.PlainSpec spec n)
    (hroot : CoreVM.hview i = [(h, hd.pos, CoreIndex.HeadStatus.active)])
    (hfresh : ∀ m, m > s.r.nextUid → CoreVM.uidOf m ∉ i.headUids) (hown : x.ctxOwner = none)
    (ha0 : OMap.lookup (f, h) s.r.hx = some a0) (ha0c : a0.childHeadUids = [])
    (hfx0 : ∀ m, m > s.r.nextUid → OMap.lookup (f, CoreVM.uidOf m) s.r.hx = none)
    (hmu : ∀ m, CoreVM.uidOf m ≠ mu)
    (C : CoreVM.OrShape cfg l mu pe)
    (S : ∀ lp ∈ lps, cfg.elements[lp.2 + 1 + 1]! = .goto (.lit (.bool true)) l ∧ lp.2 + 1 + 1 < pe + 1)
    (hfp : hd.pos + 1 ≠ pe + 1) (hc : c.length = lps.length)
    (hadq : ∀ n, n ≤ lps.length → CoreVM.Adequate n s.r.choices) (es : List Nat) :
    ∃ s1 s2 s3, CoreVM.slide (fuel + 2) f h s = .ok (CoreVM.newKeys f s.r.nextUid lps.length) s1 ∧
      CoreVM.runMembers (fuel + 1) f ((CoreVM.newKeys f s.r.nextUid lps.length).map (·.2)) s1 = .ok () s2 ∧
      CoreVM.orDriver fuel f ((CoreVM.newsOf s.r.nextUid (lps.map (·.2))).map fun q => (q.1, q.2 + 1)) (CoreVM.allSingle c) false es s2
        = .ok (markers (.or (c.map .atom)) es) s3 := by
  obtain ⟨s1, s2, s3, h1, h2, h3⟩ := CoreVM.or_group_from_start fuel s f h i x cfg hd fl mu l lps c pe a0 H hact hlis hcatch hsz hfork hl
    hnews hroot hfresh hown ha0 ha0c hfx0 hmu C S hfp hc hadq es
  refine ⟨s1, s2, s3, h1, h2, ?_⟩
  rw [h3]
  simp only [markers, normalize_eq, toDnf_ofDnf, dnf, dnfOr_atoms, Dnf.init]

/-- **groupvm_is_corevm_partial (pure and-group as the mirrored generator emits it).**  The flow configuration contains
    `expandAnd c k` (|c| ≥ 2: the and-template that `readBack_expandMatch` / the element-by-element tie relate to the REAL expanded list) at
    offset `B`, translated element by element, atoms being plain events, with its labels resolved to their label elements; the root head
    is the only head of the instance, ACTIVE on the template's first element.  For EVERY event sequence `es` CoreVM's `slide`, driven per
    event, hands the root head back exactly as `markers (andOf c) es` says.  All program-shape hypotheses are discharged from the
    mirror; what remains are facts about the run-time state at the moment the group statement is reached. -/
theorem groupvm_is_corevm_partial_and_group_mirror (fuel : Nat) (s : CoreVM.VM) (f : CoreIndex.FUid) (h : CoreIndex.HUid)
    (i : CoreIndex.Inst) (x : CoreVM.InstX) (cfg : CoreVM.FlowCfg) (hd : CoreIndex.Head)
    (spec : Nat → CoreVM.Spec) (B k : Nat) (c : List Nat) (a0 : CoreVM.HeadX) (h2 : 2 ≤ c.length)
    (H : CoreVM.HeadAt s f h i x cfg hd) (hB : hd.pos = B) (hact : hd.status = .active) (hlis : i.status.listening = true)
    (hc : CoreVM.ContainsAt cfg spec B (expandAnd c k).1)
    (hlab : ∀ j, j < c.length → cfg.label (CoreVM.nmOf (k + 3 + j)) = some (B + 2 + 3 * j))
    (hlabE : cfg.label (CoreVM.nmOf (k + 2)) = some (B + 2 + 3 * c.length + 4))
    (hspec : ∀ a, ∃ n, CoreVM.PlainSpec (spec a) n)
    (hroot : CoreVM.hview i = [(h, hd.pos, CoreIndex.HeadStatus.active)])
    (hfresh : ∀ m, m > s.r.nextUid → CoreVM.uidOf m ∉ i.headUids) (hown : x.ctxOwner = none)
    (ha0 : OMap.lookup (f, h) s.r.hx = some a0) (ha0c : a0.childHeadUids = [])
    (hfx0 : ∀ m, m > s.r.nextUid → OMap.lookup (f, CoreVM.uidOf m) s.r.hx = none) (es : List Nat) :
    ∃ s1 s2 s3, CoreVM.slide (fuel + 2) f h s = .ok (CoreVM.newKeys f s.r.nextUid c.length) s1 ∧
      CoreVM.runMembers (fuel + 1) f ((CoreVM.newKeys f s.r.nextUid c.length).map (·.2)) s1 = .ok () s2 ∧
      CoreVM.andDriver fuel f ((CoreVM.newsOf s.r.nextUid ((CoreVM.mirrorLps B k c.length).map (·.2))).map fun q => (q.1, q.2 + 1))
        c.length (CoreVM.allAtMatch c) false es s2 = .ok (markers (andOf c) es) s3 := by
  obtain ⟨s1, s2, s3, h1, h2', h3⟩ := CoreVM.and_group_of_mirror fuel s f h i x cfg hd spec B k c a0 h2 H hB hact hlis hc hlab hlabE hspec
    hroot hfresh hown ha0 ha0c hfx0 es
  refine ⟨s1, s2, s3, h1, h2', ?_⟩
  rw [h3]
  simp only [markers, normalize_clause_fixed, toDnf_ofDnf, Dnf.init]

/-! ## the expanded element list -/

/-- The checker that is run on the REAL element list of every generated `match <group>` accepts the
    list the mirrored code generator emits and reads back exactly the clauses of the normalised group:
    one forked head per and-clause, inside it one forked head per atom, `WaitForHeads.number` = number of
    atoms of the clause (and-template) resp. number of clauses (failure path of the or-template).
    For every group, any nesting. -/
theorem readBack_expandMatch (g : G) : readBack (expandMatch g) = some (toDnf (normalize g)) := by
  simp only [readBack, expandMatch, readGroup_expandClauses]

/-- ... and for any clause list and any start of the fresh-name counter. -/
theorem readBack_expandClauses (d : Clauses) (k : Nat) : readBack (expandClauses d k).1 = some d := by
  simp only [readBack, readGroup_expandClauses]

/-! ## `await <group of flows>` (T3, structure) -/

/-- The checker run on the REAL element list of every generated `await <group>` accepts what the mirror of
    `_expand_await_element` (+ `_expand_start_element`, + the and-template over `$ref.Finished()`) emits and reads
    back the clauses of the normalised group: per clause every flow is started exactly once and exactly the started
    references are awaited, `WaitForHeads.number` = flows of the clause (and-template) resp. number of clauses
    (failure path), both exits close the scope. -/
theorem readBackAwait_expandAwait (g : G) : readBackAwait (expandAwait g) = some (toDnf (normalize g)) := by
  simp only [readBackAwait, expandAwait, readAwaitGroup_expand]

theorem readBackAwait_expandAwaitClauses (d : Clauses) (k : Nat) : readBackAwait (expandAwaitClauses d k).1 = some d := by
  simp only [readBackAwait, readAwaitGroup_expand]

/-! ## `when` on groups (structure) -/

/-- **readBack_expandWhen.**  The checker that is run on the REAL element list of every generated `when` statement
    (several cases, optional else, events and flows mixed) accepts what the mirror of `_expand_when_stmt_element`
    (all passes of `expand_elements`) emits and reads back, for each case, exactly the clauses of the normalised group
    of that case: one forked head per case, below it one forked head per and-clause, the clause starts its own instance of
    each of its flows and waits for exactly those references (and for its events), `WaitForHeads` numbers = number of
    atoms (and-template) / clauses (failure path of the case) / cases (else group), all exits close the scope. -/
theorem readBack_expandWhen (isFlow : Nat → Bool) (cases : List (G × List Prim)) (els : Option (List Prim)) :
    readBackWhen (cases.map (·.2)) els (expandWhen isFlow cases els) = some (cases.map fun c => toDnf (normalize c.1)) := by
  have h := readBackWhen_expandWhenClauses isFlow (cases.map fun c => (toDnf (normalize c.1), c.2)) els 0
  simp only [List.map_map, Function.comp_def] at h
  exact h

/-! ## `await` / `when` on groups of flows at run time (T3, Models/GroupFlowVM.lean)

  `GroupFlow.outs g es` = per event about the child flows (`fin a`: the running instances of flow `a` finish, `fail a`: they
  fail) what the statement does: nothing / marker / failure path.  `know es k` = which flows have finished resp. failed after
  `es[0..k]` (the first event about a flow decides).  The machine is compared with the real interpreter on every run (ops
  await / awaitf / when / whenf / whenfe: marker, failure path and the set of running child flows after every event). -/

open NemoVerif.GroupFlow in
theorem flow_run_spec (g : G) (es : List FEv) (k : Nat) (o : Out) (ho : o ≠ .quiet) :
    (outs g es)[k]? = some o ↔
      (k < es.length ∧ verdict (toDnf (normalize g)) (know es k) = o ∧
        ∀ j, j < k → verdict (toDnf (normalize g)) (know es j) = .quiet) := by
  simp only [outs, init_abs, run_eq_specRun]
  exact specRun_spec _ o ho es {} k

open NemoVerif.GroupFlow in
theorem know_disj (es : List FEv) (k : Nat) : (know es k).Disj :=
  knowFrom_disj _ _ (fun _ h => by cases h)

/-- **await_group_same_formula.**  `await g` over flows (one group of arbitrary nesting): the element after the statement is
    reached while processing `es[k]` iff `k` is the least index at which the set of flows that have FINISHED satisfies the
    formula — the same formula as for `match`, over the flows' Finished events.  A flow that failed never counts. -/
theorem await_group_same_formula (g : G) (es : List GroupFlow.FEv) (k : Nat) :
    (GroupFlow.outs g es)[k]? = some .marker ↔
      (k < es.length ∧ eval (GroupFlow.know es k).finished g = true ∧
        ∀ j, j < k → eval (GroupFlow.know es j).finished g = false) := by
  open NemoVerif.GroupFlow in
  rw [flow_run_spec g es k .marker (by decide)]
  have hsat : ∀ i, satK (toDnf (normalize g)) (know es i) = eval (know es i).finished g := by
    intro i; rw [satK_eq _ _ (know_disj es i)]; exact normalize_sound g _
  constructor
  · rintro ⟨hk, hv, hall⟩
    refine ⟨hk, ?_, ?_⟩
    · rw [← hsat]
      simp only [verdict] at hv
      split at hv
      · assumption
      · split at hv <;> cases hv
    · intro j hj
      rw [← hsat]
      have := hall j hj
      simp only [verdict] at this
      split at this
      · cases this
      · rename_i h; simpa using h
  · rintro ⟨hk, hs, hall⟩
    refine ⟨hk, ?_, ?_⟩
    · simp only [verdict, hsat, hs, if_true]
    · intro j hj
      have hsj : satK (toDnf (normalize g)) (know es j) = false := by rw [hsat]; exact hall j hj
      have hsk : satK (toDnf (normalize g)) (know es k) = true := by rw [hsat]; exact hs
      have huj : unsatK (toDnf (normalize g)) (know es j) = false := by
        cases hu : unsatK (toDnf (normalize g)) (know es j) with
        | false => rfl
        | true =>
          have := unsatK_mono _ _ (know es k) (know_mono {} es j k (Nat.le_of_lt hj)).2 hu
          rw [sat_not_unsat _ _ hsk] at this; cases this
      simp only [verdict, hsj, huj, Bool.false_eq_true, if_false]

/-- **Failure path.**  The statement takes its failure path (`Abort` for `await` and for `when` without `else`, the else
    branch otherwise) while processing `es[k]` iff `k` is the least index at which the formula can no longer be satisfied:
    it is false even if every flow that has not FAILED finished.  (A child that fails makes its atom permanently false; the
    group fails exactly when the formula becomes unsatisfiable — checked on the real code by the ops awaitf / whenf / whenfe.) -/
theorem group_fails_iff_unsatisfiable (g : G) (es : List GroupFlow.FEv) (k : Nat) :
    (GroupFlow.outs g es)[k]? = some .failed ↔
      (k < es.length ∧ eval (GroupFlow.know es k).possible g = false ∧
        ∀ j, j < k → eval (GroupFlow.know es j).possible g = true) := by
  open NemoVerif.GroupFlow in
  rw [flow_run_spec g es k .failed (by decide)]
  have hun : ∀ i, unsatK (toDnf (normalize g)) (know es i) = !eval (know es i).possible g := by
    intro i; rw [unsatK_eq]; congr 1; exact normalize_sound g _
  constructor
  · rintro ⟨hk, hv, hall⟩
    refine ⟨hk, ?_, ?_⟩
    · simp only [verdict] at hv
      split at hv
      · cases hv
      · split at hv
        · rename_i h; rw [hun] at h; simpa using h
        · cases hv
    · intro j hj
      have := hall j hj
      simp only [verdict] at this
      split at this
      · cases this
      · split at this
        · cases this
        · rename_i h; rw [hun] at h; simpa using h
  · rintro ⟨hk, hs, hall⟩
    have huk : unsatK (toDnf (normalize g)) (know es k) = true := by rw [hun, hs]; rfl
    have hsk : satK (toDnf (normalize g)) (know es k) = false := by
      cases h : satK (toDnf (normalize g)) (know es k) with
      | false => rfl
      | true => rw [sat_not_unsat _ _ h] at huk; cases huk
    refine ⟨hk, ?_, ?_⟩
    · simp only [verdict, hsk, huk, Bool.false_eq_true, if_false, if_true]
    · intro j hj
      have huj : unsatK (toDnf (normalize g)) (know es j) = false := by rw [hun, hall j hj]; rfl
      have hsj : satK (toDnf (normalize g)) (know es j) = false := by
        cases h : satK (toDnf (normalize g)) (know es j) with
        | false => rfl
        | true =>
          have := satK_mono _ _ (know es k) (know_disj es k) (know_mono {} es j k (Nat.le_of_lt hj)).1 h
          rw [hsk] at this; cases this
      simp only [verdict, hsj, huj, Bool.false_eq_true, if_false]

/-- **when_group_same_formula.**  A `when g` case over flows is expanded to the same per-clause code as `await g`
    (`readBack_expandWhen`, `readBackAwait_expandAwait`: per clause its own flow instances and the and-template over
    `$ref.Finished()`); its run-time behaviour is the same machine: the case body is reached exactly at the least index at
    which the finished flows satisfy the formula, the else branch (or `Abort`) exactly when the formula becomes unsatisfiable. -/
theorem when_group_same_formula (g : G) (es : List GroupFlow.FEv) (k : Nat) :
    ((GroupFlow.outs g es)[k]? = some .marker ↔
      (k < es.length ∧ eval (GroupFlow.know es k).finished g = true ∧
        ∀ j, j < k → eval (GroupFlow.know es j).finished g = false)) ∧
    ((GroupFlow.outs g es)[k]? = some .failed ↔
      (k < es.length ∧ eval (GroupFlow.know es k).possible g = false ∧
        ∀ j, j < k → eval (GroupFlow.know es j).possible g = true)) :=
  ⟨await_group_same_formula g es k, group_fails_iff_unsatisfiable g es k⟩

/-- with no failures the flow-level machine is the clause machine of `match`: "flow `a` finished" plays the role of event `a` -/
theorem flow_marker_eq_match_marker (g : G) (es : List Nat) (k : Nat) :
    (GroupFlow.outs g (es.map GroupFlow.FEv.fin))[k]? = some .marker ↔ (markers g es)[k]? = some true := by
  rw [await_group_same_formula, group_completes_at_first_sat]
  have hfin : ∀ j, (GroupFlow.know (es.map GroupFlow.FEv.fin) j).finished = seen es j := by
    intro j
    funext a
    simp only [GroupFlow.know, GroupFlow.Know.finished, seen, ← List.map_take]
    rw [(GroupFlow.knowFrom_fin (es.take (j + 1)) {} rfl).2 a]
    simp
  simp only [hfin, List.length_map]
/-- Marker and failure exclude each other and each happens at most once: at most one index of a run is not quiet. -/
theorem flow_outcome_at_most_once (g : G) (es : List GroupFlow.FEv) (i j : Nat) (oi oj : GroupFlow.Out)
    (hoi : oi ≠ .quiet) (hoj : oj ≠ .quiet)
    (hi : (GroupFlow.outs g es)[i]? = some oi) (hj : (GroupFlow.outs g es)[j]? = some oj) : i = j := by
  obtain ⟨_, hvi, halli⟩ := (flow_run_spec g es i oi hoi).1 hi
  obtain ⟨_, hvj, hallj⟩ := (flow_run_spec g es j oj hoj).1 hj
  rcases Nat.lt_trichotomy i j with h | h | h
  · have := hallj i h; rw [hvi] at this; exact absurd this hoi
  · exact h
  · have := halli j h; rw [hvj] at this; exact absurd this hoj

/-- **Clean-up of the losers.**  Once the statement has completed or failed (some output of the run is not `quiet`), no
    child flow of the group is running any more: `EndScope` stopped the flows of the other clauses. -/
theorem children_stopped_after_completion (g : G) (es : List GroupFlow.FEv)
    (h : ∃ o ∈ GroupFlow.outs g es, o ≠ GroupFlow.Out.quiet) :
    (GroupFlow.stateAfter (GroupFlow.init (toDnf (normalize g))) es).children = [] := by
  apply GroupFlow.stateAfter_children_nil _ _ rfl
  cases hl : (GroupFlow.stateAfter (GroupFlow.init (toDnf (normalize g))) es).live with
  | false => rfl
  | true =>
    obtain ⟨o, ho, hne⟩ := h
    exact absurd ((GroupFlow.stateAfter_live_iff es _ rfl).1 hl o ho) hne

/-! ## non-vacuity and kernel-evaluated tests (labelled as tests: finite facts) -/

/-- the running example `(A and (B or C)) or D` with A=0, B=1, C=2, D=3, irrelevant event 9 -/
def ex1 : G := .or [.and [.atom 0, .or [.atom 1, .atom 2]], .atom 3]

-- test: distribution produces the clauses [A,B], [A,C], [D]
example : toDnf (normalize ex1) = [[0, 1], [0, 2], [3]] := by decide
-- test: B, irrelevant, B again, then A completes the group at index 3 and never again
example : markers ex1 [1, 9, 1, 0, 3, 0] = [false, false, false, true, false, false] := by decide
-- non-vacuity of `hne` in `group_completed_iff_set_sat` / `order_independent`
example : eval (fun _ => false) ex1 = false := by decide
-- non-vacuity of `marker_never_before`
example : eval (seen [1, 9, 1, 0] 2) ex1 = false := by decide
-- test: the checker rejects an and-template whose WaitForHeads number is one too small / whose merge precedes the wait
example : readBack [.catchPF (some 1), .fork 0 [3, 4], .label 3, .matchEv 0, .goto 2, .label 4, .matchEv 1, .goto 2,
    .label 1, .merge 0, .catchPF none, .abort, .label 2, .wait 1, .merge 0, .catchPF none] = none := by decide
example : readBack [.catchPF (some 1), .fork 0 [3, 4], .label 3, .matchEv 0, .goto 2, .label 4, .matchEv 1, .goto 2,
    .label 1, .merge 0, .catchPF none, .abort, .label 2, .merge 0, .wait 2, .catchPF none] = none := by decide
example : readBack [.catchPF (some 1), .fork 0 [3, 4], .label 3, .matchEv 0, .goto 2, .label 4, .matchEv 1, .goto 2,
    .label 1, .merge 0, .catchPF none, .abort, .label 2, .wait 2, .merge 0, .catchPF none] = some [[0, 1]] := by decide
-- non-vacuity of `hne` in the head-level theorems; tests of the machine with two clauses completing at the same event
example : ∀ c ∈ toDnf (normalize ex1), c ≠ [] := by decide
example : ex1.noEmptyAnd = true := by decide
example : vmMarkers [[0, 1], [0]] [1, 0] [0] = [false, true] := by decide
example : vmMarkers [[0, 1], [0]] [1, 0] [1] = [false, true] := by decide
-- tests of the flow-level machine on `(f0 and f1) or f2`: f0 fails, f1 finishes, f2 fails -> failure path at index 2; f2 finishes -> marker
example : GroupFlow.outs (.or [.and [.atom 0, .atom 1], .atom 2]) [.fail 0, .fin 1, .fail 2, .fin 0] = [.quiet, .quiet, .failed, .quiet] := by decide
example : GroupFlow.outs (.or [.and [.atom 0, .atom 1], .atom 2]) [.fail 0, .fin 1, .fin 2] = [.quiet, .quiet, .marker] := by decide
-- non-vacuity of `children_stopped_after_completion`; before completion the losers are still running
example : ∃ o ∈ GroupFlow.outs ex1 [.fin 1, .fin 0], o ≠ GroupFlow.Out.quiet := by decide
example : (GroupFlow.stateAfter (GroupFlow.init (toDnf (normalize ex1))) [.fin 1]).children = [(0, 0), (1, 0), (1, 2), (2, 3)] := by decide
-- test: the when checker accepts the mirror for `when (f0 and E1) or f2 / send M0 … else send ME` and recovers the clauses
example : readBackWhen [[.send 0], [.send 1]] (some [.send 99])
    (expandWhen (fun a => a == 0 || a == 2) [(.or [.and [.atom 0, .atom 1], .atom 2], [.send 0]), (.atom 3, [.send 1])] (some [.send 99]))
    = some [[[0, 1], [2]], [[3]]] := by decide
-- the hypothesis `hne` excludes exactly groups like `and []` (not expressible in Colang source)
example : eval (fun _ => false) (.and []) = true := by decide


/-! concrete CoreVM states for the non-vacuity examples: `match E0() and E1()` resp. `match E0() or E1()` as the interpreter sees them
    (templates of `_expand_match_element` at positions 1 … 16, one element before), after the root head `h0` has forked `h1`, `h2` -/
def exSpec (n : String) : CoreVM.Spec := { name := some n, specType := .event, args := [], ref := none, members := none, varName := none }
def exCfgAnd : CoreVM.FlowCfg :=
  { id := "main",
    elements := #[.other, .catchFail (some "f"), .fork "u" ["l0", "l1"],
      .label "l0", .matchOp (exSpec "E0") false, .goto (.lit (.bool true)) "e",
      .label "l1", .matchOp (exSpec "E1") false, .goto (.lit (.bool true)) "e",
      .label "f", .merge "u", .catchFail none, .abort,
      .label "e", .waitHeads 2, .merge "u", .catchFail none],
    labels := [("l0", 3), ("l1", 6), ("f", 9), ("e", 13)],
    params := [], returnMembers := [], loopId := none, loopPriority := 0, metaTags := [] }
def exCfgOr : CoreVM.FlowCfg :=
  { exCfgAnd with
    elements := #[.other, .catchFail (some "f"), .fork "u" ["l0", "l1"],
      .label "l0", .matchOp (exSpec "E0") false, .goto (.lit (.bool true)) "e",
      .label "l1", .matchOp (exSpec "E1") false, .goto (.lit (.bool true)) "e",
      .label "f", .waitHeads 2, .merge "u", .catchFail none, .abort,
      .label "e", .merge "u", .catchFail none],
    labels := [("l0", 3), ("l1", 6), ("f", 9), ("e", 14)] }

def exIxs : CoreVM.IxS :=
  ((((({} : CoreVM.IxS).apply (.addInst "m" "h0" none) (by decide)).apply (.setPos "m" "h0" 2 none) (by decide)).apply
    (.setStatus "m" "h0" .inactive none) (by decide)).apply (.fork "m" "h1" none 4 none) (by decide)).apply
    (.fork "m" "h2" none 7 none) (by decide)

def exX : CoreVM.InstX := { flowId := "main", loopId := none, hierPos := "" }
def exVM (cfg : CoreVM.FlowCfg) : CoreVM.VM := { ixs := exIxs, r := { prog := { flows := [cfg] }, fx := [("m", exX)] } }
def exInst : CoreIndex.Inst := { uid := "m", status := .waiting, heads := [
  { uid := "h0", pos := 2, status := .inactive, elem := none }, { uid := "h1", pos := 4, status := .active, elem := none },
  { uid := "h2", pos := 7, status := .active, elem := none }] }

-- non-vacuity of `groupvm_is_corevm_partial`: both member heads of `match E0() and E1()`, event E0
example : ∃ s' i', CoreVM.runMembers 4 "m" (CoreVM.matchingU 0 [("h1", 4), ("h2", 7)] [(0, .atMatch), (1, .atMatch)]) (exVM exCfgAnd) = .ok () s' ∧
    CoreVM.FlowAt s' "m" i' exX exCfgAnd ∧ s'.r = (exVM exCfgAnd).r ∧
    CoreVM.hview i' = [("h0", 2, .inactive)] ++ CoreVM.renderU 14 [("h1", 4), ("h2", 7)] (p1Members 0 2 [] [(0, .atMatch), (1, .atMatch)]) :=
  groupvm_is_corevm_partial 1 (exVM exCfgAnd) "m" exInst exX exCfgAnd "e" "u" 13 2 0 [("h0", 2, .inactive)] [("h1", 4), ("h2", 7)]
    [(0, .atMatch), (1, .atMatch)]
    { hi := rfl, hx := rfl, hc := rfl } rfl
    { hl := rfl, hsize := by decide, hw := rfl, hm := rfl }
    (by intro u hu; simp at hu; rcases hu with rfl | rfl <;> exact ⟨rfl, by decide⟩)
    rfl (by decide) rfl rfl



-- non-vacuity of `groupvm_is_corevm_partial_expandAnd`: a flow configuration built from the mirror's own output for the clause [0, 1]
def exCfgGen : CoreVM.FlowCfg :=
  { exCfgAnd with
    elements := (CoreVM.Prim.other :: (expandAnd [0, 1] 0).1.map (CoreVM.toCore fun a => exSpec (if a = 0 then "E0" else "E1"))).toArray,
    labels := [(CoreVM.nmOf 3, 3), (CoreVM.nmOf 4, 6), (CoreVM.nmOf 1, 9), (CoreVM.nmOf 2, 13)] }
example : CoreVM.ContainsAt exCfgGen (fun a => exSpec (if a = 0 then "E0" else "E1")) 1 (expandAnd [0, 1] 0).1 ∧
    exCfgGen.label (CoreVM.nmOf (0 + 2)) = some (1 + 2 + 3 * [0, 1].length + 4) := by
  refine ⟨⟨by decide, ?_⟩, by decide⟩
  intro j hj
  have : j < 16 := hj
  rcases j with _|_|_|_|_|_|_|_|_|_|_|_|_|_|_|_|j <;> first | rfl | omega
-- non-vacuity of `groupvm_is_corevm_partial_or`: both branch heads of `match E0() or E1()`, event E1
example : ∃ s' i', CoreVM.runMembers 3 "m" (CoreVM.matchingB 1 [("h1", 4), ("h2", 7)] [.single 0, .single 1]) (exVM exCfgOr) = .ok () s' ∧
    CoreVM.FlowAt s' "m" i' exX exCfgOr ∧ s'.r = (exVM exCfgOr).r ∧
    CoreVM.hview i' = [("h0", 2, .inactive)] ++ CoreVM.renderB 15 [("h1", 4), ("h2", 7)] (p1Brs 1 0 [.single 0, .single 1]).1 ∧
    i'.status = exInst.status :=
  groupvm_is_corevm_partial_or 1 (exVM exCfgOr) "m" exInst exX exCfgOr "e" "u" 14 1 [("h0", 2, .inactive)] [("h1", 4), ("h2", 7)]
    [.single 0, .single 1]
    { hi := rfl, hx := rfl, hc := rfl } rfl
    { hl := rfl, hsize := by decide, hm := rfl }
    (by intro u hu; simp at hu; rcases hu with rfl | rfl <;> exact ⟨rfl, by decide⟩)
    rfl rfl (by decide) rfl
-- test: what the theorem's conclusion says on the and-example: E0 arrives, h1 parks on WaitForHeads (position 14), h2 stays
example : CoreVM.renderU 14 [("h1", 4), ("h2", 7)] (p1Members 0 2 [] [(0, .atMatch), (1, .atMatch)])
    = [("h1", 14, .active), ("h2", 7, .active)] := by decide

/-! non-vacuity: concrete CoreVM states -/

/-- before the fork: the root head `h0` ACTIVE on `CatchPatternFailure` (position 1) -/
def exIxsRoot : CoreVM.IxS :=
  (({} : CoreVM.IxS).apply (.addInst "m" "h0" none) (by decide)).apply (.setPos "m" "h0" 1 none) (by decide)
def exVMRoot : CoreVM.VM := { ixs := exIxsRoot, r := { prog := { flows := [exCfgAnd] }, fx := [("m", exX)] } }
def exInstRoot : CoreIndex.Inst := { uid := "m", status := .waiting, heads := [{ uid := "h0", pos := 1, status := .active, elem := none }] }

theorem uidOf_ne_h0 (m : Nat) : CoreVM.uidOf m ≠ "h0" := by
  intro e
  have := congrArg String.toList e
  simp only [CoreVM.uidOf, toString, String.toList_append] at this
  cases this

-- non-vacuity of `groupvm_is_corevm_partial_fork`: every hypothesis holds of the root head of `match E0() and E1()` before the fork
example :=
  groupvm_is_corevm_partial_fork 1 exVMRoot "m" "h0" exInstRoot exX exCfgAnd { uid := "h0", pos := 1, status := .active, elem := none }
    "f" "u" [("l0", 3), ("l1", 6)]
    { hi := rfl, hx := rfl, hc := rfl, hh := rfl, hlt := by decide, hst := by decide } rfl rfl rfl (by decide) rfl
    (by
      intro lp hlp
      simp at hlp
      rcases hlp with rfl | rfl
      · exact ⟨rfl, by decide, CoreVM.notMatchAt_of _ _ _ (by decide) rfl rfl⟩
      · exact ⟨rfl, by decide, CoreVM.notMatchAt_of _ _ _ (by decide) rfl rfl⟩)
    (by
      intro lp hlp
      simp at hlp
      rcases hlp with rfl | rfl
      · exact ⟨by decide, exSpec "E0", false, "E0", rfl, rfl, rfl, rfl⟩
      · exact ⟨by decide, exSpec "E1", false, "E1", rfl, rfl, rfl, rfl⟩)
    (by decide)
    (by intro m _ hm; simp [exInstRoot, CoreIndex.Inst.headUids] at hm; exact uidOf_ne_h0 m hm)

/-- after phase 1 of `match E0() and E1()` with both events received: `h1` parked on the wait element, `h2` MERGING -/
def exIxsMerging : CoreVM.IxS :=
  (((((({} : CoreVM.IxS).apply (.addInst "m" "h0" none) (by decide)).apply (.setPos "m" "h0" 2 none) (by decide)).apply
    (.setStatus "m" "h0" .inactive none) (by decide)).apply (.fork "m" "h1" none 14 none) (by decide)).apply
    (.fork "m" "h2" none 15 none) (by decide)).apply (.setStatus "m" "h2" .merging none) (by decide)
def exXFork : CoreVM.InstX := { exX with forkUids := [("u", "h0")] }
def exVMMerging : CoreVM.VM :=
  { ixs := exIxsMerging,
    r := { prog := { flows := [exCfgAnd] }, fx := [("m", exXFork)], hx := [(("m", "h0"), { childHeadUids := ["h1", "h2"] })] } }
def exInstMerging : CoreIndex.Inst := { uid := "m", status := .waiting, heads := [
  { uid := "h0", pos := 2, status := .inactive, elem := none }, { uid := "h1", pos := 14, status := .active, elem := none },
  { uid := "h2", pos := 15, status := .merging, elem := none }] }

-- non-vacuity of `groupvm_is_corevm_partial_merge`
example :=
  groupvm_is_corevm_partial_merge 1 exVMMerging "m" exInstMerging exXFork exCfgAnd "e" "u" 13 2 2 "h0" [("h1", 4), ("h2", 7)]
    [(0, .atWait), (1, .merging)] 1 ("h2", 7) 1
    { hi := rfl, hx := rfl, hc := rfl } { hl := rfl, hsize := by decide, hw := rfl, hm := rfl } rfl rfl (by decide) rfl rfl
    (by
      intro j' m' h1 h2
      rcases j' with _ | _ | j'
      · simp at h1; subst h1; exact Or.inl rfl
      · exact absurd rfl h2
      · simp at h1)
    rfl rfl (by intro c hc; simp at hc; rcases hc with rfl | rfl <;> rfl) (by decide) (by decide)


/-- the state of `exVM` with the fork registered and the children recorded (as the fork segment leaves it) -/
def exVMFull (cfg : CoreVM.FlowCfg) : CoreVM.VM :=
  { ixs := exIxs, r := { prog := { flows := [cfg] }, fx := [("m", exXFork)], hx := [(("m", "h0"), { childHeadUids := ["h1", "h2"] })] } }

-- non-vacuity of `groupvm_is_corevm_partial_and_event`: `match E0() and E1()`, both heads on their match elements, event E0
example :=
  groupvm_is_corevm_partial_and_event 1 (exVMFull exCfgAnd) "m" exInst exXFork exCfgAnd "e" "u" 13 2 0 "h0" [("h1", 4), ("h2", 7)]
    [(0, .atMatch), (1, .atMatch)]
    { hi := rfl, hx := rfl, hc := rfl } rfl { hl := rfl, hsize := by decide, hw := rfl, hm := rfl }
    (by intro u hu; simp at hu; rcases hu with rfl | rfl <;> exact ⟨rfl, by decide⟩)
    rfl (by decide) (by intro m hm; simp at hm; rcases hm with rfl | rfl <;> exact Or.inl rfl) rfl rfl rfl
    (by intro c hc; simp at hc; rcases hc with rfl | rfl <;> rfl) (by decide) (by decide)

-- non-vacuity of `groupvm_is_corevm_partial_or_event`: `match E0() or E1()`, event E1: the second branch completes the group
example :=
  groupvm_is_corevm_partial_or_event 1 (exVMFull exCfgOr) "m" exInst exXFork exCfgOr "e" "u" 14 2 1 "h0" [("h1", 4), ("h2", 7)]
    [.single 0, .single 1] 1 ("h2", 7)
    { hi := rfl, hx := rfl, hc := rfl } rfl { hl := rfl, hsize := by decide, hm := rfl }
    (by intro u hu; simp at hu; rcases hu with rfl | rfl <;> exact ⟨rfl, by decide⟩)
    rfl rfl (by decide) rfl rfl (by decide)
    (by
      intro j' m' h1 h2
      rcases j' with _ | _ | j'
      · have : m' = Br.single 0 := by
          have : (p1Brs 1 0 [Br.single 0, Br.single 1]).1[0]? = some (Br.single 0) := by decide
          rw [this] at h1; cases h1; rfl
        exact ⟨0, this⟩
      · exact absurd rfl h2
      · have : (p1Brs 1 0 [Br.single 0, Br.single 1]).1.length = 2 := by decide
        have : (p1Brs 1 0 [Br.single 0, Br.single 1]).1[j' + 2]? = none := List.getElem?_eq_none (by omega)
        rw [this] at h1; cases h1)
    (by decide) rfl rfl (by intro c hc; simp at hc; rcases hc with rfl | rfl <;> rfl) (by decide) (by decide)

/-- `match E0() or E0()` after event E0: both branch heads MERGING on the or-level `MergeHeads` (position 15), one recorded tie-break -/
def exIxsTwo : CoreVM.IxS :=
  ((((((({} : CoreVM.IxS).apply (.addInst "m" "h0" none) (by decide)).apply (.setPos "m" "h0" 2 none) (by decide)).apply
    (.setStatus "m" "h0" .inactive none) (by decide)).apply (.fork "m" "h1" none 15 none) (by decide)).apply
    (.fork "m" "h2" none 15 none) (by decide)).apply (.setStatus "m" "h1" .merging none) (by decide)).apply
    (.setStatus "m" "h2" .merging none) (by decide)
def exVMTwo (choices : List Nat) : CoreVM.VM :=
  { ixs := exIxsTwo,
    r := { prog := { flows := [exCfgOr] }, fx := [("m", exXFork)], hx := [(("m", "h0"), { childHeadUids := ["h1", "h2"] })],
           choices := choices } }
def exInstTwo : CoreIndex.Inst := { uid := "m", status := .waiting, heads := [
  { uid := "h0", pos := 2, status := .inactive, elem := none }, { uid := "h1", pos := 15, status := .merging, elem := none },
  { uid := "h2", pos := 15, status := .merging, elem := none }] }

-- non-vacuity of `groupvm_is_corevm_partial_merge_choice`: `random.choice` returns index 0 = the head `h1` that is being advanced
example :=
  groupvm_is_corevm_partial_merge_choice 1 (exVMTwo [0]) "m" "h1" exInstTwo exXFork exCfgOr
    { uid := "h1", pos := 15, status := .merging, elem := none } { uid := "h0", pos := 2, status := .inactive, elem := none }
    "u" "h0" ["h1", "h2"]
    { hi := rfl, hx := rfl, hc := rfl, hh := rfl, hlt := by decide, hst := by decide } rfl rfl rfl rfl rfl
    (by intro c hc; simp at hc; rcases hc with rfl | rfl <;> rfl)
    (by intro c hc; simp at hc; rcases hc with rfl | rfl <;> exact ⟨_, rfl⟩)
    ["h1", "h2"] (by decide)
    (Or.inr ⟨0, [], [], rfl, by decide, rfl, by decide, by intro k hk; simp at hk; rcases hk with rfl | rfl <;> rfl⟩)
    (by decide) (by decide) (by decide) (by decide) rfl (by decide) (by decide) (by decide)

-- non-vacuity of `groupvm_is_corevm_partial_merge_lose`: `random.choice` returns index 1 = the other head
example :=
  groupvm_is_corevm_partial_merge_lose 1 (exVMTwo [1]) "m" "h1" exInstTwo exXFork exCfgOr
    { uid := "h1", pos := 15, status := .merging, elem := none } { uid := "h0", pos := 2, status := .inactive, elem := none }
    "u" "h0" ["h1", "h2"]
    { hi := rfl, hx := rfl, hc := rfl, hh := rfl, hlt := by decide, hst := by decide } rfl rfl rfl rfl rfl
    (by intro c hc; simp at hc; rcases hc with rfl | rfl <;> rfl)
    (by intro c hc; simp at hc; rcases hc with rfl | rfl <;> exact ⟨_, rfl⟩)
    ["h1", "h2"] (by decide) 1 [] [] "h2" rfl (by decide) rfl (by decide) (by decide)
    (by intro k hk; simp at hk; rcases hk with rfl | rfl <;> rfl)
    (by decide) (by decide) (by decide) (by decide) rfl (by decide) (by decide) (by decide)

/-- `match E0() or E0()` before the event, with a recorded tie-break -/
def exVMOr2 (choices : List Nat) : CoreVM.VM :=
  { ixs := exIxs, r := { prog := { flows := [exCfgOr] }, fx := [("m", exXFork)], hx := [(("m", "h0"), { childHeadUids := ["h1", "h2"] })],
                          choices := choices } }

-- non-vacuity of `groupvm_is_corevm_partial_or_event_all`: both branches wait for atom 0, `random.choice` returns 1 (the first head loses)
example :=
  groupvm_is_corevm_partial_or_event_all 1 (exVMOr2 [1]) "m" exInst exXFork exCfgOr "e" "u" 14 2 0 "h0" [("h1", 4), ("h2", 7)]
    [.single 0, .single 0] [] 1
    { F := { hi := rfl, hx := rfl, hc := rfl }, C := { hl := rfl, hsize := by decide, hm := rfl }, hv := rfl, hlen := rfl,
      hndu := by decide, hfu := rfl, hhx := rfl,
      hleaf := by intro c hc; simp at hc; rcases hc with rfl | rfl <;> rfl,
      hsc := by intro c hc; simp at hc; rcases hc with rfl | rfl <;> rfl,
      hmu := by decide, hfp := by decide, hns := by decide }
    rfl (by intro u hu; simp at hu; rcases hu with rfl | rfl <;> exact ⟨rfl, by decide⟩)
    rfl (by decide) (by decide) ⟨by decide, Or.inr trivial⟩

-- non-vacuity of `groupvm_is_corevm_partial_and_run`: `match E0() and E1()` with both member heads on their match elements; ANY event sequence
example (es : List Nat) :=
  groupvm_is_corevm_partial_and_run 1 "m" exXFork exCfgAnd "e" "u" 13 2 "h0" [("h1", 4), ("h2", 7)] 2 rfl
    { hl := rfl, hsize := by decide, hw := rfl, hm := rfl }
    (by intro u hu; simp at hu; rcases hu with rfl | rfl <;> exact ⟨rfl, by decide⟩)
    (by decide) rfl (by decide) (by decide) es (exVMFull exCfgAnd) exInst [(0, .atMatch), (1, .atMatch)]
    { hi := rfl, hx := rfl, hc := rfl } rfl rfl
    (by intro m hm; simp at hm; rcases hm with rfl | rfl <;> exact Or.inl rfl) (by decide) rfl rfl
    (by intro c hc; simp at hc; rcases hc with rfl | rfl <;> rfl)

theorem uidOf_ne_u (m : Nat) : CoreVM.uidOf m ≠ "u" := by
  intro e
  have := congrArg String.toList e
  simp only [CoreVM.uidOf, toString, String.toList_append] at this
  have h2 := congrArg List.length this
  simp at h2

/-- the root head of `match E0() and E1()` on `CatchPatternFailure`, with its HeadX record -/
def exVMRoot2 : CoreVM.VM :=
  { ixs := exIxsRoot, r := { prog := { flows := [exCfgAnd] }, fx := [("m", exX)], hx := [(("m", "h0"), {})] } }

-- non-vacuity of `groupvm_is_corevm_partial_and_group`: ANY event sequence
example (es : List Nat) :=
  groupvm_is_corevm_partial_and_group 1 exVMRoot2 "m" "h0" exInstRoot exX exCfgAnd { uid := "h0", pos := 1, status := .active, elem := none }
    "f" "u" "e" [("l0", 3), ("l1", 6)] [0, 1] 13 {}
    { hi := rfl, hx := rfl, hc := rfl, hh := rfl, hlt := by decide, hst := by decide } rfl rfl rfl (by decide) rfl
    (by
      intro lp hlp
      simp at hlp
      rcases hlp with rfl | rfl
      · exact ⟨rfl, by decide, CoreVM.notMatchAt_of _ _ _ (by decide) rfl rfl⟩
      · exact ⟨rfl, by decide, CoreVM.notMatchAt_of _ _ _ (by decide) rfl rfl⟩)
    (by
      intro lp hlp
      simp at hlp
      rcases hlp with rfl | rfl
      · exact ⟨by decide, exSpec "E0", false, "E0", rfl, rfl, rfl, rfl⟩
      · exact ⟨by decide, exSpec "E1", false, "E1", rfl, rfl, rfl, rfl⟩)
    rfl
    (by intro m _ hm; simp [exInstRoot, CoreIndex.Inst.headUids] at hm; exact uidOf_ne_h0 m hm)
    rfl rfl rfl
    (by
      intro m _
      have : (("m", CoreVM.uidOf m) : CoreIndex.Key) ≠ ("m", "h0") := by
        intro e; exact uidOf_ne_h0 m (by simpa using e)
      have h2 : ¬ ("h0" = CoreVM.uidOf m) := fun e => uidOf_ne_h0 m e.symm
      simp [exVMRoot2, OMap.lookup, this, h2])
    uidOf_ne_u
    { hl := rfl, hsize := by decide, hw := rfl, hm := rfl }
    (by intro lp hlp; simp at hlp; rcases hlp with rfl | rfl <;> exact ⟨rfl, by decide⟩)
    (by decide) rfl (by decide) es

-- non-vacuity of `groupvm_is_corevm_partial_or_run`: `match E0() or E0()` (both branches wait for atom 0), ANY event sequence
example (es : List Nat) :=
  groupvm_is_corevm_partial_or_run 1 "m" exXFork exCfgOr "e" "u" 14 2 "h0" [("h1", 4), ("h2", 7)] [0, 0] [] rfl
    (by intro u hu; simp at hu; rcases hu with rfl | rfl <;> exact ⟨rfl, by decide⟩) rfl es (exVMOr2 [0, 0]) exInst
    { F := { hi := rfl, hx := rfl, hc := rfl }, C := { hl := rfl, hsize := by decide, hm := rfl }, hv := rfl, hlen := rfl,
      hndu := by decide, hfu := rfl, hhx := rfl,
      hleaf := by intro c hc; simp at hc; rcases hc with rfl | rfl <;> rfl,
      hsc := by intro c hc; simp at hc; rcases hc with rfl | rfl <;> rfl,
      hmu := by decide, hfp := by decide, hns := by decide }
    (by
      intro n hn
      have : n ≤ 2 := hn
      rcases n with _ | _ | _ | n
      · trivial
      · trivial
      · exact ⟨by decide, Or.inl rfl⟩
      · omega)

/-- `match E0() and E1()` followed by `send Hit()`: the root head back ACTIVE on the last `MergeHeads` (position 15) -/
def exCfgAndHit : CoreVM.FlowCfg :=
  { exCfgAnd with elements := exCfgAnd.elements ++ #[.sendOp (exSpec "Hit"), .matchOp (exSpec "Never") false] }
def exIxsExit : CoreVM.IxS :=
  (({} : CoreVM.IxS).apply (.addInst "m" "h0" none) (by decide)).apply (.setPos "m" "h0" 15 none) (by decide)
def exVMExit : CoreVM.VM :=
  { ixs := exIxsExit, r := { prog := { flows := [exCfgAndHit] }, fx := [("m", exX)], hx := [(("m", "h0"), { catchLabels := ["f"] })] } }

-- non-vacuity of `groupvm_is_corevm_partial_exit`
example :=
  groupvm_is_corevm_partial_exit 1 exVMExit "m" "h0" { uid := "m", status := .waiting, heads := [{ uid := "h0", pos := 15, status := .active, elem := none }] }
    exX exCfgAndHit { uid := "h0", pos := 15, status := .active, elem := none } (exSpec "Hit") "Hit"
    { hi := rfl, hx := rfl, hc := rfl, hh := rfl, hlt := by decide, hst := by decide } (by decide) rfl rfl ⟨rfl, rfl, rfl⟩ rfl (by decide) rfl

/-- the root head of `match E0() or E1()` on `CatchPatternFailure`, with its HeadX record and recorded tie-breaks -/
def exVMRootOr : CoreVM.VM :=
  { ixs := exIxsRoot, r := { prog := { flows := [exCfgOr] }, fx := [("m", exX)], hx := [(("m", "h0"), {})], choices := [0, 0] } }

-- non-vacuity of `groupvm_is_corevm_partial_or_group`: ANY event sequence
example (es : List Nat) :=
  groupvm_is_corevm_partial_or_group 1 exVMRootOr "m" "h0" exInstRoot exX exCfgOr { uid := "h0", pos := 1, status := .active, elem := none }
    "f" "u" "e" [("l0", 3), ("l1", 6)] [0, 1] 14 {}
    { hi := rfl, hx := rfl, hc := rfl, hh := rfl, hlt := by decide, hst := by decide } rfl rfl rfl (by decide) rfl
    (by
      intro lp hlp
      simp at hlp
      rcases hlp with rfl | rfl
      · exact ⟨rfl, by decide, CoreVM.notMatchAt_of _ _ _ (by decide) rfl rfl⟩
      · exact ⟨rfl, by decide, CoreVM.notMatchAt_of _ _ _ (by decide) rfl rfl⟩)
    (by
      intro lp hlp
      simp at hlp
      rcases hlp with rfl | rfl
      · exact ⟨by decide, exSpec "E0", false, "E0", rfl, rfl, rfl, rfl⟩
      · exact ⟨by decide, exSpec "E1", false, "E1", rfl, rfl, rfl, rfl⟩)
    rfl
    (by intro m _ hm; simp [exInstRoot, CoreIndex.Inst.headUids] at hm; exact uidOf_ne_h0 m hm)
    rfl rfl rfl
    (by
      intro m _
      have : (("m", CoreVM.uidOf m) : CoreIndex.Key) ≠ ("m", "h0") := by
        intro e; exact uidOf_ne_h0 m (by simpa using e)
      have h2 : ¬ ("h0" = CoreVM.uidOf m) := fun e => uidOf_ne_h0 m e.symm
      simp [exVMRootOr, OMap.lookup, this, h2])
    uidOf_ne_u
    { hl := rfl, hsize := by decide, hm := rfl }
    (by intro lp hlp; simp at hlp; rcases hlp with rfl | rfl <;> exact ⟨rfl, by decide⟩)
    (by decide) rfl
    (by
      intro n hn
      have : n ≤ 2 := hn
      rcases n with _ | _ | _ | n
      · trivial
      · trivial
      · exact ⟨by decide, Or.inl rfl⟩
      · omega)
    es

/-- the root head on the first element of the mirror's own and-template for the clause [0, 1] -/
def exVMRootGen : CoreVM.VM :=
  { ixs := exIxsRoot, r := { prog := { flows := [exCfgGen] }, fx := [("m", exX)], hx := [(("m", "h0"), {})] } }

-- non-vacuity of `groupvm_is_corevm_partial_and_group_mirror`: ANY event sequence
example (es : List Nat) :=
  groupvm_is_corevm_partial_and_group_mirror 1 exVMRootGen "m" "h0" exInstRoot exX exCfgGen
    { uid := "h0", pos := 1, status := .active, elem := none } (fun a => exSpec (if a = 0 then "E0" else "E1")) 1 0 [0, 1] {} (by decide)
    { hi := rfl, hx := rfl, hc := rfl, hh := rfl, hlt := by decide, hst := by decide } rfl rfl rfl
    ⟨by decide, by
      intro j hj
      have : j < 16 := hj
      rcases j with _|_|_|_|_|_|_|_|_|_|_|_|_|_|_|_|j <;> first | rfl | omega⟩
    (by intro j hj; have : j < 2 := hj; rcases j with _ | _ | j <;> first | rfl | omega)
    rfl (fun a => ⟨_, rfl, rfl, rfl⟩) rfl
    (by intro m _ hm; simp [exInstRoot, CoreIndex.Inst.headUids] at hm; exact uidOf_ne_h0 m hm)
    rfl rfl rfl
    (by
      intro m _
      have : (("m", CoreVM.uidOf m) : CoreIndex.Key) ≠ ("m", "h0") := by
        intro e; exact uidOf_ne_h0 m (by simpa using e)
      have h2 : ¬ ("h0" = CoreVM.uidOf m) := fun e => uidOf_ne_h0 m e.symm
      simp [exVMRootGen, OMap.lookup, this, h2])
    es

/-- **groupvm_is_corevm_partial (the interpreter model's real `_advance_head_front` on a matching member head).**  The segment theorems
    drive `slide` through the stand-in `advanceMember` (`head.position += 1; slide`).  This theorem shows that CoreVM's own
    `advanceHeadFront` — with its flow-status bookkeeping, the try/except around `slide`, the "all heads are waiting" scan, the finished /
    aborted handling and the final filter — does exactly that on a matching member head of an and-clause (flow STARTED, every head inside
    the program): the head parks on `WaitForHeads n` or ends MERGING on `MergeHeads` according to the count of parked heads, nothing
    else changes, and the head is handed back as actionable iff it is MERGING (so that the merging loop advances it again). -/
theorem groupvm_is_corevm_partial_advance_head_front (fuel : Nat) (s : CoreVM.VM) (f : CoreIndex.FUid) (h : CoreIndex.HUid)
    (i : CoreIndex.Inst) (x : CoreVM.InstX) (cfg : CoreVM.FlowCfg) (hd : CoreIndex.Head) (l u : String) (pe n : Nat)
    (H : CoreVM.HeadAt s f h i x cfg hd) (hown : x.ctxOwner = none) (hact : hd.status = .active) (hstarted : i.status = .started)
    (C : CoreVM.ClauseShape cfg l u pe n)
    (hgoto : cfg.elements[hd.pos + 1]! = .goto (.lit (.bool true)) l) (hlt : hd.pos + 1 < pe + 1)
    (hnd : ((CoreVM.hview i).map (·.1)).Nodup) (hrange : ∀ o ∈ i.heads, o.pos < cfg.elements.size) :
    ∃ s' i', CoreVM.advanceHeadFront (fuel + 4) [(f, h)] s
        = .ok (if ((CoreVM.hview i).filter fun t => t.2.2 ≠ .inactive && t.2.1 = pe + 1).length + 1 ≥ n then [(f, h)] else []) s' ∧
      CoreVM.FlowAt s' f i' x cfg ∧ s'.r = s.r ∧
      CoreVM.hview i' = (CoreVM.hview i).map
        (if ((CoreVM.hview i).filter fun t => t.2.2 ≠ .inactive && t.2.1 = pe + 1).length + 1 ≥ n
          then CoreVM.setCore h (pe + 2) .merging else CoreVM.setCore h (pe + 1) .active) :=
  CoreVM.advanceHeadFront_member fuel s f h i x cfg hd l u pe n H hown hact hstarted C hgoto hlt hnd hrange

/-- `match E0() and E1()` in a STARTED flow: the root INACTIVE on the fork, both member heads on their match elements -/
def exIxsStarted : CoreVM.IxS := exIxs.apply (.setFlowStatus "m" .started) (by decide)
def exVMStarted : CoreVM.VM := { ixs := exIxsStarted, r := { prog := { flows := [exCfgAnd] }, fx := [("m", exXFork)] } }
def exInstStarted : CoreIndex.Inst := { exInst with status := .started }

-- non-vacuity of `groupvm_is_corevm_partial_advance_head_front`
example :=
  groupvm_is_corevm_partial_advance_head_front 1 exVMStarted "m" "h1" exInstStarted exXFork exCfgAnd
    { uid := "h1", pos := 4, status := .active, elem := none } "e" "u" 13 2
    { hi := rfl, hx := rfl, hc := rfl, hh := rfl, hlt := by decide, hst := by decide } rfl rfl rfl
    { hl := rfl, hsize := by decide, hw := rfl, hm := rfl } rfl (by decide) (by decide)
    (by intro o ho; simp [exInstStarted, exInst] at ho; rcases ho with rfl | rfl | rfl <;> decide)

/-- **groupvm_is_corevm_partial (and-clause, phase 1, through the interpreter model's real `_advance_head_front`).**  The hypotheses of
    `groupvm_is_corevm_partial`, the flow STARTED and every head inside the program.  CoreVM's own `advanceHeadFront`, called with the
    LIST of member heads that wait on `match e` (what `runToCompletion` hands it for one event) — its loop with the `actionable`
    accumulator, the flow-status bookkeeping, the try/except around `slide`, the "all heads are waiting" scan and the final filter —
    ends in exactly the state `GroupVM.p1Members e n [] ms` describes, changes nothing else, and returns exactly the member heads
    that are MERGING afterwards, in order: the input of the merging loop.  Any clause size, any `n`. -/
theorem groupvm_is_corevm_partial_advance_heads (fuel : Nat) (s : CoreVM.VM) (f : CoreIndex.FUid) (i : CoreIndex.Inst) (x : CoreVM.InstX)
    (cfg : CoreVM.FlowCfg) (l mu : String) (pe n e : Nat)
    (others : List CoreVM.HCore) (us : List (CoreIndex.HUid × Nat)) (ms : List (Nat × MLoc))
    (F : CoreVM.FlowAt s f i x cfg) (hown : x.ctxOwner = none) (C : CoreVM.ClauseShape cfg l mu pe n)
    (S : CoreVM.MembersShape cfg l pe us)
    (hlen : us.length = ms.length) (hnd : (others.map (·.1) ++ us.map (·.1)).Nodup)
    (hoth : others.filter (CoreVM.liveAt (pe + 1)) = [])
    (hv : CoreVM.hview i = others ++ CoreVM.renderU (pe + 1) us ms)
    (hstarted : i.status = .started) (hrange : ∀ o ∈ i.heads, o.pos < cfg.elements.size) :
    ∃ s' i', CoreVM.advanceHeadFront (fuel + 4) ((CoreVM.matchingU e us ms).map fun h => (f, h)) s
        = .ok (((CoreVM.matchingU e us ms).filter fun h =>
            decide ((h, pe + 2, CoreIndex.HeadStatus.merging) ∈ CoreVM.hview i')).map fun h => (f, h)) s' ∧
      CoreVM.FlowAt s' f i' x cfg ∧ s'.r = s.r ∧
      CoreVM.hview i' = others ++ CoreVM.renderU (pe + 1) us (p1Members e n [] ms) := by
  obtain ⟨s', i', h1, h2, h3, h4, _⟩ :=
    CoreVM.and_clause_phase1_real fuel s f i x cfg l mu pe n e others us ms F hown C S hlen hnd hoth hv hstarted hrange
  exact ⟨s', i', h1, h2, h3, h4⟩

/-- `match E0() and E1()` in a STARTED flow, E0 already received: `h1` parked on `WaitForHeads 2`, `h2` on `match E1()` -/
def exIxsStartedWait : CoreVM.IxS :=
  (((((({} : CoreVM.IxS).apply (.addInst "m" "h0" none) (by decide)).apply (.setPos "m" "h0" 2 none) (by decide)).apply
    (.setStatus "m" "h0" .inactive none) (by decide)).apply (.fork "m" "h1" none 14 none) (by decide)).apply
    (.fork "m" "h2" none 7 none) (by decide)).apply (.setFlowStatus "m" .started) (by decide)
def exVMStartedWait : CoreVM.VM := { ixs := exIxsStartedWait, r := { prog := { flows := [exCfgAnd] }, fx := [("m", exXFork)] } }
def exInstStartedWait : CoreIndex.Inst := { uid := "m", status := .started, heads := [
  { uid := "h0", pos := 2, status := .inactive, elem := none }, { uid := "h1", pos := 14, status := .active, elem := none },
  { uid := "h2", pos := 7, status := .active, elem := none }] }

-- non-vacuity of `groupvm_is_corevm_partial_advance_heads`: event E1 completes the clause (the list handed over is [h2], h2 ends MERGING)
example :=
  groupvm_is_corevm_partial_advance_heads 1 exVMStartedWait "m" exInstStartedWait exXFork exCfgAnd "e" "u" 13 2 1 [("h0", 2, .inactive)]
    [("h1", 4), ("h2", 7)] [(0, .atWait), (1, .atMatch)]
    { hi := rfl, hx := rfl, hc := rfl } rfl
    { hl := rfl, hsize := by decide, hw := rfl, hm := rfl }
    (by intro u hu; simp at hu; rcases hu with rfl | rfl <;> exact ⟨rfl, by decide⟩)
    rfl (by decide) rfl rfl rfl
    (by intro o ho; simp [exInstStartedWait] at ho; rcases ho with rfl | rfl | rfl <;> decide)
example : CoreVM.matchingU 1 [("h1", 4), ("h2", 7)] [(0, .atWait), (1, .atMatch)] = ["h2"] := by decide
-- … and both member heads in one call (event E0 on the fresh group: the list is [h1], parked; nothing handed back)
example :=
  groupvm_is_corevm_partial_advance_heads 1 exVMStarted "m" exInstStarted exXFork exCfgAnd "e" "u" 13 2 0 [("h0", 2, .inactive)]
    [("h1", 4), ("h2", 7)] [(0, .atMatch), (1, .atMatch)]
    { hi := rfl, hx := rfl, hc := rfl } rfl
    { hl := rfl, hsize := by decide, hw := rfl, hm := rfl }
    (by intro u hu; simp at hu; rcases hu with rfl | rfl <;> exact ⟨rfl, by decide⟩)
    rfl (by decide) rfl rfl rfl
    (by intro o ho; simp [exInstStarted, exInst] at ho; rcases ho with rfl | rfl | rfl <;> decide)

/-- **groupvm_is_corevm_partial (or-group of single atoms, phase 1, through the interpreter model's real `_advance_head_front`).**  The
    hypotheses of `groupvm_is_corevm_partial_or`, the flow STARTED and every head inside the program.  CoreVM's own `advanceHeadFront`,
    called with the LIST of branch heads that wait on `match e`, ends in exactly the state `GroupVM.p1Brs e 0 brs` describes, changes
    nothing else, and hands ALL these heads back, in order — they are MERGING, the merging loop of `runToCompletion` advances them
    again one by one (`groupvm_is_corevm_partial_or_event_all` is about that loop).  Any number of branches. -/
theorem groupvm_is_corevm_partial_advance_heads_or (fuel : Nat) (s : CoreVM.VM) (f : CoreIndex.FUid) (i : CoreIndex.Inst) (x : CoreVM.InstX)
    (cfg : CoreVM.FlowCfg) (l mu : String) (pe e : Nat)
    (others : List CoreVM.HCore) (us : List (CoreIndex.HUid × Nat)) (brs : List Br)
    (F : CoreVM.FlowAt s f i x cfg) (hown : x.ctxOwner = none) (C : CoreVM.OrShape cfg l mu pe) (S : CoreVM.MembersShape cfg l pe us)
    (hlen : us.length = brs.length) (hnm : CoreVM.noMulti brs = true) (hnd : (others.map (·.1) ++ us.map (·.1)).Nodup)
    (hv : CoreVM.hview i = others ++ CoreVM.renderB (pe + 1) us brs)
    (hstarted : i.status = .started) (hrange : ∀ o ∈ i.heads, o.pos < cfg.elements.size) :
    ∃ s' i', CoreVM.advanceHeadFront (fuel + 3) ((CoreVM.matchingB e us brs).map fun h => (f, h)) s
        = .ok ((CoreVM.matchingB e us brs).map fun h => (f, h)) s' ∧
      CoreVM.FlowAt s' f i' x cfg ∧ s'.r = s.r ∧
      CoreVM.hview i' = others ++ CoreVM.renderB (pe + 1) us (p1Brs e 0 brs).1 ∧ i'.status = .started :=
  CoreVM.or_group_phase1_real fuel s f i x cfg l mu pe e others us brs F hown C S hlen hnm hnd hv hstarted hrange

def exVMStartedOr : CoreVM.VM := { ixs := exIxsStarted, r := { prog := { flows := [exCfgOr] }, fx := [("m", exXFork)] } }

-- non-vacuity of `groupvm_is_corevm_partial_advance_heads_or`: `match E0() or E0()`, event E0: both branch heads are advanced in ONE call
-- of the real function, both end MERGING, both are handed back
example :=
  groupvm_is_corevm_partial_advance_heads_or 1 exVMStartedOr "m" exInstStarted exXFork exCfgOr "e" "u" 14 0 [("h0", 2, .inactive)]
    [("h1", 4), ("h2", 7)] [.single 0, .single 0]
    { hi := rfl, hx := rfl, hc := rfl } rfl
    { hl := rfl, hsize := by decide, hm := rfl }
    (by intro u hu; simp at hu; rcases hu with rfl | rfl <;> exact ⟨rfl, by decide⟩)
    rfl rfl (by decide) rfl rfl
    (by intro o ho; simp [exInstStarted, exInst] at ho; rcases ho with rfl | rfl | rfl <;> decide)
example : CoreVM.matchingB 0 [("h1", 4), ("h2", 7)] [.single 0, .single 0] = ["h1", "h2"] := by decide

/-- **groupvm_is_corevm_partial (exit segment through the interpreter model's real `_advance_head_front`).**  The hypotheses of
    `groupvm_is_corevm_partial_exit`, the flow STARTED, every head inside the program.  CoreVM's own `advanceHeadFront` on the forking
    head (back ACTIVE on the group's last `MergeHeads`) moves it over `CatchPatternFailure(None)` onto the marker `send` behind the group
    statement and — the "all heads are waiting" scan finds this head on an action — hands it back as actionable: the statement after
    the group is what the interpreter executes next. -/
theorem groupvm_is_corevm_partial_exit_real (fuel : Nat) (s : CoreVM.VM) (f : CoreIndex.FUid) (h : CoreIndex.HUid) (i : CoreIndex.Inst)
    (x : CoreVM.InstX) (cfg : CoreVM.FlowCfg) (hd : CoreIndex.Head) (spec : CoreVM.Spec) (n : String)
    (H : CoreVM.HeadAt s f h i x cfg hd) (hsz : hd.pos + 2 < cfg.elements.size)
    (hc1 : cfg.elements[hd.pos + 1]! = .catchFail none) (hc2 : cfg.elements[hd.pos + 2]! = .sendOp spec)
    (hp : CoreVM.PlainSpec spec n) (hargs : spec.args = []) (hint : CoreVM.internalEvents.contains n = false)
    (hcl : ((OMap.lookup (f, h) s.r.hx).getD {}).catchLabels.isEmpty = false)
    (hact : hd.status = .active) (hstarted : i.status = .started)
    (hnd : ((CoreVM.hview i).map (·.1)).Nodup) (hrange : ∀ o ∈ i.heads, o.pos < cfg.elements.size) :
    ∃ s' i', CoreVM.advanceHeadFront (fuel + 3) [(f, h)] s = .ok [(f, h)] s' ∧ CoreVM.FlowAt s' f i' x cfg ∧
      CoreVM.hview i' = (CoreVM.hview i).map (CoreVM.setPosCore h (hd.pos + 2)) := by
  obtain ⟨s', i', h1, h2, h3, _⟩ := CoreVM.group_exit_real fuel s f h i x cfg hd spec n H hsz hc1 hc2 hp hargs hint hcl hact hstarted hnd hrange
  exact ⟨s', i', h1, h2, h3⟩

def exIxsExitStarted : CoreVM.IxS := exIxsExit.apply (.setFlowStatus "m" .started) (by decide)
def exVMExitStarted : CoreVM.VM := { exVMExit with ixs := exIxsExitStarted }

-- non-vacuity of `groupvm_is_corevm_partial_exit_real`
example :=
  groupvm_is_corevm_partial_exit_real 1 exVMExitStarted "m" "h0"
    { uid := "m", status := .started, heads := [{ uid := "h0", pos := 15, status := .active, elem := none }] }
    exX exCfgAndHit { uid := "h0", pos := 15, status := .active, elem := none } (exSpec "Hit") "Hit"
    { hi := rfl, hx := rfl, hc := rfl, hh := rfl, hlt := by decide, hst := by decide } (by decide) rfl rfl ⟨rfl, rfl, rfl⟩ rfl (by decide) rfl
    rfl rfl (by decide) (by intro o ho; simp at ho; subst ho; decide)

/-- **groupvm_is_corevm_partial (the merging loop's call of the interpreter model's real `_advance_head_front` on an and-group).**  After
    phase 1 (`…_advance_heads`) the member head that completed the clause is MERGING and was handed back; `runToCompletion`'s merging loop
    calls `_advance_head_front` with it (event queue empty).  The hypotheses of `groupvm_is_corevm_partial_merge`, the flow STARTED, the
    group statement followed by `CatchPatternFailure(None)` and the marker `send`: CoreVM's own `advanceHeadFront` merges (the forking
    head takes over, every member head is deleted), its NESTED call advances the forking head over `CatchPatternFailure(None)` onto the
    statement after the group, where it is actionable; back in the outer call the merged head is detached (not cleared), nothing is
    finished or aborted; the forking head — the only head left, on the marker — is what the main loop gets.  Any clause size. -/
theorem groupvm_is_corevm_partial_merge_real (fuel : Nat) (s : CoreVM.VM) (f : CoreIndex.FUid) (i : CoreIndex.Inst) (x : CoreVM.InstX)
    (cfg : CoreVM.FlowCfg) (l mu : String) (pe n fp : Nat)
    (r : CoreIndex.HUid) (us : List (CoreIndex.HUid × Nat)) (ms : List (Nat × MLoc)) (j : Nat) (uj : CoreIndex.HUid × Nat) (a : Nat)
    (spec : CoreVM.Spec) (nm : String)
    (F : CoreVM.FlowAt s f i x cfg) (C : CoreVM.ClauseShape cfg l mu pe n)
    (hv : CoreVM.hview i = (r, fp, CoreIndex.HeadStatus.inactive) :: CoreVM.renderU (pe + 1) us ms)
    (hlen : us.length = ms.length) (hndu : (r :: us.map (·.1)).Nodup)
    (hju : us[j]? = some uj) (hjm : ms[j]? = some (a, MLoc.merging))
    (hone : ∀ j' m', ms[j']? = some m' → j' ≠ j → m'.2 = MLoc.atWait ∨ m'.2 = MLoc.atMatch)
    (hfu : OMap.lookup mu x.forkUids = some r)
    (hhx : ((OMap.lookup (f, r) s.r.hx).getD {}).childHeadUids = us.map (·.1))
    (hleaf : ∀ c ∈ us.map (·.1), ((OMap.lookup (f, c) s.r.hx).getD {}).childHeadUids = [])
    (hmu : mu ∉ us.map (·.1)) (hfp : fp ≠ pe + 2)
    (hstarted : i.status = .started) (hq : s.r.queue = []) (hclr : s.r.cleared.contains (f, uj.1) = false)
    (hsz4 : pe + 4 < cfg.elements.size) (hc1 : cfg.elements[pe + 3]! = .catchFail none) (hc2 : cfg.elements[pe + 4]! = .sendOp spec)
    (hp : CoreVM.PlainSpec spec nm) (hargs : spec.args = []) (hint : CoreVM.internalEvents.contains nm = false)
    (hcl : ((OMap.lookup (f, uj.1) s.r.hx).getD {}).catchLabels.isEmpty = false) :
    ∃ s' i' x', CoreVM.advanceHeadFront (fuel + 5) [(f, uj.1)] s = .ok [(f, r)] s' ∧ CoreVM.FlowAt s' f i' x' cfg ∧
      CoreVM.hview i' = [(r, pe + 4, CoreIndex.HeadStatus.active)] ∧ s'.r.queue = s.r.queue :=
  CoreVM.and_group_merge_real fuel s f i x cfg l mu pe n fp r us ms j uj a spec nm F C hv hlen hndu hju hjm hone hfu hhx hleaf hmu hfp
    hstarted hq hclr hsz4 hc1 hc2 hp hargs hint hcl

/-- `match E0() and E1()` followed by `send Hit()`, flow STARTED, E0 and E1 received: `h1` parked, `h2` MERGING (catch label of the group) -/
def exVMMergingHit : CoreVM.VM :=
  { ixs := exIxsMerging.apply (.setFlowStatus "m" .started) (by decide),
    r := { prog := { flows := [exCfgAndHit] }, fx := [("m", exXFork)],
           hx := [(("m", "h0"), { childHeadUids := ["h1", "h2"] }), (("m", "h2"), { catchLabels := ["f"] })] } }

-- non-vacuity of `groupvm_is_corevm_partial_merge_real`
example :=
  groupvm_is_corevm_partial_merge_real 1 exVMMergingHit "m" { exInstMerging with status := .started } exXFork exCfgAndHit "e" "u" 13 2 2 "h0"
    [("h1", 4), ("h2", 7)] [(0, .atWait), (1, .merging)] 1 ("h2", 7) 1 (exSpec "Hit") "Hit"
    { hi := rfl, hx := rfl, hc := rfl } { hl := rfl, hsize := by decide, hw := rfl, hm := rfl } rfl rfl (by decide) rfl rfl
    (by
      intro j' m' h1 h2
      rcases j' with _ | _ | j'
      · simp at h1; subst h1; exact Or.inl rfl
      · exact absurd rfl h2
      · simp at h1)
    rfl rfl (by intro c hc; simp at hc; rcases hc with rfl | rfl <;> rfl) (by decide) (by decide)
    rfl rfl rfl (by decide) rfl rfl ⟨rfl, rfl, rfl⟩ rfl (by decide) rfl

/-- **groupvm_is_corevm_partial (the merging loop's call of the real `_advance_head_front` on an or-group of single atoms, one branch
    matched).**  The same as `groupvm_is_corevm_partial_merge_real` for the branch head that phase 1 (`…_advance_heads_or`) left MERGING
    on the or-level `MergeHeads` while every other branch head still waits on its `match`: merge, nested call moving the forking head
    onto the statement after the group, merged head detached; result `[forking head]`, the only head left, ACTIVE on the marker.  Any
    number of branches.  (Several branches MERGING in the same event — the same atom twice, `random.choice` — are covered at the level
    of `slide` by `…_or_event_all`, not through the real function.) -/
theorem groupvm_is_corevm_partial_merge_real_or (fuel : Nat) (s : CoreVM.VM) (f : CoreIndex.FUid) (i : CoreIndex.Inst) (x : CoreVM.InstX)
    (cfg : CoreVM.FlowCfg) (l mu : String) (pe fp : Nat)
    (r : CoreIndex.HUid) (us : List (CoreIndex.HUid × Nat)) (ms : List Br) (j : Nat) (uj : CoreIndex.HUid × Nat)
    (spec : CoreVM.Spec) (nm : String)
    (F : CoreVM.FlowAt s f i x cfg) (C : CoreVM.OrShape cfg l mu pe)
    (hv : CoreVM.hview i = (r, fp, CoreIndex.HeadStatus.inactive) :: CoreVM.renderB (pe + 1) us ms)
    (hlen : us.length = ms.length) (hndu : (r :: us.map (·.1)).Nodup)
    (hju : us[j]? = some uj) (hjm : ms[j]? = some Br.merging)
    (hone : ∀ j' m', ms[j']? = some m' → j' ≠ j → ∃ a, m' = Br.single a)
    (hfu : OMap.lookup mu x.forkUids = some r)
    (hhx : ((OMap.lookup (f, r) s.r.hx).getD {}).childHeadUids = us.map (·.1))
    (hleaf : ∀ c ∈ us.map (·.1), ((OMap.lookup (f, c) s.r.hx).getD {}).childHeadUids = [])
    (hmu : mu ∉ us.map (·.1)) (hfp : fp ≠ pe + 1)
    (hstarted : i.status = .started) (hq : s.r.queue = []) (hclr : s.r.cleared.contains (f, uj.1) = false)
    (hsz4 : pe + 3 < cfg.elements.size) (hc1 : cfg.elements[pe + 2]! = .catchFail none) (hc2 : cfg.elements[pe + 3]! = .sendOp spec)
    (hp : CoreVM.PlainSpec spec nm) (hargs : spec.args = []) (hint : CoreVM.internalEvents.contains nm = false)
    (hcl : ((OMap.lookup (f, uj.1) s.r.hx).getD {}).catchLabels.isEmpty = false) :
    ∃ s' i' x', CoreVM.advanceHeadFront (fuel + 5) [(f, uj.1)] s = .ok [(f, r)] s' ∧ CoreVM.FlowAt s' f i' x' cfg ∧
      CoreVM.hview i' = [(r, pe + 3, CoreIndex.HeadStatus.active)] ∧ s'.r.queue = s.r.queue :=
  CoreVM.or_group_merge_real fuel s f i x cfg l mu pe fp r us ms j uj spec nm F C hv hlen hndu hju hjm hone hfu hhx hleaf hmu hfp
    hstarted hq hclr hsz4 hc1 hc2 hp hargs hint hcl

/-- `match E0() or E1()` followed by `send Hit()`, flow STARTED, E1 received: `h1` still on `match E0()`, `h2` MERGING -/
def exCfgOrHit : CoreVM.FlowCfg :=
  { exCfgOr with elements := exCfgOr.elements ++ #[.sendOp (exSpec "Hit"), .matchOp (exSpec "Never") false] }
def exIxsOrMerging : CoreVM.IxS :=
  ((((((({} : CoreVM.IxS).apply (.addInst "m" "h0" none) (by decide)).apply (.setPos "m" "h0" 2 none) (by decide)).apply
    (.setStatus "m" "h0" .inactive none) (by decide)).apply (.fork "m" "h1" none 4 none) (by decide)).apply
    (.fork "m" "h2" none 15 none) (by decide)).apply (.setStatus "m" "h2" .merging none) (by decide)).apply
    (.setFlowStatus "m" .started) (by decide)
def exVMOrMergingHit : CoreVM.VM :=
  { ixs := exIxsOrMerging,
    r := { prog := { flows := [exCfgOrHit] }, fx := [("m", exXFork)],
           hx := [(("m", "h0"), { childHeadUids := ["h1", "h2"] }), (("m", "h2"), { catchLabels := ["f"] })] } }

-- non-vacuity of `groupvm_is_corevm_partial_merge_real_or`
example :=
  groupvm_is_corevm_partial_merge_real_or 1 exVMOrMergingHit "m"
    { uid := "m", status := .started, heads := [
      { uid := "h0", pos := 2, status := .inactive, elem := none }, { uid := "h1", pos := 4, status := .active, elem := none },
      { uid := "h2", pos := 15, status := .merging, elem := none }] }
    exXFork exCfgOrHit "e" "u" 14 2 "h0" [("h1", 4), ("h2", 7)] [.single 0, .merging] 1 ("h2", 7) (exSpec "Hit") "Hit"
    { hi := rfl, hx := rfl, hc := rfl } { hl := rfl, hsize := by decide, hm := rfl } rfl rfl (by decide) rfl rfl
    (by
      intro j' m' h1 h2
      rcases j' with _ | _ | j'
      · simp at h1; subst h1; exact ⟨0, rfl⟩
      · exact absurd rfl h2
      · simp at h1)
    rfl rfl (by intro c hc; simp at hc; rcases hc with rfl | rfl <;> rfl) (by decide) (by decide)
    rfl rfl rfl (by decide) rfl rfl ⟨rfl, rfl, rfl⟩ rfl (by decide) rfl

/-- **groupvm_is_corevm_partial (one event on a pure and-group through BOTH calls of the interpreter model's real `_advance_head_front`).**
    Between two events (member heads on their `match` elements or parked, forking head INACTIVE, flow STARTED, event queue empty, nothing
    cleared), a group statement followed by `CatchPatternFailure(None)` and the marker `send`.  Call 1 — `runToCompletion`'s handling of
    the event, with the member heads that wait on `match e` — ends in the state `GroupVM.p1Members e |c| [] ms` describes and returns
    `acts`.  If the event completes the clause (`remMs … = []`), `acts` is exactly the one MERGING member head, and call 2 — the merging
    loop, with `acts` — merges the group and returns the forking head, the only head left, ACTIVE on the marker behind the group: the
    object of `group_completes_at_first_sat` at the level of the real function, for one event, any clause size. -/
theorem groupvm_is_corevm_partial_and_event_real (fuel : Nat) (s : CoreVM.VM) (f : CoreIndex.FUid) (i : CoreIndex.Inst) (x : CoreVM.InstX)
    (cfg : CoreVM.FlowCfg) (l mu : String) (pe fp e : Nat)
    (r : CoreIndex.HUid) (us : List (CoreIndex.HUid × Nat)) (ms : List (Nat × MLoc)) (spec : CoreVM.Spec) (nm : String)
    (F : CoreVM.FlowAt s f i x cfg) (hown : x.ctxOwner = none) (C : CoreVM.ClauseShape cfg l mu pe ms.length)
    (S : CoreVM.MembersShape cfg l pe us)
    (hlen : us.length = ms.length) (hndu : (r :: us.map (·.1)).Nodup) (hq : QMs ms)
    (hv : CoreVM.hview i = (r, fp, CoreIndex.HeadStatus.inactive) :: CoreVM.renderU (pe + 1) us ms)
    (hfu : OMap.lookup mu x.forkUids = some r)
    (hhx : ((OMap.lookup (f, r) s.r.hx).getD {}).childHeadUids = us.map (·.1))
    (hleaf : ∀ c ∈ us.map (·.1), ((OMap.lookup (f, c) s.r.hx).getD {}).childHeadUids = [])
    (hmu : mu ∉ us.map (·.1)) (hfp : fp ≠ pe + 2)
    (hstarted : i.status = .started) (hrange : ∀ o ∈ i.heads, o.pos < cfg.elements.size)
    (hqueue : s.r.queue = []) (hclr : s.r.cleared = [])
    (hsz4 : pe + 4 < cfg.elements.size) (hc1 : cfg.elements[pe + 3]! = .catchFail none) (hc2 : cfg.elements[pe + 4]! = .sendOp spec)
    (hp : CoreVM.PlainSpec spec nm) (hargs : spec.args = []) (hint : CoreVM.internalEvents.contains nm = false)
    (hcl : ∀ c ∈ us.map (·.1), ((OMap.lookup (f, c) s.r.hx).getD {}).catchLabels.isEmpty = false) :
    ∃ s1 i1 acts, CoreVM.advanceHeadFront (fuel + 4) ((CoreVM.matchingU e us ms).map fun h => (f, h)) s = .ok acts s1 ∧
      CoreVM.FlowAt s1 f i1 x cfg ∧ s1.r = s.r ∧
      CoreVM.hview i1 = (r, fp, CoreIndex.HeadStatus.inactive) :: CoreVM.renderU (pe + 1) us (p1Members e ms.length [] ms) ∧
      (remMs (p1Members e ms.length [] ms) = [] → remMs ms ≠ [] →
        ∃ (j : Nat) (uj : CoreIndex.HUid × Nat) (a : Nat), us[j]? = some uj ∧
          (p1Members e ms.length [] ms)[j]? = some (a, MLoc.merging) ∧ acts = [(f, uj.1)] ∧
          ∃ s2 i2 x2, CoreVM.advanceHeadFront (fuel + 5) acts s1 = .ok [(f, r)] s2 ∧ CoreVM.FlowAt s2 f i2 x2 cfg ∧
            CoreVM.hview i2 = [(r, pe + 4, CoreIndex.HeadStatus.active)]) :=
  CoreVM.and_group_event_real fuel s f i x cfg l mu pe fp e r us ms spec nm F hown C S hlen hndu hq hv hfu hhx hleaf hmu hfp
    hstarted hrange hqueue hclr hsz4 hc1 hc2 hp hargs hint hcl

/-- `match E0() and E1()` followed by `send Hit()`, flow STARTED, E0 received (`h1` parked), the fork registered, catch labels set -/
def exVMEventReal : CoreVM.VM :=
  { ixs := exIxsStartedWait,
    r := { prog := { flows := [exCfgAndHit] }, fx := [("m", exXFork)],
           hx := [(("m", "h0"), { childHeadUids := ["h1", "h2"] }), (("m", "h1"), { catchLabels := ["f"] }),
                  (("m", "h2"), { catchLabels := ["f"] })] } }

-- non-vacuity of `groupvm_is_corevm_partial_and_event_real`: event E1 completes the clause
example :=
  groupvm_is_corevm_partial_and_event_real 1 exVMEventReal "m" exInstStartedWait exXFork exCfgAndHit "e" "u" 13 2 1 "h0"
    [("h1", 4), ("h2", 7)] [(0, .atWait), (1, .atMatch)] (exSpec "Hit") "Hit"
    { hi := rfl, hx := rfl, hc := rfl } rfl
    { hl := rfl, hsize := by decide, hw := rfl, hm := rfl }
    (by intro u hu; simp at hu; rcases hu with rfl | rfl <;> exact ⟨rfl, by decide⟩)
    rfl (by decide) (by intro m hm; simp at hm; rcases hm with rfl | rfl <;> simp)
    rfl rfl rfl (by intro c hc; simp at hc; rcases hc with rfl | rfl <;> rfl) (by decide) (by decide)
    rfl (by intro o ho; simp [exInstStartedWait] at ho; rcases ho with rfl | rfl | rfl <;> decide)
    rfl rfl (by decide) rfl rfl ⟨rfl, rfl, rfl⟩ rfl (by decide)
    (by intro c hc; simp at hc; rcases hc with rfl | rfl <;> rfl)
example : remMs (p1Members 1 2 [] [(0, .atWait), (1, .atMatch)]) = [] ∧ remMs [(0, MLoc.atWait), (1, MLoc.atMatch)] ≠ [] := by decide

/-- **groupvm_is_corevm_partial (one event on a pure or-group of single atoms through BOTH calls of the real `_advance_head_front`, one
    branch matching).**  The hypotheses of `groupvm_is_corevm_partial_or_event`, exactly one branch head `uj` waits on `match e`, the flow
    STARTED, queue empty, nothing cleared, the group followed by `CatchPatternFailure(None)` and the marker `send`.  Call 1 (event
    handling, `[uj]`) ends in the state of `GroupVM.p1Brs` and hands `[uj]` back MERGING; call 2 (merging loop, `[uj]`) merges the group
    and returns the forking head, the only head left, ACTIVE on the marker behind the group.  Any number of branches. -/
theorem groupvm_is_corevm_partial_or_event_real (fuel : Nat) (s : CoreVM.VM) (f : CoreIndex.FUid) (i : CoreIndex.Inst) (x : CoreVM.InstX)
    (cfg : CoreVM.FlowCfg) (l mu : String) (pe fp e : Nat)
    (r : CoreIndex.HUid) (us : List (CoreIndex.HUid × Nat)) (brs : List Br) (j : Nat) (uj : CoreIndex.HUid × Nat)
    (spec : CoreVM.Spec) (nm : String)
    (F : CoreVM.FlowAt s f i x cfg) (hown : x.ctxOwner = none) (C : CoreVM.OrShape cfg l mu pe) (S : CoreVM.MembersShape cfg l pe us)
    (hlen : us.length = brs.length) (hnm : CoreVM.noMulti brs = true) (hndu : (r :: us.map (·.1)).Nodup)
    (hv : CoreVM.hview i = (r, fp, CoreIndex.HeadStatus.inactive) :: CoreVM.renderB (pe + 1) us brs)
    (hju : us[j]? = some uj) (hjm : (p1Brs e 0 brs).1[j]? = some Br.merging)
    (hone : ∀ j' m', (p1Brs e 0 brs).1[j']? = some m' → j' ≠ j → ∃ a, m' = Br.single a)
    (hl1 : (p1Brs e 0 brs).1.length = brs.length)
    (hmb : CoreVM.matchingB e us brs = [uj.1])
    (hfu : OMap.lookup mu x.forkUids = some r)
    (hhx : ((OMap.lookup (f, r) s.r.hx).getD {}).childHeadUids = us.map (·.1))
    (hleaf : ∀ c ∈ us.map (·.1), ((OMap.lookup (f, c) s.r.hx).getD {}).childHeadUids = [])
    (hmu : mu ∉ us.map (·.1)) (hfp : fp ≠ pe + 1)
    (hstarted : i.status = .started) (hrange : ∀ o ∈ i.heads, o.pos < cfg.elements.size)
    (hqueue : s.r.queue = []) (hclr : s.r.cleared = [])
    (hsz4 : pe + 3 < cfg.elements.size) (hc1 : cfg.elements[pe + 2]! = .catchFail none) (hc2 : cfg.elements[pe + 3]! = .sendOp spec)
    (hp : CoreVM.PlainSpec spec nm) (hargs : spec.args = []) (hint : CoreVM.internalEvents.contains nm = false)
    (hcl : ((OMap.lookup (f, uj.1) s.r.hx).getD {}).catchLabels.isEmpty = false) :
    ∃ s1 i1 s2 i2 x2, CoreVM.advanceHeadFront (fuel + 3) [(f, uj.1)] s = .ok [(f, uj.1)] s1 ∧ CoreVM.FlowAt s1 f i1 x cfg ∧
      CoreVM.hview i1 = (r, fp, CoreIndex.HeadStatus.inactive) :: CoreVM.renderB (pe + 1) us (p1Brs e 0 brs).1 ∧
      CoreVM.advanceHeadFront (fuel + 5) [(f, uj.1)] s1 = .ok [(f, r)] s2 ∧ CoreVM.FlowAt s2 f i2 x2 cfg ∧
      CoreVM.hview i2 = [(r, pe + 3, CoreIndex.HeadStatus.active)] :=
  CoreVM.or_group_event_real fuel s f i x cfg l mu pe fp e r us brs j uj spec nm F hown C S hlen hnm hndu hv hju hjm hone hl1 hmb
    hfu hhx hleaf hmu hfp hstarted hrange hqueue hclr hsz4 hc1 hc2 hp hargs hint hcl

/-- `match E0() or E1()` followed by `send Hit()`, flow STARTED, both branch heads on their match elements -/
def exVMOrEventReal : CoreVM.VM :=
  { ixs := exIxsStarted,
    r := { prog := { flows := [exCfgOrHit] }, fx := [("m", exXFork)],
           hx := [(("m", "h0"), { childHeadUids := ["h1", "h2"] }), (("m", "h2"), { catchLabels := ["f"] })] } }

-- non-vacuity of `groupvm_is_corevm_partial_or_event_real`: event E1
example :=
  groupvm_is_corevm_partial_or_event_real 1 exVMOrEventReal "m" exInstStarted exXFork exCfgOrHit "e" "u" 14 2 1 "h0"
    [("h1", 4), ("h2", 7)] [.single 0, .single 1] 1 ("h2", 7) (exSpec "Hit") "Hit"
    { hi := rfl, hx := rfl, hc := rfl } rfl { hl := rfl, hsize := by decide, hm := rfl }
    (by intro u hu; simp at hu; rcases hu with rfl | rfl <;> exact ⟨rfl, by decide⟩)
    rfl rfl (by decide) rfl rfl rfl
    (by
      intro j' m' h1 h2
      rcases j' with _ | _ | j'
      · simp [p1Brs, p1Br] at h1; subst h1; exact ⟨0, rfl⟩
      · exact absurd rfl h2
      · simp [p1Brs, p1Br] at h1)
    rfl rfl rfl rfl (by intro c hc; simp at hc; rcases hc with rfl | rfl <;> rfl) (by decide) (by decide)
    rfl (by intro o ho; simp [exInstStarted, exInst] at ho; rcases ho with rfl | rfl | rfl <;> decide)
    rfl rfl (by decide) rfl rfl ⟨rfl, rfl, rfl⟩ rfl (by decide) rfl

/-- **groupvm_is_corevm_partial (`while heads_are_merging:` on an and-group).**  CoreVM's `mergeLoop` — `run_to_completion`'s merging
    loop: drain the event queue, split the pending heads into MERGING and ACTIVE ones, call `_advance_head_front` with the MERGING ones,
    repeat — started with the MERGING member head that phase 1 handed back (queue empty): one round calls the real function
    (`groupvm_is_corevm_partial_merge_real`), the next round finds nothing MERGING and ends; the loop returns the forking head, the
    only head left, ACTIVE on the marker behind the group — what `_resolve_action_conflicts` and the main loop get.  Any clause size. -/
theorem groupvm_is_corevm_partial_merge_loop (fuel : Nat) (s : CoreVM.VM) (f : CoreIndex.FUid) (i : CoreIndex.Inst) (x : CoreVM.InstX)
    (cfg : CoreVM.FlowCfg) (l mu : String) (pe n fp : Nat)
    (r : CoreIndex.HUid) (us : List (CoreIndex.HUid × Nat)) (ms : List (Nat × MLoc)) (j : Nat) (uj : CoreIndex.HUid × Nat) (a : Nat)
    (spec : CoreVM.Spec) (nm : String)
    (F : CoreVM.FlowAt s f i x cfg) (C : CoreVM.ClauseShape cfg l mu pe n)
    (hv : CoreVM.hview i = (r, fp, CoreIndex.HeadStatus.inactive) :: CoreVM.renderU (pe + 1) us ms)
    (hlen : us.length = ms.length) (hndu : (r :: us.map (·.1)).Nodup)
    (hju : us[j]? = some uj) (hjm : ms[j]? = some (a, MLoc.merging))
    (hone : ∀ j' m', ms[j']? = some m' → j' ≠ j → m'.2 = MLoc.atWait ∨ m'.2 = MLoc.atMatch)
    (hfu : OMap.lookup mu x.forkUids = some r)
    (hhx : ((OMap.lookup (f, r) s.r.hx).getD {}).childHeadUids = us.map (·.1))
    (hleaf : ∀ c ∈ us.map (·.1), ((OMap.lookup (f, c) s.r.hx).getD {}).childHeadUids = [])
    (hmu : mu ∉ us.map (·.1)) (hfp : fp ≠ pe + 2)
    (hstarted : i.status = .started) (hq : s.r.queue = []) (hclr : s.r.cleared.contains (f, uj.1) = false)
    (hsz4 : pe + 4 < cfg.elements.size) (hc1 : cfg.elements[pe + 3]! = .catchFail none) (hc2 : cfg.elements[pe + 4]! = .sendOp spec)
    (hp : CoreVM.PlainSpec spec nm) (hargs : spec.args = []) (hint : CoreVM.internalEvents.contains nm = false)
    (hcl : ((OMap.lookup (f, uj.1) s.r.hx).getD {}).catchLabels.isEmpty = false) :
    ∃ s' i' x', CoreVM.mergeLoop (fuel + 6) [(f, uj.1)] s = .ok [(f, r)] s' ∧ CoreVM.FlowAt s' f i' x' cfg ∧
      CoreVM.hview i' = [(r, pe + 4, CoreIndex.HeadStatus.active)] :=
  CoreVM.and_group_mergeLoop_real fuel s f i x cfg l mu pe n fp r us ms j uj a spec nm F C hv hlen hndu hju hjm hone hfu hhx hleaf hmu hfp
    hstarted hq hclr hsz4 hc1 hc2 hp hargs hint hcl

-- non-vacuity of `groupvm_is_corevm_partial_merge_loop`
example :=
  groupvm_is_corevm_partial_merge_loop 1 exVMMergingHit "m" { exInstMerging with status := .started } exXFork exCfgAndHit "e" "u" 13 2 2 "h0"
    [("h1", 4), ("h2", 7)] [(0, .atWait), (1, .merging)] 1 ("h2", 7) 1 (exSpec "Hit") "Hit"
    { hi := rfl, hx := rfl, hc := rfl } { hl := rfl, hsize := by decide, hw := rfl, hm := rfl } rfl rfl (by decide) rfl rfl
    (by
      intro j' m' h1 h2
      rcases j' with _ | _ | j'
      · simp at h1; subst h1; exact Or.inl rfl
      · exact absurd rfl h2
      · simp at h1)
    rfl rfl (by intro c hc; simp at hc; rcases hc with rfl | rfl <;> rfl) (by decide) (by decide)
    rfl rfl rfl (by decide) rfl rfl ⟨rfl, rfl, rfl⟩ rfl (by decide) rfl

/-- **groupvm_is_corevm_partial (`while heads_are_merging:` on an or-group of single atoms, one branch matched).**  The same as
    `groupvm_is_corevm_partial_merge_loop` for the one MERGING branch head: CoreVM's `mergeLoop` returns the forking head, the only head
    left, ACTIVE on the marker behind the group.  Any number of branches. -/
theorem groupvm_is_corevm_partial_merge_loop_or (fuel : Nat) (s : CoreVM.VM) (f : CoreIndex.FUid) (i : CoreIndex.Inst) (x : CoreVM.InstX)
    (cfg : CoreVM.FlowCfg) (l mu : String) (pe fp : Nat)
    (r : CoreIndex.HUid) (us : List (CoreIndex.HUid × Nat)) (ms : List Br) (j : Nat) (uj : CoreIndex.HUid × Nat)
    (spec : CoreVM.Spec) (nm : String)
    (F : CoreVM.FlowAt s f i x cfg) (C : CoreVM.OrShape cfg l mu pe)
    (hv : CoreVM.hview i = (r, fp, CoreIndex.HeadStatus.inactive) :: CoreVM.renderB (pe + 1) us ms)
    (hlen : us.length = ms.length) (hndu : (r :: us.map (·.1)).Nodup)
    (hju : us[j]? = some uj) (hjm : ms[j]? = some Br.merging)
    (hone : ∀ j' m', ms[j']? = some m' → j' ≠ j → ∃ a, m' = Br.single a)
    (hfu : OMap.lookup mu x.forkUids = some r)
    (hhx : ((OMap.lookup (f, r) s.r.hx).getD {}).childHeadUids = us.map (·.1))
    (hleaf : ∀ c ∈ us.map (·.1), ((OMap.lookup (f, c) s.r.hx).getD {}).childHeadUids = [])
    (hmu : mu ∉ us.map (·.1)) (hfp : fp ≠ pe + 1)
    (hstarted : i.status = .started) (hq : s.r.queue = []) (hclr : s.r.cleared.contains (f, uj.1) = false)
    (hsz4 : pe + 3 < cfg.elements.size) (hc1 : cfg.elements[pe + 2]! = .catchFail none) (hc2 : cfg.elements[pe + 3]! = .sendOp spec)
    (hp : CoreVM.PlainSpec spec nm) (hargs : spec.args = []) (hint : CoreVM.internalEvents.contains nm = false)
    (hcl : ((OMap.lookup (f, uj.1) s.r.hx).getD {}).catchLabels.isEmpty = false) :
    ∃ s' i' x', CoreVM.mergeLoop (fuel + 6) [(f, uj.1)] s = .ok [(f, r)] s' ∧ CoreVM.FlowAt s' f i' x' cfg ∧
      CoreVM.hview i' = [(r, pe + 3, CoreIndex.HeadStatus.active)] :=
  CoreVM.or_group_mergeLoop_real fuel s f i x cfg l mu pe fp r us ms j uj spec nm F C hv hlen hndu hju hjm hone hfu hhx hleaf hmu hfp
    hstarted hq hclr hsz4 hc1 hc2 hp hargs hint hcl

-- non-vacuity of `groupvm_is_corevm_partial_merge_loop_or`
example :=
  groupvm_is_corevm_partial_merge_loop_or 1 exVMOrMergingHit "m"
    { uid := "m", status := .started, heads := [
      { uid := "h0", pos := 2, status := .inactive, elem := none }, { uid := "h1", pos := 4, status := .active, elem := none },
      { uid := "h2", pos := 15, status := .merging, elem := none }] }
    exXFork exCfgOrHit "e" "u" 14 2 "h0" [("h1", 4), ("h2", 7)] [.single 0, .merging] 1 ("h2", 7) (exSpec "Hit") "Hit"
    { hi := rfl, hx := rfl, hc := rfl } { hl := rfl, hsize := by decide, hm := rfl } rfl rfl (by decide) rfl rfl
    (by
      intro j' m' h1 h2
      rcases j' with _ | _ | j'
      · simp at h1; subst h1; exact ⟨0, rfl⟩
      · exact absurd rfl h2
      · simp at h1)
    rfl rfl (by intro c hc; simp at hc; rcases hc with rfl | rfl <;> rfl) (by decide) (by decide)
    rfl rfl rfl (by decide) rfl rfl ⟨rfl, rfl, rfl⟩ rfl (by decide) rfl

end NemoVerif.C07
