/-
  C14 — Colang 1.0 dialog flows are followed like structured programs; the decision is a function
  of the event history alone.

  Property theorems only (lemmas: Lemmas/V1Struct.lean).  Models: `V1Interp` (mirror of
  sliding.py / flows.py), `V1Struct` (source-level statements, the compiler `compile` mirroring
  `_extract_elements`, the structured semantics `exec` / `execFrom`).

  What is proved here for ALL programs of the structured subset (arbitrary nesting of if/else, while,
  break/continue, set, user/bot/execute/do steps), all contexts, all fuel:
    * `compile_is_comp`, `slide_simulates`, `slide_simulates_resume`, `closed_no_escape`,
      `landing_is_statement` — compiler correctness: the jump offsets produced by the CoYML compiler
      make the real `slide` loop do exactly what the structured program does;
    * `next_step_is_flow_statement` — for a single non-competing dialog flow without subflow calls and EVERY
      history that follows it (any length, restarts included), `computeNextSteps` returns the context updates
      and the event of the statement the structured semantics reaches next (invariant over the whole
      `computeNextState` bookkeeping: Lemmas/V1Follow.lean); `next_step_is_flow_statement_partial` is the
      slide-level core of it and also holds inside programs with subflow calls;
    * `history_function` — the model's decision is a function of (history, flow configs) only.
  Phase 4 (further down in this file):
    * `slide_with_subflows_simulates`, `do_returns_after_call`, `resume_unwinds_stack` — subflow calls follow the structured
      call / return discipline (`V1Struct.runS`, `V1Ref.unwindS`) at any nesting depth, for any order of the flow-state list;
    * `next_step_is_flow_statement_with_do` — the lift of `next_step_is_flow_statement` to a dialog flow with `do` calls of
      subflows that may block and call further subflows, for every history that follows the flow through its callees
      (`next_step_is_flow_statement_do_partial`: the uid-free special case of callees that do not block);
    * `decision_rule_max_priority`, `best_is_first_max`, `waiting_flow_yields`, `aborted_never_decides`,
      `interrupted_flow_keeps_position`, `interruption_resumes_own_statement` — several flows, function level, arbitrary lists;
    * `run_follows_program`, `gen_fuel_suffices` — the action loop `generate_events` (`V1Run`);
    * `mutation_benign` — `slide`'s writes into the shared element dicts are invisible to every later decision (`V1Mut`).
  Wave 3 (end of this file):
    * `compile_annotated_projects`, `loop_keys_read_only_by_loops`, `slide_annotated_simulates(_resume)`, `if_reads_next_else_only`,
      `if_brk_variant_counterexample` — the element dicts WITH the loop keys the annotation pass leaves on every element of a loop
      body (`V1Annot`): `slide` on them follows the structured program; `if` skips by `_next_else` whatever loop keys it carries.
  Wave 6 (end of this file):
    * `call_subflow_uid_fresh`, `uids_pairwise_distinct(_step)`, `interrupter_lookup_unique`, `shape_has_uids_ok` — the uid a
      subflow instance gets is fresh; "the uids of the flow states are pairwise distinct" is an invariant of `compute_next_state`
      for ALL flow configs and events (the hypothesis the call / return theorems carry in `V1Stack.Shape`);
    * `uid_names_irrelevant(_states)` — the interpreter that names its flow states by ANY injective naming of the counter (uuid4) decides
      like `V1Interp` and reaches the same states up to the renaming: only freshness matters;
    * `interp_is_counter_alloc`, `siteAlloc_injective`, `siteAlloc_not_fresh`, `call_site_uid_counterexample` — the interpreter over an allocation policy
      (`Models/V1Uid.lean`): with the counter it IS `V1Interp`; with uids derived from the call site the flow
      `while $i < 2: do ask item; $i = $i + 1` runs ahead of the subflow it called (kernel-checked).
  What is NOT carried by a theorem (function-level theorems + correspondence + oracle only): histories with several dialog
  flows (interruption by another dialog flow, abort, extension flows, priorities), `hide_prev_turn`, `bot stop`, and
  everything the widened model executes for llm_flows.co.
-/
import NemoVerif.Lemmas.V1Struct
import NemoVerif.Lemmas.V1Follow
import NemoVerif.Lemmas.V1Sub
import NemoVerif.Lemmas.V1Multi
import NemoVerif.Lemmas.V1FollowDo
import NemoVerif.Lemmas.V1Stack
import NemoVerif.Lemmas.V1StackFollow
import NemoVerif.Lemmas.V1Hide
import NemoVerif.Lemmas.V1Run
import NemoVerif.Lemmas.V1Mut
import NemoVerif.Lemmas.V1Annot
import NemoVerif.Lemmas.V1Uid
import NemoVerif.Generated.LlmFlowsV1
namespace NemoVerif.C14
open NemoVerif.V1Annot NemoVerif.V1Interp NemoVerif.V1Struct NemoVerif.V1Follow NemoVerif.V1Sub NemoVerif.V1Multi NemoVerif.V1Run NemoVerif.V1RunL NemoVerif.V1Mut NemoVerif.V1FollowDo NemoVerif.V1Stack NemoVerif.V1StackFollow NemoVerif.V1Uid NemoVerif.V1UidL

/-- The compiler as the code has it (compile sub-blocks, then annotate every element of a loop body
    with `_next_on_break`/`_next_on_continue` unless an inner loop already did) computes the same
    element list as the compiler that passes the innermost loop's exit/head offsets down. -/
theorem compile_is_comp (p : Prog) : compile p = comp none p := compile_eq_comp p

/-- **slide_simulates (from the first statement).**  For the element list compiled from `p`: whatever
    the structured run of `p` in context `st` does — reaches the step statement at source address `a`
    (then `slide` stops at its compiled position `off p a`), runs to the end (then `slide` reports the
    flow finished), or an expression raises (then `slide` raises) — the real `slide` loop started at
    element 0 does the same with the same context and the same context updates. -/
theorem slide_simulates (p : Prog) (f : Nat) (st : SSt) :
    match exec f st p with
    | .atStep st' a => Slides (compile p) st 0 (.at st' (off p a))
    | .fell st' => Slides (compile p) st 0 (.fin st')
    | .err => Slides (compile p) st 0 .err
    | _ => True := by
  have h := exec_sound f p none [] [] (compile p) st (by simp [compile_eq_comp])
  cases hout : exec f st p with
  | atStep st' a => rw [hout] at h; simpa [Sound] using h
  | fell st' =>
    rw [hout] at h
    simp only [Sound] at h
    exact h _ (slides_end (by simp [compile_eq_comp, comp_length]))
  | err => rw [hout] at h; simpa [Sound] using h
  | brk s => trivial
  | cnt s => trivial
  | oof => trivial
  | bad => trivial

/-- **slide_simulates (resuming).**  After the step statement at address `a` was matched the interpreter
    slides from `off p a + 1`; it reaches the compiled position of the statement the structured
    semantics says is next (`execFrom`), with the same context and context updates — also in the
    middle of loop bodies and branches at any nesting depth (`continue`, `break`, the jump back to the
    loop head and the jump over `else` are all behind this statement). -/
theorem slide_simulates_resume (p : Prog) (a : Addr) (f : Nat) (st : SSt) :
    match execFrom f st p a with
    | .atStep st' a' => Slides (compile p) st ((off p a + 1 : Nat) : Int) (.at st' (off p a'))
    | .fell st' => Slides (compile p) st ((off p a + 1 : Nat) : Int) (.fin st')
    | .err => Slides (compile p) st ((off p a + 1 : Nat) : Int) .err
    | _ => True := by
  have h := execFrom_sound f p a none [] [] (compile p) st (by simp [compile_eq_comp])
  simp only [List.length_nil, Nat.zero_add] at h
  cases hout : execFrom f st p a with
  | atStep st' a' => rw [hout] at h; simpa [Sound] using h
  | fell st' =>
    rw [hout] at h
    simp only [Sound] at h
    exact h _ (slides_end (by simp [compile_eq_comp, comp_length]))
  | err => rw [hout] at h; simpa [Sound] using h
  | brk s => trivial
  | cnt s => trivial
  | oof => trivial
  | bad => trivial

/-- non-vacuity: a loop with a conditional `break`, run from the start and resumed inside the loop body -/
example :
    let p : Prog := .step (.user "hi") (.set "n" (.lit (.int 0)) (.while (.bin .lt (.var "n") (.lit (.int 2)))
      (.step (.bot "again") (.set "n" (.bin .add (.var "n") (.lit (.int 1))) (.ite (.bin .eq (.var "n") (.lit (.int 2))) (.brk .nil) .nil .nil)))
      (.step (.bot "bye") .nil)))
    execFrom 50 ⟨[], []⟩ p .here = .atStep ⟨[("n", .int 0)], [("n", .int 0)]⟩ (.next (.next (.body .here))) ∧
    off p (.next (.next (.body .here))) = 3 := by
  simp [execFrom, exec, eval, assign, Ctx.set, Ctx.get, evalBin, V.pyLt, V.num?, V.truthy, Out.mapAddr, Out.loopThen, off, headSize, rest]

/-- The compiled position of a step statement holds that statement's element. -/
theorem landing_is_statement (p : Prog) (a : Addr) (s : Step) (h : stepAt p a = some s) :
    (compile p)[off p a]? = some (elemOf s) := by
  have := comp_at_off a p none [] [] s h
  simpa [compile_eq_comp] using this

/-- event a step statement stands for at source level (`bot x` → BotIntent x, `execute a(…)` → StartInternalSystemAction) -/
def eventOf : Step → Option Decision
  | .bot i => some (.bot i)
  | .exec n ps rk => some (.act n ps rk)
  | _ => none

/-- names that keep their plain meaning: a bot intent is not the wildcard `...`, an action is not called `utter` -/
def WellNamed : Step → Prop
  | .bot i => i ≠ WILDCARD
  | .exec n _ _ => n ≠ "utter"
  | _ => True

/-- **next_step_is_flow_statement_partial.**  If the structured semantics says that after the statement at
    `a` the next statement is the one at `a'` (a step `s'`), then — provided the model's fuelled `slide`
    does not run out of fuel — the interpreter's slide from `off p a + 1` stops exactly at the compiled
    position of `a'` with the structured run's context, the element there is `s'`'s element, and the
    decision `_record_next_step` + `_step_to_event` produce from that position is `s'`'s event
    (`bot x` ↦ BotIntent x, `execute` ↦ StartInternalSystemAction, `user`/`do` ↦ no decision). -/
theorem next_step_is_flow_statement_partial (p : Prog) (a a' : Addr) (s' : Step) (f : Nat) (st st' : SSt) (prev : Int)
    (ns : State) (fs : FS) (cfg : FlowCfg)
    (hrun : execFrom f st p a = .atStep st' a') (hs' : stepAt p a' = some s') (hwn : WellNamed s')
    (hfuel : slide SLIDE_FUEL (compile p) st ((off p a + 1 : Nat) : Int) prev ≠ .oof)
    (hcfg : cfg.elems = compile p) (hfree : ns.next = none) :
    absRes (slide SLIDE_FUEL (compile p) st ((off p a + 1 : Nat) : Int) prev) = some (.at st' (off p a')) ∧
    (compile p)[off p a']? = some (elemOf s') ∧
    ((recordNextStep ns { fs with head := off p a' } cfg false).next.bind fun n => stepToEvent n.elem) = eventOf s' := by
  have hsim := slide_simulates_resume p a f st
  rw [hrun] at hsim
  have hland := landing_is_statement p a' s' hs'
  refine ⟨slides_agree hsim hfuel, hland, ?_⟩
  have hidx : pyIndex cfg.elems ((off p a' : Nat) : Int) = some (elemOf s') := by
    simp only [pyIndex, hcfg]
    have : ¬ ((off p a' : Nat) : Int) < 0 := by omega
    simp [this, hland]
  simp only [recordNextStep, hidx, hfree]
  cases s' with
  | user i => simp [elemOf, isActionable, eventOf, hfree]
  | doFlow n => simp [elemOf, isActionable, eventOf, hfree]
  | bot i =>
    have : (i == WILDCARD) = false := by simpa [WellNamed] using hwn
    simp [elemOf, isActionable, eventOf, stepToEvent, this]
  | exec n ps rk =>
    have hne : n ≠ "utter" := hwn
    have : (n == "utter") = false := by simpa using hne
    simp [elemOf, isActionable, eventOf, stepToEvent, this, hne]

/-- **NoCompetingFlows** (decidable): the flow configs consist of exactly one dialog flow, compiled from `p` with
    all defaults (priority 1.0, interruptible, not an extension), `p` starts with a `user` statement and
    contains no subflow call (`do`). -/
def noCompetingFlows (cfgs : Cfgs) (id : String) (p : Prog) : Bool :=
  decide (cfgs = [mkCfg id p]) && noDo p && (match p with | .step (.user _) _ => true | _ => false)

/-- the intent a dialog flow starts with -/
def startIntent : Prog → String
  | .step (.user i) _ => i
  | _ => ""

/-- **next_step_is_flow_statement (full, single non-competing flow without subflow calls).**
    `followAll p …` is the source-level reference: it walks the history event by event, keeps where the flow
    stands (idle / waiting at the step statement at address `j`) and the context, and says what is decided after
    each event: the context updates of the statements run since that event plus the event of the statement the
    structured semantics (`execFrom`) reaches next.  It is defined (`some`) exactly on the histories that follow
    the flow: the start intent when idle, the event matching the current statement (`user`/`bot`/finished
    `execute`), `ContextUpdate`, `StartInternalSystemAction`, and any event of a type that does not trigger flows
    (`UtteranceUserActionFinished`, `UserMessage`, `StartUtteranceBotAction`, `Listen`, …); restarts after the
    flow finished are included, `hide_prev_turn`, `bot stop` and events that leave the flow are not.
    For every such history of any length `computeNextSteps` (with both repairs) returns exactly that decision —
    or the model's fixed fuel (`SLIDE_FUEL` loop iterations within one slide) ran out.
    The invariant behind it (`V1Follow.Inv`): the interpreter holds exactly one flow state, ACTIVE with
    `head = off p j` (or none / one COMPLETED when idle), and the same context. -/
theorem next_step_is_flow_statement (cfgs : Cfgs) (id : String) (p : Prog) (f : Nat) (H : List Event) (S : SS)
    (hnc : noCompetingFlows cfgs id p = true)
    (hfollow : followAll p (startIntent p) f { ctx := [], pos := .idle, dec := [] } H = some S) :
    computeNextSteps true cfgs H = .oof ∨ computeNextSteps true cfgs H = .ok S.dec := by
  simp only [noCompetingFlows, Bool.and_eq_true, decide_eq_true_eq] at hnc
  obtain ⟨⟨hc, hnd⟩, hshape⟩ := hnc
  subst hc
  cases p with
  | step s r =>
    cases s with
    | user i0 => exact follow_decides id i0 r hnd f H S hfollow
    | bot i => simp at hshape
    | exec n ps rk => simp at hshape
    | doFlow n => simp at hshape
  | nil => simp at hshape
  | set k e r => simp at hshape
  | ite c t e r => simp at hshape
  | «while» c b r => simp at hshape
  | brk r => simp at hshape
  | cont r => simp at hshape

/-- the decision of a well-named step statement is its source-level event -/
theorem stepDec_is_event (s : Step) (h : WellNamed s) : stepDec s = (eventOf s).toList := by
  cases s with
  | user i => simp [stepDec, elemOf, isActionable, eventOf]
  | doFlow n => simp [stepDec, elemOf, isActionable, eventOf]
  | bot i =>
    have : (i == WILDCARD) = false := by simpa [WellNamed] using h
    simp [stepDec, elemOf, isActionable, eventOf, stepToEvent, this]
  | exec n ps rk =>
    have hne : n ≠ "utter" := h
    have : (n == "utter") = false := by simpa using hne
    simp [stepDec, elemOf, isActionable, eventOf, stepToEvent, this, hne]

/-- non-vacuity (finite fact): a flow with an assignment, a conditional and a loop, and a history that follows it
    through two loop iterations; the reference says the next decision is the context update `n = 2` and `bot bye`. -/
example :
    let p : Prog := .step (.user "hi") (.set "n" (.lit (.int 0)) (.while (.bin .lt (.var "n") (.lit (.int 2)))
      (.step (.bot "again") (.set "n" (.bin .add (.var "n") (.lit (.int 1))) .nil)) (.step (.bot "bye") .nil)))
    noCompetingFlows [mkCfg "f" p] "f" p = true ∧
    (followAll p "hi" 50 { ctx := [], pos := .idle, dec := [] }
      [.other "UtteranceUserActionFinished" [], .userIntent "hi", .contextUpdate [("n", .int 0)], .botIntent "again",
       .contextUpdate [("n", .int 1)], .botIntent "again"]).map (·.dec)
      = some [.ctx [("n", .int 2)], .bot "bye"] := by
  decide

/-- **The model runs the shipped rails pipeline** (finite facts, `decide`, on `Generated/LlmFlowsV1.lean`, i.e. on
    llm_flows.co as compiled by the repo's parser in this run): with no input rails configured a user utterance
    makes `process user input` assign `$user_message` and create the `UserMessage` event; with an input rail
    configured it first creates the `StartInputRails` marker (the decision is a `create_event` action either way),
    and the `UserMessage` event then makes `run dialog rails` call `generate_user_intent`. -/
theorem llm_pipeline_runs :
    (match computeNextSteps true NemoVerif.Generated.LlmFlowsV1.flows
        [.other "UtteranceUserActionFinished" [("final_transcript", .str "hi")]] [("config.rails.input.flows", .strs [])] with
      | .ok [.ctx [("user_message", .str "hi")], .act "create_event" _ none] => true
      | _ => false) = true ∧
    (match computeNextSteps true NemoVerif.Generated.LlmFlowsV1.flows
        [.other "UtteranceUserActionFinished" [("final_transcript", .str "hi")]] [("config.rails.input.flows", .strs ["self check input"])] with
      | .ok [.ctx [("user_message", .str "hi")], .act "create_event" _ none] => true
      | _ => false) = true ∧
    computeNextSteps true NemoVerif.Generated.LlmFlowsV1.flows
        [.other "UtteranceUserActionFinished" [("final_transcript", .str "hi")], .contextUpdate [("user_message", .str "hi")],
         .startAction, .actionFinished "create_event" true, .other "UserMessage" [("text", .str "hi")]]
        [("config.rails.input.flows", .strs [])]
      = .ok [.act "generate_user_intent" "{}" none] := by
  decide +kernel

/-- An instance that serves histories one after the other; the model keeps nothing between calls. -/
structure Instance where
  cfgs : Cfgs

def Instance.call (i : Instance) (h : List Event) : Instance × StepsRes := (i, computeNextSteps true i.cfgs h)

def Instance.serve (i : Instance) : List (List Event) → Instance
  | [] => i
  | h :: hs => ((i.call h).1).serve hs

/-- **history_function.**  The decision for a history is the same on a fresh instance and on one that has
    already served any other histories (definitional in the model: `computeNextSteps` takes the history and
    the flow configs and nothing else; whether the implementation has this shape is what the instance-reuse
    cases of the harness check). -/
theorem history_function (i : Instance) (earlier : List (List Event)) (h : List Event) :
    ((i.serve earlier).call h).2 = (i.call h).2 := by
  induction earlier generalizing i with
  | nil => rfl
  | cons e es ih => simpa [Instance.serve, Instance.call] using ih _

/-- witness flow `user greet / if $c / bot a` and history greet, ContextUpdate c=True, greet -/
def witnessCfgs : Cfgs :=
  [{ id := "f0", elems := compile (.step (.user "greet") (.ite (.var "c") (.step (.bot "a") .nil) .nil .nil)) }]
def witnessHistory : List Event := [.userIntent "greet", .contextUpdate [("c", .bool true)], .userIntent "greet"]

/-- **Open finding `flow-finished-on-start-event`, kernel-checked on the model of the code as it is**
    (finite fact, `decide`): the flow finished within its first `greet` (c unset); it is left ACTIVE with a
    negative head, so the second `greet` with c = True decides nothing, whereas with the proposed repair
    (`startNew` marks such a flow COMPLETED, fixes/C14-start-complete.diff) the decision is the flow's
    next statement `bot a`. -/
theorem as_is_counterexample :
    computeNextSteps false witnessCfgs witnessHistory = .ok [] ∧
    computeNextSteps true witnessCfgs witnessHistory = .ok [.bot "a"] := by
  decide

/-- witness of `nested-subflow-decides-early`: f0 = `user u2 / bot b2 / do s0 / bot b3`,
    s0 = `$x = 0 / do s1 / bot b1`, s1 = `user u1 / $r = execute a1`; history u2, b2 -/
def witnessNested : Cfgs :=
  [{ id := "f0", elems := compile (.step (.user "u2") (.step (.bot "b2") (.step (.doFlow "s0") (.step (.bot "b3") .nil)))) },
   { id := "s0", isSubflow := true, elems := compile (.set "x" (.lit (.int 0)) (.step (.doFlow "s1") (.step (.bot "b1") .nil))) },
   { id := "s1", isSubflow := true, elems := compile (.step (.user "u1") (.step (.exec "a1" "{}" (some "r")) .nil)) }]

/-- **Open finding `nested-subflow-decides-early`, kernel-checked on the model of the code as it is**
    (finite fact, `decide`): after `bot b2` the flow is inside s0 inside s1 waiting for `user u1`; the code
    as it is decides s0's statement after the nested call (`bot b1`); with the proposed repair nothing but
    the assignment's context update is decided. -/
theorem as_is_counterexample_nested :
    computeNextSteps false witnessNested [.userIntent "u2", .botIntent "b2"] = .ok [.ctx [("x", .int 0)], .bot "b1"] ∧
    computeNextSteps true witnessNested [.userIntent "u2", .botIntent "b2"] = .ok [.ctx [("x", .int 0)]] := by
  decide

/-- `break` / `continue` never escape a program in which they occur only inside loops. -/
theorem closed_no_escape : ∀ (f : Nat) (p : Prog) (st : SSt), closed false p = true →
    (∀ s, exec f st p ≠ .brk s) ∧ (∀ s, exec f st p ≠ .cnt s) := by
  intro f
  induction f with
  | zero => intro p st _; simp [exec]
  | succ f ih =>
    intro p st hc
    have mapNe : ∀ (o : Out) (g : Addr → Addr), ((∀ s, o ≠ .brk s) ∧ (∀ s, o ≠ .cnt s)) →
        ((∀ s, o.mapAddr g ≠ .brk s) ∧ (∀ s, o.mapAddr g ≠ .cnt s)) := by
      intro o g h; cases o <;> simp_all [Out.mapAddr]
    cases p with
    | nil => simp [exec]
    | step s r => simp [exec]
    | set k e r =>
      simp only [closed] at hc
      simp only [exec]
      cases eval st.ctx e with
      | none => simp
      | some v => exact mapNe _ _ (ih r _ hc)
    | ite c t e r =>
      simp only [closed, Bool.and_eq_true] at hc
      simp only [exec]
      cases eval st.ctx c with
      | none => simp
      | some v =>
        simp only []
        have key : ∀ (b : Prog) (g : Addr → Addr), closed false b = true →
            ((∀ s, ((exec f st b).andThen g fun st' => (exec f st' r).mapAddr .next) ≠ .brk s) ∧
             (∀ s, ((exec f st b).andThen g fun st' => (exec f st' r).mapAddr .next) ≠ .cnt s)) := by
          intro b g hb
          have hb' := ih b st hb
          cases ho : exec f st b with
          | fell s' => simp only [Out.andThen]; exact mapNe _ _ (ih r s' hc.2)
          | brk s' => exact absurd ho (hb'.1 s')
          | cnt s' => exact absurd ho (hb'.2 s')
          | atStep s' a => simp [Out.andThen, Out.mapAddr]
          | err => simp [Out.andThen, Out.mapAddr]
          | oof => simp [Out.andThen, Out.mapAddr]
          | bad => simp [Out.andThen, Out.mapAddr]
        by_cases htr : v.truthy = true
        · simp only [htr, if_true]; exact key t _ hc.1.1
        · simp only [htr]; exact key e _ hc.1.2
    | «while» c b r =>
      have hc0 := hc
      simp only [closed, Bool.and_eq_true] at hc
      simp only [exec]
      cases eval st.ctx c with
      | none => simp
      | some v =>
        simp only []
        by_cases htr : v.truthy = true
        · simp only [htr, if_true]
          cases ho : exec f st b with
          | fell s' => simp only [Out.loopThen]; exact ih _ s' hc0
          | cnt s' => simp only [Out.loopThen]; exact ih _ s' hc0
          | brk s' => simp only [Out.loopThen]; exact mapNe _ _ (ih r s' hc.2)
          | atStep s' a => simp [Out.loopThen, Out.mapAddr]
          | err => simp [Out.loopThen, Out.mapAddr]
          | oof => simp [Out.loopThen, Out.mapAddr]
          | bad => simp [Out.loopThen, Out.mapAddr]
        · simp only [htr]; exact mapNe _ _ (ih r st hc.2)
    | brk r => simp [closed] at hc
    | cont r => simp [closed] at hc


/-! ## Phase 4 (1): subflow calls follow the structured call / return discipline -/

/-- **slide_with_subflows_simulates.**  `V1Struct.runS` is the structured meaning of a flow with `do` statements: run
    the flow's own statements to the next step statement; at `do n` run the body of `n` as a callee — if the callee
    runs to its end, control returns to the statement after the `do` (the same flow continues, `execFrom … a'`), if it
    stops at a step statement the caller waits at the `do` and the callee's frame is pushed (recursively, so a
    callee may itself wait for its own callee).  For EVERY library of subflow bodies known to the interpreter
    (`LibOK`), every program `p` (arbitrary nesting of if/else, while, break/continue, `do`), every (re)start
    position (`none` = first statement, `some a` = after the step at `a`), every interpreter state and every call
    depth `g`: the mirror of `_slide_with_subflows` / `_call_subflow` returns exactly what the structured run says
    (`Agrees`): the context and context updates, the uid counter, the pushed flow states *innermost first* (each
    callee frame ACTIVE at the compiled position of its statement, or — waiting at a nested `do` — INTERRUPTED with
    its head already past the call and `interrupted_by` = its callee's uid), the caller's own flow state (at its
    step, or past the `do`, INTERRUPTED by the callee), that a flow which ran to its end reports a negative head,
    and that the recorded next step is the one of the INNERMOST waiting flow (`nextOf`) — or the model's fixed fuel
    ran out (`.error .oof`; the real code would not return). -/
theorem slide_with_subflows_simulates (cfgs : Cfgs) (lib : Lib) (hlib : LibOK cfgs lib) (f g : Nat)
    (ns : State) (fs : FS) (cfg : FlowCfg) (p : Prog) (start : Option Addr)
    (hfind : cfgs.find fs.flowId = some cfg) (hel : cfg.elems = compile p) (hp : size p ≠ 0)
    (hh : fs.head = startPos p start) :
    slideWithSubflows true g cfgs ns fs = .error .oof ∨
    Agrees cfgs ns fs p (slideWithSubflows true g cfgs ns fs)
      (runS lib f g fs.uid fs.flowId ⟨ns.ctx, ns.upd⟩ ns.ctr p start) :=
  slideWS_sim cfgs lib hlib f g ns fs cfg p start hfind hel hp hh

/-- the library / flow configs of the non-vacuity examples: `main = user hi / do s / bot bye`, `s = user u1` -/
def exMain : Prog := .step (.user "hi") (.step (.doFlow "s") (.step (.bot "bye") .nil))
def exSub : Prog := .step (.user "u1") .nil
def exLib : Lib := [("s", exSub)]
def exCfgs : Cfgs := [mkCfg "main" exMain, { id := "s", elems := compile exSub, isSubflow := true }]

/-- non-vacuity of `LibOK` -/
theorem exLibOK : LibOK exCfgs exLib := by
  intro n q h
  by_cases hn : n = "s"
  · subst hn
    simp [exLib, List.lookup] at h
    subst h
    exact ⟨by decide, { id := "s", elems := compile exSub, isSubflow := true }, by simp [exCfgs, Cfgs.find, mkCfg], rfl⟩
  · have : (n == "s") = false := by simpa using hn
    simp [exLib, List.lookup, this] at h

/-- non-vacuity (finite facts): after `user hi` the call of `s` blocks — the caller waits at the `do` (address
    `next here`), the callee frame (uid 7 = the counter) is pushed and it is the callee's statement that decides;
    when `s` has finished, the run resumed after the `do` reaches the caller's own next statement `bot bye`. -/
example :
    runS exLib 20 5 3 "main" ⟨[], []⟩ 7 exMain (some .here)
      = .wait ⟨[], []⟩ 8 (.next .here) (some 7) [{ uid := 7, name := "s", body := exSub, addr := .here, callee := none }] (7, "s", .user "u1") ∧
    runS exLib 20 5 3 "main" ⟨[], []⟩ 8 exMain (some (.next .here))
      = .wait ⟨[], []⟩ 8 (.next (.next .here)) none [] (3, "main", .bot "bye") := by
  decide

/-- **do_returns_after_call** (the return half of the discipline, at the level of the resume fix-point of
    `compute_next_state`).  A pushed frame that waits at a `do` (`fr.callee = some u`) and whose callee `u` is
    COMPLETED is resumed by the pass: it is made ACTIVE again and slid from its own head, which `_call_subflow` had
    already moved past the `do` — i.e. from the (re)start position `some fr.addr` of `slide_with_subflows_simulates`,
    so the run continues with the statement after the `do`. -/
theorem do_returns_after_call (cfgs : Cfgs) (k : Nat) (ns : State) (i : Nat) (fr : SFrame) (u : Nat) (tgt : FS) (ch : Bool)
    (hi : ns.flows[i]? = some fr.toFS) (hc : fr.callee = some u)
    (ht : ns.flows.find? (fun g => g.uid == u) = some tgt) (hcomp : tgt.status = .completed) :
    resumePass true (k + 1) cfgs ns i ch =
      (match slideWithSubflows true SUB_FUEL cfgs ns
          { uid := fr.uid, flowId := fr.name, head := startPos fr.body (some fr.addr), status := .active, interruptedBy := none } with
       | .error e => .error e
       | .ok (ns', fs') =>
         resumePass true k cfgs { ns' with flows := setAt ns'.flows i (if fs'.head < 0 then { fs' with status := .completed } else fs') } (i + 1) true) := by
  have hfs : fr.toFS = { uid := fr.uid, flowId := fr.name, head := ((off fr.body fr.addr : Nat) : Int) + 1, status := .interrupted, interruptedBy := some u } := by
    simp [SFrame.toFS, hc]
  rw [hfs] at hi
  simp only [resumePass, hi, ht, hcomp, startPos]
  simp
  rfl

/-! ## Phase 4 (2): several flows — the decision rule of `compute_next_state` -/

/-- **decision_rule_max_priority.**  `_record_next_step` (modifier 1.0) called for any list of candidates — the
    elements at the heads of any flows, in the order the flows are visited — records `pick old (best cands)`:
    `best` is the FIRST actionable candidate of MAXIMAL flow priority (`best_is_first_max`), and it replaces a
    previously recorded step iff that step's recorded priority is strictly smaller than `priority × 1.0`. -/
theorem decision_rule_max_priority (cands : List Cand) (old : Option NextStep) :
    recAll old cands = pick old (best cands) := recAll_rule cands old

/-- **ties are resolved by flow order**: every candidate visited before the chosen one has a strictly smaller
    priority (or is not actionable), every one after it a smaller or equal priority. -/
theorem best_is_first_max (cands : List Cand) (b : Cand) (h : best cands = some b) :
    ∃ l1 l2, cands = l1 ++ b :: l2 ∧ isActionable b.el = true ∧
      (∀ c ∈ l1, isActionable c.el = true → c.prio < b.prio) ∧
      (∀ c ∈ l2, isActionable c.el = true → c.prio ≤ b.prio) := best_spec cands b h

/-- non-vacuity: three flows at actionable steps with priorities 1.0, 2.0, 2.0 — the second one (first of the maximal ones) decides -/
example : recAll none [⟨.runAction "utter" (some "a") "" none, 1, 100⟩, ⟨.runAction "utter" (some "b") "" none, 2, 200⟩,
      ⟨.runAction "utter" (some "c") "" none, 3, 200⟩]
    = some { elem := .runAction "utter" (some "b") "" none, uid := 2, prio := 20000 } := by decide

/-- `_record_next_step` of the interpreter IS `recNext` (any flow state, any element list with a valid head) -/
theorem record_is_recNext (ns : State) (fs : FS) (cfg : FlowCfg) (el : Elem) (h : pyIndex cfg.elems fs.head = some el) :
    recordNextStep ns fs cfg false = { ns with next := recNext ns.next el fs.uid cfg.prio } := record_eq ns fs cfg el h

/-- **waiting_flow_yields.**  A flow that was NOT triggered by the event records its pending step with modifier 0.9;
    any flow that decides on the event afterwards with a priority at least as high (equal included) replaces it. -/
theorem waiting_flow_yields (el el' : Elem) (u u' p p' : Nat) (hp : 0 < p) (hge : p ≤ p') (ha : isActionable el' = true) :
    recNext (some { elem := el, uid := u, prio := p * 90 }) el' u' p' = some { elem := el', uid := u', prio := p' * 100 } := by
  have : p * 90 < p' * 100 := by omega
  simp [recNext, ha, this]

/-- **aborted_never_decides.**  A flow state that is ABORTED or COMPLETED has no influence on the next state at all,
    for ARBITRARY flow lists and flow configs: `computeNextState` gives the same result with and without it (on every
    event that is processed by the flows, i.e. other than StartInternalSystemAction / ContextUpdate, which leave the
    flow states untouched). -/
theorem aborted_never_decides (r : Bool) (cfgs : Cfgs) (st : State) (l1 l2 : List FS) (fs : FS) (cfg : FlowCfg) (ev : Event)
    (hf : cfgs.find fs.flowId = some cfg) (hd : fs.status = .aborted ∨ fs.status = .completed)
    (h1 : ev ≠ .startAction) (h2 : ∀ d, ev ≠ .contextUpdate d) :
    computeNextState r cfgs { st with flows := l1 ++ fs :: l2 } ev = computeNextState r cfgs { st with flows := l1 ++ l2 } ev := by
  have key : ∀ ns ext, advanceAll r cfgs ev (l1 ++ fs :: l2) ns ext = advanceAll r cfgs ev (l1 ++ l2) ns ext := by
    intro ns ext
    rw [advanceAll_append, advanceAll_append]
    cases advanceAll r cfgs ev l1 ns ext with
    | error e => rfl
    | ok x =>
      obtain ⟨ns', ext'⟩ := x
      simp only [advanceAll, advanceOne_dead r cfgs ev ns' ext' fs cfg hf hd]
  cases ev with
  | startAction => exact absurd rfl h1
  | contextUpdate d => exact absurd rfl (h2 d)
  | userIntent i => simp only [computeNextState, key]
  | botIntent i => simp only [computeNextState, key]
  | actionFinished n ok => simp only [computeNextState, key]
  | hidePrevTurn => simp only [computeNextState, key]
  | other ty ps => simp only [computeNextState, key]

/-- non-vacuity: an aborted flow state among two others -/
example : computeNextState true witnessCfgs
      { flows := [{ uid := 0, flowId := "f0", head := 1, status := .aborted }] } (.userIntent "greet")
    = computeNextState true witnessCfgs { flows := [] } (.userIntent "greet") :=
  aborted_never_decides true witnessCfgs {} [] [] { uid := 0, flowId := "f0", head := 1, status := .aborted }
    { id := "f0", elems := compile (.step (.user "greet") (.ite (.var "c") (.step (.bot "a") .nil) .nil .nil)) } _
    (by simp [witnessCfgs, Cfgs.find]) (.inl rfl) (by simp) (by simp)

/-- **interrupted_flow_keeps_position**: whatever the event, an INTERRUPTED flow state is carried over unchanged by
    the advance loop; and an ACTIVE flow waiting at a `user` statement (not actionable) that a triggering event does
    not match becomes INTERRUPTED with its head unchanged (arbitrary flow configs). -/
theorem interrupted_flow_keeps_position (r : Bool) (cfgs : Cfgs) (ev : Event) (ns : State) (ext : Bool) (fs : FS) (cfg : FlowCfg)
    (hf : cfgs.find fs.flowId = some cfg) :
    (fs.status = .interrupted → advanceOne r cfgs ev ns ext fs = .ok ({ ns with flows := ns.flows ++ [fs] }, ext)) ∧
    (∀ el, fs.status = .active → pyIndex cfg.elems fs.head = some el → ev.triggers cfg.triggers = true →
      isMatch el ev = false → isActionable el = false → cfg.isInterruptible = true →
      advanceOne r cfgs ev ns ext fs = .ok ({ ns with flows := ns.flows ++ [{ fs with status := .interrupted }] }, ext)) :=
  ⟨advanceOne_interrupted r cfgs ev ns ext fs cfg hf,
   fun el ha hel htr hm hna hint => advanceOne_interrupts r cfgs ev ns ext fs cfg el hf ha hel htr hm hna hint⟩

/-- **interruption_resumes_own_statement.**  In the resume fix-point, an INTERRUPTED flow whose interrupter is COMPLETED
    — any position `i` of an arbitrary flow-state list, arbitrary flow configs — and which stands at a `user`
    statement is made ACTIVE again at ITS OWN head: nothing is slid over, nothing is decided for it, the next
    matching user intent continues the flow where it was interrupted. -/
theorem interruption_resumes_own_statement (cfgs : Cfgs) (k : Nat) (ns : State) (i : Nat) (fs tgt : FS) (cfg : FlowCfg)
    (n : Nat) (intent : String) (u : Nat) (ch : Bool)
    (hi : ns.flows[i]? = some fs) (hs : fs.status = .interrupted) (hby : fs.interruptedBy = some u)
    (ht : ns.flows.find? (fun g => g.uid == u) = some tgt) (hc : tgt.status = .completed)
    (hf : cfgs.find fs.flowId = some cfg) (hh : fs.head = (n : Int)) (hel : cfg.elems[n]? = some (.userIntent intent)) :
    resumePass true (k + 1) cfgs ns i ch =
      resumePass true k cfgs { ns with flows := setAt ns.flows i { fs with status := .active, interruptedBy := none } } (i + 1) true := by
  obtain ⟨uid, fid, head, status, iby⟩ := fs
  simp only at hs hby hh hf
  subst hs hby hh
  have hsl := slideWS_at_user 63 cfgs ns { uid := uid, flowId := fid, head := (n : Int), status := .active, interruptedBy := none } cfg n intent hf rfl hel
  have hnn : ¬ ((n : Int) < 0) := by omega
  simp only [resumePass, hi, ht, hc]
  simp only [SUB_FUEL]
  simp [hsl, hnn]

/-- **an aborted interrupter aborts the flows waiting for it** (same pass, arbitrary lists) -/
theorem interrupter_aborted_aborts (cfgs : Cfgs) (k : Nat) (ns : State) (i : Nat) (fs tgt : FS) (u : Nat) (ch : Bool)
    (hi : ns.flows[i]? = some fs) (hs : fs.status = .interrupted) (hby : fs.interruptedBy = some u)
    (ht : ns.flows.find? (fun g => g.uid == u) = some tgt) (hc : tgt.status = .aborted) :
    resumePass true (k + 1) cfgs ns i ch =
      resumePass true k cfgs { ns with flows := setAt ns.flows i { fs with status := .aborted, interruptedBy := none } } (i + 1) true := by
  simp [resumePass, hi, hs, hby, ht, hc]


/-! ## Phase 4 (3): the action loop `generate_events` -/

/-- one iteration: on a history that follows the flow, what the loop appends is what the structured state says -/
theorem next_events_follow (cfgs : Cfgs) (id : String) (p : Prog) (fS : Nat) (oracle : Oracle)
    (hnc : noCompetingFlows cfgs id p = true) (events : List REvent) (S : SS)
    (hf : followAll p (startIntent p) fS { ctx := [], pos := .idle, dec := [] } (events.map REvent.toEvent) = some S) :
    nextEvents cfgs oracle [] events = none ∨ nextEvents cfgs oracle [] events = refNext oracle S events := by
  have key := next_step_is_flow_statement cfgs id p fS (events.map REvent.toEvent) S hnc hf
  simp only [nextEvents, refNext]
  cases events.getLast? with
  | none => left; rfl
  | some e =>
    cases e with
    | start n ps rk => right; rfl
    | ev e =>
      cases e with
      | hidePrevTurn => right; rfl
      | userIntent i => rcases key with h | h <;> simp [h]
      | botIntent i => rcases key with h | h <;> simp [h]
      | actionFinished n ok => rcases key with h | h <;> simp [h]
      | contextUpdate d => rcases key with h | h <;> simp [h]
      | startAction => rcases key with h | h <;> simp [h]
      | other ty ps => rcases key with h | h <;> simp [h]

/-- **run_follows_program.**  `V1Run.genLoop` mirrors the `while True` loop of `RuntimeV1_0.generate_events`
    (`compute_next_steps` → the decided events are appended → a `StartInternalSystemAction` is dispatched to the action
    oracle and its ContextUpdate / InternalSystemActionFinished / returned events are appended → loop; `Listen` ends
    the turn; the > 100 events valve and an exception of `compute_next_steps` end it with the internal-error events).
    `V1RunL.refLoop` is the same loop at SOURCE level: the decision of every iteration is read off the structured
    state of the flow (`V1Follow.followAll`): the context updates of the statements run since the last event plus the
    event of the statement the structured semantics (`execFrom`) reaches next.
    For a single non-competing dialog flow (`noCompetingFlows`), EVERY action oracle, every history that follows the
    flow so far and every number of loop iterations: whenever the reference turn is defined (the appended events keep
    following the flow — successful actions, no `bot stop`), the loop produces exactly the reference's events, i.e. the
    sequence of decided steps is the structured program's statement sequence — or the model's fuel ran out (`none`). -/
theorem run_follows_program (cfgs : Cfgs) (id : String) (p : Prog) (fS : Nat) (oracle : Oracle)
    (hnc : noCompetingFlows cfgs id p = true) :
    ∀ (n : Nat) (events new out : List REvent) (S : SS),
      followAll p (startIntent p) fS { ctx := [], pos := .idle, dec := [] } (events.map REvent.toEvent) = some S →
      refLoop p (startIntent p) fS oracle n S events new = some out →
      genLoop cfgs oracle [] n events new = none ∨ genLoop cfgs oracle [] n events new = some out := by
  intro n
  induction n with
  | zero => intro events new out S _ h; simp [refLoop] at h
  | succ n ih =>
    intro events new out S hf hout
    simp only [refLoop] at hout
    simp only [genLoop]
    rcases next_events_follow cfgs id p fS oracle hnc events S hf with h | h
    · left; simp [h]
    · rw [h]
      cases hr : refNext oracle S events with
      | none => simp [hr] at hout
      | some nx =>
        simp only [hr] at hout ⊢
        generalize (if nx.isEmpty = true then [listen] else nx) = nx' at hout ⊢
        by_cases h1 : ((nx'.getLast?.map REvent.isListen).getD false) = true
        · simp only [h1, if_true] at hout ⊢
          right; exact hout
        · simp only [h1, Bool.false_eq_true, if_false] at hout ⊢
          by_cases h2 : (new ++ nx').length > 100
          · simp only [h2, if_true] at hout ⊢
            right; exact hout
          · simp only [h2, if_false] at hout ⊢
            cases hfa : followAll p (startIntent p) fS S (nx'.map REvent.toEvent) with
            | none => rw [hfa] at hout; cases hout
            | some S' =>
              rw [hfa] at hout
              refine ih _ _ out S' ?_ hout
              rw [List.map_append, followAll_append p _ fS _ _ _ S hf]
              exact hfa

/-- non-vacuity (finite fact): `user hi / $r = execute a1 / if $r: bot yes / else: bot no / bot bye`, the oracle answers
    True: the reference turn decides `execute a1`, then (after the action's ContextUpdate and its Finished event) `bot yes`,
    then `bot bye`, then nothing (`Listen`). -/
example :
    let p : Prog := .step (.user "hi") (.step (.exec "a1" "{}" (some "r"))
      (.ite (.var "r") (.step (.bot "yes") .nil) (.step (.bot "no") .nil) (.step (.bot "bye") .nil)))
    let oracle : Oracle := fun _ _ _ => { ret := .bool true }
    let ev0 : List REvent := [.ev (.other "UtteranceUserActionFinished" []), .ev (.userIntent "hi")]
    noCompetingFlows [mkCfg "f" p] "f" p = true ∧
    (followAll p "hi" 50 { ctx := [], pos := .idle, dec := [] } (ev0.map REvent.toEvent)).bind
      (fun S => refLoop p "hi" 50 oracle 20 S ev0 [])
      = some [.start "a1" "{}" (some "r"), .ev (.contextUpdate [("r", .bool true)]), .ev (.actionFinished "a1" true),
              .ev (.botIntent "yes"), .ev (.botIntent "bye"), listen] := by
  decide

/-- the loop never runs out of ITS fuel: `GEN_FUEL` iterations suffice whatever the flows and the oracle do (each
    iteration appends at least one event; more than 100 new events close the valve) — `generateEvents` is `none` only if
    `computeNextSteps` ran out of the model's slide fuel in some iteration (or `events` is empty). -/
theorem gen_fuel_suffices (cfgs : Cfgs) (oracle : Oracle) (config : Ctx) :
    ∀ (f : Nat) (events new : List REvent), new.length ≤ 100 → 101 ≤ f + new.length →
      genLoop cfgs oracle config f events new = none →
      ∃ ev' : List REvent, nextEvents cfgs oracle config ev' = none := by
  intro f
  induction f with
  | zero => intro events new h100 hlen _; omega
  | succ f ih =>
    intro events new h100 hlen h
    simp only [genLoop] at h
    cases hn : nextEvents cfgs oracle config events with
    | none => exact ⟨events, hn⟩
    | some nx =>
      simp only [hn] at h
      have hpos : 0 < (if nx.isEmpty then [listen] else nx).length := by
        by_cases he : nx.isEmpty = true
        · simp [he]
        · simp only [he, Bool.false_eq_true, if_false]
          cases nx with
          | nil => simp at he
          | cons a r => simp
      generalize (if nx.isEmpty = true then [listen] else nx) = nx' at h hpos
      by_cases h1 : ((nx'.getLast?.map REvent.isListen).getD false) = true
      · simp only [h1, if_true] at h; cases h
      · simp only [h1, Bool.false_eq_true, if_false] at h
        by_cases h2 : (new ++ nx').length > 100
        · simp only [h2, if_true] at h; cases h
        · simp only [h2, if_false] at h
          refine ih _ _ (by omega) ?_ h
          simp only [List.length_append] at h2 ⊢
          omega

theorem generateEvents_none (cfgs : Cfgs) (oracle : Oracle) (config : Ctx) (events : List REvent)
    (h : generateEvents cfgs oracle config events = none) : ∃ ev' : List REvent, nextEvents cfgs oracle config ev' = none :=
  gen_fuel_suffices cfgs oracle config GEN_FUEL events [] (by simp) (by simp [GEN_FUEL]) h


/-! ## Phase 4 (4): the decision is a function of the history alone — including the mutated config objects -/

/-- **mutation_benign.**  `V1Mut.slideM` is `slide` WITH its side effect on the shared element dicts (it writes
    `_active_label` into every element it passes while a `_label` seen earlier in the same slide is active) and
    returns the mutated element list.  For every element list with arbitrary `_label`s and arbitrary left-over
    `_active_label`s, every head, context and fuel:
    (a) the mutating slide returns exactly what the pure `slide` of the interpreter model returns on the elements
        proper — the left-over `_active_label`s of earlier calls are never read;
    (b) the mutation changes neither an element proper nor a `_label`: the flow configs every other function of the
        interpreter sees (`MCfg.view`) are the same before and after, hence `computeNextSteps` on ANY later history,
        with the mutated config anywhere among ANY other flow configs, decides what it decides on the untouched ones;
    (c) a later slide on the mutated element list returns what it returns on the original one. -/
theorem mutation_benign (f : Nat) (m : MCfg) (st : SSt) (h prev : Int) (act : Option String) :
    (slideM f m.elems st h prev act).1 = slide f (proj m.elems) st h prev ∧
    (∀ (r : Bool) (before after : List MCfg) (H : List Event) (config : Ctx),
      computeNextSteps r ((before ++ { m with elems := (slideM f m.elems st h prev act).2 } :: after).map MCfg.view) H config
        = computeNextSteps r ((before ++ m :: after).map MCfg.view) H config) ∧
    (∀ (f' : Nat) (st' : SSt) (h' prev' : Int) (act' : Option String),
      (slideM f' (slideM f m.elems st h prev act).2 st' h' prev' act').1 = (slideM f' m.elems st' h' prev' act').1) := by
  obtain ⟨h1, h2, _⟩ := slideM_spec f m.elems st h prev act
  refine ⟨h1, ?_, ?_⟩
  · intro r before after H config
    have : MCfg.view { m with elems := (slideM f m.elems st h prev act).2 } = MCfg.view m := by
      simp only [MCfg.view, h2]
    simp only [List.map_append, List.map_cons, this]
  · intro f' st' h' prev' act'
    rw [(slideM_spec f' _ st' h' prev' act').1, (slideM_spec f' m.elems st' h' prev' act').1, h2]

/-- non-vacuity (finite fact): a labelled `set` followed by a `bot` step — the slide marks both elements and the
    elements proper stay what they were -/
example :
    let code : List MElem := [{ el := .setE "x" (.lit (.int 1)) 1, label := some "L" }, { el := .runAction "utter" (some "a") "" none }]
    ((slideM 10 code ⟨[], []⟩ 0 0 none).2.map (·.activeLabel)) = [some "L", some "L"] ∧
    proj (slideM 10 code ⟨[], []⟩ 0 0 none).2 = proj code := by
  decide


/-! ## Phase 4 (1b): `next_step_is_flow_statement` for flows WITH subflow calls -/

/-- **next_step_is_flow_statement_do_partial** (the special case of callees that do not block, with a uid-free
    reference; the full statement — callees that wait for the user / a bot message / an action — is
    `next_step_is_flow_statement_with_do` below).
    For whole histories of any length: `next_step_is_flow_statement` for flows whose callees do NOT block — subflows
    made of assignments, conditionals, loops and further such calls ("subroutines"), at any nesting depth, with the
    subflow configs present among the flow configs (`Setup`: the dialog flow first, then subflow configs only, every
    library body known and non-empty).  `followAllD` is the source-level reference: as `followAll`, with `runD` (run the
    callee's body in place, continue after the `do`) in place of `execFrom`; it is undefined where a callee would block.
    Conclusion as in `next_step_is_flow_statement`: the decision is the reference's, or the model's fuel ran out. -/
theorem next_step_is_flow_statement_do_partial (cfgs : Cfgs) (id : String) (p : Prog) (lib : Lib) (f : Nat) (H : List Event) (S : SS)
    (hS : Setup cfgs id p lib) (hshape : (match p with | .step (.user _) _ => true | _ => false) = true)
    (hfollow : followAllD lib p (startIntent p) f { ctx := [], pos := .idle, dec := [] } H = some S) :
    computeNextSteps true cfgs H = .oof ∨ computeNextSteps true cfgs H = .ok S.dec := by
  cases p with
  | step s r =>
    cases s with
    | user i0 => exact follow_decidesD hS f H S hfollow
    | bot i => simp at hshape
    | exec n ps rk => simp at hshape
    | doFlow n => simp at hshape
  | nil => simp at hshape
  | set k e r => simp at hshape
  | ite c t e r => simp at hshape
  | «while» c b r => simp at hshape
  | brk r => simp at hshape
  | cont r => simp at hshape

/-- non-vacuity: `main = user hi / do setup / if $n == 1: bot one else: bot other`, `setup = $n = 0 / do inc`, `inc = $n = $n + 1` -/
def exDoMain : Prog := .step (.user "hi") (.step (.doFlow "setup") (.ite (.bin .eq (.var "n") (.lit (.int 1))) (.step (.bot "one") .nil) (.step (.bot "other") .nil) .nil))
def exDoSetup : Prog := .set "n" (.lit (.int 0)) (.step (.doFlow "inc") .nil)
def exDoInc : Prog := .set "n" (.bin .add (.var "n") (.lit (.int 1))) .nil
def exDoLib : Lib := [("setup", exDoSetup), ("inc", exDoInc)]
def exDoCfgs : Cfgs := [mkCfg "main" exDoMain, { id := "setup", elems := compile exDoSetup, isSubflow := true },
  { id := "inc", elems := compile exDoInc, isSubflow := true }]

example : Setup exDoCfgs "main" exDoMain exDoLib := by
  refine ⟨⟨_, rfl, by simp⟩, ?_⟩
  intro n q h
  by_cases h1 : n = "setup"
  · subst h1
    simp [exDoLib, List.lookup] at h
    subst h
    exact ⟨by decide, { id := "setup", elems := compile exDoSetup, isSubflow := true }, by simp [exDoCfgs, Cfgs.find, mkCfg], rfl⟩
  · by_cases h2 : n = "inc"
    · subst h2
      simp [exDoLib, List.lookup] at h
      subst h
      exact ⟨by decide, { id := "inc", elems := compile exDoInc, isSubflow := true }, by simp [exDoCfgs, Cfgs.find, mkCfg], rfl⟩
    · have e1 : (n == "setup") = false := by simpa using h1
      have e2 : (n == "inc") = false := by simpa using h2
      simp [exDoLib, List.lookup, e1, e2] at h

example : (followAllD exDoLib exDoMain "hi" 50 { ctx := [], pos := .idle, dec := [] }
      [.other "UtteranceUserActionFinished" [], .userIntent "hi"]).map (·.dec)
    = some [.ctx [("n", .int 1)], .bot "one"] := by
  decide


/-! ## Phase 4 (1c): the resume fix-point unwinds the call stack -/

/-- **resume_unwinds_stack.**  The state of the interpreter along a stack of waiting callers (`Shape`): the flow states
    are — in ANY order, among any COMPLETED left-overs — the images of the frames `stk` (innermost first; each frame
    waits at a `do`, INTERRUPTED by the uid of the frame below it), with pairwise distinct uids below the counter.
    Situation: the callee `X` the top frame waits for (`ChainFrom (some uX) stk`) is COMPLETED.  Then the resume
    fix-point of `compute_next_state` (`resumePass` from any position `i` of the running pass, followed by the
    `while changes` iterations; `resumeLoop true (K+1) … = resumeFrom … K 1000 ns 0 false`) does exactly what the
    structured unwinding `unwindS` says, whatever the depth of the stack and the order of the list: the top caller
    continues AFTER its `do`; if it runs to its end, ITS caller continues after its own `do`, and so on; the first frame
    that reaches a step statement (possibly after calling further subflows, whose frames are pushed) stops the
    unwinding.  The result again has the shape of a stack (`Shape … stk'`, `ChainFrom none stk'`), the context, the
    context updates and the uid counter are the structured run's, and the recorded next step is the one of the
    innermost waiting flow (`InnerOK`) — or the model's fixed pass / loop / slide fuel ran out. -/
theorem resume_unwinds_stack (cfgs : Cfgs) (lib : Lib) (hlib : LibOK cfgs lib) (f : Nat)
    (stk : List SFrame) (K F : Nat) (ns : State) (i : Nat) (ch : Bool) (uX jx : Nat) (X : FS)
    (hS : Shape cfgs ns stk) (hc : ChainFrom (some uX) stk)
    (hX : ns.flows[jx]? = some X) (hXu : X.uid = uX) (hXc : X.status = .completed)
    (hpos : ch = true ∨ ∀ top, stk.head? = some top → ∀ idx : Nat, ns.flows[idx]? = some top.toFS → i ≤ idx) :
    resumeFrom cfgs K F ns i ch = .error .oof ∨
    Unwound cfgs ns.next (resumeFrom cfgs K F ns i ch) (unwindS lib f ⟨ns.ctx, ns.upd⟩ ns.ctr stk) :=
  resume_chain cfgs lib hlib f stk K F ns i ch uX jx X hS hc hX hXu hXc hpos

/-- the fix-point as the code has it is `resumeFrom` from the start of a fresh pass -/
theorem resume_loop_is_resumeFrom (cfgs : Cfgs) (K : Nat) (ns : State) :
    resumeLoop true (K + 1) cfgs ns = resumeFrom cfgs K 1000 ns 0 false := resumeLoop_eq cfgs K ns


/-! ## Phase 4 (1d): `next_step_is_flow_statement` for flows with subflow calls that BLOCK — whole histories -/

/-- **next_step_is_flow_statement_with_do.**  The lift of `next_step_is_flow_statement` to dialog flows whose statements
    include `do` calls of subflows which may themselves wait for the user, a bot message or an action, and call further
    subflows — any nesting depth, every history of any length that follows the flow THROUGH its callees.
    `followAllK` is the source-level reference: its state is the context, the STACK of waiting frames (innermost first;
    a frame = flow name, body, the address of the statement it waits at; frames are named by the interpreter's uid
    counter, which the reference threads along) and what is decided.  On the event that matches the innermost
    frame's statement the stack is unwound by `unwindS`: the innermost flow continues after its statement
    (`runS`: its own statements, calls pushing new frames); if it runs to its end, its caller continues after the
    `do`, and so on (`exec`/`execFrom` at every level); the start intent of the idle flow pushes the dialog flow's
    frame; ContextUpdate, StartInternalSystemAction and non-triggering events are as in `followAll`.  What is decided
    is the context updates since the event plus the event of the statement of the INNERMOST waiting flow.
    `SetupK`: the flow configs are the dialog flow (compiled from `p`, all defaults) followed by subflow configs
    (default trigger types, not extensions); every library body is among them, compiled and non-empty.
    Conclusion: `computeNextSteps` (with both repairs) returns exactly the reference's decision — or the model's fixed
    fuel ran out.  Invariant behind it (`V1StackFollow.InvK`): the interpreter's flow states are — in any order, among
    COMPLETED left-overs — the images of the stack's frames (`V1Stack.Shape`: the innermost ACTIVE at its statement,
    every caller INTERRUPTED with its head past its `do` and `interrupted_by` = its callee's uid, uids pairwise
    distinct and below the counter); `resume_unwinds_stack` carries the resume fix-point. -/
theorem next_step_is_flow_statement_with_do (cfgs : Cfgs) (id : String) (p : Prog) (lib : Lib) (f : Nat) (H : List Event) (S : SK)
    (hS : SetupK cfgs id p lib) (hshape : (match p with | .step (.user _) _ => true | _ => false) = true)
    (hfollow : followAllK lib id p (startIntent p) f { ctx := [], ctr := 0, stk := [], dec := [] } H = some S) :
    computeNextSteps true cfgs H = .oof ∨ computeNextSteps true cfgs H = .ok S.dec := by
  cases p with
  | step s r =>
    cases s with
    | user i0 => exact follow_decidesK hS f H S hfollow
    | bot i => simp at hshape
    | exec n ps rk => simp at hshape
    | doFlow n => simp at hshape
  | nil => simp at hshape
  | set k e r => simp at hshape
  | ite c t e r => simp at hshape
  | «while» c b r => simp at hshape
  | brk r => simp at hshape
  | cont r => simp at hshape

/-- non-vacuity of `SetupK`: `main = user hi / do s / bot bye`, `s = user u1` (a callee that waits for the user) -/
example : SetupK exCfgs "main" exMain exLib :=
  ⟨⟨_, rfl, by simp⟩, exLibOK⟩

/-- non-vacuity (finite facts): after `user hi` the callee `s` waits for `user u1` — nothing is decided, the stack is
    [s, main]; `user u1` ends `s`, `main` continues after its `do` and decides `bot bye`. -/
example :
    (followAllK exLib "main" exMain "hi" 20 { ctx := [], ctr := 0, stk := [], dec := [] } [.userIntent "hi"]).map (fun S => (S.dec, S.stk.map (·.name)))
      = some ([], ["s", "main"]) ∧
    (followAllK exLib "main" exMain "hi" 20 { ctx := [], ctr := 0, stk := [], dec := [] } [.userIntent "hi", .userIntent "u1"]).map (fun S => (S.dec, S.stk.map (·.name)))
      = some ([.bot "bye"], ["main"]) := by
  decide


/-! ## Phase 4 (3b): the action loop on a flow with subflow calls -/

theorem next_events_follow_do (cfgs : Cfgs) (id : String) (p : Prog) (lib : Lib) (fS : Nat) (oracle : Oracle)
    (hS : SetupK cfgs id p lib) (hshape : (match p with | .step (.user _) _ => true | _ => false) = true)
    (events : List REvent) (S : SK)
    (hf : followAllK lib id p (startIntent p) fS { ctx := [], ctr := 0, stk := [], dec := [] } (events.map REvent.toEvent) = some S) :
    nextEvents cfgs oracle [] events = none ∨ nextEvents cfgs oracle [] events = refNextK oracle S events := by
  have key := next_step_is_flow_statement_with_do cfgs id p lib fS (events.map REvent.toEvent) S hS hshape hf
  simp only [nextEvents, refNextK]
  cases events.getLast? with
  | none => left; rfl
  | some e =>
    cases e with
    | start n ps rk => right; rfl
    | ev e =>
      cases e with
      | hidePrevTurn => right; rfl
      | userIntent i => rcases key with h | h <;> simp [h]
      | botIntent i => rcases key with h | h <;> simp [h]
      | actionFinished n ok => rcases key with h | h <;> simp [h]
      | contextUpdate d => rcases key with h | h <;> simp [h]
      | startAction => rcases key with h | h <;> simp [h]
      | other ty ps => rcases key with h | h <;> simp [h]

/-- **run_follows_program_with_do.**  `run_follows_program` for a dialog flow with subflow calls (callees may block, any
    nesting depth; setting `SetupK`): the loop of `generate_events` produces, for every action oracle, exactly the events of
    the source-level turn `refLoopK`, whose decisions are read off the structured stack state of `followAllK` — the statements
    of the innermost running flow, after a callee's last statement the statement after the `do` — or the model's fuel ran out. -/
theorem run_follows_program_with_do (cfgs : Cfgs) (id : String) (p : Prog) (lib : Lib) (fS : Nat) (oracle : Oracle)
    (hS : SetupK cfgs id p lib) (hshape : (match p with | .step (.user _) _ => true | _ => false) = true) :
    ∀ (n : Nat) (events new out : List REvent) (S : SK),
      followAllK lib id p (startIntent p) fS { ctx := [], ctr := 0, stk := [], dec := [] } (events.map REvent.toEvent) = some S →
      refLoopK lib id p (startIntent p) fS oracle n S events new = some out →
      genLoop cfgs oracle [] n events new = none ∨ genLoop cfgs oracle [] n events new = some out := by
  intro n
  induction n with
  | zero => intro events new out S _ h; simp [refLoopK] at h
  | succ n ih =>
    intro events new out S hf hout
    simp only [refLoopK] at hout
    simp only [genLoop]
    rcases next_events_follow_do cfgs id p lib fS oracle hS hshape events S hf with h | h
    · left; simp [h]
    · rw [h]
      cases hr : refNextK oracle S events with
      | none => simp [hr] at hout
      | some nx =>
        simp only [hr] at hout ⊢
        generalize (if nx.isEmpty = true then [listen] else nx) = nx' at hout ⊢
        by_cases h1 : ((nx'.getLast?.map REvent.isListen).getD false) = true
        · simp only [h1, if_true] at hout ⊢
          right; exact hout
        · simp only [h1, Bool.false_eq_true, if_false] at hout ⊢
          by_cases h2 : (new ++ nx').length > 100
          · simp only [h2, if_true] at hout ⊢
            right; exact hout
          · simp only [h2, if_false] at hout ⊢
            cases hfa : followAllK lib id p (startIntent p) fS S (nx'.map REvent.toEvent) with
            | none => rw [hfa] at hout; cases hout
            | some S' =>
              rw [hfa] at hout
              refine ih _ _ out S' ?_ hout
              rw [List.map_append, followAllK_append lib id p _ fS _ _ _ S hf]
              exact hfa

/-- non-vacuity (finite fact): `main = user hi / do s / bot bye`, `s = user u1`: the turn after `user hi` decides nothing
    (the callee waits: `Listen`); the turn after `user u1` decides `bot bye` and then nothing. -/
example :
    let oracle : Oracle := fun _ _ _ => {}
    let ev1 : List REvent := [.ev (.userIntent "hi")]
    let ev2 : List REvent := [.ev (.userIntent "hi"), listen, .ev (.userIntent "u1")]
    (followAllK exLib "main" exMain "hi" 20 { ctx := [], ctr := 0, stk := [], dec := [] } (ev1.map REvent.toEvent)).bind
      (fun S => refLoopK exLib "main" exMain "hi" 20 oracle 10 S ev1 []) = some [listen] ∧
    (followAllK exLib "main" exMain "hi" 20 { ctx := [], ctr := 0, stk := [], dec := [] } (ev2.map REvent.toEvent)).bind
      (fun S => refLoopK exLib "main" exMain "hi" 20 oracle 10 S ev2 []) = some [.ev (.botIntent "bye"), listen] := by
  decide


/-! ## Phase 4 (5): `hide_prev_turn` -/

/-- **hide_prev_turn_is_cut.**  A `hide_prev_turn` event at the end of a history (what the runtime appends after a failed
    action / an internal error): for ANY flow configs, the decision is the decision for the history cut before the last
    user utterance (`cutAtLastUtterance`: everything from the last `UtteranceUserActionFinished` on is dropped) — so the
    histories of `next_step_is_flow_statement(_with_do)` extend to histories with hidden turns by cutting them. -/
theorem hide_prev_turn_is_cut (r : Bool) (cfgs : Cfgs) (config : Ctx) (H H' : List Event)
    (hH : ∀ ev ∈ H, ev ≠ .hidePrevTurn) (hcut : cutAtLastUtterance H = some H') :
    computeNextSteps r cfgs (H ++ [.hidePrevTurn]) config = computeNextSteps r cfgs H' config :=
  NemoVerif.V1Hide.hide_is_cut r cfgs config H H' hH hcut

/-- non-vacuity: two turns, the second one hidden -/
example : cutAtLastUtterance [.other "UtteranceUserActionFinished" [], .userIntent "hi", .botIntent "b",
      .other "UtteranceUserActionFinished" [], .userIntent "x", .botIntent "inform internal error occurred"]
    = some [.other "UtteranceUserActionFinished" [], .userIntent "hi", .botIntent "b"] := by decide


/-! ## Wave 3: the loop keys on EVERY element dict (`V1Annot`)

The compiler's annotation pass writes `_next_on_break` / `_next_on_continue` into every element of a loop body (`if`, `set`,
`jump`, step elements, …), not only into `break` / `continue`.  `V1Interp.Elem` carries these keys only where the unchanged `slide`
reads them, so the statements above say nothing about a `slide` that reads a loop key on another element type (seeded change
C14-e: `if` skipped its body by `_next_on_break` when the key was present — an `if` inside a `while` left the loop).  `V1Annot`
models the dicts with all their keys (`AElem`), the compiler with the full annotation pass (`compileA`) and `slide` reading the
dicts key by key (`slideA`); the harness compares `compileA`'s keys with the parser's dicts element by element and the real `slide`
with `slideA` at every head, and at every `if` inside a loop with both values of its condition. -/

/-- The compiler with the full annotation pass yields the element list of `compile` (hence of `comp none`) when the loop keys
    are dropped, and every dict it produces is coherent (the adapter's element and the dict agree on `_next_on_break` /
    `_next_on_continue` wherever both hold them). ∀ programs. -/
theorem compile_annotated_projects (p : Prog) : proj (compileA p) = compile p ∧ AllCoherent (compileA p) :=
  ⟨compileA_proj p, compileA_coherent p⟩

/-- **The loop keys are read by `while`, `break` and `continue` only.**  On coherent dicts — whatever `_next_on_break` /
    `_next_on_continue` the `if`, `set`, `jump` and step elements carry — `slide` returns what it returns on the elements without
    these keys.  ∀ element lists, fuel, contexts, heads. -/
theorem loop_keys_read_only_by_loops (code : List AElem) (hc : AllCoherent code) (f : Nat) (st : SSt) (h prev : Int) :
    slideA f code st h prev = slide f (proj code) st h prev := slideA_eq_slide code hc f st h prev

/-- **slide_simulates on the dicts as the compiler leaves them** (loop keys on every element of every loop body): the real `slide`
    loop on `compileA p` does what the structured run of `p` does.  In particular an `if` / `if-else` at any depth inside
    `while` loops at any depth, with either value of its condition, goes on with the statement the structured program names —
    inside the loop. -/
theorem slide_annotated_simulates (p : Prog) (f : Nat) (st : SSt) :
    match exec f st p with
    | .atStep st' a => SlidesA (compileA p) st 0 (.at st' (off p a))
    | .fell st' => SlidesA (compileA p) st 0 (.fin st')
    | .err => SlidesA (compileA p) st 0 .err
    | _ => True := by
  have h := slide_simulates p f st
  cases hout : exec f st p <;> simp only [hout] at h ⊢ <;> first | trivial | exact (slidesA_iff p st _ _).mpr h

/-- the same, resuming after the step statement at any source address -/
theorem slide_annotated_simulates_resume (p : Prog) (a : Addr) (f : Nat) (st : SSt) :
    match execFrom f st p a with
    | .atStep st' a' => SlidesA (compileA p) st ((off p a + 1 : Nat) : Int) (.at st' (off p a'))
    | .fell st' => SlidesA (compileA p) st ((off p a + 1 : Nat) : Int) (.fin st')
    | .err => SlidesA (compileA p) st ((off p a + 1 : Nat) : Int) .err
    | _ => True := by
  have h := slide_simulates_resume p a f st
  cases hout : execFrom f st p a <;> simp only [hout] at h ⊢ <;> first | trivial | exact (slidesA_iff p st _ _).mpr h

/-- One iteration of `slide` at an `if` dict: whatever loop keys the dict carries, a false condition skips by `_next_else`. -/
theorem if_reads_next_else_only (code : List AElem) (st : SSt) (h : Int) (c : Expr) (ne : Int) (b k : Option Int) (v : V)
    (hget : code[h.toNat]? = some { el := .ifE c ne, brk := b, cnt := k }) (hv : eval st.ctx c = some v) :
    sstepA code st h = .next st (if v.truthy then h + 1 else h + ne) := by
  simp [sstepA, hget, hv]

/-- … whereas the "one conditional-jump branch for `if` and `while`" variant skips by `_next_on_break` when the dict has one. -/
theorem if_brk_variant_step (code : List AElem) (st : SSt) (h : Int) (c : Expr) (ne : Int) (b k : Option Int) (v : V)
    (hget : code[h.toNat]? = some { el := .ifE c ne, brk := b, cnt := k }) (hv : eval st.ctx c = some v) :
    sstepIfBrk code st h = .next st (if v.truthy then h + 1 else h + b.getD ne) := by
  simp [sstepIfBrk, hget, hv]

/-- `$i = 0 / while $i < 2: (if $i == 1: bot half) ; $i = $i + 1 / bot bye` -/
def ifInWhile : Prog :=
  .set "i" (.lit (.int 0)) (.while (.bin .lt (.var "i") (.lit (.int 2)))
    (.ite (.bin .eq (.var "i") (.lit (.int 1))) (.step (.bot "half") .nil) .nil
      (.set "i" (.bin .add (.var "i") (.lit (.int 1))) .nil))
    (.step (.bot "bye") .nil))

/-- non-vacuity of `loop_keys_read_only_by_loops` / `if_reads_next_else_only`: the compiled loop body's `if` dict carries
    `_next_on_break = 4`, `_next_on_continue = -1`, and the list is coherent -/
example : (compileA ifInWhile)[2]? = some { el := .ifE (.bin .eq (.var "i") (.lit (.int 1))) 2, brk := some 4, cnt := some (-1) } ∧
    AllCoherent (compileA ifInWhile) := ⟨by rfl, compileA_coherent _⟩

/-- **The seeded variant, kernel-checked (finite fact):** the structured program reaches `bot half` in the second iteration
    (context i = 1); `slideA` — the code as it is — stops there (element 3); the variant in which a false `if` skips by
    `_next_on_break` leaves the loop in the FIRST iteration and stops at `bot bye` (element 6) with i = 0. -/
theorem if_brk_variant_counterexample :
    exec 50 ⟨[], []⟩ ifInWhile = .atStep ⟨[("i", .int 1)], [("i", .int 1)]⟩ (.next (.body (.thenB .here))) ∧
    off ifInWhile (.next (.body (.thenB .here))) = 3 ∧
    slideA 50 (compileA ifInWhile) ⟨[], []⟩ 0 0 = .at ⟨[("i", .int 1)], [("i", .int 1)]⟩ 3 ∧
    slideIfBrk 50 (compileA ifInWhile) ⟨[], []⟩ 0 0 = .at ⟨[("i", .int 0)], [("i", .int 0)]⟩ 6 := by
  refine ⟨by rfl, by rfl, by rfl, by rfl⟩
/-! ## Wave 6: which uid a subflow instance gets (seeded change C14-f) -/

/-- **`_call_subflow` hands out FRESH uids** (the model of `uid=new_uuid()`), for every library of flow configs, every caller,
    every call depth: if the uids of the state's flow states are below the counter, then `_slide_with_subflows` (the slide,
    every `do` it reaches, recursively) returns a state whose flow-state list is the old one followed by new instances with
    pairwise distinct uids, each different from the uid of EVERY flow state that was there before — in particular from the
    COMPLETED instance a previous execution of the same `do` left behind —; the caller keeps its uid; and if the caller now
    waits (`interrupted_by` changed) it waits for one of the new instances, never for an older flow state. -/
theorem call_subflow_uid_fresh (repaired : Bool) (fuel : Nat) (cfgs : Cfgs) (ns : State) (fs : FS) (ns' : State) (fs' : FS)
    (hbound : ∀ x ∈ ns.flows, x.uid < ns.ctr)
    (h : slideWithSubflows repaired fuel cfgs ns fs = .ok (ns', fs')) :
    ∃ new : List FS, ns'.flows = ns.flows ++ new ∧ (new.map (·.uid)).Nodup ∧
      (∀ x ∈ new, ∀ y ∈ ns.flows, x.uid ≠ y.uid) ∧ (∀ x ∈ new, x.uid < ns'.ctr) ∧ ns.ctr ≤ ns'.ctr ∧
      fs'.uid = fs.uid ∧
      ∀ u, fs'.interruptedBy = some u → fs.interruptedBy = some u ∨ ((∃ x ∈ new, x.uid = u) ∧ ∀ y ∈ ns.flows, y.uid ≠ u) := by
  have fr := slideWS_fresh repaired fuel cfgs ns fs ns' fs' h
  obtain ⟨hc, new, hfl, hnd, hr⟩ := fr.ext
  refine ⟨new, hfl, hnd, ?_, fun x hx => (hr x hx).2, hc, fr.uid, ?_⟩
  · intro x hx y hy; have := hr x hx; have := hbound y hy; omega
  · intro u hu
    rcases fr.by_new u hu with h' | ⟨h1, _, x, hx, hxu⟩
    · exact .inl h'
    · right
      refine ⟨?_, fun y hy => by have := hbound y hy; omega⟩
      rw [hfl] at hx
      rcases List.mem_append.1 hx with hx | hx
      · have := hbound x hx; omega
      · exact ⟨x, hx, hxu⟩

/-- **The uids of the flow states of every state are pairwise distinct** — `UidsOK` (pairwise distinct, below the counter) is
    an invariant of `compute_next_state`, for ALL flow configs (dialog flows, subflows, extension flows, any priorities),
    every event and every state: advance loop, start loop, re-activation of aborted flows, interruption marks, the resume
    fix-point.  This is the hypothesis the call / return theorems carry in `V1Stack.Shape` (`nodup`, `bound`); it is checked
    on every state the real `compute_next_state` returns while the harness replays its histories (uid tie). -/
theorem uids_pairwise_distinct_step (repaired : Bool) (cfgs : Cfgs) (st : State) (ev : Event) (st' : State)
    (hU : UidsOK st) (h : computeNextState repaired cfgs st ev = .ok st') : UidsOK st' :=
  computeNextState_uids repaired cfgs st ev st' h hU

/-- … hence in every state reached by replaying ANY history from the initial state (`compute_next_steps`). -/
theorem uids_pairwise_distinct (repaired : Bool) (cfgs : Cfgs) (history : List Event) (config : Ctx) (st : State)
    (h : replay repaired cfgs history { ctx := config } = .ok st) : UidsOK st :=
  replay_uids repaired cfgs history _ st h ⟨by simp, by simp⟩

/-- **`V1Interp` is the interpreter with the allocation policy "fresh uid from the counter"**: the policy-parametric
    interpreter of `Models/V1Uid.lean` (same text, `alloc.…` in the place of `ns.ctr`) instantiated with `counterAlloc`
    is `computeNextSteps`, for all flow configs and histories. -/
theorem interp_is_counter_alloc (repaired : Bool) (cfgs : Cfgs) (history : List Event) (config : Ctx) :
    computeNextStepsU counterAlloc repaired cfgs history config = computeNextSteps repaired cfgs history config :=
  computeNextStepsU_counter repaired cfgs history config

/-- `siteAlloc` is injective in the call site (caller uid, position of the `do`) for positions below `SITE_W`, like
    `f"{caller.uid}/{caller.head}"` — what it lacks is freshness in TIME. -/
theorem siteAlloc_injective (c c' : Nat) (a b : FS) (ha : 0 ≤ a.head ∧ a.head < SITE_W) (hb : 0 ≤ b.head ∧ b.head < SITE_W)
    (h : siteAlloc.sub c a = siteAlloc.sub c' b) : a.uid = b.uid ∧ a.head = b.head := by
  simp only [siteAlloc, SITE_W] at *
  omega

/-- where pairwise distinct uids are USED: the resume pass looks up the interrupter of a waiting flow by uid and takes the
    first hit (`for _flow_state in …: if _flow_state.uid == flow_state.interrupted_by: … break`); under `UidsOK` the first
    hit is THE flow state with that uid, whichever it is. -/
theorem interrupter_lookup_unique (st : State) (hU : UidsOK st) (x : FS) (hx : x ∈ st.flows) :
    st.flows.find? (fun g => g.uid == x.uid) = some x := by
  obtain ⟨i, hi⟩ := List.mem_iff_getElem?.1 hx
  exact find_uid hU.1 hi

/-- the invariant of `next_step_is_flow_statement_with_do` / `resume_unwinds_stack` (`V1Stack.Shape`) contains `UidsOK` -/
theorem shape_has_uids_ok (cfgs : Cfgs) (ns : State) (stk : List SFrame) (h : Shape cfgs ns stk) : UidsOK ns :=
  ⟨h.nodup, fun x hx => by obtain ⟨j, hj⟩ := List.mem_iff_getElem?.1 hx; exact h.bound j x hj⟩

/-- `collect items`: `user start / $i = 0 / while $i < 2: (do ask item / $i = $i + 1) / bot say done`;
    `ask item`: `bot ask item / user give item` (the program of seeded/C14-f-subflow-uid-from-call-site/demo.py) -/
def loopCfgs : Cfgs :=
  [{ id := "collect items", elems := compile (.step (.user "start") (.set "i" (.lit (.int 0))
      (.while (.bin .lt (.var "i") (.lit (.int 2))) (.step (.doFlow "ask item") (.set "i" (.bin .add (.var "i") (.lit (.int 1))) .nil))
        (.step (.bot "say done") .nil)))) },
   { id := "ask item", isSubflow := true, elems := compile (.step (.bot "ask item") (.step (.user "give item") .nil)) }]

def loopHistory : List Event :=
  [.userIntent "start", .botIntent "ask item", .userIntent "give item", .botIntent "ask item", .userIntent "give item"]

/-- **Kernel-checked counterexample for call-site-derived uids** (finite fact, `decide +kernel`).  The flow asks for an item
    twice and then says it is done.  With fresh uids (the code as it is) the second `give item` completes the loop: the
    decision is `$i = 2`, `bot say done`.  With `uid = f(caller uid, position of the do)` the instance created in the second
    iteration gets the uid of the COMPLETED instance of the first iteration (both are in the state: uids `[0, 7, 7]`,
    `UidsOK` fails); the resume pass looks up the caller's `interrupted_by`, finds the completed one first, and resumes the
    caller while the subflow it just called is still running: already after the FIRST `give item` the counter is advanced to
    2 (the caller ran through the loop), and after the second one nothing is decided — `bot say done` is never reached. -/
theorem call_site_uid_counterexample :
    -- the code as it is (fresh uids)
    computeNextSteps true loopCfgs (loopHistory.take 3) = .ok [.ctx [("i", .int 1)], .bot "ask item"] ∧
    computeNextSteps true loopCfgs loopHistory = .ok [.ctx [("i", .int 2)], .bot "say done"] ∧
    -- uids derived from the call site
    computeNextStepsU siteAlloc true loopCfgs (loopHistory.take 3) = .ok [.ctx [("i", .int 2)], .bot "ask item"] ∧
    computeNextStepsU siteAlloc true loopCfgs loopHistory = .ok [] ∧
    (replayU siteAlloc true loopCfgs (loopHistory.take 3) {}).toOption.map (fun st => st.flows.map (fun x => (x.uid, x.status)))
      = some [(0, .active), (7, .completed), (7, .active)] ∧
    (replay true loopCfgs (loopHistory.take 3) {}).toOption.map (fun st => st.flows.map (fun x => (x.uid, x.status, x.interruptedBy)))
      = some [(0, .interrupted, some 2), (1, .completed, none), (2, .active, none)] := by
  decide +kernel

/-- non-vacuity of `uids_pairwise_distinct` / `call_subflow_uid_fresh`: the replay of the loop history is defined, its
    state has three flow states (the caller, the completed and the running instance of the subflow), and the slide that
    resumes the caller does call the subflow (one new flow state) -/
example : (replay true loopCfgs (loopHistory.take 3) {}).toOption.map (fun st => (st.flows.length, decide (UidsOK st))) = some (3, true) := by
  decide +kernel

example : (slideWithSubflows true SUB_FUEL loopCfgs
      { ctx := [("i", .int 0)], flows := [{ uid := 0, flowId := "collect items", head := 4 }, { uid := 1, flowId := "ask item", head := -2, status := .completed }], ctr := 2 }
      { uid := 0, flowId := "collect items", head := 4 }).toOption.map (fun p => (p.1.flows.map (·.uid), p.2.interruptedBy)) = some ([0, 1, 2], some 2) := by
  decide +kernel

example : siteAlloc.sub 5 { uid := 0, flowId := "collect items", head := 3 } = 7 := by decide

/-- **The NAMES of the uids do not matter — only that they never repeat.**  `new_uuid()` returns uuid4 strings, the model hands out
    a counter.  For EVERY injective naming `g` of the allocation counter (a sequence of names that never repeats), the
    interpreter that hands out `g 0, g 1, …` decides, for all flow configs and every history, exactly what `V1Interp` decides:
    uids are only ever compared for equality (`interrupted_by` lookup, `next_step_by_flow_uid`). -/
theorem uid_names_irrelevant (g : Nat → Nat) (hg : Function.Injective g) (repaired : Bool) (cfgs : Cfgs) (history : List Event) (config : Ctx) :
    computeNextStepsU (injAlloc g) repaired cfgs history config = computeNextSteps repaired cfgs history config :=
  computeNextSteps_inj g hg repaired cfgs history config

/-- … and it reaches, from renamed states, the renamed states (`mapSt g`: every uid, `interrupted_by` and
    `next_step_by_flow_uid` renamed): what the state tie of the harness compares up to. -/
theorem uid_names_irrelevant_states (g : Nat → Nat) (hg : Function.Injective g) (repaired : Bool) (cfgs : Cfgs) (history : List Event) (st : State) :
    replayU (injAlloc g) repaired cfgs history (mapSt g st) =
      (match replay repaired cfgs history st with
       | .ok s => .ok (mapSt g s)
       | .error e => .error e) := by
  rw [replay_map g hg]; rfl

/-- non-vacuity: an injective naming that is not the identity, and a history on which it names the subflow instances 7 and 9 -/
example : Function.Injective (fun n : Nat => 2 * n + 5) := by intro a b h; simp at h; omega
example : (replayU (injAlloc (fun n => 2 * n + 5)) true loopCfgs (loopHistory.take 3) {}).toOption.map (fun st => st.flows.map (·.uid)) = some [5, 7, 9] := by
  decide +kernel

/-- what the call-site policy lacks: its uid does not depend on WHEN the call happens -/
theorem siteAlloc_not_fresh (c c' : Nat) (caller : FS) : siteAlloc.sub c caller = siteAlloc.sub c' caller := rfl

/-- non-vacuity of `interrupter_lookup_unique` / `shape_has_uids_ok`, and a state that is NOT `UidsOK` -/
example : UidsOK { flows := [{ uid := 0, flowId := "a", head := 1 }, { uid := 1, flowId := "b", head := 0 }], ctr := 2 } ∧
    ({ uid := 1, flowId := "b", head := 0 } : FS) ∈ [({ uid := 0, flowId := "a", head := 1 } : FS), { uid := 1, flowId := "b", head := 0 }] := by
  decide
example : Shape [] {} [] := ⟨by simp, by simp, by simp, by simp, by simp, by simp, by simp⟩
example : ¬ UidsOK { flows := [{ uid := 7, flowId := "ask item", head := -2, status := .completed }, { uid := 7, flowId := "ask item", head := 0 }], ctr := 8 } := by
  decide


end NemoVerif.C14
