import NemoVerif.Models.V1Struct
namespace NemoVerif.C14
open NemoVerif.V1Interp NemoVerif.V1Struct

theorem placeholder : (1 : Nat) = 1 := rfl

end NemoVerif.C14
