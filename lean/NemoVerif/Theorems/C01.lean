/-
  C01 — input rails gate every user message before anything else sees it.

  Property theorems only.  Model: `Models/Pipeline.lean` (`turnV1` mirrors llm_flows.co and the 1.0
  runtime, `turnV2` mirrors guardrails.co); lemmas: `Lemmas/Pipeline.lean`; the structural facts
  about the *current* flows that the model relies on are re-checked by the kernel in
  `Lemmas/PipelineTie.lean` (imported here so that they are obligations of this module).

  Everything is universally quantified: rail lists of any length and order (`cfg.inRails`), verdict
  functions (`t.vin`, `t.vout` — any mixture of accept / reject / rewrite / fault at any call), texts,
  dialog on/off, exceptions on/off, the history `h` the turn starts from, conversations of any length.
  `gate v rails text` (Lemmas/Pipeline.lean) is the specification of "all configured rails, in the
  configured order, each shown the current text, stopping at the first one that does not let it
  through"; its meaning is pinned down by `gate_is_prefix`, `gate_complete`, `gate_stops_at_block`.
  `WF cfg k`: in exception mode every rail flow of kind `k` stops after raising its exception (true
  for every shipped rail except `self check output`, see C02).
-/
import NemoVerif.Lemmas.Pipeline
import NemoVerif.Lemmas.PipelineV2
import NemoVerif.Lemmas.PipelineTie
import NemoVerif.Lemmas.PipelineCtx

set_option linter.unusedSimpArgs false

namespace NemoVerif.C01
open NemoVerif NemoVerif.Pipeline

/-! ### what `gate` means -/

/-- The rails that run are a prefix of the configured list, in the configured order. -/
theorem gate_is_prefix (v : Nat → Text → Verdict) (rails : List Nat) (t : Text) :
    (gate v rails t).map Prod.fst = rails.take (gate v rails t).length :=
  Pipeline.gate_ids_prefix v rails t

/-- If no rail blocks, all configured rails run. -/
theorem gate_complete (v : Nat → Text → Verdict) (rails : List Nat) (t : Text)
    (h : ∀ c ∈ gate v rails t, (v c.1 c.2).continues = true) : (gate v rails t).map Prod.fst = rails := by
  apply Pipeline.gate_full
  cases hs : gateStop v rails t with
  | none => rfl
  | some w =>
    obtain ⟨r, x, hl, hv, hw⟩ := Pipeline.gate_stop_last v rails t w hs
    have := h (r, x) (List.mem_of_getLast? hl)
    simp only [hv, hw] at this
    cases this

/-- A rail that does not let the text through is the last rail that runs; all earlier ones let it through. -/
theorem gate_stops_at_block (v : Nat → Text → Verdict) (rails : List Nat) (t : Text) (c : Nat × Text)
    (hc : c ∈ gate v rails t) (hb : (v c.1 c.2).continues = false) :
    (gate v rails t).getLast? = some c ∧ ∀ c' ∈ (gate v rails t).dropLast, (v c'.1 c'.2).continues = true :=
  ⟨Pipeline.gate_block_is_last v rails t c hc hb, Pipeline.gate_init_continue v rails t⟩

/-- Each rail is shown the text the previous rail left (the original text for the first one). -/
theorem gate_threads_text (v : Nat → Text → Verdict) (rails : List Nat) (t : Text) : Chained v t (gate v rails t) :=
  Pipeline.gate_chained v rails t

/-! ### Colang 1.0 -/

/-- `input_order`: the input-rail invocations of a turn are exactly `gate` of the configured list —
    whatever state the turn starts from and however the output rails are written. -/
theorem input_order_v1 (cfg : Cfg) (h : HistV1) (t : Turn) (hi : WF cfg .input) :
    railCalls .input (turnV1 cfg h t).1 = gate t.vin cfg.inRails t.user :=
  turnV1_input_calls cfg h t hi

/-- `input_before_generation`: the trace splits into a part without any dialog / generation step
    followed by a part without any input-rail call. -/
theorem input_before_generation_v1 (cfg : Cfg) (h : HistV1) (t : Turn) (hi : WF cfg .input) :
    ∃ pre post, (turnV1 cfg h t).1 = pre ++ post ∧ (∀ s ∈ pre, s.isGen = false) ∧ railCalls .input post = [] := by
  rw [turnV1_input_nf cfg h t hi]
  cases stopResV1 cfg t.retrFault (gateText t.vin cfg.inRails t.user) (gateStop t.vin cfg.inRails t.user) with
  | pass um => exact ⟨inputTraceV1 cfg t, _, rfl, isGen_inputTraceV1 cfg t, railCalls_input_genV1 cfg t _ um⟩
  | blocked => exact ⟨inputTraceV1 cfg t, [], by simp, isGen_inputTraceV1 cfg t, rfl⟩
  | faulted => exact ⟨inputTraceV1 cfg t, [], by simp, isGen_inputTraceV1 cfg t, rfl⟩
  | escaped => exact ⟨inputTraceV1 cfg t, [], by simp, isGen_inputTraceV1 cfg t, rfl⟩

/-- `reject_stops`: if an invoked input rail rejects, it is the last input rail that runs, no dialog /
    generation step happens in the turn, and the reply is the refusal — or the rail exception in
    exception mode (or the internal-error text if producing the refusal itself failed, C03).
    Holds from every state `h` and however the output rails are written. -/
theorem reject_stops_v1 (cfg : Cfg) (h : HistV1) (t : Turn) (hi : WF cfg .input)
    (c : Nat × Text) (hc : c ∈ railCalls .input (turnV1 cfg h t).1) (hr : t.vin c.1 c.2 = .reject) :
    (railCalls .input (turnV1 cfg h t).1).getLast? = some c
    ∧ (∀ s ∈ (turnV1 cfg h t).1, s.isGen = false)
    ∧ (turnV1 cfg h t).2.1 =
        (if cfg.exc then { texts := [], exc := some .input, raised := false }
         else if t.retrFault then { texts := [internalError], exc := none, raised := false }
         else { texts := [refusal], exc := none, raised := false }) := by
  have hio := input_order_v1 cfg h t hi
  rw [hio] at hc ⊢
  have hb : (t.vin c.1 c.2).continues = false := by rw [hr]; rfl
  have hlast := Pipeline.gate_block_is_last t.vin cfg.inRails t.user c hc hb
  have hstop : gateStop t.vin cfg.inRails t.user = some .reject := by
    cases hg : gateStop t.vin cfg.inRails t.user with
    | none =>
      have := Pipeline.gate_all_continue t.vin cfg.inRails t.user hg c hc
      rw [hb] at this; cases this
    | some w =>
      obtain ⟨r, x, hl, hv, _⟩ := Pipeline.gate_stop_last t.vin cfg.inRails t.user w hg
      rw [hlast] at hl
      cases hl
      rw [← hv, hr]
  have htr : (turnV1 cfg h t).1 = inputTraceV1 cfg t
      ∧ (turnV1 cfg h t).2.1 = replyV1 (inputTraceV1 cfg t) false := by
    rw [turnV1_input_nf cfg h t hi, hstop]
    by_cases he : cfg.exc = true
    · simp [stopResV1, he]
    · have he' : cfg.exc = false := by simpa using he
      cases hrf : t.retrFault <;> simp [stopResV1, he', hrf]
  refine ⟨hlast, ?_, ?_⟩
  · rw [htr.1]
    exact isGen_inputTraceV1 cfg t
  · rw [htr.2]
    unfold inputTraceV1
    rw [hstop]
    by_cases he : cfg.exc = true
    · simp [stopStepsV1, he, replyV1, excs]
    · have he' : cfg.exc = false := by simpa using he
      cases hrf : t.retrFault <;> simp [stopStepsV1, he', hrf, replyV1, excs, utters]

/-- `rewrite_propagates`: every dialog / generation LLM call of the turn — in general mode, with
    dialog rails, in single-call mode; passthrough mode uses the same calls with the bare text as
    prompt — is given the text the input rails produced (`gateText`: the last rewrite), every input
    rail is shown the text its predecessor left, and when the turn ends normally the history handed to
    later turns holds that text.  Holds from every state `h` and however the output rails are written. -/
theorem rewrite_propagates_v1 (cfg : Cfg) (h : HistV1) (t : Turn) (hi : WF cfg .input) :
    (∀ task u, Step.llm task u ∈ (turnV1 cfg h t).1 → u = gateText t.vin cfg.inRails t.user)
    ∧ Chained t.vin t.user (railCalls .input (turnV1 cfg h t).1)
    ∧ ((turnV1 cfg h t).2.2.texts = h.texts
        ∨ ∃ said, (turnV1 cfg h t).2.2.texts = h.texts ++ said ∧
            ∀ x ∈ said, x = gateText t.vin cfg.inRails t.user ∨ x ∈ utters (turnV1 cfg h t).1) := by
  refine ⟨?_, ?_, ?_⟩
  · intro task u hm
    rw [turnV1_input_nf cfg h t hi] at hm
    cases hres : stopResV1 cfg t.retrFault (gateText t.vin cfg.inRails t.user) (gateStop t.vin cfg.inRails t.user) with
    | pass um =>
      rw [hres] at hm
      simp only at hm
      obtain ⟨_, hum⟩ := stopResV1_pass _ _ _ _ _ hres
      rcases List.mem_append.mp hm with h1 | h1
      · exact absurd h1 (llm_inputTraceV1 cfg t task u)
      · rw [← hum]; exact llm_genV1 cfg t _ um task u h1
    | blocked => rw [hres] at hm; exact absurd hm (llm_inputTraceV1 cfg t task u)
    | faulted => rw [hres] at hm; exact absurd hm (llm_inputTraceV1 cfg t task u)
    | escaped => rw [hres] at hm; exact absurd hm (llm_inputTraceV1 cfg t task u)
  · rw [input_order_v1 cfg h t hi]
    exact Pipeline.gate_chained _ _ _
  · rw [turnV1_input_nf cfg h t hi]
    cases hres : stopResV1 cfg t.retrFault (gateText t.vin cfg.inRails t.user) (gateStop t.vin cfg.inRails t.user) with
    | pass um =>
      obtain ⟨_, hum⟩ := stopResV1_pass _ _ _ _ _ hres
      simp only
      by_cases hn : ((genV1 cfg t (stopSkipV1 cfg t.retrFault h.skip (gateStop t.vin cfg.inRails t.user)) um).2.1 == End.normal) = true
      · right
        refine ⟨um :: utters (genV1 cfg t (stopSkipV1 cfg t.retrFault h.skip (gateStop t.vin cfg.inRails t.user)) um).1, by simp [hn], ?_⟩
        intro x hx
        rcases List.mem_cons.mp hx with rfl | hx
        · exact Or.inl hum
        · right; simp [hx]
      · left; simp [hn]
    | blocked => right; exact ⟨_, rfl, fun x hx => Or.inr hx⟩
    | faulted => left; rfl
    | escaped => left; rfl

/-- `every_turn`: in a conversation of any length started from a state with `$skip_output_rails`
    unset, every turn is gated as above and leaves the flag unset for the next one. -/
theorem every_turn_v1 (cfg : Cfg) (hi : WF cfg .input) :
    ∀ (ts : List Turn) (h : HistV1), h.skip = false →
      ∀ p ∈ List.zip ts (convV1 cfg h ts),
        railCalls .input p.2.1 = gate p.1.vin cfg.inRails p.1.user ∧ p.2.2.2.skip = false
  | [], _, _ => by simp [convV1]
  | t :: ts, h, hs => by
    intro p hp
    simp only [convV1, List.zip_cons_cons, List.mem_cons] at hp
    rcases hp with rfl | hp
    · exact ⟨input_order_v1 cfg h t hi, turnV1_skip cfg h t hs⟩
    · exact every_turn_v1 cfg hi ts _ (turnV1_skip cfg h t hs) p hp

/-- Non-vacuity: the hypotheses hold for a concrete configuration with three permuted rails, one
    rewriting and one rejecting, in exception mode. -/
example : ∃ (cfg : Cfg) (t : Turn), WF cfg .input ∧ WF cfg .output ∧ cfg.inRails = [2, 0, 1] ∧ cfg.exc = true
    ∧ (railCalls .input (turnV1 cfg initV1 t).1).length = 2 :=
  ⟨{ inRails := [2, 0, 1], outRails := [0], dialog := true, exc := true, stops := fun _ _ => true, flagReset := true },
   { user := "u", bot := "b", intent := .free, actFault := false, retrFault := false,
     vin := fun r _ => if r = 2 then .rewrite "m" else if r = 0 then .reject else .accept, vout := fun _ _ => .accept },
   fun _ _ => rfl, fun _ _ => rfl, rfl, rfl, by decide⟩

/-! ### Colang 2.x (guardrails.co)

  A 2.x rail is shown the user text by value and cannot rewrite it; a failing rail action yields
  `None`, which `if not $allowed` reads as a rejection — `n2 t.vin` is the verdict function read that way. -/

/-- `input_order` (2.x). -/
theorem input_order_v2 (cfg : Cfg) (h : HistV2) (t : Turn) (hi : WF cfg .input) (ho : WF cfg .output) (hor : h.orip = false) :
    railCalls .input (turnV2 cfg h t).1 = gate (n2 t.vin) cfg.inRails t.user := by
  rw [turnV2_eq_spec cfg h t hi ho hor, turnSpecV2_trace]
  simp [railCalls_input_inStopV2, railCalls_input_restV2]

/-- Which value the 2.x input rails receive: `_user_said` assigns `$text = $event.final_transcript`
    AFTER the `if $text … else …` match (whatever the waiting flow passed: nothing, a literal, a regular
    expression), so `$user_message` and the argument of `run input rails` are the UTTERANCE `t.user` —
    every invoked input rail is shown exactly the user's text. -/
theorem input_text_v2 (cfg : Cfg) (h : HistV2) (t : Turn) (hi : WF cfg .input) (ho : WF cfg .output) (hor : h.orip = false) :
    ∀ c ∈ railCalls .input (turnV2 cfg h t).1, c.2 = t.user := by
  rw [input_order_v2 cfg h t hi ho hor]
  exact gate_n2_text t.vin cfg.inRails t.user

/-- `input_before_generation` (2.x). -/
theorem input_before_generation_v2 (cfg : Cfg) (h : HistV2) (t : Turn) (hi : WF cfg .input) (ho : WF cfg .output) (hor : h.orip = false) :
    ∃ pre post, (turnV2 cfg h t).1 = pre ++ post ∧ (∀ s ∈ pre, s.isGen = false) ∧ railCalls .input post = [] := by
  rw [turnV2_eq_spec cfg h t hi ho hor, turnSpecV2_trace]
  refine ⟨_, _, rfl, ?_, railCalls_input_restV2 cfg h t⟩
  intro s hs
  rcases List.mem_append.mp hs with h1 | h1
  · exact isGen_railSteps _ _ s h1
  · exact isGen_inStopV2 _ _ _ _ s h1

/-- `reject_stops` (2.x): an invoked input rail that rejects (or fails) is the last input rail that
    runs and no dialog / generation step happens in the turn; in exception mode nothing is uttered,
    otherwise only the refusal is. -/
theorem reject_stops_v2 (cfg : Cfg) (h : HistV2) (t : Turn) (hi : WF cfg .input) (ho : WF cfg .output) (hor : h.orip = false)
    (c : Nat × Text) (hc : c ∈ railCalls .input (turnV2 cfg h t).1) (hr : (n2 t.vin c.1 c.2).continues = false) :
    (railCalls .input (turnV2 cfg h t).1).getLast? = some c
    ∧ (∀ s ∈ (turnV2 cfg h t).1, s.isGen = false)
    ∧ (∀ x, Step.utter x ∈ (turnV2 cfg h t).1 → x = refusal ∧ cfg.exc = false) := by
  have hio := input_order_v2 cfg h t hi ho hor
  rw [hio] at hc ⊢
  have hlast := Pipeline.gate_block_is_last (n2 t.vin) cfg.inRails t.user c hc hr
  have hstop : gateStop (n2 t.vin) cfg.inRails t.user ≠ none := by
    intro hg
    have := Pipeline.gate_all_continue (n2 t.vin) cfg.inRails t.user hg c hc
    rw [hr] at this; cases this
  have hrest : restV2 cfg h t = [] := by
    unfold restV2
    cases hg : gateStop (n2 t.vin) cfg.inRails t.user with
    | none => exact absurd hg hstop
    | some v => rfl
  refine ⟨hlast, ?_, ?_⟩
  · rw [turnV2_eq_spec cfg h t hi ho hor, turnSpecV2_trace, hrest]
    intro s hs
    simp only [List.append_nil] at hs
    rcases List.mem_append.mp hs with h1 | h1
    · exact isGen_railSteps _ _ s h1
    · exact isGen_inStopV2 _ _ _ _ s h1
  · rw [turnV2_eq_spec cfg h t hi ho hor, turnSpecV2_trace, hrest]
    intro x hx
    simp only [List.append_nil] at hx
    rcases List.mem_append.mp hx with h1 | h1
    · simp [railSteps] at h1
    · refine ⟨utter_mem_inStopV2 _ _ _ _ x h1, ?_⟩
      cases hg : gateStop (n2 t.vin) cfg.inRails t.user with
      | none => exact absurd hg hstop
      | some v =>
        rw [hg] at h1
        cases v <;> simp [inStopV2] at h1
        by_cases he : cfg.exc = true
        · simp [he] at h1
        · simpa using he

/-- `every_turn` (2.x, repaired guardrails.co): every turn of every conversation is gated, and hands
    `$output_rails_in_progress = False` to the next one. -/
theorem every_turn_v2 (cfg : Cfg) (hfr : cfg.flagReset = true) (hi : WF cfg .input) (ho : WF cfg .output) :
    ∀ (ts : List Turn) (h : HistV2), h.orip = false →
      ∀ p ∈ List.zip ts (convV2 cfg h ts),
        railCalls .input p.2.1 = gate (n2 p.1.vin) cfg.inRails p.1.user ∧ p.2.2.2.orip = false
  | [], _, _ => by simp [convV2]
  | t :: ts, h, hor => by
    intro p hp
    simp only [convV2, List.zip_cons_cons, List.mem_cons] at hp
    rcases hp with rfl | hp
    · exact ⟨input_order_v2 cfg h t hi ho hor, turnV2_orip cfg h t hfr hor⟩
    · exact every_turn_v2 cfg hfr hi ho ts _ (turnV2_orip cfg h t hfr hor) p hp

/-! ### Colang 1.0: the two contexts (`Models/PipelineCtx.lean`), input side

`convE false` is the event-level program of the code as it is (`slide`, `_process_start_action`,
`apply_history_alterations`, `compute_context`), started from an ARBITRARY event list `es` and run on an
arbitrary conversation `ts` (repeated user texts, hidden turns, action rails reading the actions' context
and pure-Colang rails reading the flows' context in any order). -/

section TwoContexts
open NemoVerif.PipelineCtx

theorem mem_zip_map {α β : Type} (f : α → β) : ∀ (l : List α) (p : α × β), p ∈ List.zip l (l.map f) → p.2 = f p.1
  | [], _, h => by simp at h
  | a :: l, p, h => by
    simp only [List.map_cons, List.zip_cons_cons, List.mem_cons] at h
    rcases h with rfl | h
    · rfl
    · exact mem_zip_map f l p h

/-- `input_rails_see_current_text`: in every turn of every conversation the input rails that run are exactly
    `gate` of the user text of THAT turn — each rail, of either kind, is shown the turn's own message in
    the form its predecessor left; never the message of an earlier (hidden, rejected, answered) turn. -/
theorem input_rails_see_current_text (inRails outRails : List Rail) (es : List Ev) (ts : List TurnE) :
    ∀ p ∈ List.zip ts (convE false inRails outRails es ts),
      p.2.inCalls = gate p.1.vin (ids inRails) p.1.user ∧ Chained p.1.vin p.1.user p.2.inCalls := by
  intro p hp
  rw [convE_eq_spec] at hp
  have h := mem_zip_map _ ts p hp
  rw [h]
  have : (specTurn (ids inRails) (ids outRails) p.1).inCalls = gate p.1.vin (ids inRails) p.1.user := by
    unfold specTurn
    split
    · rfl
    · split <;> rfl
  rw [this]
  exact ⟨rfl, gate_chained _ _ _⟩

/-- `llm_sees_checked_user_text`: `UserMessage(text=$user_message)` — resolved on the action side; it is what
    every dialog / generation step is given — exists only when no input rail blocked, and then carries the
    turn's own text after all rewrites of this turn. -/
theorem llm_sees_checked_user_text (inRails outRails : List Rail) (es : List Ev) (ts : List TurnE) :
    ∀ p ∈ List.zip ts (convE false inRails outRails es ts), ∀ um, p.2.userMsg = some um →
      gateStop p.1.vin (ids inRails) p.1.user = none ∧ um = gateText p.1.vin (ids inRails) p.1.user := by
  intro p hp um hum
  rw [convE_eq_spec] at hp
  have h := mem_zip_map _ ts p hp
  rw [h] at hum
  unfold specTurn at hum
  split at hum
  · simp at hum
  · rename_i hg
    refine ⟨hg, ?_⟩
    split at hum <;> simpa using hum.symm

/-- non-vacuity / the repeated-text scenario on the input side: U passes (rewritten by rail 0); V: the second
    rail raises (turn hidden); U again, not rewritten this time. -/
example :
    (convE false [⟨0, false⟩, ⟨1, false⟩] [] []
      [{ user := "U", bot := "b", vin := fun r _ => if r = 0 then .rewrite "W" else .accept, vout := fun _ _ => .accept, dialogFault := false },
       { user := "V", bot := "b", vin := fun r _ => if r = 1 then .fault else .accept, vout := fun _ _ => .accept, dialogFault := false },
       { user := "U", bot := "b", vin := fun _ _ => .accept, vout := fun _ _ => .accept, dialogFault := false }]).map (fun o => (o.inCalls, o.userMsg))
    = [([(0, "U"), (1, "W")], some "W"), ([(0, "V"), (1, "V")], none), ([(0, "U"), (1, "U")], some "U")] := by decide

/-- `every_call_gated_v1` (generation options per call): in a conversation whose calls carry their OWN options
    (`convV1P`: a call may switch the input and / or output rails off for itself, a call without options enables all
    rails), every call whose options enable the input rails runs exactly `gate` of all configured input rails on
    ITS message — whatever options earlier calls had — and a call that switched them off runs none.
    (`$skip_output_rails` is unset at every boundary.) -/
theorem every_call_gated_v1 (cfg : Cfg) (hi : WF cfg .input) :
    ∀ (cs : List (CallOpts × Turn)) (h : HistV1), h.skip = false →
      ∀ p ∈ List.zip cs (convV1P cfg h cs),
        railCalls .input p.2.1 = gate p.1.2.vin (if p.1.1.input then cfg.inRails else []) p.1.2.user ∧ p.2.2.2.skip = false
  | [], _, _ => by simp [convV1P]
  | (o, t) :: cs, h, hs => by
    intro p hp
    simp only [convV1P, List.zip_cons_cons, List.mem_cons] at hp
    have hwf : WF (callCfg cfg o) .input := fun he r => hi he r
    rcases hp with rfl | hp
    · exact ⟨input_order_v1 (callCfg cfg o) h t hwf, turnV1_skip (callCfg cfg o) h t hs⟩
    · exact every_call_gated_v1 cfg hi cs _ (turnV1_skip (callCfg cfg o) h t hs) p hp

/-- non-vacuity: call 1 switches the input rails off, call 2 passes no options and is rejected by rail 0. -/
example :
    (convV1P { inRails := [0], outRails := [], dialog := false, exc := false, stops := fun _ _ => true, flagReset := true } initV1
      [({ input := false }, { user := "u1", bot := "b1", intent := .free, actFault := false, retrFault := false, vin := fun _ _ => .reject, vout := fun _ _ => .accept }),
       ({}, { user := "u2", bot := "b2", intent := .free, actFault := false, retrFault := false, vin := fun _ _ => .reject, vout := fun _ _ => .accept })]).map
      (fun r => (railCalls .input r.1, r.2.1.texts))
    = [([], ["b1"]), ([(0, "u2")], [refusal])] := by decide

/-- the same at event level, from every event list: the rails of each call are those ITS options enable. -/
theorem every_call_sees_current_text (inRails outRails : List Rail) :
    ∀ (es : List Ev) (cs : List (CallOpts × TurnE)),
      convEP false inRails outRails es cs =
        cs.map fun c => specTurn (ids (if c.1.input then inRails else [])) (ids (if c.1.output then outRails else [])) c.2
  | _, [] => rfl
  | es, (o, t) :: cs => by
    simp only [convEP, List.map_cons, turnE_spec, every_call_sees_current_text inRails outRails _ cs]

end TwoContexts

end NemoVerif.C01
