/-
  C11 — a saved or aged Colang 2 conversation state continues exactly like the live one.
  Property theorems only (helper lemmas: Lemmas/Serialize*.lean, Lemmas/CleanUp*.lean).

  What is carried by theorems here (function level, unbounded):
    * T1  `roundtrip_tree`, `encode_total_iff`, `roundtrip_lossy`  — `decode_from_dict ∘ json ∘ encode_to_dict` is the
          identity on every sharing-free `Encodable` value and the encoder succeeds exactly on `EncShape`;
    * T2  `roundtrip_dag` — the `refs` discipline over an abstract identity-labelled universe (post-order
          registration, lists transparent): decode ∘ encode rebuilds every shared graph;
    * `cleanup_*` — frame facts of `_clean_up_state`.
    * T1↔T2 `erase_commutes_with_encode`, `erase_commutes_with_roundtrip` — on tree-shaped values both encoders write the same
          abstract encoding and the round-trip square commutes;
    * restore, index component: `index_maps_roundtrip/_faithful`, `index_instances_roundtrip/_faithful`;
    * T3 (phase 4), function by function over the whole-interpreter model `CoreVM` (C09's): the relation `Bisim.Aged` and the
          `aged_*` theorems — see the status list in section "T3, the part that is proved".
  What rests on correspondence/oracle (harness/props/C11.py, every run):
    * T3 as a whole (`CleanupBisim`, stated below, NOT proved; `behaviour_preserved` for save/restore): "the restored / aged
          state reacts to every later event sequence exactly as the live one" is tested on the real interpreter at every cut
          point of generated histories, and through the public API (`api` cases); the hypotheses of the `aged_*` theorems
          (`Aged`, `ActParentsKept`) are evaluated on the real states at run time.
-/
import NemoVerif.Lemmas.Serialize
import NemoVerif.Lemmas.CleanUp
import NemoVerif.Lemmas.SerializeRefs
import NemoVerif.Lemmas.SerializeLossy
import NemoVerif.Lemmas.SerializeShared
import NemoVerif.Lemmas.SerializeErase
import NemoVerif.Lemmas.SerializeIndex
import NemoVerif.Models.CoreVM.Run
import NemoVerif.Lemmas.CleanUpBisimWrites
import NemoVerif.Lemmas.CleanUpBisimHeads
import NemoVerif.Lemmas.CleanUpBisimLoops
namespace NemoVerif.C11
open NemoVerif NemoVerif.Serialize NemoVerif.CleanUp

/-! ## Serialisation -/

/-- T1. Saving and restoring a sharing-free encodable value gives the value back (all values, all depths).
    Since the repair d13eeb5 `Encodable` includes `re.Pattern` values and dicts with arbitrary
    (None / bool / int / str / flat-tuple) keys: the only remaining exclusions are
    unknown classes, `functools.partial` (dropped on purpose) and comparison expressions whose constructor
    the serializer does not know (`comparisonOps`, generated). -/
theorem roundtrip_tree (v : PV) (h : Encodable v = true) : (encode v >>= decode) = .ok v := by
  obtain ⟨j, h1, h2⟩ := Serialize.roundtrip v h
  simp [h1, h2, bind, Except.bind]

example : Encodable (.data "FlowState" [(.str "uid", .str "u"), (.str "flow_id", .str "f"), (.str "loop_id", .none),
    (.str "hierarchy_position", .str "0"),
    (.str "context", .dict [(.str "s", .set [.int 1, .str "a"]), (.str "n", .list [.tuple [.int 1], .dict [(.int 1, .regex "a+" 32)]])]),
    (.str "_status", .enum "FlowStatus" "STARTED"), (.str "status_updated", .datetime "2024-01-01T00:00:00")]) = true := by
  simp [Encodable, EncodableKvs, EncodableVals, EncodableList, Key.isStr, noTypeKey, isDataclassName, reservedTags, ctorOk, enumOk,
    isPrivate, keyName, NemoVerif.Generated.C11.nameToClass, NemoVerif.Generated.C11.dataclasses, NemoVerif.Generated.C11.enums]

/-- A `re.Pattern` value round-trips (finding "state-holds-regex", fixed by d13eeb5). -/
theorem regex_roundtrips (p : String) (f : Int) : (encode (.regex p f) >>= decode) = .ok (.regex p f) :=
  roundtrip_tree (.regex p f) (by simp [Encodable])

/-- A dict round-trips whatever its keys are, as long as its values do (finding
    "dict-with-non-string-keys", fixed by d13eeb5: such dicts are written as item lists). -/
theorem dict_any_keys_roundtrips (kvs : List (Key × PV)) (h : EncodableVals kvs = true) :
    (encode (.dict kvs) >>= decode) = .ok (.dict kvs) :=
  roundtrip_tree (.dict kvs) (by simpa [Encodable] using h)

/-- kernel-checked instance: the former witnesses now come back unchanged -/
theorem fixed_witnesses_roundtrip :
    (encode (.dict [(.int 1, .str "one"), (.none, .int 3), (.tuple [.int 1, .str "b"], .regex "a+" 32)]) >>= decode)
      = .ok (.dict [(.int 1, .str "one"), (.none, .int 3), (.tuple [.int 1, .str "b"], .regex "a+" 32)]) :=
  dict_any_keys_roundtrips _ (by simp [EncodableVals, Encodable])

/-- the keys of such a dict are written by `encode_to_dict` itself -/
theorem key_written_as_value (k : Key) : encode k.toPV = .ok (encodeKey k) := Serialize.encodeKey_spec k

/-- `state_to_json` succeeds exactly on the values of shape `EncShape` — the gaps are explicit. -/
theorem encode_total_iff (v : PV) : (encode v).isOk = true ↔ EncShape v = true := by
  rw [Serialize.encode_isOk]

/-- everything that round-trips is accepted by the encoder -/
theorem encodable_encShape (v : PV) (h : Encodable v = true) : EncShape v = true := by
  obtain ⟨j, h1, _⟩ := Serialize.roundtrip v h
  rw [← Serialize.encode_isOk, h1]; rfl

/-! ### Floats: the whole value domain, non-finite values included (seed C11-f)

`PV.flt` ranges over `Flt` = finite dyadics, `-0.0`, `nan`, `inf`, `-inf`; `json.dumps` is modelled with the `allow_nan`
argument the call in `state_to_json` really passes (`Generated.C11.dumpsAllowNan`, read off the source on every run).
`roundtrip_tree`, `roundtrip_lossy`, `encode_total_iff`, `encodable_encShape` above are statements over this extended
universe (every `Flt` is `Encodable`); they re-prove only while `json.dumps` accepts every float. -/

/-- every float can be saved — `nan`, `inf`, `-inf`, `-0.0` included — and comes back as the same float -/
theorem every_float_roundtrips (f : Flt) : (encode (.flt f) >>= decode) = .ok (.flt f) :=
  roundtrip_tree (.flt f) (by simp [Encodable])

/-- … wherever it sits: a value whose only leaves are floats of any kind is saved and restored unchanged
    (instance of `roundtrip_tree`; stated for the shapes a flow context has: variable ↦ float / list / set / dict of floats) -/
theorem nonfinite_in_context_roundtrips (fs : List Flt) (k : String) :
    (encode (.dict [(.str k, .list (fs.map .flt)), (.str "s", .set (fs.map .flt)), (.int 1, .tuple (fs.map .flt))]) >>= decode)
      = .ok (.dict [(.str k, .list (fs.map .flt)), (.str "s", .set (fs.map .flt)), (.int 1, .tuple (fs.map .flt))]) := by
  have hl : EncodableList (fs.map PV.flt) = true := by
    induction fs with
    | nil => simp [EncodableList]
    | cons f fs ih => simp [EncodableList, Encodable, ih]
  exact roundtrip_tree _ (by simp [Encodable, EncodableVals, hl])

/-- the encoder never rejects a value because of a float in it: `EncShape` does not depend on which floats occur
    (kernel-checked for the generated `allow_nan`) -/
theorem encShape_float (f : Flt) : EncShape (.flt f) = true := by
  simp [EncShape, NemoVerif.Generated.C11.dumpsAllowNan]

/-- what `allow_nan=False` would do (the model follows the source through the generated constant): a non-finite float
    anywhere makes `state_to_json` raise `ValueError`.  Stated for an arbitrary value of the constant so that it
    is a theorem on every tree. -/
theorem strict_json_counterexample (h : NemoVerif.Generated.C11.dumpsAllowNan = false) (neg : Bool) :
    encode (.data "FlowState" [(.str "context", .dict [(.str "limit", .flt (.inf neg))])]) = .error .valueError
    ∧ encode (.list [.flt .nan]) = .error .valueError := by
  simp [encode, encodeKvs, encodeVals, encodeList, allStr, Key.isStr, dumpFlt, Flt.isFinite, h, bind, Except.bind]

/-- text layer: the three non-standard tokens CPython writes for the non-finite floats are read back as the same float,
    they are pairwise different, and finite floats (incl. `-0.0`) never use them -/
theorem nonfinite_tokens_roundtrip (f : Flt) :
    (f.isFinite = false → (nonFiniteToken f).bind parseConstant = some f)
    ∧ (f.isFinite = true → nonFiniteToken f = none) := by
  cases f with
  | inf neg => cases neg <;> simp [Flt.isFinite, nonFiniteToken, parseConstant]
  | _ => simp [Flt.isFinite, nonFiniteToken, parseConstant]

theorem nonfinite_tokens_injective (f g : Flt) (t : String) (hf : nonFiniteToken f = some t) (hg : nonFiniteToken g = some t) : f = g := by
  have h1 := (nonfinite_tokens_roundtrip f).1
  have h2 := (nonfinite_tokens_roundtrip g).1
  cases hfin : f.isFinite
  · cases hgin : g.isFinite
    · have a := h1 hfin; have b := h2 hgin
      rw [hf] at a; rw [hg] at b
      simp only [Option.bind_some] at a b
      rw [a] at b; injection b
    · have := (nonfinite_tokens_roundtrip g).2 hgin; rw [this] at hg; cases hg
  · have := (nonfinite_tokens_roundtrip f).2 hfin; rw [this] at hf; cases hf

example : (nonFiniteToken (.inf true)).bind parseConstant = some (.inf true) := (nonfinite_tokens_roundtrip _).1 rfl

/-- the five kinds of float are pairwise different values of the model (so "comes back unchanged" distinguishes
    `-0.0` from `0.0` and `inf` from `-inf`) -/
example : (Flt.fin 0 0 ≠ .negZero) ∧ (Flt.inf true ≠ .inf false) ∧ (Flt.nan ≠ .inf false) := by decide

example : (encode (.set [.flt .nan, .flt (.inf true), .flt .negZero, .flt (.fin 1 1)]) >>= decode)
    = .ok (.set [.flt .nan, .flt (.inf true), .flt .negZero, .flt (.fin 1 1)]) :=
  roundtrip_tree _ (by simp [Encodable, EncodableList])

/-! ### Finding `state-holds-unserialisable-builtin` (open): values of built-in types without an encoder branch

A Colang expression can produce — and a flow variable keep — a `bytes` (`"abc".encode()`), a dict view (`$d.keys()`) or a bound
built-in method (`$l.append`); `encode_to_dict` has no branch for them (`PV.other cls`).  Full statement that is FALSE of the code:
`∀ v reachable, (encode v).isOk`.  Proved instead: the counterexample, and `encode_total_iff` (the encoder succeeds exactly on
`EncShape`, which excludes exactly the values containing an `.other`). -/
theorem unserialisable_builtin_as_is_counterexample (cls : String) (uid : String) :
    encode (.data "FlowState" [(.str "uid", .str uid), (.str "context", .dict [(.str "keys", .other cls)])])
      = .error (.unhandledType cls)
    ∧ EncShape (.data "FlowState" [(.str "uid", .str uid), (.str "context", .dict [(.str "keys", .other cls)])]) = false := by
  constructor
  · simp [encode, encodeKvs, encodeVals, allStr, Key.isStr, keyStr, bind, Except.bind]
  · simp [EncShape, EncShapeKvs, EncShapeVals]

/-- What a save/restore returns in general — on every value the encoder accepts and whose classes the
    decoder knows (`Decodable`): the value with `functools.partial` dropped and dataclass/RailsConfig
    field names stringified (`norm`).  This makes the lossy region of the round trip explicit:
    the restored value equals the saved one exactly when `norm v = v`. -/
theorem roundtrip_lossy (v : PV) (h : Decodable v = true) : (encode v >>= decode) = .ok (norm v) := by
  obtain ⟨j, h1, h2⟩ := Serialize.lossy v h
  simp [h1, h2, bind, Except.bind]

theorem restore_is_identity_iff (v : PV) (h : Decodable v = true) :
    (encode v >>= decode) = .ok v ↔ norm v = v := by
  rw [roundtrip_lossy v h]
  constructor
  · intro e; injection e
  · intro e; rw [e]

/-- nothing is lost on `Encodable` values -/
theorem norm_of_encodable (v : PV) (h : Encodable v = true) : norm v = v := Serialize.norm_id v h

example : Decodable (.dict [(.int 1, .partialFn), (.none, .tuple [.str "a"])]) = true
    ∧ norm (.dict [(.int 1, .partialFn), (.none, .tuple [.str "a"])])
        = .dict [(.int 1, .none), (.none, .tuple [.str "a"])] := by
  constructor
  · simp [Decodable, DecodableVals, DecodableList]
  · simp [norm, normVals, normList]

/-- Finite fact about the class table generated from the current source (re-checked on every run):
    every dataclass the decoder can be asked to rebuild accepts its own complete field list, i.e. no
    public field is `init=False`.  (`decide`-style evaluation of a finite table.) -/
theorem class_table_ctor_ok :
    (NemoVerif.Generated.C11.dataclasses.all fun c => ctorOk c.1 (c.2.map (·.1))) = true := by
  decide

/-- Finding "state-holds-comparison", repaired by fixes/C11-comparison.diff: a comparison expression whose
    constructor name is in `eval.COMPARISON_OPERATORS` (generated table) round-trips. -/
theorem comparison_roundtrips (op : String) (v : PV)
    (hop : NemoVerif.Generated.C11.comparisonOps.contains op = true) (hv : (numJ v).isSome = true) :
    (encode (.cmp op v) >>= decode) = .ok (.cmp op v) :=
  roundtrip_tree (.cmp op v) (by simp only [Encodable, hop, hv, Bool.and_self])

/-- … and on a tree without that table (the code before the repair) the encoder raises: the model follows
    the source through the generated `comparisonOps`. -/
theorem comparison_as_is_counterexample (h : NemoVerif.Generated.C11.comparisonOps = []) (op : String) (v : PV) :
    encode (.data "FlowState" [(.str "context", .dict [(.str "c", .cmp op v)])])
      = .error (.unhandledType "ComparisonExpression") := by
  simp [encode, encodeKvs, encodeVals, allStr, Key.isStr, h, bind, Except.bind]

/-- Finding "action-payload-not-json", repaired by fixes/C11-action-payload.diff: the fields of an `Action`
    go through `encode_to_dict`, so an action whose context / start arguments are encodable round-trips
    (sets, tuples, regexes, non-string keys included). -/
theorem action_roundtrips (uid name : String) (fu : Option String) (st : String) (ctx args : PV) (sc : Int)
    (hc : Encodable ctx = true) (ha : Encodable args = true) (hs : enumOk "ActionStatus" st = true) :
    (encode (.action uid name fu st ctx args sc) >>= decode) = .ok (.action uid name fu st ctx args sc) :=
  roundtrip_tree _ (by simp only [Encodable, hc, ha, hs, Bool.and_self])

example : Encodable (.dict [(.str "v", .set [.str "a", .str "b"]), (.str "t", .tuple [.int 1]), (.int 3, .regex "a" 32)]) = true := by
  simp [Encodable, EncodableVals, EncodableList]

/-- The encoding before that repair (`json.dumps` of the raw `Action.to_dict()`, `rawDump`): a tuple comes back
    as a list and a set makes `json.dumps` raise. -/
theorem action_raw_as_is_counterexample :
    (rawDump (.dict [(.str "x", .tuple [.int 1])]) >>= decode) = .ok (.dict [(.str "x", .list [.int 1])])
    ∧ rawDump (.dict [(.str "v", .set [.str "a"])]) = .error .typeError := by
  constructor <;>
  simp [rawDump, rawDumpKvs, rawDumpList, keyStr, decode, typeTag, decodePlain, decodeList, bind, Except.bind, pure, Except.pure]

/-! ## Sharing (T2): the `refs` discipline -/

/-- T2. For every object graph with sharing (any unfolding `t` whose equal ids carry equal objects,
    `Consistent H t`), decoding the encoder's output rebuilds `t` and every reference resolves to the
    object registered under its id: a reference always follows its definition in traversal order.
    Stated over the abstract labelled universe `Refs.Lab` (value kinds abstracted to tags); the tie of
    `encodeS` to the concrete encoder is the `C11.refs` correspondence on generated shared graphs. -/
theorem roundtrip_dag {σ τ : Type} (H : Nat → Refs.Lab σ τ) (t : Refs.Lab σ τ) (hc : Refs.Consistent H t) :
    ∃ tbl, Refs.decodeS [] (Refs.encodeS [] t).1 = some (t, tbl) ∧ Refs.Agree H (Refs.encodeS [] t).2 tbl := by
  refine Refs.roundtrip H t [] [] hc ?_
  intro i; simp [Refs.lookup]

/-- the same from any intermediate point of the traversal (the invariant the induction carries) -/
theorem roundtrip_dag_from {σ τ : Type} (H : Nat → Refs.Lab σ τ) (t : Refs.Lab σ τ) (refs : List Nat) (tbl : List (Nat × Refs.Lab σ τ))
    (hc : Refs.Consistent H t) (ha : Refs.Agree H refs tbl) :
    ∃ tbl', Refs.decodeS tbl (Refs.encodeS refs t).1 = some (t, tbl') ∧ Refs.Agree H (Refs.encodeS refs t).2 tbl' :=
  Refs.roundtrip H t refs tbl hc ha

example : Refs.Consistent (σ := Nat) (τ := Nat) (fun i => if i = 1 then .node 1 7 [.leaf 0] else .leaf 0)
    (.seq [.node 1 7 [.leaf 0], .node 1 7 [.leaf 0]]) := by
  simp [Refs.Consistent, Refs.ConsistentList]

/-- Refinement, encoder side: the concrete encoder with `refs` (`Shared.encodeC`, real JSON) writes exactly the
    JSON text of what the abstract discipline (`Refs.encodeS`) produces, and registers the same ids. -/
theorem encoder_refines (t : Shared.CV) (refs : List Nat) :
    Shared.encodeC refs t = (Shared.render (Refs.encodeS refs t).1, (Refs.encodeS refs t).2) :=
  Shared.encodeC_refines t refs

/-- Refinement, decoder side: on the JSON text of a well-formed abstract encoding the concrete decoder with
    `refs` (`Shared.decodeC`: dispatch on `__type`, children first, `refs[__id] = value`) computes what the
    abstract decoder computes — for every table. -/
theorem decoder_refines (e : Shared.CE) (tbl : Shared.Tbl) (h : Shared.WfEnc e = true) :
    Shared.decodeC tbl (Shared.render e) = Refs.decodeS tbl e :=
  Shared.decodeC_render e tbl h

/-- T2 transferred to the concrete encoder/decoder: for every consistent, well-formed identity-labelled value
    (lists, tuples, sets, deques, dicts with string or arbitrary keys, dataclass/Action/RailsConfig instances, enums,
    datetimes, SpecType, regex, comparison; any sharing) decoding the real JSON gives the value back with the same
    identities — shared objects stay shared, and the decoder's table agrees with the encoder's `refs`. -/
theorem roundtrip_shared (H : Nat → Shared.CV) (t : Shared.CV) (hc : Refs.Consistent H t) (hw : Shared.WfCV t = true) :
    ∃ tbl, Shared.decodeC [] (Shared.encodeC [] t).1 = some (t, tbl) ∧ Refs.Agree H (Shared.encodeC [] t).2 tbl :=
  Shared.roundtrip_shared H t [] [] hc hw (by intro i; simp [Refs.lookup])

/-- an aliased list (finding "aliased-list", repaired by fixes/C11-shared-lists.diff): the second occurrence is a
    reference and decoding yields the same list object twice -/
example : ∃ tbl, Shared.decodeC [] (Shared.encodeC []
      (.node 0 (.dictStr ["l", "m"]) [.node 1 .list [.leaf (.int 1)], .node 1 .list [.leaf (.int 1)]])).1
    = some (.node 0 (.dictStr ["l", "m"]) [.node 1 .list [.leaf (.int 1)], .node 1 .list [.leaf (.int 1)]], tbl) := by
  obtain ⟨tbl, h, _⟩ := roundtrip_shared
    (fun i => if i = 1 then .node 1 .list [.leaf (.int 1)]
      else .node 0 (.dictStr ["l", "m"]) [.node 1 .list [.leaf (.int 1)], .node 1 .list [.leaf (.int 1)]])
    (.node 0 (.dictStr ["l", "m"]) [.node 1 .list [.leaf (.int 1)], .node 1 .list [.leaf (.int 1)]])
    (by simp [Refs.Consistent, Refs.ConsistentList])
    (by simp [Shared.WfCV, Shared.WfCVList, Shared.tagOk])
  exact ⟨tbl, h⟩

/- Cyclic graphs: a `Lab` is a finite unfolding, so a cycle has no `Lab`; on the implementation a cyclic
   state makes `encode_to_dict` recurse until RecursionError (an object is registered only after its
   children, so it can never be referenced from inside itself) — open finding "cyclic-state-reference". -/

/-! ## Clean-up (`_clean_up_state`) -/

/-- The sweep removes exactly the instances that satisfy the removal predicate (done ∧ older than the age ∧ not
    activated ∧ not the parent of an activated instance) — order of the others untouched. -/
theorem cleanup_removes_exactly {α : Type} (now age : Int) (s : St α) (hnd : (s.flows.map (·.uid)).Nodup) :
    (sweep now age s).flows.map (·.uid)
      = (s.flows.filter (fun f => !removable now age (neededParents s.flows) f)).map (·.uid) := by
  unfold sweep
  simp only
  rw [fold_uids]
  simp only [List.map_map, Function.comp_def]
  have hu : ∀ f : Flow, (clearScores f).uid = f.uid := fun _ => rfl
  simp only [hu]
  generalize hnd' : neededParents s.flows = nd
  have hrm : ∀ f ∈ s.flows, (toRemove now age (s.flows.map clearScores)).contains f.uid = removable now age nd f := by
    intro f hf
    cases hr : removable now age nd f
    · rw [Bool.eq_false_iff]
      intro hc
      simp only [toRemove, List.contains_eq_mem, List.mem_map, List.mem_filter, decide_eq_true_eq] at hc
      obtain ⟨g', ⟨⟨g, hg, rfl⟩, hgr⟩, hgu⟩ := hc
      rw [removable_clearScores, neededParents_clearScores, hnd'] at hgr
      have : g = f := eq_of_nodup_uids s.flows hnd g hg f hf (by simpa [hu] using hgu)
      subst this; simp [hr] at hgr
    · simp only [toRemove, List.contains_eq_mem, List.mem_map, List.mem_filter, decide_eq_true_eq]
      exact ⟨clearScores f, ⟨⟨f, hf, rfl⟩, by rw [removable_clearScores, neededParents_clearScores, hnd']; exact hr⟩, rfl⟩
  clear hnd
  generalize toRemove now age (s.flows.map clearScores) = rm at hrm
  generalize s.flows = fl at hrm
  induction fl with
  | nil => rfl
  | cons a l ih =>
    have ha := hrm a (List.mem_cons_self)
    have ih' := ih (fun f hf => hrm f (List.mem_cons_of_mem _ hf))
    simp only [List.map_cons, List.filter_cons, ha]
    cases removable now age nd a <;> simp_all

/-- Never an active, an activated or a young instance, nor the parent of an activated one: whoever fails the predicate
    is still there. -/
theorem cleanup_keeps_live {α : Type} (now age : Int) (s : St α) (hnd : (s.flows.map (·.uid)).Nodup)
    (f : Flow) (hf : f ∈ s.flows)
    (h : isDone f = false ∨ f.activated ≠ 0 ∨ now - f.updated ≤ age ∨ f.uid ∈ neededParents s.flows) :
    f.uid ∈ (sweep now age s).flows.map (·.uid) := by
  rw [cleanup_removes_exactly now age s hnd]
  refine List.mem_map.2 ⟨f, List.mem_filter.2 ⟨hf, ?_⟩, rfl⟩
  rcases h with h | h | h | h
  · simp [removable, h]
  · simp [removable, h]
  · have : ¬ (now - f.updated > age) := by omega
    simp [removable, this]
  · simp [removable, h]

/-- Frame: every record that remains is the original one with its matching scores cleared and, in
    `child_flow_uids`, only uids of removed instances dropped; it was not removable itself. -/
theorem cleanup_frame {α : Type} (now age : Int) (s : St α) (g : Flow) (hg : g ∈ (sweep now age s).flows) :
    ∃ f ∈ s.flows, Frame (toRemove now age (s.flows.map clearScores)) (clearScores f) g
      ∧ g.uid ∉ toRemove now age (s.flows.map clearScores) := by
  unfold sweep at hg
  obtain ⟨h1, f1, hf1, fr⟩ := fold_mem _ _ g hg
  obtain ⟨f, hf, rfl⟩ := List.mem_map.1 hf1
  exact ⟨f, hf, fr, h1⟩

/-- If nothing is removable (e.g. no time has passed) the sweep only clears matching scores. -/
theorem cleanup_noop_when_young {α : Type} (now age : Int) (s : St α)
    (h : ∀ f ∈ s.flows, removable now age (neededParents s.flows) f = false) :
    sweep now age s = { s with flows := s.flows.map clearScores } := by
  unfold sweep
  have : toRemove now age (s.flows.map clearScores) = [] := by
    simp only [toRemove, List.map_eq_nil_iff, List.filter_eq_nil_iff, List.mem_map]
    rintro a ⟨f, hf, rfl⟩
    rw [removable_clearScores, neededParents_clearScores, h f hf]; simp
  simp [this]

/-- Actions: exactly the actions referenced by the remaining instances survive, each unchanged. -/
theorem cleanup_actions {α : Type} (now age : Int) (s s' : St α) (h : cleanUp now age s = .ok s') :
    s'.flows = (sweep now age s).flows ∧ s'.actions.map (·.1) = referenced s'.flows
      ∧ ∀ a ∈ s'.actions, a ∈ s.actions := by
  simp only [cleanUp, bind, Except.bind] at h
  split at h
  · simp at h
  · rename_i acts hacts
    simp [pure, Except.pure] at h
    subst h
    obtain ⟨i1, i2⟩ := lookupAll_ok _ _ _ hacts
    refine ⟨rfl, i1, ?_⟩
    intro a ha
    have := i2 a ha
    unfold sweep at this
    rwa [fold_actions] at this

/-- The helper index `flow_id_states` stays exact: if it listed exactly the instances of every flow id
    before the clean-up (in `flow_states` order), it does so afterwards. -/
theorem cleanup_keeps_index {α : Type} (now age : Int) (s : St α) (hnd : (s.flows.map (·.uid)).Nodup)
    (h : IdxOk s) : IdxOk (sweep now age s) :=
  sweep_idx now age s hnd h

/-- `flow_id in state.flow_id_states` (what `CheckValidFlowExistsAction` and through it the llm.co library flows
    observe) does not depend on idle time: the sweep never adds or drops a key of the helper index. -/
theorem cleanup_keeps_known_flow_ids {α : Type} (now age : Int) (s : St α) :
    (sweep now age s).idx.map (·.1) = s.idx.map (·.1) := by
  unfold sweep
  rw [fold_idx_keys]

/-- Key lemmas towards T3: the uids the interpreter looks up WITHOUT an existence guard keep resolving after the clean-up.
    (1) child links (`_abort_flow`'s deactivation loop `state.flow_states[child_uid]`): if every entry of every
    `child_flow_uids` list names an existing instance whose `parent_uid` points back, the same holds afterwards (every
    occurrence of a removed uid is dropped: repair b724762, C09's `dangling-child`). -/
theorem cleanup_keeps_child_links {α : Type} (now age : Int) (s : St α) (hnd : (s.flows.map (·.uid)).Nodup)
    (h : LinksOk s) : LinksOk (sweep now age s) :=
  sweep_links now age s hnd h

/-- (2) scope lists (repair b724762, C09's `dangling-scope-flow`): every uid listed in an open scope keeps resolving. -/
theorem cleanup_keeps_scope_links {α : Type} (now age : Int) (s : St α) (h : ScopesOk s) : ScopesOk (sweep now age s) :=
  sweep_scopes now age s h

/-- (3) the parent pointer of ACTIVATED instances (`_is_reference_activated_flow` evaluates
    `state.flow_states[flow_state.parent_uid]` without a guard when `activated > 0`): it keeps resolving — this is the
    repair fixes/C11-cleanup-dangling-parent.diff (finding "cleanup-dangling-parent": a flow activated by two parents,
    the first one finishes and is discarded, the second one finishes ⇒ `KeyError`). -/
theorem cleanup_keeps_activated_parents {α : Type} (now age : Int) (s : St α) (h : ActivatedParentsOk s) :
    ActivatedParentsOk (sweep now age s) :=
  sweep_activated_parents now age s h

/-- … and without that repair it does not: the witness of the finding at the function level (the sweep with an empty
    `needed` list is the clean-up before the repair). -/
theorem dangling_parent_as_is_counterexample :
    let p1 : Flow := { uid := "p1", flowId := "par1", parent := some "m", children := [], status := .finished, updated := 0,
                       activated := 0, actionUids := [], heads := [], scopeFlows := [] }
    let sh : Flow := { uid := "s", flowId := "shared", parent := some "p1", children := [], status := .started, updated := 0,
                       activated := 1, actionUids := [], heads := [], scopeFlows := [] }
    removable 10000000 ageMicros [] p1 = true ∧ removable 10000000 ageMicros (neededParents [p1, sh]) p1 = false := by
  decide

/-- Ageing is monotone: what is removable now stays removable later. -/
theorem removable_mono (now now' age : Int) (nd : List String) (f : Flow) (hle : now ≤ now')
    (h : removable now age nd f = true) : removable now' age nd f = true := by
  simp only [removable, Bool.and_eq_true, decide_eq_true_eq] at h ⊢
  exact ⟨⟨⟨h.1.1.1, by omega⟩, h.1.2⟩, h.2⟩

example : removable 10000000 ageMicros []
    { uid := "a", flowId := "f", parent := some "m", children := [], status := .finished, updated := 0,
      activated := 0, actionUids := [], heads := [], scopeFlows := [] } = true := by decide


/-! ## The link between T1 and T2 (encoder half): erasing the identities commutes with encoding -/

section EraseLink
open NemoVerif.Shared NemoVerif.Refs

/-- On a tree-shaped labelled value (no identity twice, none registered yet) the encoder with `refs` (T2, `Shared.encodeC`)
    and the sharing-free encoder (T1, `Serialize.encode`, on the value with the identities erased) write the SAME
    abstract encoding `skel t`: the first as `render` (every definition carries `__id`, lists are marked), the second as
    `renderT` (the same text without the identity bookkeeping: `wrapT` instead of `wrapDef`).
    Hypotheses: the tags fit the children and are the encoder's own choice (`erase t = some v`), and the T1 encoder accepts
    the value (`encode v = .ok j`; it rejects e.g. comparison operators outside the generated table). -/
theorem erase_commutes_with_encode (t : CV) (refs : List Nat) (v : PV) (j : J) (ht : TreeShaped refs t)
    (hv : erase t = some v) (hj : encode v = .ok j) :
    (encodeC refs t).1 = render (skel t) ∧ j = renderT (skel t) :=
  ⟨encodeC_tree t refs ht, erase_encode t v j hv hj⟩

/-- non-vacuity: `{"k": (1, [True])}` with identities 1 (dict), 2 (tuple), 3 (list) -/
example :
    let t : CV := .node 1 (.dictStr ["k"]) [.node 2 .tuple [.leaf (.int 1), .node 3 .list [.leaf (.bool true)]]]
    TreeShaped [] t ∧ erase t = some (.dict [(.str "k", .tuple [.int 1, .list [.bool true]])]) ∧
      (encode (.dict [(.str "k", .tuple [.int 1, .list [.bool true]])])).toOption.isSome := by
  refine ⟨⟨by simp [ids, idsList], by simp⟩, ?_, ?_⟩
  · simp [erase, eraseList, eraseTag, zipStr, Scalar.toPV]
  · simp [encode, encodeList, encodeVals, allStr, Key.isStr, bind, Except.bind, pure, Except.pure, Except.toOption]

/-- **the square commutes** on encodable tree-shaped values: encoding with `refs` and decoding with `refs` gives `t` back (T2),
    encoding and decoding without gives `erase t` back (T1), and the two decoders were fed their own rendering (`render` /
    `renderT`) of the SAME abstract encoding `skel t` — erasing the identities commutes with the whole round trip.
    (Derived from T1, T2 and `erase_encode`; a direct proof that `decode ∘ renderT = erase ∘ decodeS` on arbitrary
    well-formed encodings, which would make T1 a corollary of T2, is not given.) -/
theorem erase_commutes_with_roundtrip (H : Nat → CV) (t : CV) (v : PV) (hc : Consistent H t) (hw : WfCV t = true)
    (ht : TreeShaped [] t) (hv : erase t = some v) (he : Encodable v = true) :
    (∃ tbl, decodeC [] (render (skel t)) = some (t, tbl)) ∧ decode (renderT (skel t)) = .ok v ∧
    encode v = .ok (renderT (skel t)) ∧ (encodeC [] t).1 = render (skel t) := by
  obtain ⟨j, hj, hd⟩ := Serialize.roundtrip v he
  have hjt := erase_encode t v j hv hj
  obtain ⟨tbl, h2, _⟩ := roundtrip_shared H t hc hw
  have hct := encodeC_tree t [] ht
  rw [hct] at h2
  subst hjt
  exact ⟨⟨tbl, h2⟩, hd, hj, hct⟩

/-- non-vacuity of the five hypotheses: `{"k": (1,)}` with identities 1 (dict) and 2 (tuple) -/
example :
    let tup : CV := .node 2 .tuple [.leaf (.int 1)]
    let t : CV := .node 1 (.dictStr ["k"]) [tup]
    let H : Nat → CV := fun i => if i = 2 then tup else t
    Consistent H t ∧ WfCV t = true ∧ TreeShaped [] t ∧ erase t = some (.dict [(.str "k", .tuple [.int 1])]) ∧
      Encodable (.dict [(.str "k", .tuple [.int 1])]) = true := by
  refine ⟨?_, ?_, ⟨by simp [ids, idsList], by simp⟩, ?_, ?_⟩
  · simp [Consistent, ConsistentList]
  · simp [WfCV, WfCVList, tagOk]
  · simp [erase, eraseList, eraseTag, zipStr, Scalar.toPV]
  · simp [Encodable, EncodableVals, EncodableList]

end EraseLink

/-! ## T3 (restore), the index component: the dispatch maps of every CoreVM state survive save/restore -/

section RestoreIndex
open NemoVerif.CoreIndex

/-- `state.event_matching_heads` (str-keyed dict of lists of `(flow_uid, head_uid)` tuples) and
    `state.event_matching_heads_reverse_map` (a dict whose KEYS are such tuples: an item list since the repair d13eeb5) of
    EVERY index state come back from `decode_from_dict ∘ json ∘ encode_to_dict` unchanged … -/
theorem index_maps_roundtrip (ix : IState) : (encode (mapsPV ix) >>= decode) = .ok (mapsPV ix) :=
  roundtrip_tree _ (mapsPV_encodable ix)

/-- … and that reading of the maps is faithful (equal Python values ⇒ equal maps): the restored index component of a
    CoreVM state IS the saved one, so C09's theorems about it (`IndexOK`: exact, consistent, owned) hold of the restored state.
    (`json_to_state` re-creates the head callbacks; in the model a callback is the `applyOp` discipline itself.) -/
theorem index_maps_faithful (ix ix' : IState) (h : mapsPV ix = mapsPV ix') : ix.index = ix'.index ∧ ix.rev = ix'.rev :=
  mapsPV_inj ix ix' h

/-- … and so do the instances with their heads (the index-relevant part of `flow_states`: uid, flow status, per head uid,
    position, status; `FlowState` / `FlowHead` dataclass instances whose constructors accept exactly these fields — checked
    against the generated class table) -/
theorem index_instances_roundtrip (ix : IState) : (encode (instsPV ix) >>= decode) = .ok (instsPV ix) :=
  roundtrip_tree _ (instsPV_encodable ix)

/-- … faithfully: equal Python values ⇒ the same instances, statuses, heads, positions and head statuses in the same order.
    Together with `index_maps_faithful`: the restored index component equals the saved one up to the ghost field `elem`
    (the element name at the head's position — not a Python attribute; `json_to_state` re-installs the callbacks that
    recompute it, and C09's exactness theorem says the maps agree with that recomputation). -/
theorem index_instances_faithful (ix ix' : IState) (h : instsPV ix = instsPV ix') : ix.insts.map instCore = ix'.insts.map instCore := by
  simp only [instsPV, PV.dict.injEq] at h
  exact instsPV_inj _ _ h

example : instCore { uid := "m", status := .started, heads := [{ uid := "h0", pos := 3, status := .active, elem := some "E" }] } =
    ("m", .started, [("h0", 3, .active)]) := rfl

end RestoreIndex

/-! ## T3, the part that is proved: `CoreVM` does not depend on what `_clean_up_state` removes — function by function

`Bisim.Aged rm s s'` (Lemmas/CleanUpBisimFns.lean): `s'` is `s` without the instances `rm`: `flow_states` and the index
component filtered (both dispatch maps untouched), the remaining records equal up to occurrences of discarded uids in
`child_flow_uids` / scope lists (both sides filtered: a second activating parent keeps the dangling uid) and the time stamp (the
aged record is at least as old), `flow_id_states` entries filtered, the action
table a part of the live one that contains what kept instances refer to, everything else equal, the aged clock later;
only done instances are in `rm`.  `Bisim.Rel2` = two observations cannot be told apart, `Bisim.Sim2` = two runs end in
related states with related results (or the same exception).

Status per CoreVM function (the deliverable of phase 4; invariants: I1 = C09 `IndexOK` + `NoPos`, true of every `VM` by
construction; I2 = `Bisim.ActParentsKept`, the parent of an activated instance is kept — false of the code as it is,
finding `cleanup-dangling-parent`, established by fixes/C11-cleanup-dangling-parent.diff, checked at run time):

  look-ups `getInst?`/`getInst`/`getInstX?`/`getInstX`/`getCfg` on kept uids, `bucket`    proved (`aged_lookups_agree`, `aged_bucket_eq`)
  every candidate head belongs to a kept instance                                        proved from I1 (`aged_candidates_are_kept`)
  `getAllHeadCandidates` (`_get_all_head_candidates`)                                    proved from I1 (`aged_candidates_agree`)
  `isReferenceActivated`, `isChildActivated` (parent look-ups of activated flows)        proved from I2 (`aged_activation_lookups_agree`)
  `pushEvent`, `pushLeftEvent`, `modInstX` on a kept uid with a relation-respecting update   proved (`aged_push_event`, `aged_mod_inst`)
  `applyOp op` for EVERY index write about a kept instance (all of `CoreIndex.Op` but `removeInst`) proved (`aged_index_write`, `aged_simple_index_write`)
  `setFlowStatus` (status + time stamp), `dropHeads` (`heads.clear()` + unregister)      proved (`aged_set_flow_status`, `aged_drop_heads`)
  `abortFlow c … deactivate=True` on a discardable instance (done, not activated)        proved: a no-op (`deactivating_a_discardable_instance_is_a_noop`)
  the expression evaluator `evalExpr`/`evalBase` (every expression form incl. `$ref.attr` on flow / action / event
   objects, `uid()`, interpolation with its try/except), `lookupVar`, `attrOf`, `ctxHolder`, `getCtx`, `setCtxVar`,
   `evalIn`, `evalArgs`, `evalEmpty`                                                   proved up to the model giving up (`aged_eval_agrees`, `aged_context_access`)
  event construction: `flowObjOf`, `FlowState.get_event` (`flowGetEvent`, `flowStartEvent`), `Action.get_event`
   (`actionGetEvent`), the throw-away objects (`tempFlowObj`, `tempAction`, `instanceArguments`), `resolveRef`,
   `getEventName` (`get_event_name_from_element`), `getEvent` (`get_event_from_element`)     proved up to the model giving up (`aged_events_agree`)
  `nameFor` (what `_flow_head_changed` computes), `setHeadPos` (`head.position = p`), `setHeadStatus` (`head.status = st`),
   incl. the branch where the callback raises after the head was unregistered           proved up to the model giving up (`aged_head_writes`)
  `setAction` (`state.actions[uid] = a`)                                                  proved (`Bisim.Aged.setAction`)
  `updateActionStatusByEvent` (loop over ALL instances; the live iterations over discarded ones do nothing)   proved from I1 (`aged_update_action_status`)
  `generateUmimEvent` (`_generate_umim_event`), `failedEvent`, `releaseAction` for an action of a kept instance   proved (`aged_outgoing_and_release`)
  `restartActivated` (restart of an activated flow at the end of `_abort_flow` / `_finish_flow`)               proved from I2 (`aged_restart_activated`)
  `abortFlow`: deactivation loops over `child_flow_uids` (the aged list is the live one filtered; the skipped iterations
   are no-ops, see above; all other pieces — `isReferenceActivated`, `isChildActivated`, `releaseAction`, `dropHeads`,
   `setFlowStatus`, `failedEvent`, `restartActivated` — are proved), removal from the parent's child list      not reached (every piece it reads is covered above; needs I2 and the
                                                                                         loop-over-filtered-list argument)
  `eventMatchingScore` (reads `state.actions` for the start arguments of the event's action)   needs: actions named by queued events belong to kept instances — not reached
  `handleEventMatching` (`createEventReference`, `startFlow` look up `source_flow_instance_uid` of the event being
   processed), `processInternalEvent`, `advanceHeadFront`/`slide`/`finishFlow`, EndScope     need: uids carried by queued events name kept instances (they are produced after the
                                                                                         clean-up of the same `run_to_completion`) — not reached
  `referenceActivatedInstance` (iterates `flow_id_states[id]`, the aged list is filtered) removed entries are skipped (`activated = 0`) — not reached
  `flowHierarchy` (stops at a discarded ancestor)                                        the two runs DIFFER here (shorter list); its only use is logging — not reached
  `cleanUpState` itself establishes `Aged` between the live and the aged run            not reached in CoreVM (needs link invariants C09 knows to be violated); function level:
                                                                                         `cleanup_removes_exactly`, `cleanup_frame`, `cleanup_keeps_*` on the `CleanUp` model (tied to
                                                                                         the real `_clean_up_state` by the clean-up differential); on the REAL states the relation is
                                                                                         checked after every event of every aged run (harness, `aged-relation-checked`)

"Up to the model giving up" (`Bisim.Sim2U`, `Bisim.Diag`): both runs give the same value or raise the same Python exception
in `Aged` states — or one of them stops with a MODEL error (`unsupported` / `outOfFuel` / `guardFailed`).  The model leaves
its fragment exactly where Python would follow a reference to a discarded instance (the object lives on through the reference;
the model has no heap); `CleanupBisim` speaks about continuations on which both runs stay inside the model, so nothing is lost.
`attemptPy` (the interpreter's `try … except Exception`) catches Python exceptions only, so the relation composes through it.
-/

section T3proved
open NemoVerif.CoreVM NemoVerif.CoreIndex NemoVerif.C11.Bisim

/-- look-ups by uid of a kept instance cannot tell the aged state from the live one (records up to `XRel`) -/
theorem aged_lookups_agree {rm : List FUid} {s s' : VM} (h : Aged rm s s') {f : FUid} (hk : keepB rm f = true) (n : String) :
    findInst s'.ixs.ix f = findInst s.ixs.ix f ∧
    Rel2 (XRel rm s.r.clock s'.r.clock) (getInstX f) (getInstX f) s s' ∧
    Rel2 Eq (getCfg n) (getCfg n) s s' :=
  ⟨h.findInst_kept hk, h.rel_getInstX hk, h.rel_getCfg n⟩

/-- `state.event_matching_heads.get(name, [])` is the same list -/
theorem aged_bucket_eq {rm : List FUid} {s s' : VM} (h : Aged rm s s') (nm : String) :
    bucket s'.ixs.ix nm = bucket s.ixs.ix nm := h.bucket nm

/-- every head the index offers as a candidate belongs to an instance that is kept (C09 `IndexOK`, `NoPos`) -/
theorem aged_candidates_are_kept {rm : List FUid} {s s' : VM} (h : Aged rm s s') {nm : String} {k : CoreIndex.Key}
    (hk : k ∈ bucket s.ixs.ix nm) : keepB rm k.1 = true := h.candidate_kept hk

/-- `_get_all_head_candidates`: same candidates in the same order, or the same exception -/
theorem aged_candidates_agree {rm : List FUid} {s s' : VM} (h : Aged rm s s') (name : String) :
    Rel2 Eq (getAllHeadCandidates name) (getAllHeadCandidates name) s s' := h.rel_getAllHeadCandidates name

/-- `_is_reference_activated_flow` / `_is_child_activated_flow` — given that parents of activated instances are kept -/
theorem aged_activation_lookups_agree {rm : List FUid} {s s' : VM} (h : Aged rm s s') (hp : ActParentsKept rm s)
    {f : FUid} (hk : keepB rm f = true) :
    Rel2 Eq (isReferenceActivated f) (isReferenceActivated f) s s' ∧ Rel2 Eq (isChildActivated f) (isChildActivated f) s s' :=
  ⟨h.rel_isReferenceActivated hp hk, h.rel_isChildActivated hp hk⟩

theorem aged_push_event {rm : List FUid} {s s' : VM} (h : Aged rm s s') (e : Event) :
    Sim2 rm (fun _ _ => True) (pushEvent e) (pushEvent e) s s' ∧ Sim2 rm (fun _ _ => True) (pushLeftEvent e) (pushLeftEvent e) s s' :=
  ⟨sim_pushEvent h e, sim_pushLeftEvent h e⟩

theorem aged_mod_inst {rm : List FUid} {s s' : VM} (h : Aged rm s s') {f : FUid} (hk : keepB rm f = true) (g g' : InstX → InstX)
    (hg : ∀ x x', XRel rm s.r.clock s'.r.clock x x' → XRel rm s.r.clock s'.r.clock (g x) (g' x'))
    (hacts : ∀ x, (g x).actionUids = x.actionUids) :
    Aged rm { s with r := { s.r with fx := OMap.modify f g s.r.fx } } { s' with r := { s'.r with fx := OMap.modify f g' s'.r.fx } } :=
  h.modInstX hk g g' hg hacts

theorem aged_simple_index_write {rm : List FUid} {s s' : VM} (h : Aged rm s s') {f : FUid} (hk : keepB rm f = true) {op : Op}
    (hop : SimpleOpOn f op) : Sim2 rm (fun _ _ => True) (applyOp op) (applyOp op) s s' := sim_applyOp_simple h hk hop

/-- every index write (`CoreIndex.Op` except the clean-up's own `removeInst`: positions, statuses, forks, head removal,
    main restart, flow status, new instance) about a kept instance: same guard outcome, related states -/
theorem aged_index_write {rm : List FUid} {s s' : VM} (h : Aged rm s s') (op : Op) (hk : keepB rm (opTarget op) = true)
    (hr : isRemove op = false) : Sim2 rm (fun _ _ => True) (applyOp op) (applyOp op) s s' := sim_applyOp h op hk hr

/-- `_abort_flow(state, c, deactivate_flow=True)` on a done, non-activated instance (exactly what the clean-up discards) returns
    at its status guard and leaves the state alone: the iterations of the live run's deactivation loops over children that
    the aged run no longer lists change nothing -/
theorem deactivating_a_discardable_instance_is_a_noop (fuel : Nat) (c : FUid) (scores : List Score) (s : VM) (x : InstX) (i : Inst)
    (hx : OMap.lookup c s.r.fx = some x) (ha : x.activated = 0) (hi : findInst s.ixs.ix c = some i) (hd : i.status.done = true) :
    abortFlow (fuel + 1) c scores true s = .ok () s := abortFlow_done_noop fuel c scores s x i hx ha hi hd

theorem aged_set_flow_status {rm : List FUid} {s s' : VM} (h : Aged rm s s') {f : FUid} (hk : keepB rm f = true) (st : CoreIndex.FlowStatus) :
    Sim2 rm (fun _ _ => True) (setFlowStatus f st) (setFlowStatus f st) s s' := sim_setFlowStatus h hk st

theorem aged_drop_heads {rm : List FUid} {s s' : VM} (h : Aged rm s s') {f : FUid} (hk : keepB rm f = true) :
    Sim2 rm (fun _ _ => True) (dropHeads f) (dropHeads f) s s' := sim_dropHeads h hk

/-! non-vacuity: `main` waits on a head, `d` (child of `main`) finished long ago and holds no head; the aged state has
    lost `d`, `main`'s child list and the `flow_id_states` entry of `sub` are filtered, the clock is 7 s later -/
def ixLive : IxS :=
  ((((({} : IxS).apply (.addInst "m" "h0" (some "E")) (by decide)).apply (.addInst "d" "h1" none) (by decide)).apply
    (.dropHeads "d") (by decide)).apply (.setFlowStatus "d" .finished) (by decide))
def ixAged : IxS := ixLive.apply (.removeInst "d") (by decide)
def xm : InstX := { flowId := "main", loopId := some "l", hierPos := "0", childFlowUids := ["d"], statusUpdated := 0 }
def xd : InstX := { flowId := "sub", loopId := some "l", hierPos := "0.0", parentUid := some "m", statusUpdated := 1 }
def sLive : VM := { ixs := ixLive, r := { prog := ⟨[]⟩, fx := [("m", xm), ("d", xd)], idStates := [("main", ["m"]), ("sub", ["d"])], clock := 10 } }
def sAged : VM := { ixs := ixAged, r := { prog := ⟨[]⟩, fx := [("m", { xm with childFlowUids := [] })], idStates := [("main", ["m"]), ("sub", [])], clock := 17 } }

theorem aged_example : Aged ["d"] sLive sAged where
  insts := by rfl
  index := by rfl
  rev := by rfl
  fxKept := by
    intro f hk
    by_cases hm : f = "m"
    · subst hm
      exact ⟨by rfl, by decide⟩
    · have hd : f ≠ "d" := by intro e; subst e; simp [keepB] at hk
      simp [sLive, sAged, OMap.lookup, ORel, Ne.symm hm, Ne.symm hd]
  fxGone := by
    intro f hk
    have : f = "d" := by simpa [keepB] using hk
    subst this; rfl
  fxOrder := by rfl
  hx := rfl
  prog := rfl
  idStates := by rfl
  actionsSub := by intro u a h; simp [sAged, OMap.lookup] at h
  actionsKept := by intro f x _ _ au _; rfl
  queue := rfl
  outgoing := rfl
  gctx := rfl
  events := rfl
  mainUid := rfl
  nextUid := rfl
  choices := rfl
  choiceLog := rfl
  lastEvents := rfl
  cleared := rfl
  caught := rfl
  clock := by decide
  rmDone := by
    intro u hu i hi
    have : u = "d" := by simpa using hu
    subst this
    have : findInst sLive.ixs.ix "d" = some { uid := "d", status := .finished, heads := [] } := by rfl
    rw [this] at hi; injection hi with hi; subst hi; rfl

example : ActParentsKept ["d"] sLive := by
  intro f x hk hl ha p hp
  by_cases hm : f = "m"
  · subst hm
    have : x = xm := by simpa [sLive, OMap.lookup] using hl.symm
    subst this; cases hp
  · have hd : f ≠ "d" := by intro e; subst e; simp [keepB] at hk
    simp [sLive, OMap.lookup, Ne.symm hm, Ne.symm hd] at hl

example : OMap.lookup "d" sLive.r.fx = some xd ∧ xd.activated = 0 ∧
    findInst sLive.ixs.ix "d" = some { uid := "d", status := .finished, heads := [] } := ⟨rfl, rfl, by rfl⟩

example : keepB ["d"] "m" = true ∧ SimpleOpOn "m" (.setFlowStatus "m" .started) := ⟨by decide, .inl ⟨_, rfl⟩⟩
example : keepB ["d"] (opTarget (.setPos "m" "h0" 1 (some "E2"))) = true ∧ isRemove (.setPos "m" "h0" 1 (some "E2")) = false :=
  ⟨by decide, rfl⟩

/-- **`eval_expression`** (every expression form) and the argument evaluation of a kept instance: same value / same Python
    exception in related states, or the model gives up -/
theorem aged_eval_agrees {rm : List FUid} (c : EvalCtx) (fuel : Nat) (e : Expr) {f : FUid} (hk : keepB rm f = true)
    (args : List (String × Expr)) :
    Diag rm (evalExpr c fuel e) ∧ Diag rm (evalBase c fuel e) ∧ Diag rm (evalIn f e) ∧ Diag rm (evalArgs f args) :=
  ⟨(diag_eval c fuel).1 e, (diag_eval c fuel).2 e, diag_evalIn hk e, diag_evalArgs hk args⟩

/-- the context of a kept instance: attribute access on any value, `flow_state.context`, `context.update` -/
theorem aged_context_access {rm : List FUid} (v : Val) (a : String) (l : Bool) {f : FUid} (hk : keepB rm f = true) (k : String) (w : Val)
    {s s' : VM} (h : Aged rm s s') :
    Diag rm (attrOf v a l) ∧ Diag rm (getCtx f) ∧ Sim2U rm (fun _ _ => True) (setCtxVar f k w) (setCtxVar f k w) s s' :=
  ⟨diag_attrOf v a l, diag_getCtx hk, sim_setCtxVar h hk k w⟩

/-- `get_event_name_from_element` / `get_event_from_element` evaluated for a kept instance (incl. `$ref.Finished()` on flow and
    action objects, throw-away instances for `FlowName.Started()` patterns) -/
theorem aged_events_agree {rm : List FUid} {f : FUid} (hk : keepB rm f = true) (spec : Spec) (isMatch : Bool) :
    Diag rm (getEventName f spec) ∧ Diag rm (getEvent f spec isMatch) ∧ Diag rm (flowObjOf f) :=
  ⟨diag_getEventName hk spec, diag_getEvent hk spec isMatch, diag_flowObjOf hk⟩

/-- `head.position = p` and `head.status = st` on a head of a kept instance: setter, `_flow_head_changed` (the element name is
    evaluated in the state), the index write — and the branch where the callback raises after the head was unregistered -/
theorem aged_head_writes {rm : List FUid} {k : CoreIndex.Key} (hk : keepB rm k.1 = true) (p : Nat) (st : HeadStatus) :
    Diag rm (setHeadPos k p) ∧ Diag rm (setHeadStatus k st) ∧ Diag rm (nameFor k.1 p st) :=
  ⟨diag_setHeadPos hk p, diag_setHeadStatus hk st, diag_nameFor hk p st⟩

/-- `_update_action_status_by_event` — a loop over ALL instances: the discarded ones are done, hence not listening, hence
    skipped by the live run (`sim_forIn_filter`); the others refer to the same action objects in both tables -/
theorem aged_update_action_status {rm : List FUid} (e : Match.Ev) : Diag rm (updateActionStatusByEvent e) :=
  diag_updateActionStatusByEvent e

/-- `_generate_umim_event` (outgoing event appended, action statuses updated), the `FlowFailed` event of a kept instance, and
    releasing an action a kept instance refers to (`EndScope`, `_abort_flow`, `_finish_flow`) -/
theorem aged_outgoing_and_release {rm : List FUid} (e : Match.Ev) {f : FUid} (hk : keepB rm f = true) (scores : List Score)
    {s s' : VM} (h : Aged rm s s') {x : InstX} (hx : OMap.lookup f s.r.fx = some x) {au : String} (hau : au ∈ x.actionUids) :
    Diag rm (generateUmimEvent e) ∧ Diag rm (failedEvent f scores) ∧ Sim2U rm Eq (releaseAction au) (releaseAction au) s s' :=
  ⟨diag_generateUmimEvent e, diag_failedEvent hk scores, sim_releaseAction h hk hx hau⟩

/-- the restart of an activated flow at the end of `_abort_flow` / `_finish_flow` (needs I2: the parent of an activated instance
    is kept) -/
theorem aged_restart_activated {rm : List FUid} {s s' : VM} (h : Aged rm s s') (hp : ActParentsKept rm s) {f : FUid}
    (hk : keepB rm f = true) (scores : List Score) (deactivate : Bool) :
    Sim2U rm Eq (restartActivated f scores deactivate) (restartActivated f scores deactivate) s s' :=
  sim_restartActivated h hp hk scores deactivate

/-- what `Diag` says, spelled out on the non-vacuity pair: running `setHeadPos ("m","h0") 1` in `sLive` and in `sAged` -/
example : Sim2U ["d"] Eq (setHeadPos ("m", "h0") 1) (setHeadPos ("m", "h0") 1) sLive sAged :=
  (aged_head_writes (rm := ["d"]) (k := ("m", "h0")) (by decide) 1 .active).1 sLive sAged aged_example

end T3proved

/-! ## T3 — the full statement over `CoreVM` (the bisimulation itself is NOT proved; decided by correspondence) -/

section T3
open NemoVerif.CoreVM

/-- feed a history to the interpreter model; the outgoing events of every step -/
def feed (fuel : Nat) : List Match.Ev → VM → Option (List (List Match.Ev))
  | [], _ => some []
  | e :: es, s =>
    match (runToCompletion fuel e).run s with
    | .ok _ s' => (feed fuel es s').map (s'.r.outgoing :: ·)
    | .error _ _ => none

/-- the same state after `dt` seconds without events (only the clock moves) -/
def aged (dt : Nat) (s : VM) : VM := { s with r := { s.r with clock := s.r.clock + dt } }

/-- states the interpreter model can be in between two events -/
inductive ReachableVM : VM → Prop where
  | init (prog : Prog) (s : VM) : (initializeState.run { r := { prog := prog } }) = .ok () s → ReachableVM s
  | step (fuel : Nat) (e : Match.Ev) (s s' : VM) : ReachableVM s → (runToCompletion fuel e).run s = .ok () s' → ReachableVM s'
  | wait (dt : Nat) (s : VM) : ReachableVM s → ReachableVM (aged dt s)

/-- T3 `cleanup_bisim`, precise statement: in every reachable state, letting any amount of idle time pass (so that
    `_clean_up_state` discards every done, non-activated instance older than the age at the next event) does not change
    the outgoing events of any continuation on which both runs stay inside the model.  uids come from the model's
    counter, which the clean-up does not touch, so "up to fresh identifiers" is literal equality here.
    NOT proved: it needs, for every unguarded look-up by uid in `CoreVM` (`getInstX`, `getInst`, the `KeyError`
    branches marked "model line …"), that the uid names a kept instance — `cleanup_keeps_child_links`,
    `cleanup_keeps_scope_links`, `cleanup_keeps_activated_parents`, `cleanup_keeps_index`, `cleanup_keeps_known_flow_ids`
    and `cleanup_frame` give this at the function level for child links, scope lists, the parent pointer of activated
    instances, `flow_id_states` and the records themselves; event references (`source_flow_instance_uid`, always produced
    after the clean-up of the same `run_to_completion`) and the lifting of these invariants to every reachable `VM` state
    need the whole interpreter. -/
def CleanupBisim : Prop :=
  ∀ (fuel : Nat) (s : VM) (dt : Nat) (es : List Match.Ev) (o1 o2 : List (List Match.Ev)),
    ReachableVM s → feed fuel es s = some o1 → feed fuel es (aged dt s) = some o2 → o1 = o2

/- `behaviour_preserved`: in the model a restored state IS the saved `VM` value once every stored value round-trips
   (`roundtrip_tree` on `Encodable` values, identities by `roundtrip_shared`), so equal reactions are reflexivity; the
   Python-specific part (callbacks re-created by `json_to_state`, object identities) is decided by the oracle on the
   implementation at every cut point. -/

end T3


end NemoVerif.C11
