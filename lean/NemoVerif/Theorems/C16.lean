/-
  C16 — generation options run exactly the selected rail categories; the returned log lists the rails that ran,
  `stop` on exactly the blocking one.  Property theorems only (lemmas: Lemmas/GenLog.lean, Lemmas/PipelineOpts.lean).

  `Gd` are the guards of the CURRENT `rails/llm/llm_flows.co` (regenerated on every run), `K` the literal tables of the
  current `compute_generation_log`.  Everything is universally quantified over the configuration (any number of
  rails per category, arbitrary verdict functions, arbitrary rail-internal log entries), the texts and the dialog oracle.
-/
import NemoVerif.Lemmas.GenLog
import NemoVerif.Lemmas.PipelineOpts
import NemoVerif.Lemmas.RailsInterp

namespace NemoVerif.C16
open NemoVerif NemoVerif.OptGuard NemoVerif.GenLog NemoVerif.PipelineOpts

abbrev K : Consts := Kg

/-! ## The pipeline with the guards of the current llm_flows.co -/

/-- No guard of `llm_flows.co` can raise, whatever options are passed (e.g. `.rails.output` is only read when the
    options exist). -/
theorem guards_total (cfg : Cfg) (opts : Option Opts) (user : String) (bot : Option String) (dlg : Dialog) :
    ∃ o, turn Gd cfg opts user bot dlg = some o :=
  ⟨_, turn_eq cfg opts user bot dlg⟩

/-- **Exactly the selected categories run**: a rail of category `c` is called only if `c` is selected, and the LLM is
    called only if the dialog rails are selected. -/
theorem only_selected_run (cfg : Cfg) (o : Opts) (user : String) (bot : Option String) (dlg : Dialog) (out : PipelineOpts.Out)
    (h : turn Gd cfg (some o) user bot dlg = some out) : ∀ s ∈ out.trace, Allowed o s := by
  rw [turn_eq] at h; cases h
  exact turnCoreR_allowed cfg o user bot dlg

/-- "no LLM generation happens" unless dialog rails are selected -/
theorem no_llm_without_dialog (cfg : Cfg) (o : Opts) (hd : o.dialog = false) (user : String) (bot : Option String) (dlg : Dialog)
    (out : PipelineOpts.Out) (h : turn Gd cfg (some o) user bot dlg = some out) : Step.llmCall ∉ out.trace := by
  intro hm
  have := only_selected_run cfg o user bot dlg out h _ hm
  simp [Allowed, hd] at this

/-- rails of a category that is not selected are never called (retrieval included) -/
theorem unselected_never_called (cfg : Cfg) (o : Opts) (c : Cat) (hc : o.get c = false) (user : String) (bot : Option String)
    (dlg : Dialog) (out : PipelineOpts.Out) (h : turn Gd cfg (some o) user bot dlg = some out) (i : Nat) (n x : String) :
    Step.railCall c i n x ∉ out.trace := by
  intro hm
  have := only_selected_run cfg o user bot dlg out h _ hm
  simp [Allowed, hc] at this

/-- **The documented table** for every selection without dialog rails (8 of the 16 subsets), every configuration,
    every verdict function and all texts: see `tableReply`. -/
theorem options_table (cfg : Cfg) (o : Opts) (hd : o.dialog = false) (user : String) (bot : Option String) (dlg : Dialog)
    (out : PipelineOpts.Out) (h : turn Gd cfg (some o) user bot dlg = some out) : out.reply = tableReply cfg o user bot := by
  rw [turn_eq] at h; cases h
  exact turnCoreR_reply_off cfg o hd user bot dlg

/-- row "Input Rails Only": the unchanged / altered user text, or the refusal; the supplied bot message is ignored. -/
theorem row_input_only (cfg : Cfg) (user : String) (bot : Option String) (dlg : Dialog) (out : PipelineOpts.Out)
    (h : turn Gd cfg (some ⟨true, false, false, false⟩) user bot dlg = some out) :
    out.reply = replyOf cfg .input (chain cfg.input user) ∧ Step.llmCall ∉ out.trace := by
  refine ⟨?_, no_llm_without_dialog cfg _ rfl user bot dlg out h⟩
  rw [options_table cfg _ rfl user bot dlg out h]
  simp only [tableReply, inOutcome, if_true]
  cases chain cfg.input user <;> simp [replyOf]

/-- "the same string if the input was allowed as is" -/
theorem row_input_only_unchanged (cfg : Cfg) (user : String) (bot : Option String) (dlg : Dialog) (out : PipelineOpts.Out)
    (hall : ∀ r ∈ cfg.input, ∀ t, r.verdict t = .accept)
    (h : turn Gd cfg (some ⟨true, false, false, false⟩) user bot dlg = some out) : out.reply = Reply.text user := by
  rw [(row_input_only cfg user bot dlg out h).1]
  have : ∀ rs : List PipelineOpts.Rail, (∀ r ∈ rs, ∀ t, r.verdict t = Verdict.accept) → chain rs user = Outcome.passed user := by
    intro rs
    induction rs with
    | nil => intro _; rfl
    | cons r rs ih =>
      intro hr
      simp only [chain, hr r (List.mem_cons_self ..) user]
      exact ih (fun r' hr' => hr r' (List.mem_cons_of_mem _ hr'))
  rw [this cfg.input hall]; rfl

/-- row "Input and Output Rails Only" with a supplied bot message: that message, its altered form, or the refusal
    (the input rails are consulted first). -/
theorem row_input_output (cfg : Cfg) (user b : String) (dlg : Dialog) (out : PipelineOpts.Out)
    (h : turn Gd cfg (some ⟨true, false, false, true⟩) user (some b) dlg = some out) :
    out.reply = (match chain cfg.input user with
      | .passed _ => replyOf cfg .output (chain cfg.output b)
      | oc => replyOf cfg .input oc) ∧ Step.llmCall ∉ out.trace := by
  refine ⟨?_, no_llm_without_dialog cfg _ rfl user _ dlg out h⟩
  rw [options_table cfg _ rfl user _ dlg out h]
  simp only [tableReply, inOutcome, if_true]
  cases chain cfg.input user <;> simp

/-- row "Output Rails Only": the supplied message, its altered form, or the refusal; no input rail is called. -/
theorem row_output_only (cfg : Cfg) (user b : String) (dlg : Dialog) (out : PipelineOpts.Out)
    (h : turn Gd cfg (some ⟨false, false, false, true⟩) user (some b) dlg = some out) :
    out.reply = replyOf cfg .output (chain cfg.output b) ∧ Step.llmCall ∉ out.trace ∧
      ∀ i n x, Step.railCall .input i n x ∉ out.trace := by
  refine ⟨?_, no_llm_without_dialog cfg _ rfl user _ dlg out h, fun i n x => unselected_never_called cfg _ .input rfl user _ dlg out h i n x⟩
  rw [options_table cfg _ rfl user _ dlg out h]
  simp [tableReply, inOutcome]

/-- nothing selected (or retrieval only): the user text comes back untouched. -/
theorem row_nothing_selected (cfg : Cfg) (r : Bool) (user : String) (bot : Option String) (dlg : Dialog) (out : PipelineOpts.Out)
    (h : turn Gd cfg (some ⟨false, false, r, false⟩) user bot dlg = some out) : out.reply = Reply.text user := by
  rw [options_table cfg _ rfl user bot dlg out h]
  simp [tableReply, inOutcome]

/-- the default (no options, or all four categories) with a `general` dialog: input rails, one LLM answer, output rails. -/
theorem row_default_general (cfg : Cfg) (opts : Option Opts) (hall : opts = none ∨ opts = some ⟨true, true, true, true⟩)
    (user text : String) (bot : Option String) (out : PipelineOpts.Out) (h : turn Gd cfg opts user bot (.general text) = some out) :
    out.reply = generalReply cfg true true user text := by
  rw [turn_eq] at h; cases h
  rcases hall with rfl | rfl <;> exact turnCoreR_reply_general cfg _ rfl user bot text

/-- every selection WITH dialog rails and a `general` dialog: the LLM text is checked by exactly the selected categories -/
theorem row_dialog_general (cfg : Cfg) (o : Opts) (hd : o.dialog = true) (user text : String) (bot : Option String) (out : PipelineOpts.Out)
    (h : turn Gd cfg (some o) user bot (.general text) = some out) :
    out.reply = generalReply cfg o.input o.output user text := by
  rw [turn_eq] at h; cases h
  exact turnCoreR_reply_general cfg (some o) hd user bot text

/-! ## Several calls on one conversation -/

/-- The one-shot context variable `$skip_output_rails` (set for predefined bot messages such as the refusal) is unset
    again at the end of every turn, whatever was selected — so it cannot leak into the next `generate` call on the same
    conversation state. -/
theorem skip_flag_reset (cfg : Cfg) (opts : Option Opts) (user : String) (bot : Option String) (dlg : Dialog)
    (out : PipelineOpts.Out) (h : turn Gd cfg opts user bot dlg = some out) : out.skipAfter = false :=
  turn_skipAfter cfg opts user bot dlg out h

/-- **A later call is not changed by an earlier one**: any sequence of `generate` calls on one carried conversation
    (each with its own option subset, texts and dialog outcome) yields, call by call, exactly what the same calls yield on
    fresh conversations — so every theorem above holds for every call of a conversation. -/
theorem calls_independent (cfg : Cfg) (calls : List Call) :
    session Gd cfg false calls = calls.mapM (fun c => turn Gd cfg c.opts c.user c.bot c.dlg) :=
  session_eq cfg calls

/-- why `skip_flag_reset` matters (finite fact, by evaluation): were the flag still set at a call boundary, a call that
    selects only `output` would return the supplied bot message "evil" unchecked, calling no output rail. -/
example : (turnFrom Gd exCfg true (some ⟨false, false, false, true⟩) "hi" (some "evil") (.general "x")).map
      (fun o => (o.reply, ioCalls o.trace)) = some (.text "evil", []) := by decide
/-- … whereas after a blocked input-only call it is the refusal with `out0` as the blocker. -/
example : (session Gd exCfg false [⟨some ⟨true, false, false, false⟩, "bad", none, .general "x"⟩,
      ⟨some ⟨false, false, false, true⟩, "hi", some "evil", .general "x"⟩]).map (fun os => os.map fun o => (o.reply, o.blocker))
    = some [(.text "no", some (.input, "in0")), (.text "no", some (.output, "out0"))] := by decide

/-! ## The generation log -/

/-- **`stop` on exactly the blocking rail** — for EVERY processing log (induction over the log, any start state):
    whenever `compute_generation_log` returns, its input/output rails are exactly the `Start{Input,Output}Rail`
    events of the log, in order, and `stop = true` on exactly the one after whose start neither a rail-finish nor another
    rail-start event follows.  (Hypothesis: no rail carries the re-label name `generate user intent`; see
    `relabel_hides_an_input_rail`.) -/
theorem stop_on_blocker (L : List LogEv) (out : GenLog.Out) (h : compute K L = .ok out)
    (hn : ∀ k ∈ stopSpec L, k.name ≠ K.relabelName) : ioKeys out.rails = stopSpec L :=
  compute_ioKeys K L out h hn

/-- **The returned log lists the rails that actually ran, `stop` on exactly the blocking one** — for the log a turn
    writes: whatever the configuration (rails with marker-free bodies), options, texts and dialog, when
    `compute_generation_log` returns on the turn's processing log, its input/output rails are exactly the input/output
    rail calls of the trace, in order, and `stop` is set on the last of them iff the turn was ended by a rejecting or
    faulting rail (`out.blocker`), on no other. -/
theorem log_lists_ran (cfg : Cfg) (hc : cfg.clean) (opts : Option Opts) (user : String) (bot : Option String) (dlg : Dialog)
    (out : PipelineOpts.Out) (h : turn Gd cfg opts user bot dlg = some out)
    (hn : ∀ c i n x, Step.railCall c i n x ∈ out.trace → n ≠ K.relabelName)
    (gl : GenLog.Out) (hg : compute K out.log = .ok gl) :
    ioKeys gl.rails = markLast out.blocker.isSome (ioCalls out.trace) := by
  have hs := turn_stopSpec cfg hc opts user bot dlg out h
  rw [← hs]
  apply stop_on_blocker out.log gl hg
  intro k hk
  rw [hs] at hk
  obtain ⟨c, i, x, hm⟩ := mem_ioCalls _ _ _ (mem_markLast _ _ _ hk)
  exact hn c i k.name x hm

/-- **`compute_generation_log` returns on every log a turn writes**: no `None` is dereferenced, whatever the
    configuration, options, texts and dialog — provided each rail's own log entries are acceptable inside an open rail
    (`Rail.accepted`: e.g. a step, then `StartInternalSystemAction x` … `InternalSystemActionFinished x`).  Proved through an
    exact boolean abstraction of the two references the loop dereferences (`run_of_accepts`). -/
theorem compute_returns_on_turn_logs (cfg : Cfg) (ha : cfg.accepted) (opts : Option Opts) (user : String) (bot : Option String)
    (dlg : Dialog) (out : PipelineOpts.Out) (h : turn Gd cfg opts user bot dlg = some out) : ∃ gl, compute K out.log = .ok gl :=
  turn_log_accepted cfg ha opts user bot dlg out h

/-- `log_lists_ran` without the "compute returns" condition: the generation log of every turn exists and lists exactly
    the input/output rails that ran, `stop` on the blocker only. -/
theorem log_lists_ran_total (cfg : Cfg) (hc : cfg.clean) (ha : cfg.accepted) (opts : Option Opts) (user : String) (bot : Option String)
    (dlg : Dialog) (out : PipelineOpts.Out) (h : turn Gd cfg opts user bot dlg = some out)
    (hn : ∀ c i n x, Step.railCall c i n x ∈ out.trace → n ≠ K.relabelName) :
    ∃ gl, compute K out.log = .ok gl ∧ ioKeys gl.rails = markLast out.blocker.isSome (ioCalls out.trace) := by
  obtain ⟨gl, hg⟩ := compute_returns_on_turn_logs cfg ha opts user bot dlg out h
  exact ⟨gl, hg, log_lists_ran cfg hc opts user bot dlg out h hn gl hg⟩

example : exCfg.accepted := exCfg_accepted

/-- non-vacuity of `log_lists_ran` (finite facts, by evaluation): for `exCfg`, options input+output and a bot message the
    output rail rejects, the hypotheses hold, `compute` returns, and the log reads: in0, in1 ran, out0 blocked. -/
example : exCfg.clean := exCfg_clean
example : (turn Gd exCfg (some ⟨true, false, false, true⟩) "hi" (some "evil") (.general "x")).map
      (fun o => (o.reply, o.blocker, ioCalls o.trace))
    = some (.text "no", some (.output, "out0"), [(.input, "in0"), (.input, "in1"), (.output, "out0")]) := by decide
example : (turn Gd exCfg (some ⟨true, false, false, true⟩) "hi" (some "evil") (.general "x")).map
      (fun o => namesAvoid K.relabelName o.trace) = some true := by decide
example : ((turn Gd exCfg (some ⟨true, false, false, true⟩) "hi" (some "evil") (.general "x")).map fun o =>
      (compute K o.log).toOption.map fun g => ioKeys g.rails)
    = some (some [⟨.input, "in0", false⟩, ⟨.input, "in1", false⟩, ⟨.output, "out0", true⟩]) := by decide
/-- … and for the default pipeline (no options) with the LLM text passing: five rails, no stop, one LLM call. -/
example : ((turn Gd exCfg none "hi" none (.general "fine")).map fun o =>
      ((compute K o.log).toOption.map fun g => (ioKeys g.rails, g.rails.length, g.llmCalls), o.reply))
    = some (some ([⟨.input, "in0", false⟩, ⟨.input, "in1", false⟩, ⟨.output, "out0", false⟩], 4, 1), .text "fine") := by decide

/-- … and the rail that carries the `stop` flag is the one the documented chain names: the first input rail that
    rejects / faults, else the first output rail that does (selections without dialog rails). -/
theorem blocker_is_rejecting_rail (cfg : Cfg) (o : Opts) (hd : o.dialog = false) (user : String) (bot : Option String) (dlg : Dialog)
    (out : PipelineOpts.Out) (h : turn Gd cfg (some o) user bot dlg = some out) : out.blocker = tableBlocker cfg o user bot := by
  rw [turn_eq] at h; cases h
  exact turnCoreR_blocker_off cfg o hd user bot dlg

/-- the same for arbitrary literal tables (the statement does not depend on which flows / actions are ignored) -/
theorem stop_on_blocker_any_tables (K' : Consts) (L : List LogEv) (out : GenLog.Out) (h : compute K' L = .ok out)
    (hn : ∀ k ∈ stopSpec L, k.name ≠ K'.relabelName) : ioKeys out.rails = stopSpec L :=
  compute_ioKeys K' L out h hn

/-- the hypothesis of `stop_on_blocker` is needed: an input rail NAMED `generate user intent` with one `general` LLM
    call is re-labelled `generation` and disappears from the input rails (finite fact, by evaluation). -/
theorem relabel_hides_an_input_rail :
    ∃ L out, compute K L = .ok out ∧ ioKeys out.rails ≠ stopSpec L :=
  ⟨[.startIn "generate user intent", .actStart "a", .llm "general", .actFin "a", .railFin], _, rfl, by decide⟩


/-! ## Phase 2 — the Colang 1.0 interpreter running the GENERATED llm_flows.co refines `turn`

  `RailsInterp.drive` is the loop of `generate_events` around `V1Interp.computeNextSteps` (C14's model of
  `flows.py`/`sliding.py`) on `Generated.LlmFlowsV1.flows ++ rail sub-flows` — the compiled elements of the shipped
  `llm_flows.co`, regenerated on every run — with scripted action results.

  FULL STATEMENT (`pipeline_refines_interp`, not proved in this generality):
      ∀ set-ups `s` (rail lists of any length, check / rewriting rails with arbitrary verdict functions), all option
      subsets, texts:  `driveTrace s o user bot = turnTrace s o user bot`.
  PROVED, unbounded: the hard part, the `while $i < len($input_flows)` loop of `run input rails`, for rail lists of ANY
  length (`interp_input_rails_loop`, induction over the remaining rails with an invariant on the interpreter state), and that the
  text it leaves is the documented chain (`loop_text_is_chain`).  PROVED, finite (kernel evaluation): the full statement
  for a concrete set-up over all 17 option values × texts that pass / are blocked by an input rail / by an output rail
  (`pipeline_refines_interp_partial`).  Entry into and exit from the loop, the refusal tail (extension flow
  `generate bot message`, `bot stop`), the output loop and the dialog branch for arbitrary lengths rest on that finite
  evaluation and on the end-to-end correspondence. -/

open NemoVerif.V1Interp NemoVerif.RailsInterp in
/-- **Loop discipline of the generated `run input rails`, for every number of rails** (symbolic execution of
    `computeNextState` on the generated program; `rails` = any further sub-flows of the configuration): from the head of
    the `while` loop at index `k` with `$user_message = um`, replaying the events `generate_events` appends while the
    remaining rails `rs` let the message pass — per rail: marker `StartInputRail`, the rail sub-flow `$input_flows[$i]`
    is called and asks for ITS action, the action's result (a `ContextUpdate` only if the value changed), `$i = $i + 1`
    exactly once, marker `InputRailFinished` — leads to the exit state: `run input rails` completed,
    `process user input` resumed at `create event InputRailsFinished`, `$i = len($input_flows)`, and `$user_message`,
    `$allowed` = the fold of the rails over the text. -/
theorem interp_input_rails_loop (rails : Cfgs) (hsub : ∀ r ∈ rails, r.isSubflow = true) (names : List String) (u0 u1 : Nat) (h01 : u0 < u1)
    (rs : List IRail) (k : Nat) (u : Ctx) (um al : V) (es : List Event) (hrun : LoopRun rs k u um al es)
    (hnames : names.drop k = rs.map (·.name)) (hok : ∀ r ∈ rs, RailOK rails r)
    (σ : Ctx) (c : Nat) (h1c : u1 < c) (hF : Facts (σ.update u) k names um al) (rest : List Event) :
    ∃ σ' c', Facts σ' names.length names (finalVals rs um al).1 (finalVals rs um al).2 ∧
      replay true (RailsInterp.base ++ rails) (es ++ rest) (headState σ u c u0 u1)
        = replay true (RailsInterp.base ++ rails) rest (exitState σ' c' u0 u1) :=
  input_rails_loop rails hsub names u0 u1 h01 rs k u um al es hrun hnames hok σ c h1c hF rest

open NemoVerif.V1Interp NemoVerif.RailsInterp in
/-- the text the interpreter's loop leaves in `$user_message` is the text `turn`'s documented chain passes on -/
theorem loop_text_is_chain (rs : List IRail) (t : String) (al : V) (h : AllPass rs (.str t)) :
    chain (rs.map toRail) t = .passed (strOf (finalVals rs (.str t) al).1) :=
  finalVals_is_chain rs t al h

open NemoVerif.RailsInterp in
/-- non-vacuity of `interp_input_rails_loop`'s run predicate: a two-rail run (finite fact) -/
example : LoopRun exSetup.input 0 [] (.str "hi") .none
    (iterEvents [] exSetup.input[0] (some (.bool true)) 0 .none .none ++ iterEvents [("triggered_input_rail", .str "in1")] exSetup.input[1] (some (.str "hi!")) 1 .none .none) :=
  .cons _ _ [] 0 [] _ _ _ _ _ _ (by show ("hi" != "bad") = true; decide) rfl (.last _ 1 _ _ _ _ _ _ trivial rfl)

open NemoVerif.RailsInterp in
/-- **`pipeline_refines_interp`, finite part** (kernel evaluation, labelled as such): for the concrete set-up `exSetup`
    (check + rewriting input rails, check output rail), all 16 option subsets and the call without options, user texts
    that pass / are blocked, bot messages that pass / are blocked: the trace of the interpreter loop on the generated
    llm_flows program (rail calls in order with the text each saw, LLM calls, utterance) equals the trace of `turn`. -/
theorem pipeline_refines_interp_partial : refinesOn exSetup (casesFor ["hi", "bad"] ["evil", "fine"]) = true := by
  decide +kernel

end NemoVerif.C16
