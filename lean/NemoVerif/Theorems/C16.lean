import NemoVerif.Generated.C16
import NemoVerif.Models.GenLog
import NemoVerif.Models.PipelineOpts
namespace NemoVerif.C16
theorem placeholder : True := trivial
end NemoVerif.C16
