/-
  C16 — generation options run exactly the selected rail categories; the returned log lists the rails that ran,
  `stop` on exactly the blocking one.  Property theorems only (lemmas: Lemmas/GenLog*.lean, Lemmas/PipelineOpts.lean,
  Lemmas/Rails*.lean).

  `Gd` are the guards of the CURRENT `rails/llm/llm_flows.co` (regenerated on every run), `K` the literal tables of the
  current `compute_generation_log`.  Everything is universally quantified over the configuration (any number of
  rails per category, arbitrary verdict functions, arbitrary rail-internal log entries), the texts and the dialog oracle.
-/
import NemoVerif.Lemmas.GenLog
import NemoVerif.Lemmas.PipelineOpts
import NemoVerif.Lemmas.RailsInterp
import NemoVerif.Lemmas.RailsRefine
import NemoVerif.Lemmas.RailsOpaque
import NemoVerif.Lemmas.RailsRecheck
import NemoVerif.Lemmas.GenLogCounts
import NemoVerif.Lemmas.GenLogTurn

namespace NemoVerif.C16
open NemoVerif NemoVerif.OptGuard NemoVerif.GenLog NemoVerif.PipelineOpts

abbrev K : Consts := Kg

/-! ## The pipeline with the guards of the current llm_flows.co -/

/-- No guard of `llm_flows.co` can raise, whatever options are passed (e.g. `.rails.output` is only read when the
    options exist). -/
theorem guards_total (cfg : Cfg) (opts : Option Opts) (user : String) (bot : Option String) (dlg : Dialog) :
    ∃ o, turn Gd cfg opts user bot dlg = some o :=
  ⟨_, turn_eq cfg opts user bot dlg⟩

/-- **Exactly the selected categories run**: a rail of category `c` is called only if `c` is selected, and the LLM is
    called only if the dialog rails are selected. -/
theorem only_selected_run (cfg : Cfg) (o : Opts) (user : String) (bot : Option String) (dlg : Dialog) (out : PipelineOpts.Out)
    (h : turn Gd cfg (some o) user bot dlg = some out) : ∀ s ∈ out.trace, Allowed o s := by
  rw [turn_eq] at h; cases h
  exact turnCoreR_allowed cfg o user bot dlg

/-- "no LLM generation happens" unless dialog rails are selected -/
theorem no_llm_without_dialog (cfg : Cfg) (o : Opts) (hd : o.dialog = false) (user : String) (bot : Option String) (dlg : Dialog)
    (out : PipelineOpts.Out) (h : turn Gd cfg (some o) user bot dlg = some out) : Step.llmCall ∉ out.trace := by
  intro hm
  have := only_selected_run cfg o user bot dlg out h _ hm
  simp [Allowed, hd] at this

/-- rails of a category that is not selected are never called (retrieval included) -/
theorem unselected_never_called (cfg : Cfg) (o : Opts) (c : Cat) (hc : o.get c = false) (user : String) (bot : Option String)
    (dlg : Dialog) (out : PipelineOpts.Out) (h : turn Gd cfg (some o) user bot dlg = some out) (i : Nat) (n x : String) :
    Step.railCall c i n x ∉ out.trace := by
  intro hm
  have := only_selected_run cfg o user bot dlg out h _ hm
  simp [Allowed, hc] at this

/-- **The documented table** for every selection without dialog rails (8 of the 16 subsets), every configuration,
    every verdict function and all texts: see `tableReply`. -/
theorem options_table (cfg : Cfg) (o : Opts) (hd : o.dialog = false) (user : String) (bot : Option String) (dlg : Dialog)
    (out : PipelineOpts.Out) (h : turn Gd cfg (some o) user bot dlg = some out) : out.reply = tableReply cfg o user bot := by
  rw [turn_eq] at h; cases h
  exact turnCoreR_reply_off cfg o hd user bot dlg

/-- row "Input Rails Only": the unchanged / altered user text, or the refusal; the supplied bot message is ignored. -/
theorem row_input_only (cfg : Cfg) (user : String) (bot : Option String) (dlg : Dialog) (out : PipelineOpts.Out)
    (h : turn Gd cfg (some ⟨true, false, false, false⟩) user bot dlg = some out) :
    out.reply = replyOf cfg .input (chain cfg.input user) ∧ Step.llmCall ∉ out.trace := by
  refine ⟨?_, no_llm_without_dialog cfg _ rfl user bot dlg out h⟩
  rw [options_table cfg _ rfl user bot dlg out h]
  simp only [tableReply, inOutcome, if_true]
  cases chain cfg.input user <;> simp [replyOf]

/-- "the same string if the input was allowed as is" -/
theorem row_input_only_unchanged (cfg : Cfg) (user : String) (bot : Option String) (dlg : Dialog) (out : PipelineOpts.Out)
    (hall : ∀ r ∈ cfg.input, ∀ t, r.verdict t = .accept)
    (h : turn Gd cfg (some ⟨true, false, false, false⟩) user bot dlg = some out) : out.reply = Reply.text user := by
  rw [(row_input_only cfg user bot dlg out h).1]
  have : ∀ rs : List PipelineOpts.Rail, (∀ r ∈ rs, ∀ t, r.verdict t = Verdict.accept) → chain rs user = Outcome.passed user := by
    intro rs
    induction rs with
    | nil => intro _; rfl
    | cons r rs ih =>
      intro hr
      simp only [chain, hr r (List.mem_cons_self ..) user]
      exact ih (fun r' hr' => hr r' (List.mem_cons_of_mem _ hr'))
  rw [this cfg.input hall]; rfl

/-- row "Input and Output Rails Only" with a supplied bot message: that message, its altered form, or the refusal
    (the input rails are consulted first). -/
theorem row_input_output (cfg : Cfg) (user b : String) (dlg : Dialog) (out : PipelineOpts.Out)
    (h : turn Gd cfg (some ⟨true, false, false, true⟩) user (some b) dlg = some out) :
    out.reply = (match chain cfg.input user with
      | .passed _ => replyOf cfg .output (chain cfg.output b)
      | oc => replyOf cfg .input oc) ∧ Step.llmCall ∉ out.trace := by
  refine ⟨?_, no_llm_without_dialog cfg _ rfl user _ dlg out h⟩
  rw [options_table cfg _ rfl user _ dlg out h]
  simp only [tableReply, inOutcome, if_true]
  cases chain cfg.input user <;> simp

/-- row "Output Rails Only": the supplied message, its altered form, or the refusal; no input rail is called. -/
theorem row_output_only (cfg : Cfg) (user b : String) (dlg : Dialog) (out : PipelineOpts.Out)
    (h : turn Gd cfg (some ⟨false, false, false, true⟩) user (some b) dlg = some out) :
    out.reply = replyOf cfg .output (chain cfg.output b) ∧ Step.llmCall ∉ out.trace ∧
      ∀ i n x, Step.railCall .input i n x ∉ out.trace := by
  refine ⟨?_, no_llm_without_dialog cfg _ rfl user _ dlg out h, fun i n x => unselected_never_called cfg _ .input rfl user _ dlg out h i n x⟩
  rw [options_table cfg _ rfl user _ dlg out h]
  simp [tableReply, inOutcome]

/-- nothing selected (or retrieval only): the user text comes back untouched. -/
theorem row_nothing_selected (cfg : Cfg) (r : Bool) (user : String) (bot : Option String) (dlg : Dialog) (out : PipelineOpts.Out)
    (h : turn Gd cfg (some ⟨false, false, r, false⟩) user bot dlg = some out) : out.reply = Reply.text user := by
  rw [options_table cfg _ rfl user bot dlg out h]
  simp [tableReply, inOutcome]

/-- the default (no options, or all four categories) with a `general` dialog: input rails, one LLM answer, output rails. -/
theorem row_default_general (cfg : Cfg) (opts : Option Opts) (hall : opts = none ∨ opts = some ⟨true, true, true, true⟩)
    (user text : String) (bot : Option String) (out : PipelineOpts.Out) (h : turn Gd cfg opts user bot (.general text) = some out) :
    out.reply = generalReply cfg true true user text := by
  rw [turn_eq] at h; cases h
  rcases hall with rfl | rfl <;> exact turnCoreR_reply_general cfg _ rfl user bot text

/-- every selection WITH dialog rails and a `general` dialog: the LLM text is checked by exactly the selected categories -/
theorem row_dialog_general (cfg : Cfg) (o : Opts) (hd : o.dialog = true) (user text : String) (bot : Option String) (out : PipelineOpts.Out)
    (h : turn Gd cfg (some o) user bot (.general text) = some out) :
    out.reply = generalReply cfg o.input o.output user text := by
  rw [turn_eq] at h; cases h
  exact turnCoreR_reply_general cfg (some o) hd user bot text

/-! ## Several calls on one conversation -/

/-- The one-shot context variable `$skip_output_rails` (set for predefined bot messages such as the refusal) is unset
    again at the end of every turn, whatever was selected — so it cannot leak into the next `generate` call on the same
    conversation state. -/
theorem skip_flag_reset (cfg : Cfg) (opts : Option Opts) (user : String) (bot : Option String) (dlg : Dialog)
    (out : PipelineOpts.Out) (h : turn Gd cfg opts user bot dlg = some out) : out.skipAfter = false :=
  turn_skipAfter cfg opts user bot dlg out h

/-- **A later call is not changed by an earlier one**: any sequence of `generate` calls on one carried conversation
    (each with its own option subset, texts and dialog outcome) yields, call by call, exactly what the same calls yield on
    fresh conversations — so every theorem above holds for every call of a conversation. -/
theorem calls_independent (cfg : Cfg) (calls : List Call) :
    session Gd cfg false calls = calls.mapM (fun c => turn Gd cfg c.opts c.user c.bot c.dlg) :=
  session_eq cfg calls

/-- why `skip_flag_reset` matters (finite fact, by evaluation): were the flag still set at a call boundary, a call that
    selects only `output` would return the supplied bot message "evil" unchecked, calling no output rail. -/
example : (turnFrom Gd exCfg true (some ⟨false, false, false, true⟩) "hi" (some "evil") (.general "x")).map
      (fun o => (o.reply, ioCalls o.trace)) = some (.text "evil", []) := by decide
/-- … whereas after a blocked input-only call it is the refusal with `out0` as the blocker. -/
example : (session Gd exCfg false [⟨some ⟨true, false, false, false⟩, "bad", none, .general "x"⟩,
      ⟨some ⟨false, false, false, true⟩, "hi", some "evil", .general "x"⟩]).map (fun os => os.map fun o => (o.reply, o.blocker))
    = some [(.text "no", some (.input, "in0")), (.text "no", some (.output, "out0"))] := by decide

/-! ## The generation log -/

/-- **`stop` on exactly the blocking rail** — for EVERY processing log (induction over the log, any start state):
    whenever `compute_generation_log` returns, its input/output rails are exactly the `Start{Input,Output}Rail`
    events of the log, in order, and `stop = true` on exactly the one after whose start neither a rail-finish nor another
    rail-start event follows.  (Hypothesis: no rail carries the re-label name `generate user intent`; see
    `relabel_hides_an_input_rail`.) -/
theorem stop_on_blocker (L : List LogEv) (out : GenLog.Out) (h : compute K L = .ok out)
    (hn : ∀ k ∈ stopSpec L, k.name ≠ K.relabelName) : ioKeys out.rails = stopSpec L :=
  compute_ioKeys K L out h hn

/-- **The returned log lists the rails that actually ran, `stop` on exactly the blocking one** — for the log a turn
    writes: whatever the configuration (rails with marker-free bodies), options, texts and dialog, when
    `compute_generation_log` returns on the turn's processing log, its input/output rails are exactly the input/output
    rail calls of the trace, in order, and `stop` is set on the last of them iff the turn was ended by a rejecting or
    faulting rail (`out.blocker`), on no other. -/
theorem log_lists_ran (cfg : Cfg) (hc : cfg.clean) (opts : Option Opts) (user : String) (bot : Option String) (dlg : Dialog)
    (out : PipelineOpts.Out) (h : turn Gd cfg opts user bot dlg = some out)
    (hn : ∀ c i n x, Step.railCall c i n x ∈ out.trace → n ≠ K.relabelName)
    (gl : GenLog.Out) (hg : compute K out.log = .ok gl) :
    ioKeys gl.rails = markLast out.blocker.isSome (ioCalls out.trace) := by
  have hs := turn_stopSpec cfg hc opts user bot dlg out h
  rw [← hs]
  apply stop_on_blocker out.log gl hg
  intro k hk
  rw [hs] at hk
  obtain ⟨c, i, x, hm⟩ := mem_ioCalls _ _ _ (mem_markLast _ _ _ hk)
  exact hn c i k.name x hm

/-- **`compute_generation_log` returns on every log a turn writes**: no `None` is dereferenced, whatever the
    configuration, options, texts and dialog — provided each rail's own log entries are acceptable inside an open rail
    (`Rail.accepted`: e.g. a step, then `StartInternalSystemAction x` … `InternalSystemActionFinished x`).  Proved through an
    exact boolean abstraction of the two references the loop dereferences (`run_of_accepts`). -/
theorem compute_returns_on_turn_logs (cfg : Cfg) (ha : cfg.accepted) (opts : Option Opts) (user : String) (bot : Option String)
    (dlg : Dialog) (out : PipelineOpts.Out) (h : turn Gd cfg opts user bot dlg = some out) : ∃ gl, compute K out.log = .ok gl :=
  turn_log_accepted cfg ha opts user bot dlg out h

/-- `log_lists_ran` without the "compute returns" condition: the generation log of every turn exists and lists exactly
    the input/output rails that ran, `stop` on the blocker only. -/
theorem log_lists_ran_total (cfg : Cfg) (hc : cfg.clean) (ha : cfg.accepted) (opts : Option Opts) (user : String) (bot : Option String)
    (dlg : Dialog) (out : PipelineOpts.Out) (h : turn Gd cfg opts user bot dlg = some out)
    (hn : ∀ c i n x, Step.railCall c i n x ∈ out.trace → n ≠ K.relabelName) :
    ∃ gl, compute K out.log = .ok gl ∧ ioKeys gl.rails = markLast out.blocker.isSome (ioCalls out.trace) := by
  obtain ⟨gl, hg⟩ := compute_returns_on_turn_logs cfg ha opts user bot dlg out h
  exact ⟨gl, hg, log_lists_ran cfg hc opts user bot dlg out h hn gl hg⟩

example : exCfg.accepted := exCfg_accepted

/-- non-vacuity of `log_lists_ran` (finite facts, by evaluation): for `exCfg`, options input+output and a bot message the
    output rail rejects, the hypotheses hold, `compute` returns, and the log reads: in0, in1 ran, out0 blocked. -/
example : exCfg.clean := exCfg_clean
example : (turn Gd exCfg (some ⟨true, false, false, true⟩) "hi" (some "evil") (.general "x")).map
      (fun o => (o.reply, o.blocker, ioCalls o.trace))
    = some (.text "no", some (.output, "out0"), [(.input, "in0"), (.input, "in1"), (.output, "out0")]) := by decide
example : (turn Gd exCfg (some ⟨true, false, false, true⟩) "hi" (some "evil") (.general "x")).map
      (fun o => namesAvoid K.relabelName o.trace) = some true := by decide
example : ((turn Gd exCfg (some ⟨true, false, false, true⟩) "hi" (some "evil") (.general "x")).map fun o =>
      (compute K o.log).toOption.map fun g => ioKeys g.rails)
    = some (some [⟨.input, "in0", false⟩, ⟨.input, "in1", false⟩, ⟨.output, "out0", true⟩]) := by decide
/-- … and for the default pipeline (no options) with the LLM text passing: five rails, no stop, one LLM call. -/
example : ((turn Gd exCfg none "hi" none (.general "fine")).map fun o =>
      ((compute K o.log).toOption.map fun g => (ioKeys g.rails, g.rails.length, g.llmCalls), o.reply))
    = some (some ([⟨.input, "in0", false⟩, ⟨.input, "in1", false⟩, ⟨.output, "out0", false⟩], 4, 1), .text "fine") := by decide

/-- … and the rail that carries the `stop` flag is the one the documented chain names: the first input rail that
    rejects / faults, else the first output rail that does (selections without dialog rails). -/
theorem blocker_is_rejecting_rail (cfg : Cfg) (o : Opts) (hd : o.dialog = false) (user : String) (bot : Option String) (dlg : Dialog)
    (out : PipelineOpts.Out) (h : turn Gd cfg (some o) user bot dlg = some out) : out.blocker = tableBlocker cfg o user bot := by
  rw [turn_eq] at h; cases h
  exact turnCoreR_blocker_off cfg o hd user bot dlg

/-- the same for arbitrary literal tables (the statement does not depend on which flows / actions are ignored) -/
theorem stop_on_blocker_any_tables (K' : Consts) (L : List LogEv) (out : GenLog.Out) (h : compute K' L = .ok out)
    (hn : ∀ k ∈ stopSpec L, k.name ≠ K'.relabelName) : ioKeys out.rails = stopSpec L :=
  compute_ioKeys K' L out h hn

/-- the hypothesis of `stop_on_blocker` is needed: an input rail NAMED `generate user intent` with one `general` LLM
    call is re-labelled `generation` and disappears from the input rails (finite fact, by evaluation). -/
theorem relabel_hides_an_input_rail :
    ∃ L out, compute K L = .ok out ∧ ioKeys out.rails ≠ stopSpec L :=
  ⟨[.startIn "generate user intent", .actStart "a", .llm "general", .actFin "a", .railFin], _, rfl, by decide⟩


/-! ## Phase 2 — the Colang 1.0 interpreter running the GENERATED llm_flows.co refines `turn`

  `RailsInterp.drive` is the loop of `generate_events` around `V1Interp.computeNextSteps` (C14's model of
  `flows.py`/`sliding.py`) on `Generated.LlmFlowsV1.flows ++ rail sub-flows` — the compiled elements of the shipped
  `llm_flows.co`, regenerated on every run — with scripted action results.

  FULL STATEMENT (`pipeline_refines_interp`, not proved in this generality):
      ∀ set-ups `s` (rail lists of any length, check / rewriting rails with arbitrary verdict functions), all option
      subsets, texts:  `driveTrace s o user bot = turnTrace s o user bot`.
  PROVED, unbounded: the hard part, the `while $i < len($input_flows)` loop of `run input rails`, for rail lists of ANY
  length (`interp_input_rails_loop`, induction over the remaining rails with an invariant on the interpreter state), and that the
  text it leaves is the documented chain (`loop_text_is_chain`).  PROVED, finite (kernel evaluation): the full statement
  for a concrete set-up over all 17 option values × texts that pass / are blocked by an input rail / by an output rail
  (`pipeline_refines_interp_partial`).  Entry into and exit from the loop, the refusal tail (extension flow
  `generate bot message`, `bot stop`), the output loop and the dialog branch for arbitrary lengths rest on that finite
  evaluation and on the end-to-end correspondence. -/

open NemoVerif.V1Interp NemoVerif.RailsInterp in
/-- **Loop discipline of the generated `run input rails`, for every number of rails** (symbolic execution of
    `computeNextState` on the generated program; `rails` = any further sub-flows of the configuration): from the head of
    the `while` loop at index `k` with `$user_message = um`, replaying the events `generate_events` appends while the
    remaining rails `rs` let the message pass — per rail: marker `StartInputRail`, the rail sub-flow `$input_flows[$i]`
    is called and asks for ITS action, the action's result (a `ContextUpdate` only if the value changed), `$i = $i + 1`
    exactly once, marker `InputRailFinished` — leads to the exit state: `run input rails` completed,
    `process user input` resumed at `create event InputRailsFinished`, `$i = len($input_flows)`, and `$user_message`,
    `$allowed` = the fold of the rails over the text. -/
theorem interp_input_rails_loop (rails : Cfgs) (hsub : ∀ r ∈ rails, r.isSubflow = true) (names : List String) (u0 u1 : Nat) (h01 : u0 < u1)
    (rs : List IRail) (k : Nat) (u : Ctx) (um al : V) (es : List Event) (hrun : LoopRun rs k u um al es)
    (hnames : names.drop k = rs.map (·.name)) (hok : ∀ r ∈ rs, RailOK rails r)
    (σ : Ctx) (c : Nat) (h1c : u1 < c) (hF : Facts (σ.update u) k names um al) (rest : List Event) :
    ∃ σ' c', Facts σ' names.length names (finalVals rs um al).1 (finalVals rs um al).2 ∧
      replay true (RailsInterp.base ++ rails) (es ++ rest) (headState σ u c u0 u1)
        = replay true (RailsInterp.base ++ rails) rest (exitState σ' c' u0 u1) :=
  input_rails_loop rails hsub names u0 u1 h01 rs k u um al es hrun hnames hok σ c h1c hF rest

open NemoVerif.V1Interp NemoVerif.RailsInterp in
/-- the text the interpreter's loop leaves in `$user_message` is the text `turn`'s documented chain passes on -/
theorem loop_text_is_chain (rs : List IRail) (t : String) (al : V) (h : AllPass rs (.str t)) :
    chain (rs.map toRail) t = .passed (strOf (finalVals rs (.str t) al).1) :=
  finalVals_is_chain rs t al h

open NemoVerif.RailsInterp in
/-- non-vacuity of `interp_input_rails_loop`'s run predicate: a two-rail run (finite fact) -/
example : LoopRun exSetup.input 0 [] (.str "hi") .none
    (iterEvents [] exSetup.input[0] (some (.bool true)) 0 .none .none ++ iterEvents [("triggered_input_rail", .str "in1")] exSetup.input[1] (some (.str "hi!")) 1 .none .none) :=
  .cons _ _ [] 0 [] _ _ _ _ _ _ (by show ("hi" != "bad") = true; decide) rfl (.last _ 1 _ _ _ _ _ _ trivial rfl)

open NemoVerif.RailsInterp in
/-- **`pipeline_refines_interp`, finite part** (kernel evaluation, labelled as such): for the concrete set-up `exSetup`
    (check + rewriting input rails, check output rail), all 16 option subsets and the call without options, user texts
    that pass / are blocked, bot messages that pass / are blocked: the trace of the interpreter loop on the generated
    llm_flows program (rail calls in order with the text each saw, LLM calls, utterance) equals the trace of `turn`. -/
theorem pipeline_refines_interp_partial : refinesOn exSetup (casesFor ["hi", "bad"] ["evil", "fine"]) = true := by
  decide +kernel



/-! ## Phase 4 — `pipeline_refines_interp` for UNBOUNDED rail lists

  Method (Lemmas/RailsDrive … RailsRefine): (1) `drive` (the history-based loop of `generate_events`: every iteration
  re-runs `compute_next_steps` on the whole history) is reduced to a state-based big-step relation `Runs` over the
  interpreter state (`drive_of_runs`, program-independent); (2) every transition of the interpreter on the generated
  program that a turn can take is proved by symbolic execution of `computeNextState` on the GENERATED elements (context,
  uids, rail lists arbitrary): entry into `process user input` with its two `if`s, into / out of `run input rails`, the
  three branches of `run dialog rails`, `process bot message` with `$skip_output_rails` / `$config.rails.output.flows` /
  `$generation_options.rails.output`, into / out of `run output rails`, the loop iterations of both loops, and the tail of a
  rejecting rail (`bot refuse to respond` → extension flow `generate bot message` → `BotMessage` → a fresh `process bot
  message` that resets `$skip_output_rails` and utters → `bot stop`) with the input and with the output frames; (3) the
  loops by induction over the rail list; (4) the specification side is shown to be `PipelineOpts.turn` with the generated
  guards.  Each `*_elems` fact used is an `rfl` about `Generated.LlmFlowsV1.flows`: an edit of ANY of the nine flows of
  llm_flows.co breaks the proof of the transitions that use it.

  Scope: rails of the two shipped shapes (check rail `$allowed = execute a / if not $allowed / bot refuse to respond /
  stop`, rewriting rail `$user_message|$bot_message = execute a`) with arbitrary verdict functions, refusal mode (no rails
  exceptions), no retrieval rails, the `general` dialog (no user intents defined), first call of a conversation.  Not in
  the interpreter model: the runtime's cap of 100 events per turn (`generate_events` raises "Too many events" — rail lists
  beyond that are outside the real system), action faults. -/

open NemoVerif.V1Interp NemoVerif.RailsInterp in
/-- **Loop discipline of the generated `run output rails` inside the extension flow `process bot message`, for every number
    of rails** — the output twin of `interp_input_rails_loop`: from the head of the `while` loop at index `k` with
    `$bot_message = bm`, replaying the events `generate_events` appends while the remaining rails let the message pass leads
    to the exit state: `run output rails` completed, `process bot message` resumed at `create event OutputRailsFinished`,
    `$i = len($output_flows)`, `$bot_message` / `$allowed` = the fold of the rails over the text. -/
theorem interp_output_rails_loop (rails : Cfgs) (hsub : ∀ r ∈ rails, r.isSubflow = true) (names : List String) (u0 u1 : Nat) (h01 : u0 < u1)
    (rs : List IRail) (k : Nat) (u : Ctx) (bm al : V) (es : List Event) (hrun : LoopRunO rs k u bm al es)
    (hnames : names.drop k = rs.map (·.name)) (hok : ∀ r ∈ rs, RailOKO rails r)
    (σ : Ctx) (c : Nat) (h1c : u1 < c) (hF : FactsO (σ.update u) k names bm al) (rest : List Event) :
    ∃ σ' c', FactsO σ' names.length names (finalVals rs bm al).1 (finalVals rs bm al).2 ∧
      replay true (RailsInterp.base ++ rails) (es ++ rest) (headStateO σ u c u0 u1)
        = replay true (RailsInterp.base ++ rails) rest (exitStateO σ' c' u0 u1) :=
  output_rails_loop rails hsub names u0 u1 h01 rs k u bm al es hrun hnames hok σ c h1c hF rest

open NemoVerif.RailsInterp in
/-- non-vacuity of `interp_output_rails_loop`'s run predicate (finite fact) -/
example : LoopRunO exSetup.output 0 [] (.str "fine") .none (iterEventsO [] exSetup.output[0] (some (.bool true)) 0 .none .none) :=
  .last _ 0 [] _ _ _ _ _ (by show ("fine" != "evil") = true; decide) rfl

open NemoVerif.RailsInterp in
/-- **`pipeline_refines_interp`** — for EVERY set-up (input and output rail lists of any length; check rails with arbitrary
    verdict functions, rewriting rails with arbitrary functions; names / actions identify the rail: `Setup.WF`), EVERY option
    value (the 16 subsets and the call without options), all user texts and bot messages (a bot message is supplied when
    dialog is deselected and output selected: `BotOK`): with enough fuel, the loop of `generate_events` around the Colang 1.0
    interpreter model running the GENERATED llm_flows.co program executes exactly the observable steps of
    `PipelineOpts.turn` with the guards of the current llm_flows.co — the same rail actions in the same order on the same
    texts (each rail sees the text as altered by its predecessors; nothing after a rejecting rail; no output rails on the
    refusal), the same LLM calls (one `generate_user_intent` call iff dialog rails are selected), the same utterance. -/
theorem pipeline_refines_interp (s : Setup) (hwf : s.WF) (o : Option (Bool × Bool × Bool × Bool)) (user : String) (bot : Option String)
    (hb : BotOK o bot) :
    ∃ N, ∀ fuel, N ≤ fuel → driveTraceN fuel s o user bot = turnTrace s o user bot :=
  refines s hwf o user bot hb

open NemoVerif.RailsInterp in
/-- … and what that trace is, as a function of the rail lists (the documented table, interpreter side) -/
theorem interp_trace_is_spec (s : Setup) (hwf : s.WF) (o : Option (Bool × Bool × Bool × Bool)) (user : String) (bot : Option String)
    (hb : BotOK o bot) :
    ∃ N, ∀ fuel, N ≤ fuel → driveTraceN fuel s o user bot = some (specTrace s o user bot) := by
  obtain ⟨N, h⟩ := refines s hwf o user bot hb
  exact ⟨N, fun f hf => (h f hf).trans (specTrace_eq_turn s o user bot hb)⟩

open NemoVerif.RailsInterp in
/-- the state-based form: after the history `generate_async` hands over, the driver `Runs` exactly the specification trace
    (no fuel; `Runs` = big-step rounds of `generate_events` over the interpreter state) -/
theorem interp_turn_runs (s : Setup) (hwf : s.WF) (o : Option (Bool × Bool × Bool × Bool)) (user : String) (bot : Option String)
    (hb : BotOK o bot) :
    ∃ st, V1Interp.replay true (RailsInterp.base ++ s.rails) (initialHistory o user bot) { ctx := s.config } = .ok st ∧
      Runs s (RailsInterp.base ++ s.rails) st (specTrace s o user bot) :=
  turn_runs s hwf o user bot hb

open NemoVerif.RailsInterp in
/-- **Exactly the selected categories run — at the level of the interpreter on the generated program**: in the trace the
    loop of `generate_events` executes (any rail lists, any verdict functions, any option value), an input rail action is
    executed only if input rails are selected, an output rail action only if output rails are selected, the LLM is called
    only if dialog rails are selected, and no other rail action is executed at all. -/
theorem interp_only_selected_run (s : Setup) (hwf : s.WF) (o : Option (Bool × Bool × Bool × Bool)) (user : String) (bot : Option String)
    (hb : BotOK o bot) :
    ∃ N, ∀ fuel, N ≤ fuel → ∃ tr, driveTraceN fuel s o user bot = some tr ∧
      (∀ i n t, Obs.railCall "input" i n t ∈ tr → selI o = true) ∧ (∀ i n t, Obs.railCall "output" i n t ∈ tr → selO o = true) ∧
      (Obs.llmCall ∈ tr → selD o = true) ∧ (∀ c i n t, Obs.railCall c i n t ∈ tr → c = "input" ∨ c = "output") := by
  obtain ⟨N, h⟩ := interp_trace_is_spec s hwf o user bot hb
  exact ⟨N, fun f hf => ⟨_, h f hf, specTrace_selected s o user bot⟩⟩

open NemoVerif.RailsInterp in
/-- **Later calls of a conversation** (the interpreter-level side of `calls_independent`): a call whose history ends in a
    QUIESCENT interpreter state — no flow state left, any uid counter, any context `σS` that still holds the configuration
    keys and in which `$skip_output_rails` is falsy — and that records its own options (or no options were ever recorded)
    executes exactly `specTrace` of ITS options, whatever the earlier calls left in `$allowed`, `$i`, `$user_message`,
    `$bot_message`, `$relevant_chunks` or in earlier `$generation_options`.  (`interp_turn_runs` is the case `σS` = the
    configuration, counter 0.)  Not proved: that every turn ENDS quiescent with the flag falsy (it does on every
    evaluated instance; at the `turn` level this is `skip_flag_reset`). -/
theorem interp_turn_runs_from (s : Setup) (hwf : s.WF) (o : Option (Bool × Bool × Bool × Bool)) (user : String) (bot : Option String)
    (hb : BotOK o bot) (σS : V1Interp.Ctx) (cS : Nat) (hcfg : CfgCtx s σS) (hsk : (σS.get "skip_output_rails").truthy = false)
    (hopt : o = none → NoOpts σS) :
    ∃ st, V1Interp.replay true (RailsInterp.base ++ s.rails) (initialHistory o user bot)
        { ctx := σS, flows := [], next := none, upd := [], ctr := cS } = .ok st ∧
      Runs s (RailsInterp.base ++ s.rails) st (specTrace s o user bot) :=
  turn_runs_from s hwf o user bot hb σS cS hcfg hsk hopt

open NemoVerif.RailsInterp in
/-- non-vacuity of `interp_turn_runs_from`: a context left by an earlier call (stale options, stale `$allowed`, flag reset) -/
example : CfgCtx exSetup (((exSetup.config.set "generation_options.rails.input" (.bool false)).set "allowed" (.bool false)).set "skip_output_rails" (.bool false)) ∧
    ((((exSetup.config.set "generation_options.rails.input" (.bool false)).set "allowed" (.bool false)).set "skip_output_rails" (.bool false)).get "skip_output_rails").truthy = false := by
  refine ⟨⟨?_, ?_, ?_⟩, ?_⟩ <;> ctx_norm <;> rfl

open NemoVerif.RailsInterp in
/-- **several calls on ONE conversation at the interpreter level, finite part** (kernel evaluation, labelled as such): for the
    concrete set-up, five conversations of 2–3 calls with different option subsets — among them "input only, blocked
    (refusal ⇒ `$skip_output_rails` set and reset), then output only with a bot message" — the history a call ends with being
    the prefix of the next call's history: the interpreter loop on the generated llm_flows.co yields, call by call, the traces of
    `PipelineOpts.session` (every turn ends quiescent, the flag does not leak).  The unbounded statement per call is
    `interp_turn_runs_from`.  (With the seeded change C16-a in llm_flows.co the `rfl` facts about `process bot message` fail and
    with them this whole module: obligations 0/584.) -/
theorem session_refines_interp_partial :
    (exSessions.all fun cs => driveCalls exSetup 80 [] cs == sessionTraces exSetup cs) = true := by
  decide +kernel

open NemoVerif.RailsInterp in
/-- non-vacuity: the concrete set-up is well-formed (finite facts) -/
theorem exSetup_wf : exSetup.WF :=
  ⟨by decide, by decide, by decide, by decide⟩
open NemoVerif.RailsInterp in
example : BotOK (some (true, false, false, true)) (some "evil") := fun _ _ => rfl
open NemoVerif.RailsInterp in
/-- … and on it the specification trace is the documented row (kernel evaluation): input rails pass ("hi" → "hi!"), the output
    rail rejects "evil" ⇒ refusal -/
example : specTrace exSetup (some (true, false, false, true)) "hi" (some "evil") =
    [.railCall "input" 0 "in0" "hi", .railCall "input" 1 "in1" "hi", .railCall "output" 0 "out0" "evil", .utter "no"] := by decide

/-! ## Wave 4 — the caller's texts are data: `create event …` resolves a reference once, the interpreter never looks into a text

  Seeded change C16-e (two cooperating edits: `_process_start_action` resolves `$name` references INSIDE dict parameters too,
  `create_event` tests `v.startswith("$")`) made a text that itself starts with `$` be resolved a second time.  The model now
  contains both reference-replacing sites with their shapes as generated data (`Generated.C16Resolve`, read off the source on
  every run by `harness/translate/c16.py::resolve_shapes`); with the seeded change `startActionNested` becomes `true`,
  `createEventAction_eq` (`rfl` per `create event` statement) and every transition lemma about a `create event` statement fail. -/

open NemoVerif.RailsInterp NemoVerif.Generated.C16Resolve in
/-- **One resolution.**  For every `create event …` statement of the generated llm_flows.co program and every context: what the
    action `create_event` builds behind `_process_start_action` — both reference-replacing sites in the shape the CURRENT source
    has — is the specification `createdEvent`: each `$name` written in the program replaced by the value of that context variable,
    exactly once (statements the program does not contain: `none` on both sides). -/
theorem create_event_resolves_once (params : String) (σ : V1Interp.Ctx) :
    createEventAction startActionNested createEventIndexTest params σ = createdEvent params σ :=
  createEventAction_eq params σ

open NemoVerif.RailsInterp NemoVerif.Generated.C16Resolve in
/-- **The text is not looked at again**: whatever string `t` the variable holds — `"$100 is too much"`, `"$bot_message"`, `""`,
    `"{{ x }}"` … — the events `create event UserMessage(text=$user_message)`, `create event BotMessage(text=$bot_message)` and
    `create event StartUtteranceBotAction(script=$user_message | $bot_message)` carry exactly `t`. -/
theorem create_event_text_opaque (σ : V1Interp.Ctx) (t : String) :
    (σ.get "user_message" = .str t →
      createEventAction startActionNested createEventIndexTest "{\"event\": {\"_type\": \"UserMessage\", \"text\": \"$user_message\"}}" σ
        = some (.other "UserMessage" [("text", .str t)]) ∧
      createEventAction startActionNested createEventIndexTest "{\"event\": {\"_type\": \"StartUtteranceBotAction\", \"script\": \"$user_message\"}}" σ
        = some (.other "StartUtteranceBotAction" [("script", .str t)])) ∧
    (σ.get "bot_message" = .str t →
      createEventAction startActionNested createEventIndexTest "{\"event\": {\"_type\": \"BotMessage\", \"text\": \"$bot_message\"}}" σ
        = some (.other "BotMessage" [("text", .str t)]) ∧
      createEventAction startActionNested createEventIndexTest "{\"event\": {\"_type\": \"StartUtteranceBotAction\", \"script\": \"$bot_message\"}}" σ
        = some (.other "StartUtteranceBotAction" [("script", .str t)])) := by
  refine ⟨fun h => ⟨?_, ?_⟩, fun h => ⟨?_, ?_⟩⟩ <;> rw [createEventAction_eq] <;> simp [createdEvent, h]

open NemoVerif.RailsInterp in
/-- non-vacuity: a context in which `$user_message` is a `$`-text -/
example : V1Interp.Ctx.get [("user_message", V1Interp.V.str "$100 is too much")] "user_message" = V1Interp.V.str "$100 is too much" := by decide

open NemoVerif.RailsInterp in
/-- **`double_resolution_witness`** (kernel-checked, finite): a runtime whose `_process_start_action` ALSO resolves references inside
    dict parameters (`startActionResolve true`, the first half of seeded change C16-e) hands `create_event` the text itself, and
    `create_event` resolves it again — with either shape of its test: the user text `$100 is too much` becomes `None`
    (⇒ `"\n".join([None])` raises TypeError in `generate_async`), the bot message `$user_message` becomes the USER's text; a text
    that does not start with `$` is unaffected, and the empty text makes `v[0]` raise (`none`) unless the test is `startswith`. -/
theorem double_resolution_witness :
    createEventAction true false "{\"event\": {\"_type\": \"UserMessage\", \"text\": \"$user_message\"}}" [("user_message", .str "$100 is too much")]
      = some (.other "UserMessage" [("text", .none)]) ∧
    createEventAction true true "{\"event\": {\"_type\": \"UserMessage\", \"text\": \"$user_message\"}}" [("user_message", .str "$100 is too much")]
      = some (.other "UserMessage" [("text", .none)]) ∧
    createEventAction true false "{\"event\": {\"_type\": \"BotMessage\", \"text\": \"$bot_message\"}}" [("user_message", .str "hi"), ("bot_message", .str "$user_message")]
      = some (.other "BotMessage" [("text", .str "hi")]) ∧
    createEventAction true false "{\"event\": {\"_type\": \"UserMessage\", \"text\": \"$user_message\"}}" [("user_message", .str "a $5 thing")]
      = some (.other "UserMessage" [("text", .str "a $5 thing")]) ∧
    createEventAction true true "{\"event\": {\"_type\": \"UserMessage\", \"text\": \"$user_message\"}}" [("user_message", .str "")] = none ∧
    createEventAction true false "{\"event\": {\"_type\": \"UserMessage\", \"text\": \"$user_message\"}}" [("user_message", .str "")]
      = some (.other "UserMessage" [("text", .str "")]) := by
  refine ⟨?_, ?_, ?_, ?_, ?_, ?_⟩ <;> decide

open NemoVerif.RailsInterp in
/-- **`interp_text_is_opaque`** — the trace and the reply of the interpreter on the generated llm_flows.co program are independent of
    what the texts ARE, except through the verdict functions.  For EVERY re-encoding `φ : String → String` of the texts (arbitrary:
    it may map a harmless text to `$100 …`, to the name of a context variable, to a template, to the empty text …), every
    well-formed set-up `s` and the set-up `s'` that is `s` seen through `φ` (`Renamed`: same rails, every verdict function
    transported along `φ`, refusal and LLM answer re-encoded), every option value, user text and bot message: with enough fuel, the
    loop of `generate_events` on `s'` with the re-encoded texts executes exactly the re-encoded trace of the run on `s` — the same
    rail actions in the same order, the same LLM calls, each text seen by a rail and the utterance re-encoded by `φ`, nothing else. -/
theorem interp_text_is_opaque (φ : String → String) (s s' : Setup) (hwf : s.WF) (hr : Renamed φ s s')
    (o : Option (Bool × Bool × Bool × Bool)) (user : String) (bot : Option String) (hb : BotOK o bot) :
    ∃ N, ∀ fuel, N ≤ fuel →
      driveTraceN fuel s' o (φ user) (bot.map φ) = (driveTraceN fuel s o user bot).map (List.map (Obs.mapText φ)) := by
  obtain ⟨N, h⟩ := interp_trace_is_spec s hwf o user bot hb
  obtain ⟨N', h'⟩ := interp_trace_is_spec s' (hr.wf hwf) o (φ user) (bot.map φ) (hb.map φ)
  refine ⟨max N N', fun f hf => ?_⟩
  rw [h f (by omega), h' f (by omega), specTrace_natural φ hr o user bot hb]
  rfl

open NemoVerif.RailsInterp in
/-- … in particular the reply: the utterances of the two runs correspond under `φ` -/
theorem interp_reply_is_opaque (φ : String → String) (s s' : Setup) (hwf : s.WF) (hr : Renamed φ s s')
    (o : Option (Bool × Bool × Bool × Bool)) (user : String) (bot : Option String) (hb : BotOK o bot) :
    ∃ N, ∀ fuel, N ≤ fuel → ∃ tr, driveTraceN fuel s o user bot = some tr ∧
      driveTraceN fuel s' o (φ user) (bot.map φ) = some (tr.map (Obs.mapText φ)) := by
  obtain ⟨N, h⟩ := interp_trace_is_spec s hwf o user bot hb
  obtain ⟨N', h'⟩ := interp_text_is_opaque φ s s' hwf hr o user bot hb
  exact ⟨max N N', fun f hf => ⟨_, h f (by omega), by rw [h' f (by omega), h f (by omega)]; rfl⟩⟩

open NemoVerif.RailsInterp in
/-- **the text itself comes back, whatever it is** (the documented row "input only, allowed", interpreter level): input rails
    selected, dialog and output not; every input rail is a check rail that lets `user` pass ⇒ the last step of the interpreter's
    trace is the utterance of exactly `user` — for EVERY string `user`. -/
theorem interp_echo_any_text (s : Setup) (hwf : s.WF) (r : Bool) (user : String)
    (hall : ∀ x ∈ s.input, ∃ a, x.kind = .check a ∧ a user = true) :
    ∃ N, ∀ fuel, N ≤ fuel → ∃ tr, driveTraceN fuel s (some (true, false, r, false)) user none = some (tr ++ [Obs.utter user]) := by
  obtain ⟨N, h⟩ := interp_trace_is_spec s hwf (some (true, false, r, false)) user none (fun _ ho => by simp [selO] at ho)
  have key : ∀ (rs : List IRail) (k : Nat), (∀ x ∈ rs, ∃ a, x.kind = .check a ∧ a user = true) →
      (loopSpec "input" k rs user).2 = some user := by
    intro rs
    induction rs with
    | nil => intro k _; rfl
    | cons x xs ih =>
      intro k hx
      obtain ⟨a, hk, ha⟩ := hx x (List.mem_cons_self ..)
      simp only [loopSpec, hk, ha, if_true]
      exact ih (k + 1) (fun y hy => hx y (List.mem_cons_of_mem _ hy))
  refine ⟨N, fun f hf => ?_⟩
  rw [h f hf]
  unfold specTrace
  by_cases hc : (!s.input.isEmpty && selI (some (true, false, r, false))) = true
  · simp only [hc, if_true, key s.input 0 hall]
    exact ⟨(loopSpec "input" 0 s.input user).1, by simp [afterSpec, selD, selO]⟩
  · simp only [hc, Bool.false_eq_true, if_false]
    exact ⟨[], by simp [afterSpec, selD, selO]⟩

open NemoVerif.RailsInterp in
/-- non-vacuity of `interp_text_is_opaque`: the concrete set-up seen through `φ = ("$" ++ ·)` (every text gets a dollar sign in
    front: user text `hi` ↦ `$hi`, `bot_message` ↦ `$bot_message`) is a `Renamed` set-up … -/
def exSetupDollar : Setup :=
  { input := [⟨"in0", "a_in0", .check (fun t => t != "$bad")⟩, ⟨"in1", "a_in1", .rewrite (fun t => t ++ "!")⟩],
    output := [⟨"out0", "a_out0", .check (fun t => t != "$evil")⟩], refusal := "$no", llmText := "$LLM" }

theorem dollar_ne (t b : String) : ("$" ++ t != "$" ++ b) = (t != b) := by
  have : ("$" ++ t = "$" ++ b) = (t = b) := propext (String.append_right_inj "$")
  simp only [bne, BEq.beq]
  simp [this]

open NemoVerif.RailsInterp in
theorem exSetupDollar_renamed : Renamed ("$" ++ ·) exSetup exSetupDollar where
  input := by
    refine .check "in0" "a_in0" _ _ (fun t => ?_) (.rewrite "in1" "a_in1" _ _ (fun t => ?_) .nil)
    · exact dollar_ne t "bad"
    · show ("$" ++ t) ++ "!" = "$" ++ (t ++ "!")
      exact String.append_assoc ..
  output := by
    refine .check "out0" "a_out0" _ _ (fun t => ?_) .nil
    exact dollar_ne t "evil"
  refusal := rfl
  llmText := rfl

open NemoVerif.RailsInterp in
/-- … and the interpreter loop on it, evaluated in the kernel (finite): bot message `$user_message`, user text `$bot_message` pass all
    rails and come back as they are; `$evil` is refused -/
example : driveTraceN 60 exSetupDollar (some (true, false, false, true)) "$bot_message" (some "$user_message") =
    some [.railCall "input" 0 "in0" "$bot_message", .railCall "input" 1 "in1" "$bot_message", .railCall "output" 0 "out0" "$user_message",
      .utter "$user_message"] := by decide +kernel
open NemoVerif.RailsInterp in
example : driveTraceN 60 exSetupDollar (some (true, false, false, false)) "$100 is too much" none =
    some [.railCall "input" 0 "in0" "$100 is too much", .railCall "input" 1 "in1" "$100 is too much", .utter "$100 is too much!"] := by
  decide +kernel

/-! ## Wave 6 — a refusal is never checked again (predefined messages, templates included)

  `LLMGenerationActions.generate_bot_message` answers a bot intent that has a predefined message with that message, RENDERED
  against the context (`{{ var }}` / `$var`), and raises the one-shot flag `$skip_output_rails`; `process bot message` tests and
  resets the flag.  The flag is what keeps the refusal of a blocking rail from being sent through the output rails (and, for a
  blocking OUTPUT rail, from re-entering the whole output category inside the blocked rail, which would also close the "current
  rail" of `compute_generation_log` so that no rail carries `stop`).  The interpreter-level model executes the action's decision
  (`RailsInterp.predefUpdates`, shape regenerated from the source: `Generated.C16Predef.flagOnlyIfUnchanged`); the configured message
  `s.refusalTpl` and what it says in the run `s.refusal` are independent, arbitrary strings of the set-up. -/

open NemoVerif.RailsInterp in
/-- **predefined message ⇒ flag set, whatever rendering does**: for every rendering function, every configured message and every
    context, the predefined branch of `generate_bot_message` (shape of the current source) returns the flag among its context
    updates and the rendered text as the `BotMessage`. -/
theorem predefined_message_always_sets_flag (render : String → V1Interp.Ctx → String) (tpl : String) (σ : V1Interp.Ctx) :
    predefBranch Generated.C16Predef.flagOnlyIfUnchanged render tpl σ
      = ([("skip_output_rails", .bool true)], .other "BotMessage" [("text", .str (render tpl σ))]) := rfl

open NemoVerif.RailsInterp in
/-- kernel-checked witness that the shape matters: with "only if rendering left the message unchanged" a template whose variable
    has a value does NOT raise the flag (the static library message still does) — the `BotMessage` then meets `process bot message`
    with the flag unset, which runs the output rails on it (`pbm_runs`: `pbmSpec`). -/
theorem flag_only_if_unchanged_witness :
    predefUpdates true "I can't respond to that ({{ block_reason }})." "I can't respond to that (input policy)." = [] ∧
    predefUpdates true "Blocked: $block_reason" "Blocked: output policy" = [] ∧
    predefUpdates true "I will not answer that." "I will not answer that." = [("skip_output_rails", .bool true)] ∧
    predefUpdates false "Blocked: $block_reason" "Blocked: output policy" = [("skip_output_rails", .bool true)] := by
  decide +kernel

open NemoVerif.RailsInterp in
/-- **`refusal_never_rechecked`** — ∀ well-formed set-ups (rail lists of any length, arbitrary verdict functions, ANY configured
    refusal message `s.refusalTpl` and ANY text `s.refusal` that rendering makes of it), ∀ 17 option values, ∀ user texts and bot
    messages (documented usage): in the trace of the interpreter loop on the generated llm_flows.co, behind the call of a rail that
    rejects the text it is shown there is the utterance of the refusal and NOTHING else — no output rail is called on the refusal, no
    rail is called a second time, no LLM call is made. -/
theorem refusal_never_rechecked (s : Setup) (hwf : s.WF) (o : Option (Bool × Bool × Bool × Bool)) (user : String) (bot : Option String)
    (hb : BotOK o bot) :
    ∃ N, ∀ fuel, N ≤ fuel → ∃ tr, driveTraceN fuel s o user bot = some tr ∧
      ∀ pre c k n t post, tr = pre ++ Obs.railCall c k n t :: post → s.rejects c k t = true → post = [Obs.utter s.refusal] := by
  obtain ⟨N, h⟩ := interp_trace_is_spec s hwf o user bot hb
  refine ⟨N, fun f hf => ⟨_, h f hf, ?_⟩⟩
  intro pre c k n t post he hr
  exact tailOK_split s pre c k n t post (he ▸ specTrace_tailOK s o user bot) hr

open NemoVerif.RailsInterp in
/-- … in particular no output rail ever sees the refusal -/
theorem no_output_rail_on_the_refusal (s : Setup) (hwf : s.WF) (o : Option (Bool × Bool × Bool × Bool)) (user : String) (bot : Option String)
    (hb : BotOK o bot) :
    ∃ N, ∀ fuel, N ≤ fuel → ∃ tr, driveTraceN fuel s o user bot = some tr ∧
      ∀ pre c k n t post, tr = pre ++ Obs.railCall c k n t :: post → s.rejects c k t = true →
        ∀ k' n' t', Obs.railCall "output" k' n' t' ∉ post := by
  obtain ⟨N, h⟩ := refusal_never_rechecked s hwf o user bot hb
  refine ⟨N, fun f hf => ?_⟩
  obtain ⟨tr, htr, hp⟩ := h f hf
  refine ⟨tr, htr, fun pre c k n t post he hr k' n' t' hm => ?_⟩
  rw [hp pre c k n t post he hr] at hm
  simp at hm

open NemoVerif.RailsInterp in
/-- non-vacuity: the concrete set-up with a TEMPLATED refusal (configured `… ({{ block_reason }}).`, saying `… (input policy).` in
    this run) … -/
def exSetupTpl : Setup :=
  { exSetup with refusal := "I can't respond to that (input policy).", refusalTpl := "I can't respond to that ({{ block_reason }})." }

open NemoVerif.RailsInterp in
/-- … is well-formed … -/
theorem exSetupTpl_wf : exSetupTpl.WF :=
  ⟨by decide, by decide, by decide, by decide⟩
open NemoVerif.RailsInterp in
/-- … its rails reject `bad` (input) and `evil` (output) … -/
example : exSetupTpl.rejects "input" 0 "bad" = true ∧ exSetupTpl.rejects "output" 0 "evil" = true ∧ exSetupTpl.rejects "output" 0 exSetupTpl.refusal = false := by
  decide +kernel

open NemoVerif.RailsInterp in
/-- … and the interpreter loop on it, evaluated in the kernel (finite): input + output selected, the input rail blocks ⇒ the rendered
    refusal is uttered and the output rail is NOT called on it; an output rail blocks ⇒ the output category is not entered again -/
example : driveTraceN 60 exSetupTpl (some (true, false, false, true)) "bad" (some "fine") =
    some [.railCall "input" 0 "in0" "bad", .utter "I can't respond to that (input policy)."] := by decide +kernel
open NemoVerif.RailsInterp in
example : driveTraceN 60 exSetupTpl (some (false, false, false, true)) "hi" (some "evil") =
    some [.railCall "output" 0 "out0" "evil", .utter "I can't respond to that (input policy)."] := by decide +kernel

/-! ## The generation log: LLM-call count and executed actions

  (paste into `Theorems/C16.lean` inside `namespace NemoVerif.C16`, before `end NemoVerif.C16`; add
   `import NemoVerif.Lemmas.GenLogCounts` and `import NemoVerif.Lemmas.GenLogTurn` to the imports.) -/

/-- **Every `llm_call_info` entry is counted exactly once** — for EVERY processing log on which
    `compute_generation_log` returns (induction over the log from an arbitrary loop state satisfying the invariant
    "`executed_action`, when set, is an action object inside one of the rails of the list", `GenLog.Inv`): the returned
    `stats.llm_calls_count` is the number of `llm_call_info` entries of the log. -/
theorem llm_count_exact (L : List LogEv) (out : GenLog.Out) (h : compute K L = .ok out) :
    out.llmCalls = (L.filter LogEv.isLlm).length :=
  compute_llmCalls K L out h

/-- … and that number is the sum, over the returned rails and their executed actions, of the recorded LLM calls
    (what the final loop of `compute_generation_log` sums). -/
theorem llm_count_is_sum_over_rails (L : List LogEv) (out : GenLog.Out) (h : compute K L = .ok out) :
    out.llmCalls = llmCount out.rails ∧ llmCount out.rails = (L.filter LogEv.isLlm).length :=
  ⟨compute_llmCalls_sum K L out h, by rw [← compute_llmCalls_sum K L out h]; exact compute_llmCalls K L out h⟩

/-- the same for arbitrary literal tables -/
theorem llm_count_exact_any_tables (K' : Consts) (L : List LogEv) (out : GenLog.Out) (h : compute K' L = .ok out) :
    out.llmCalls = (L.filter LogEv.isLlm).length :=
  compute_llmCalls K' L out h

/-- non-vacuity (finite fact, by evaluation): a log with two LLM entries under two different actions of two rails -/
example : (compute K [.startIn "r", .actStart "a", .llm "t", .actFin "a", .railFin, .step "f" [], .actStart "b", .llm "u", .actFin "b"]).toOption.map
    (fun o => (o.llmCalls, o.rails.length)) = some (2, 2) := by decide

/-- **The executed actions are the actions that were started** — for EVERY processing log on which
    `compute_generation_log` returns: the action names of the returned rails, rail by rail and in order, are exactly the
    `StartInternalSystemAction` entries of the log whose action is not ignored (`create_event`), in log order. -/
theorem executed_actions_exact (L : List LogEv) (out : GenLog.Out) (h : compute K L = .ok out) :
    out.rails.flatMap (fun r => r.actions.map (·.name)) = startedActs K L :=
  compute_executedActions K L out h

/-- non-vacuity (finite fact, by evaluation) -/
example : (compute K [.startIn "r", .actStart "a", .actStart "create_event", .actFin "a", .railFin, .step "f" [], .actStart "b"]).toOption.map
    (fun o => o.rails.flatMap (fun r => r.actions.map (·.name))) = some ["a", "b"] := by decide

/-- **LLM-call count of the generation log of a turn**: whatever the configuration (rails whose own entries are acceptable
    inside an open rail), options, texts and dialog, the generation log of the turn's processing log exists and its
    `stats.llm_calls_count` is the number of LLM generations of the trace plus the `llm_call_info` entries the bodies of the
    CALLED rails write (`noiseLlm`: for each `railCall c i …` of the trace, the `llm` entries of rail `i` of category `c`). -/
theorem turn_llm_count (cfg : Cfg) (ha : cfg.accepted) (opts : Option Opts) (user : String) (bot : Option String) (dlg : Dialog)
    (out : PipelineOpts.Out) (h : turn Gd cfg opts user bot dlg = some out) :
    ∃ gl, compute K out.log = .ok gl ∧ gl.llmCalls = out.trace.count Step.llmCall + noiseLlm cfg out.trace := by
  obtain ⟨gl, hg⟩ := compute_returns_on_turn_logs cfg ha opts user bot dlg out h
  exact ⟨gl, hg, turn_llmCalls cfg opts user bot dlg out h gl hg⟩

/-- rails that record no LLM call themselves: the count is exactly the number of LLM generations of the turn -/
theorem turn_llm_count_quiet (cfg : Cfg) (ha : cfg.accepted) (hq : cfg.llmFree) (opts : Option Opts) (user : String) (bot : Option String)
    (dlg : Dialog) (out : PipelineOpts.Out) (h : turn Gd cfg opts user bot dlg = some out) :
    ∃ gl, compute K out.log = .ok gl ∧ gl.llmCalls = out.trace.count Step.llmCall := by
  obtain ⟨gl, hg, hc⟩ := turn_llm_count cfg ha opts user bot dlg out h
  exact ⟨gl, hg, by rw [hc, noiseLlm_llmFree cfg hq]; rfl⟩

/-- **"no LLM generation happens" shows in the returned log**: dialog rails not selected and rails that record no LLM call
    themselves ⇒ the generation log of the turn reports 0 LLM calls. -/
theorem no_llm_calls_logged_without_dialog (cfg : Cfg) (ha : cfg.accepted) (hq : cfg.llmFree) (o : Opts) (hd : o.dialog = false)
    (user : String) (bot : Option String) (dlg : Dialog) (out : PipelineOpts.Out) (h : turn Gd cfg (some o) user bot dlg = some out) :
    ∃ gl, compute K out.log = .ok gl ∧ gl.llmCalls = 0 := by
  obtain ⟨gl, hg, hc⟩ := turn_llm_count_quiet cfg ha hq (some o) user bot dlg out h
  exact ⟨gl, hg, by rw [hc]; exact llmSteps_dialog_off cfg o hd user bot dlg out h⟩

/-- without dialog rails, whatever the rails record: the count is what the called rails' bodies write -/
theorem llm_calls_without_dialog_are_the_rails (cfg : Cfg) (ha : cfg.accepted) (o : Opts) (hd : o.dialog = false)
    (user : String) (bot : Option String) (dlg : Dialog) (out : PipelineOpts.Out) (h : turn Gd cfg (some o) user bot dlg = some out) :
    ∃ gl, compute K out.log = .ok gl ∧ gl.llmCalls = noiseLlm cfg out.trace := by
  obtain ⟨gl, hg, hc⟩ := turn_llm_count cfg ha (some o) user bot dlg out h
  refine ⟨gl, hg, ?_⟩
  have := llmSteps_dialog_off cfg o hd user bot dlg out h
  unfold llmSteps at this
  rw [hc, this, Nat.zero_add]

/-- non-vacuity: `exCfg` satisfies the hypotheses (finite facts) -/
example : exCfg.llmFree := exCfg_llmFree
example : ((turn Gd exCfg (some ⟨true, false, false, true⟩) "hi" (some "evil") (.general "x")).map fun o =>
      ((compute K o.log).toOption.map (·.llmCalls), o.trace.count Step.llmCall)) = some (some 0, 0) := by decide
example : ((turn Gd exCfg none "hi" none (.intent "f" "bot hi" false "fine")).map fun o =>
      ((compute K o.log).toOption.map (·.llmCalls), o.trace.count Step.llmCall)) = some (some 2, 2) := by decide

/-! ## The generation log: decisions of the input/output rails -/

/-- **Decisions of the input/output rails** — for EVERY processing log on which `compute_generation_log` returns (induction
    over the log from an arbitrary loop state, `run_decs`): the `decisions` of the returned input/output rails, in order,
    are what one pass over the log says (`decisionsSpec`): a rail collects the `next_steps` decisions (`execute <action>` for
    non-ignored actions, bot intents) of exactly the `step` entries between its start entry and the next rail-start /
    rail-finish entry, and `"stop"` is appended iff no such entry follows.  (Same hypothesis as `stop_on_blocker`.) -/
theorem io_decisions_exact (L : List LogEv) (out : GenLog.Out) (h : compute K L = .ok out)
    (hn : ∀ k ∈ stopSpec L, k.name ≠ K.relabelName) : ioDecs out.rails = decisionsSpec K none L :=
  compute_ioDecs K L out h hn

/-- non-vacuity (finite fact, by evaluation): a finished rail, then a rail that is left open -/
example : (compute K [.startIn "a", .step "a" [.act "check", .act "create_event"], .railFin, .step "f" [.intent "x"], .startOut "b",
      .step "b" [.intent "refuse to respond"], .step "generate bot message" [.other]]).toOption.map (fun o => ioDecs o.rails)
    = some [["execute check"], ["refuse to respond", "stop"]] := by decide
example : ∀ k ∈ stopSpec [LogEv.startIn "a", .railFin, .startOut "b"], k.name ≠ K.relabelName := by decide

/-- **Decisions of the input/output rails in the generation log of a turn**: whatever the configuration (rails with marker-free
    bodies), options, texts and dialog, when `compute_generation_log` returns on the turn's processing log: each called
    input/output rail carries the decisions of its own `step` entries (`calledDecs`); if a rail ended the turn
    (`out.blocker`), that last rail additionally carries a tail `tl` and the final `"stop"` (`closeLastO (some tl)`), where
    `tl = []` for a faulting rail / rails-exception mode and `tl = refusalDecs` (= `refuse to respond`,
    `execute retrieve_relevant_chunks`, the retrieval rails' own decisions, `execute generate_bot_message`) when the refusal
    is uttered (`TailSpec`). -/
theorem io_decisions_on_turn_logs (cfg : Cfg) (hc : cfg.clean) (opts : Option Opts) (user : String) (bot : Option String) (dlg : Dialog)
    (out : PipelineOpts.Out) (h : turn Gd cfg opts user bot dlg = some out)
    (hn : ∀ c i n x, Step.railCall c i n x ∈ out.trace → n ≠ K.relabelName)
    (gl : GenLog.Out) (hg : compute K out.log = .ok gl) :
    ∃ t : Option (List String), t.isSome = out.blocker.isSome ∧ (t.isSome = true → calledDecs K cfg out.trace ≠ []) ∧
      ioDecs gl.rails = closeLastO t (calledDecs K cfg out.trace) ∧ TailSpec cfg opts out.reply t :=
  turn_ioDecs cfg hc opts user bot dlg out h hn gl hg

/-- no rail ended the turn: every input/output rail of the generation log carries exactly its own decisions (no `"stop"` added) -/
theorem unblocked_rails_keep_own_decisions (cfg : Cfg) (hc : cfg.clean) (opts : Option Opts) (user : String) (bot : Option String)
    (dlg : Dialog) (out : PipelineOpts.Out) (h : turn Gd cfg opts user bot dlg = some out) (hb : out.blocker = none)
    (hn : ∀ c i n x, Step.railCall c i n x ∈ out.trace → n ≠ K.relabelName)
    (gl : GenLog.Out) (hg : compute K out.log = .ok gl) : ioDecs gl.rails = calledDecs K cfg out.trace :=
  turn_ioDecs_unblocked cfg hc opts user bot dlg out h hb hn gl hg

/-- **a rail that blocks in refusal mode**: the earlier rails carry their own decisions; the blocking rail (the last one)
    carries its own, then `refuse to respond`, the `generate bot message` steps, and finally `stop`. -/
theorem refusing_rail_decisions (cfg : Cfg) (hc : cfg.clean) (he : cfg.exceptions = false) (hne : cfg.refusal ≠ cfg.internalError)
    (opts : Option Opts) (user : String) (bot : Option String) (dlg : Dialog) (out : PipelineOpts.Out)
    (h : turn Gd cfg opts user bot dlg = some out) (hb : out.blocker.isSome = true) (hr : out.reply = .text cfg.refusal)
    (hn : ∀ c i n x, Step.railCall c i n x ∈ out.trace → n ≠ K.relabelName)
    (gl : GenLog.Out) (hg : compute K out.log = .ok gl) :
    ∃ D d, calledDecs K cfg out.trace = D ++ [d] ∧ ioDecs gl.rails = D ++ [d ++ refusalDecs cfg opts ++ ["stop"]] :=
  turn_ioDecs_refused cfg hc he hne opts user bot dlg out h hb hr hn gl hg

/-- a rail that faults, or rejects in rails-exception mode: its own decisions, then `stop` -/
theorem faulting_rail_decisions (cfg : Cfg) (hc : cfg.clean) (opts : Option Opts) (user : String) (bot : Option String) (dlg : Dialog)
    (out : PipelineOpts.Out) (h : turn Gd cfg opts user bot dlg = some out) (hb : out.blocker.isSome = true)
    (hr : out.reply ≠ .text cfg.refusal)
    (hn : ∀ c i n x, Step.railCall c i n x ∈ out.trace → n ≠ K.relabelName)
    (gl : GenLog.Out) (hg : compute K out.log = .ok gl) :
    ∃ D d, calledDecs K cfg out.trace = D ++ [d] ∧ ioDecs gl.rails = D ++ [d ++ ["stop"]] :=
  turn_ioDecs_faulted cfg hc opts user bot dlg out h hb hr hn gl hg

/-- non-vacuity of `refusing_rail_decisions` (finite facts, by evaluation): `exCfg` (refusal mode, refusal ≠ internal error), options
    input+output, bot message rejected by `out0`: hypotheses hold and the log reads as stated. -/
example : exCfg.exceptions = false ∧ exCfg.refusal ≠ exCfg.internalError := by decide
example : ((turn Gd exCfg (some ⟨true, false, false, true⟩) "hi" (some "evil") (.general "x")).map fun o =>
      (o.blocker.isSome, o.reply)) = some (true, .text "no") := by decide
example : ((turn Gd exCfg (some ⟨true, false, false, true⟩) "hi" (some "evil") (.general "x")).map fun o =>
      (compute K o.log).toOption.map fun g => ioDecs g.rails)
    = some (some [["execute check"], ["execute check"],
        ["execute check", "refuse to respond", "execute retrieve_relevant_chunks", "execute generate_bot_message", "stop"]]) := by decide
example : ((turn Gd exCfg (some ⟨true, false, false, true⟩) "hi" (some "evil") (.general "x")).map fun o => calledDecs K exCfg o.trace)
    = some [["execute check"], ["execute check"], ["execute check"]] := by decide
example : refusalDecs exCfg (some ⟨true, false, false, true⟩)
    = ["refuse to respond", "execute retrieve_relevant_chunks", "execute generate_bot_message"] := by decide

/-! ## The generation log: executed actions of the input/output rails, rail by rail -/

/-- **Which rail an executed action is attributed to** — for EVERY processing log on which `compute_generation_log` returns:
    the executed-action names of the returned input/output rails, rail by rail, are what one pass over the log says
    (`actionsSpec`): a rail gets exactly the non-ignored `StartInternalSystemAction` entries between its start entry and the
    next rail-start / rail-finish entry.  (Same hypothesis as `stop_on_blocker`.) -/
theorem io_actions_exact (L : List LogEv) (out : GenLog.Out) (h : compute K L = .ok out)
    (hn : ∀ k ∈ stopSpec L, k.name ≠ K.relabelName) : ioActs out.rails = actionsSpec K none L :=
  compute_ioActs K L out h hn

/-- non-vacuity (finite fact, by evaluation) -/
example : (compute K [.startIn "a", .actStart "x", .actStart "create_event", .actFin "x", .railFin, .step "f" [], .actStart "y", .actFin "y",
      .startOut "b", .actStart "z"]).toOption.map (fun o => ioActs o.rails) = some [["x"], ["z"]] := by decide

/-- **Executed actions of the input/output rails in the generation log of a turn** (same shape as `io_decisions_on_turn_logs`):
    each called input/output rail carries the actions its own body starts (`calledActs`); the rail that ended the turn also gets
    the tail `tl` (`extendLastO`), `tl = []` for a fault / rails-exception mode, `tl = refusalActs` (= `retrieve_relevant_chunks`,
    the retrieval rails' own actions, `generate_bot_message`: the refusal is generated while the blocked rail is still the
    active one) when the refusal is uttered (`TailSpecA`). -/
theorem io_actions_on_turn_logs (cfg : Cfg) (hc : cfg.clean) (opts : Option Opts) (user : String) (bot : Option String) (dlg : Dialog)
    (out : PipelineOpts.Out) (h : turn Gd cfg opts user bot dlg = some out)
    (hn : ∀ c i n x, Step.railCall c i n x ∈ out.trace → n ≠ K.relabelName)
    (gl : GenLog.Out) (hg : compute K out.log = .ok gl) :
    ∃ t : Option (List String), t.isSome = out.blocker.isSome ∧ (t.isSome = true → calledActs K cfg out.trace ≠ []) ∧
      ioActs gl.rails = extendLastO t (calledActs K cfg out.trace) ∧ TailSpecA cfg opts out.reply t :=
  turn_ioActs cfg hc opts user bot dlg out h hn gl hg

/-- no rail ended the turn, or the last one faulted / rails-exception mode: every input/output rail of the generation log
    carries exactly the actions of its own body -/
theorem rails_keep_own_actions (cfg : Cfg) (hc : cfg.clean) (opts : Option Opts) (user : String) (bot : Option String)
    (dlg : Dialog) (out : PipelineOpts.Out) (h : turn Gd cfg opts user bot dlg = some out)
    (hb : out.blocker = none ∨ out.reply ≠ .text cfg.refusal)
    (hn : ∀ c i n x, Step.railCall c i n x ∈ out.trace → n ≠ K.relabelName)
    (gl : GenLog.Out) (hg : compute K out.log = .ok gl) : ioActs gl.rails = calledActs K cfg out.trace := by
  cases hbl : out.blocker with
  | none => exact turn_ioActs_unblocked cfg hc opts user bot dlg out h hbl hn gl hg
  | some b =>
    rcases hb with hb | hb
    · rw [hbl] at hb; cases hb
    · exact turn_ioActs_faulted cfg hc opts user bot dlg out h (by rw [hbl]; rfl) hb hn gl hg

/-- a rail that blocks in refusal mode is also charged with the actions that generate the refusal -/
theorem refusing_rail_actions (cfg : Cfg) (hc : cfg.clean) (he : cfg.exceptions = false) (hne : cfg.refusal ≠ cfg.internalError)
    (opts : Option Opts) (user : String) (bot : Option String) (dlg : Dialog) (out : PipelineOpts.Out)
    (h : turn Gd cfg opts user bot dlg = some out) (hb : out.blocker.isSome = true) (hr : out.reply = .text cfg.refusal)
    (hn : ∀ c i n x, Step.railCall c i n x ∈ out.trace → n ≠ K.relabelName)
    (gl : GenLog.Out) (hg : compute K out.log = .ok gl) :
    ∃ D d, calledActs K cfg out.trace = D ++ [d] ∧ ioActs gl.rails = D ++ [d ++ refusalActs cfg opts] :=
  turn_ioActs_refused cfg hc he hne opts user bot dlg out h hb hr hn gl hg

/-- non-vacuity (finite facts, by evaluation; hypotheses as for `refusing_rail_decisions`) -/
example : ((turn Gd exCfg (some ⟨true, false, false, true⟩) "hi" (some "evil") (.general "x")).map fun o =>
      (compute K o.log).toOption.map fun g => ioActs g.rails)
    = some (some [["check"], ["check"], ["check", "retrieve_relevant_chunks", "generate_bot_message"]]) := by decide
example : ((turn Gd exCfg (some ⟨true, false, false, true⟩) "hi" (some "evil") (.general "x")).map fun o => calledActs K exCfg o.trace)
    = some [["check"], ["check"], ["check"]] := by decide
example : refusalActs exCfg (some ⟨true, false, false, true⟩) = ["retrieve_relevant_chunks", "generate_bot_message"] := by decide

end NemoVerif.C16
