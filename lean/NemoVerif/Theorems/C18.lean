/-
  C18 — streaming output does not depend on how the LLM text is chunked.
  Property theorems only (helper lemmas: Lemmas/Stream.lean; model: Models/Stream.lean — the handler
  as repaired by fixes/C18-streaming-chunk-invariance.diff; the unrepaired code and its kernel-checked
  counterexamples: Models/StreamAsIs.lean and the `as_is_counterexample_*` theorems below).

  All theorems are unbounded: ∀ configuration (prefix, suffix, any number of non-empty stop
  sequences), ∀ text, ∀ chunking into non-empty tokens, ∀ end-of-stream protocol.
-/
import NemoVerif.Lemmas.Stream
namespace NemoVerif.C18
open NemoVerif.Stream

/-- MAIN STATEMENT.  For every chunking `cs` of `text` the concatenation of the delivered chunks and
    the final `completion` both equal `spec cfg text e`: the text with the prefix removed, cut at the
    first stop sequence, with the suffix removed. -/
theorem chunk_invariant (cfg : Cfg) (hS : NonemptyStops cfg.stop) (text : Str) (cs : List Str) (e : EndProto)
    (hflat : cs.flatten = text) (hne : ∀ c ∈ cs, c ≠ []) :
    delivered (run cfg cs e) = spec cfg text e ∧ (run cfg cs e).completion = spec cfg text e := by
  subst hflat
  exact run_eq_spec hS cs hne e

/-- non-vacuity: the library's own configuration, a text with the suffix and a stop sequence, a chunking
    that splits inside the prefix, the suffix and the stop sequence -/
example :
    let cfg : Cfg := { pfx := "  \"".toList, suffix := "\"".toList, stop := ["\"\n".toList] }
    NonemptyStops cfg.stop ∧
      delivered (run cfg [" ".toList, " \"Hi".toList, " there\"".toList, "\nuser".toList] .llmEnd) = "Hi there".toList := by
  refine ⟨by intro s hs; simp at hs; subst hs; simp, by decide⟩

/-- The property as a statement about two chunkings: same text ⇒ same delivered text and same completion. -/
theorem chunking_independent (cfg : Cfg) (hS : NonemptyStops cfg.stop) (cs₁ cs₂ : List Str) (e : EndProto)
    (h : cs₁.flatten = cs₂.flatten) (h₁ : ∀ c ∈ cs₁, c ≠ []) (h₂ : ∀ c ∈ cs₂, c ≠ []) :
    delivered (run cfg cs₁ e) = delivered (run cfg cs₂ e) ∧ (run cfg cs₁ e).completion = (run cfg cs₂ e).completion := by
  have a := chunk_invariant cfg hS _ cs₁ e rfl h₁
  have b := chunk_invariant cfg hS _ cs₂ e h.symm h₂
  exact ⟨a.1.trans b.1.symm, a.2.trans b.2.symm⟩

/-- `completion` is exactly what was delivered. -/
theorem completion_eq_delivered (cfg : Cfg) (hS : NonemptyStops cfg.stop) (cs : List Str) (e : EndProto)
    (hne : ∀ c ∈ cs, c ≠ []) : (run cfg cs e).completion = delivered (run cfg cs e) := by
  have a := chunk_invariant cfg hS _ cs e rfl hne
  exact a.2.trans a.1.symm

/-- When the text starts with the prefix the result does not depend on the end-of-stream protocol either. -/
theorem spec_with_prefix (cfg : Cfg) (t : Str) (e : EndProto) :
    spec cfg (cfg.pfx ++ t) e = stripSuffix cfg.suffix ((cutStop cfg.stop t).getD t) := by
  by_cases hp : cfg.pfx = []
  · simp [spec, hp, cutAndStrip]
  · have : cfg.pfx.isPrefixOf (cfg.pfx ++ t) = true := List.isPrefixOf_iff_prefix.2 (List.prefix_append _ _)
    simp [spec, hp, this, cutAndStrip]

/-- Meaning of "cut at the first stop sequence" (1): `cutStop` answers `u` iff a stop sequence starts
    right after `u` and after no shorter prefix of the text. -/
theorem cut_is_earliest (S : List Str) (t u : Str) :
    cutStop S t = some u ↔
      ∃ r, t = u ++ r ∧ stopHere S r = true ∧ ∀ u' r', t = u' ++ r' → stopHere S r' = true → u.length ≤ u'.length :=
  cutStop_some_iff S t u

/-- Meaning of "cut at the first stop sequence" (2): `none` iff no stop sequence occurs anywhere. -/
theorem no_cut_iff_no_stop (S : List Str) (t : Str) :
    cutStop S t = none ↔ ∀ u r, t = u ++ r → stopHere S r = false :=
  cutStop_none_iff S t

/-- Hold-back safety: a text that does not end inside a pattern can be released — whatever follows,
    the first stop sequence of the whole text is the one already visible, or lies in what follows. -/
theorem release_is_safe (S : List Str) (hS : NonemptyStops S) (a b : Str) (h : holds S a = false) :
    cutStop S (a ++ b) = match cutStop S a with
      | some u => some u
      | none => (cutStop S b).map (a ++ ·) :=
  cutStop_append hS b (holds_false_iff.1 h)

end NemoVerif.C18
