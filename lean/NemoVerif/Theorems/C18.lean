import NemoVerif.Models.Stream
namespace NemoVerif.C18
open NemoVerif.Stream

theorem placeholder_spec_nil (cfg : Cfg) (h : cfg.pfx = []) (e : EndProto) : spec cfg [] e = cutAndStrip cfg [] := by
  simp [spec, h]

end NemoVerif.C18
