/-
  C18 — streaming output does not depend on how the LLM text is chunked.
  Property theorems only (helper lemmas: Lemmas/Stream.lean; model: Models/Stream.lean — the handler
  as repaired by fixes/C18-streaming-chunk-invariance.diff; the unrepaired code and its kernel-checked
  counterexamples: Models/StreamAsIs.lean and the `as_is_counterexample_*` theorems below).

  All theorems are unbounded: ∀ configuration (prefix, suffix, any number of non-empty stop
  sequences), ∀ text, ∀ chunking into non-empty tokens, ∀ end-of-stream protocol.
-/
import NemoVerif.Lemmas.Stream
import NemoVerif.Lemmas.StreamAsIs
import NemoVerif.Lemmas.StreamUsage
import NemoVerif.Lemmas.StreamTopK
import NemoVerif.Lemmas.StreamPipeCfg
import NemoVerif.Lemmas.StreamFind
import NemoVerif.Generated.C18
namespace NemoVerif.C18
open NemoVerif.Stream

/-- MAIN STATEMENT.  For every chunking `cs` of `text` the concatenation of the delivered chunks and
    the final `completion` both equal `spec cfg text e`: the text with the prefix removed, cut at the
    first stop sequence, with the suffix removed. -/
theorem chunk_invariant (cfg : Cfg) (hS : NonemptyStops cfg.stop) (text : Str) (cs : List Str) (e : EndProto)
    (hflat : cs.flatten = text) (hne : ∀ c ∈ cs, c ≠ []) :
    delivered (run cfg cs e) = spec cfg text e ∧ (run cfg cs e).completion = spec cfg text e := by
  subst hflat
  exact run_eq_spec hS cs hne e

/-- non-vacuity: the library's own configuration, a text with the suffix and a stop sequence, a chunking
    that splits inside the prefix, the suffix and the stop sequence -/
example :
    let cfg : Cfg := { pfx := "  \"".toList, suffix := "\"".toList, stop := ["\"\n".toList] }
    NonemptyStops cfg.stop ∧
      delivered (run cfg [" ".toList, " \"Hi".toList, " there\"".toList, "\nuser".toList] .llmEnd) = "Hi there".toList := by
  refine ⟨by intro s hs; simp at hs; subst hs; simp, by decide⟩

/-- The property as a statement about two chunkings: same text ⇒ same delivered text and same completion. -/
theorem chunking_independent (cfg : Cfg) (hS : NonemptyStops cfg.stop) (cs₁ cs₂ : List Str) (e : EndProto)
    (h : cs₁.flatten = cs₂.flatten) (h₁ : ∀ c ∈ cs₁, c ≠ []) (h₂ : ∀ c ∈ cs₂, c ≠ []) :
    delivered (run cfg cs₁ e) = delivered (run cfg cs₂ e) ∧ (run cfg cs₁ e).completion = (run cfg cs₂ e).completion := by
  have a := chunk_invariant cfg hS _ cs₁ e rfl h₁
  have b := chunk_invariant cfg hS _ cs₂ e h.symm h₂
  exact ⟨a.1.trans b.1.symm, a.2.trans b.2.symm⟩

/-- `completion` is exactly what was delivered. -/
theorem completion_eq_delivered (cfg : Cfg) (hS : NonemptyStops cfg.stop) (cs : List Str) (e : EndProto)
    (hne : ∀ c ∈ cs, c ≠ []) : (run cfg cs e).completion = delivered (run cfg cs e) := by
  have a := chunk_invariant cfg hS _ cs e rfl hne
  exact a.2.trans a.1.symm

/-- When the text starts with the prefix the result does not depend on the end-of-stream protocol either. -/
theorem spec_with_prefix (cfg : Cfg) (t : Str) (e : EndProto) :
    spec cfg (cfg.pfx ++ t) e = stripSuffix cfg.suffix ((cutStop cfg.stop t).getD t) := by
  by_cases hp : cfg.pfx = []
  · simp [spec, hp, cutAndStrip]
  · have : cfg.pfx.isPrefixOf (cfg.pfx ++ t) = true := List.isPrefixOf_iff_prefix.2 (List.prefix_append _ _)
    simp [spec, hp, this, cutAndStrip]

/-- Meaning of "cut at the first stop sequence" (1): `cutStop` answers `u` iff a stop sequence starts
    right after `u` and after no shorter prefix of the text. -/
theorem cut_is_earliest (S : List Str) (t u : Str) :
    cutStop S t = some u ↔
      ∃ r, t = u ++ r ∧ stopHere S r = true ∧ ∀ u' r', t = u' ++ r' → stopHere S r' = true → u.length ≤ u'.length :=
  cutStop_some_iff S t u

/-- Meaning of "cut at the first stop sequence" (2): `none` iff no stop sequence occurs anywhere. -/
theorem no_cut_iff_no_stop (S : List Str) (t : Str) :
    cutStop S t = none ↔ ∀ u r, t = u ++ r → stopHere S r = false :=
  cutStop_none_iff S t

/-- Meaning of "cut at the first stop sequence" (3): the scan is the source's formula
    `completion[: min(completion.find(s) for s in self.stop if s in completion)]` (`cutMin`), for every list of
    stop sequences (the empty string included) and every text. -/
theorem cut_is_min_find (S : List Str) (t : Str) : cutStop S t = cutMin S t :=
  cutStop_eq_cutMin S t

/-- Hold-back safety: a text that does not end inside a pattern can be released — whatever follows,
    the first stop sequence of the whole text is the one already visible, or lies in what follows. -/
theorem release_is_safe (S : List Str) (hS : NonemptyStops S) (a b : Str) (h : holds S a = false) :
    cutStop S (a ++ b) = match cutStop S a with
      | some u => some u
      | none => (cutStop S b).map (a ++ ·) :=
  cutStop_append hS b (holds_false_iff.1 h)

/-! ### The handler as it is in the unpatched tree (`Models/StreamAsIs.lean`) violates the property.

Each theorem refutes a universally quantified statement by one concrete witness; the concrete
evaluation is a finite fact checked by `decide` (kernel evaluation of the as-is model; `overflow = false`
in every witness, i.e. the re-entrancy bound 64 is not what produces the difference).  The same
witnesses are in harness/corpus/C18 and are replayed against the real code on every run. -/

open NemoVerif.StreamAsIs

/-- finding "prefix-and-suffix-in-one-chunk": `P:ab"` in one chunk delivers `ab"`, in three chunks `ab` -/
theorem as_is_counterexample_prefix_and_suffix_in_one_chunk :
    ¬ ∀ (cfg : Cfg) (cs₁ cs₂ : List Str) (e : EndProto), NonemptyStops cfg.stop → cs₁.flatten = cs₂.flatten →
        (∀ c ∈ cs₁, c ≠ []) → (∀ c ∈ cs₂, c ≠ []) →
        deliveredA (runA cfg 64 cs₁ e) = deliveredA (runA cfg 64 cs₂ e) := by
  intro h
  have := h ⟨"P:".toList, "\"".toList, []⟩ ["P:ab\"".toList] ["P:".toList, "ab".toList, "\"".toList] .empty
    (by intro s hs; simp at hs) (by decide) (by decide) (by decide)
  revert this
  decide

/-- the two results of the witness above, spelled out -/
theorem as_is_witness_prefix_and_suffix_in_one_chunk :
    let cfg : Cfg := ⟨"P:".toList, "\"".toList, []⟩
    deliveredA (runA cfg 64 ["P:ab\"".toList] .empty) = "ab\"".toList ∧
    deliveredA (runA cfg 64 ["P:".toList, "ab".toList, "\"".toList] .empty) = "ab".toList ∧
    (runA cfg 64 ["P:ab\"".toList] .empty).overflow = false := by decide

/-- finding "stop-sequence-in-text": with stop `S`, text `abSx` in one chunk delivers `ab` but ends with
    `completion = "abab"`; chunks `a`,`bSx` end with `"abb"` -/
theorem as_is_counterexample_completion_duplicated :
    ¬ ∀ (cfg : Cfg) (cs : List Str) (e : EndProto), NonemptyStops cfg.stop → (∀ c ∈ cs, c ≠ []) →
        (runA cfg 64 cs e).completion = deliveredA (runA cfg 64 cs e) := by
  intro h
  have := h ⟨[], [], ["S".toList]⟩ ["abSx".toList] .empty (by intro s hs; simp at hs; subst hs; simp) (by decide)
  revert this
  decide

theorem as_is_witness_completion_duplicated :
    let cfg : Cfg := ⟨[], [], ["S".toList]⟩
    (runA cfg 64 ["abSx".toList] .empty).completion = "abab".toList ∧
    (runA cfg 64 ["a".toList, "bSx".toList] .empty).completion = "abb".toList ∧
    deliveredA (runA cfg 64 ["abSx".toList] .empty) = "ab".toList ∧
    deliveredA (runA cfg 64 ["a".toList, "bSx".toList] .empty) = "ab".toList ∧
    (runA cfg 64 ["abSx".toList] .empty).overflow = false := by decide

/-- finding "stop-split-after-prefix-chunk": prefix `P:`, stop `ST`, text `P:abSTx`: chunks `P:abS`,`Tx`
    deliver `abS`, one chunk delivers `ab` -/
theorem as_is_counterexample_stop_split_after_prefix_chunk :
    ¬ ∀ (cfg : Cfg) (cs₁ cs₂ : List Str) (e : EndProto), NonemptyStops cfg.stop → cs₁.flatten = cs₂.flatten →
        (∀ c ∈ cs₁, c ≠ []) → (∀ c ∈ cs₂, c ≠ []) →
        deliveredA (runA cfg 64 cs₁ e) = deliveredA (runA cfg 64 cs₂ e) := by
  intro h
  have := h ⟨"P:".toList, [], ["ST".toList]⟩ ["P:abS".toList, "Tx".toList] ["P:abSTx".toList] .llmEnd
    (by intro s hs; simp at hs; subst hs; simp) (by decide) (by decide) (by decide)
  revert this
  decide

theorem as_is_witness_stop_split_after_prefix_chunk :
    let cfg : Cfg := ⟨"P:".toList, [], ["ST".toList]⟩
    deliveredA (runA cfg 64 ["P:abS".toList, "Tx".toList] .llmEnd) = "abS".toList ∧
    deliveredA (runA cfg 64 ["P:abSTx".toList] .llmEnd) = "ab".toList := by decide

/-- finding "several-stops-not-earliest": stops `x`,`b` (in this order), text `abx`: one chunk is cut at
    `x`, the re-entrant call then cuts the doubled text `abab` at `b` and nothing is delivered
    (`completion = "a"`); chunks `a`,`bx` deliver `a` -/
theorem as_is_counterexample_several_stops_not_earliest :
    ¬ ∀ (cfg : Cfg) (cs₁ cs₂ : List Str) (e : EndProto), NonemptyStops cfg.stop → cs₁.flatten = cs₂.flatten →
        (∀ c ∈ cs₁, c ≠ []) → (∀ c ∈ cs₂, c ≠ []) →
        deliveredA (runA cfg 64 cs₁ e) = deliveredA (runA cfg 64 cs₂ e) := by
  intro h
  have := h ⟨[], [], ["x".toList, "b".toList]⟩ ["abx".toList] ["a".toList, "bx".toList] .empty
    (by intro s hs; simp at hs; rcases hs with rfl | rfl <;> simp) (by decide) (by decide) (by decide)
  revert this
  decide

theorem as_is_witness_several_stops_not_earliest :
    let cfg : Cfg := ⟨[], [], ["x".toList, "b".toList]⟩
    deliveredA (runA cfg 64 ["abx".toList] .empty) = [] ∧
    (runA cfg 64 ["abx".toList] .empty).completion = "a".toList ∧
    deliveredA (runA cfg 64 ["a".toList, "bx".toList] .empty) = "a".toList := by decide

/-- What IS chunk-invariant in the unpatched handler (unbounded): configurations without prefix and
    without stop sequences — there the as-is model coincides with the repaired one step by step
    (`runA_nostop`), so `chunk_invariant` carries over, for every re-entrancy bound.  The hypotheses
    exclude exactly the regions of the four findings (each needs a prefix or a stop sequence).
    Full statement (false for the as-is model, see the counterexamples above):
      ∀ cfg, NonemptyStops cfg.stop → … → deliveredA (runA cfg fuel cs e) = spec cfg text e ∧ completion = spec cfg text e -/
theorem as_is_chunk_invariant_partial (cfg : Cfg) (hp : cfg.pfx = []) (hs : cfg.stop = []) (fuel : Nat)
    (text : Str) (cs : List Str) (e : EndProto) (hflat : cs.flatten = text) (hne : ∀ c ∈ cs, c ≠ []) :
    deliveredA (runA cfg fuel cs e) = spec cfg text e ∧ (runA cfg fuel cs e).completion = spec cfg text e ∧
      (runA cfg fuel cs e).overflow = false := by
  have h := chunk_invariant cfg (by rw [hs]; intro s h'; cases h') text cs e hflat hne
  rw [runA_nostop hp hs]
  exact ⟨h.1, h.2, rfl⟩

/-- non-vacuity of `as_is_chunk_invariant_partial`: suffix-only configuration, suffix split over two chunks -/
example : deliveredA (runA ⟨[], "\"]".toList, []⟩ 3 ["ab\"".toList, "]".toList] .none) = "ab".toList := by decide

/-- the repaired model on the same four witnesses (instances of `chunk_invariant`, evaluated) -/
example :
    delivered (run ⟨"P:".toList, "\"".toList, []⟩ ["P:ab\"".toList] .empty) = "ab".toList ∧
    (run ⟨[], [], ["S".toList]⟩ ["abSx".toList] .empty).completion = "ab".toList ∧
    delivered (run ⟨"P:".toList, [], ["ST".toList]⟩ ["P:abS".toList, "Tx".toList] .llmEnd) = "ab".toList ∧
    delivered (run ⟨[], [], ["x".toList, "b".toList]⟩ ["abx".toList] .empty) = "a".toList := by decide

/-! ### `pipe_to`: what the consumer sees -/

/-- After the first end marker the producer forwards nothing but end markers (invariant `J`), and the piped,
    unconfigured handler keeps everything up to the first end marker: the text on the consumer's queue IS the
    text the producer delivered.  No hypothesis: every configuration, chunk list (empty chunks included) and
    end protocol. -/
theorem pipe_consumer_view (cfg : Cfg) (cs : List Str) (e : EndProto) :
    deliveredOf (pipeTarget (run cfg cs e).out) = delivered (run cfg cs e) := by
  rw [pipeTarget_eq]
  exact deliveredOf_takeThrough (run_okOut cfg cs e)

/-- `chunk_invariant` seen from the consumer of a piped handler -/
theorem pipe_chunk_invariant (cfg : Cfg) (hS : NonemptyStops cfg.stop) (text : Str) (cs : List Str) (e : EndProto)
    (hflat : cs.flatten = text) (hne : ∀ c ∈ cs, c ≠ []) :
    deliveredOf (pipeTarget (run cfg cs e).out) = spec cfg text e :=
  (pipe_consumer_view cfg cs e).trans (chunk_invariant cfg hS text cs e hflat hne).1

/-- TWO-STAGE PIPE (phase 4).  The piped handler has its OWN configuration `cfg2` (prefix/suffix/stops): what ITS
    consumer receives, and its `completion`, is `spec cfg2` of what the producer delivered, i.e. of `spec cfg text`
    — for every chunking — provided the producer forwarded an end marker (otherwise the second handler's held-back
    tail is never flushed: `push_chunk("")`/`push_chunk(None)` after a stop sequence was hit, or when the prefix never
    came, forward nothing). -/
theorem pipe_configured_chunk_invariant (cfg cfg2 : Cfg) (hS : NonemptyStops cfg.stop) (hS2 : NonemptyStops cfg2.stop)
    (text : Str) (cs : List Str) (e : EndProto) (hflat : cs.flatten = text) (hne : ∀ c ∈ cs, c ≠ [])
    (hend : ∃ x ∈ (run cfg cs e).out, isEnd x = true) :
    delivered (pipeTargetCfg cfg2 (run cfg cs e).out) = spec cfg2 (spec cfg text e) .empty ∧
      (pipeTargetCfg cfg2 (run cfg cs e).out).completion = spec cfg2 (spec cfg text e) .empty := by
  subst hflat
  exact pipe_cfg_delivered hS hS2 cs hne e hend

/-- … and with `on_llm_end` in the end protocol (what LangChain does) the end marker is always forwarded -/
theorem pipe_configured_chunk_invariant_llm_end (cfg cfg2 : Cfg) (hS : NonemptyStops cfg.stop) (hS2 : NonemptyStops cfg2.stop)
    (text : Str) (cs : List Str) (e : EndProto) (hflat : cs.flatten = text) (hne : ∀ c ∈ cs, c ≠ [])
    (he : e.hasLlmEnd = true) :
    delivered (pipeTargetCfg cfg2 (run cfg cs e).out) = spec cfg2 (spec cfg text e) .empty ∧
      (pipeTargetCfg cfg2 (run cfg cs e).out).completion = spec cfg2 (spec cfg text e) .empty :=
  pipe_configured_chunk_invariant cfg cfg2 hS hS2 text cs e hflat hne (run_has_end hS cs hne e he)

/-- non-vacuity: producer strips `P:` … `"` and stops at `"\n`; the piped handler strips `[` … `]` and stops at `;`;
    chunk boundaries inside every pattern; and a witness that WITHOUT an end marker the second stage keeps its tail
    (stop hit, then `push_chunk("")`: nothing is forwarded any more) -/
example :
    let cfg : Cfg := ⟨"P:".toList, "\"".toList, ["\"\n".toList]⟩
    let cfg2 : Cfg := ⟨"[".toList, "]".toList, [";".toList]⟩
    let cs := ["P".toList, ":[a".toList, "b]".toList, "\"".toList, "\nx".toList]
    (∃ x ∈ (run cfg cs .llmEnd).out, isEnd x = true) ∧
    delivered (pipeTargetCfg cfg2 (run cfg cs .llmEnd).out) = "ab".toList ∧
    (¬ ∃ x ∈ (run cfg cs .empty).out, isEnd x = true) ∧
    delivered (pipeTargetCfg cfg2 (run cfg cs .empty).out) = "a".toList := by
  decide

/-! ### The library's own use of the handler (`Models/StreamUsage.lean`, repaired variant)

`usageRun true true site cs a b endPos` = the operation sequence of the single-call mode
(generate_intent_steps_message + generate_bot_message) for the tokens `cs` and the schedule `(a, b, endPos)`:
buffering, `wait_top_k_nonempty_lines(k)` resuming after `a` tokens, `set_pattern`, `b` tokens in between,
`set_pipe_to`, `.stop = [...]`, `disable_buffering()`, the remaining tokens, `on_llm_end` (at any of its three
possible positions). -/

open NemoVerif.StreamUsage

/-- USAGE STATEMENT.  For every call-site configuration with non-empty stop sequences, every LLM text, every
    chunking into non-empty tokens and every schedule the library can produce (the waiter resumes once the k-th
    non-empty line is complete and the next one has begun): the user's handler receives `spec` of the text that
    follows the first k non-empty lines — the same for all chunkings and schedules —, the inner handler's
    `completion` is that text, and the stream is finished (`wait()` returns). -/
theorem usage_chunk_invariant (site : Site) (hS : NonemptyStops site.stop) (text : Str) (cs : List Str)
    (a b endPos : Nat) (r0 : Str)
    (hflat : cs.flatten = text) (hne : ∀ c ∈ cs, c ≠ [])
    (hend : endPos = 0 ∨ ((endPos = 1 ∨ endPos = 2) ∧ cs.drop (a + b) = []))
    (hsplit : dropTopK site.k none (cs.take a).flatten = some r0) (hr0 : r0 ≠ []) :
    ∃ rest, dropTopK site.k none text = some rest ∧
      deliveredItems (consumerItems (usageRun true true site cs a b endPos)) = spec site.cfg rest .llmEnd ∧
      (usageRun true true site cs a b endPos).st.completion = spec site.cfg rest .llmEnd ∧
      (usageRun true true site cs a b endPos).st.finished = true := by
  obtain ⟨hst, hpipe⟩ := usageRun_st site cs a b endPos r0 hne hend hsplit
  have htext : text = (cs.take a).flatten ++ (cs.drop a).flatten := by
    rw [← hflat, ← List.flatten_append, List.take_append_drop]
  have hrest : (r0 ++ ((cs.drop a).take b).flatten) ++ (cs.drop (a + b)).flatten = r0 ++ (cs.drop a).flatten := by
    rw [List.append_assoc, ← List.flatten_append, ← List.drop_drop, List.take_append_drop]
  refine ⟨r0 ++ (cs.drop a).flatten, ?_, ?_, ?_, ?_⟩
  · rw [htext]; exact dropTopK_append _ _ _ _ _ hsplit
  · have hci := pipe_chunk_invariant site.cfg hS _ ((r0 ++ ((cs.drop a).take b).flatten) :: cs.drop (a + b)) .llmEnd rfl
      (by
        intro c hc
        rcases List.mem_cons.1 hc with rfl | hc
        · simp [hr0]
        · exact hne c (List.mem_of_mem_drop hc))
    simp only [List.flatten_cons] at hci
    rw [hrest] at hci
    simp only [consumerItems, hpipe, List.drop_zero, hst]
    exact hci
  · have hci := chunk_invariant site.cfg hS _ ((r0 ++ ((cs.drop a).take b).flatten) :: cs.drop (a + b)) .llmEnd rfl
      (by
        intro c hc
        rcases List.mem_cons.1 hc with rfl | hc
        · simp [hr0]
        · exact hne c (List.mem_of_mem_drop hc))
    simp only [List.flatten_cons] at hci
    rw [hrest] at hci
    rw [hst]; exact hci.2
  · rw [hst]; exact endLlm_finished _ _

/-- the call sites of the single-call mode as extracted from generation.py by the translator -/
def generatedSites : List Site :=
  (NemoVerif.Generated.C18.sites.filter (fun s => s.2.2.2.2.2)).map
    (fun s => { pfx := s.2.1.toList, suffix := s.2.2.1.toList, stop := s.2.2.2.1.map String.toList, k := s.2.2.2.2.1 })

/-- the literals generation.py configures today satisfy the hypotheses of `usage_chunk_invariant`
    (finite fact about generated data, `decide`): no empty stop sequence, k > 0, and there IS such a site -/
theorem generated_sites_ok : generatedSites ≠ [] ∧ ∀ s ∈ generatedSites, (∀ p ∈ s.stop, p ≠ []) ∧ s.k > 0 := by
  decide

/-- `usage_chunk_invariant` for the configurations the library really uses -/
theorem usage_chunk_invariant_generated (site : Site) (hs : site ∈ generatedSites) (text : Str) (cs : List Str)
    (a b endPos : Nat) (r0 : Str) (hflat : cs.flatten = text) (hne : ∀ c ∈ cs, c ≠ [])
    (hend : endPos = 0 ∨ ((endPos = 1 ∨ endPos = 2) ∧ cs.drop (a + b) = []))
    (hsplit : dropTopK site.k none (cs.take a).flatten = some r0) (hr0 : r0 ≠ []) :
    ∃ rest, dropTopK site.k none text = some rest ∧
      deliveredItems (consumerItems (usageRun true true site cs a b endPos)) = spec site.cfg rest .llmEnd :=
  let ⟨rest, h1, h2, _⟩ := usage_chunk_invariant site (generated_sites_ok.2 site hs).1 text cs a b endPos r0 hflat hne hend hsplit hr0
  ⟨rest, h1, h2⟩

/-- non-vacuity: the completion of tests/test_streaming.py::test_streaming_single_llm_call, FakeLLM's tokens,
    one token between `set_pattern` and `disable_buffering()` (the schedule the unrepaired code garbles) -/
example :
    let site : Site := ⟨"  \"".toList, "\"".toList, ["\"\n".toList], 2⟩
    let cs := ["  express ", "greeting\nbot ", "express ", "greeting\n ", " ", "\"Hi, ", "how ", "are ", "you?\""].map String.toList
    dropTopK site.k none (cs.take 6).flatten = some "  \"Hi, ".toList ∧
      deliveredItems (consumerItems (usageRun true true site cs 6 1 0)) = "Hi, how are you?".toList ∧
      deliveredItems (consumerItems (usageRun false false site cs 6 1 0)) = "how   \"Hi, are you?".toList := by
  decide

/-- The usage as it is in the tree without fixes/C18-streaming-buffered-usage.diff (`fx = false`, stop assigned
    after `disable_buffering()`) is NOT schedule-invariant — three kernel-checked witnesses (`decide`), one per
    open finding: (1) a token between `set_pattern` and `disable_buffering()` is put in front of the buffered
    text; (2) `on_llm_end` while buffering: the pattern is not removed and the stream never finishes;
    (3) the text behind the closing quote inside the buffered chunk is delivered because `.stop` is set too late. -/
theorem as_is_usage_counterexamples :
    let site : Site := ⟨"  \"".toList, "\"".toList, ["\"\n".toList], 2⟩
    let cs := ["  express ", "greeting\nbot ", "express ", "greeting\n ", " ", "\"Hi, ", "how ", "are ", "you?\""].map String.toList
    let t2 := "u\nb\n  \"Hi\"\nbot x".toList
    deliveredItems (consumerItems (usageRun false false site cs 6 0 0)) = "Hi, how are you?".toList ∧
    deliveredItems (consumerItems (usageRun false false site cs 6 1 0)) = "how   \"Hi, are you?".toList ∧
    deliveredItems (consumerItems (usageRun false false site cs 9 0 1)) = "  \"Hi, how are you?\"".toList ∧
    (usageRun false false site cs 9 0 1).st.finished = false ∧
    deliveredItems (consumerItems (usageRun false false site [t2] 1 0 0)) = "Hi\"\nbot x".toList ∧
    (usageRun false false site [t2] 1 0 0).st.completion = "Hi".toList ∧
    deliveredItems (consumerItems (usageRun true true site [t2] 1 0 0)) = "Hi".toList := by
  decide

/-- The direct mode of generate_bot_message (pattern set on the user's own handler, the LLM streams into it,
    the utterance is pushed once more after `on_llm_end`): the handler ends exactly like one plain run, so
    `chunk_invariant` applies and the second push changes nothing. -/
theorem direct_chunk_invariant (site : Site) (text : Str) (cs : List Str) (again : Str)
    (hflat : cs.flatten = text) (hne : ∀ c ∈ cs, c ≠ []) :
    delivered (execOps true (directOps site cs again) H0).st = spec ⟨site.pfx, site.suffix, []⟩ text .llmEnd ∧
      (execOps true (directOps site cs again) H0).st.completion = spec ⟨site.pfx, site.suffix, []⟩ text .llmEnd := by
  rw [directRun_st site cs again hne]
  exact chunk_invariant ⟨site.pfx, site.suffix, []⟩ (by intro s h; cases h) text cs .llmEnd hflat hne

/-! ### Buffering mode: the event, the waiter's precondition, the value the waiter returns (phase 4) -/

/-- The character scans of the usage model ARE the line-by-line code of streaming.py: `qualCount` is the number of
    lines of `buffer.split("\n")` whose `strip()` is non-empty and does not start with `#` (the event condition of
    `_process`), and `dropTopK` is `"\n".join(lines[i + 1:])` of the loop in `wait_top_k_nonempty_lines`. -/
theorem scans_are_the_line_code (k : Nat) (buf : Str) :
    qualCount none buf = qualLines buf ∧ (dropTopK k none buf).getD [] = restBuffer k buf :=
  ⟨qualCount_eq_lines buf, dropTopK_eq_lines k buf⟩

/-- EVENT ⇒ PRECONDITION (the former hypotheses `hsplit`/`hr0` of `usage_chunk_invariant`, now proved): when the
    event `top_k_nonempty_lines_event` is set after `a` tokens — the buffer had more than k > 0 non-empty lines at
    some moment — the k-th non-empty line of the buffer is terminated and a non-empty rest follows it. -/
theorem event_implies_precondition (site : Site) (cs : List Str) (a : Nat) (hne : ∀ c ∈ cs, c ≠ [])
    (hev : eventSetAt true site cs a = true) :
    ∃ r0, dropTopK site.k none (cs.take a).flatten = some r0 ∧ r0 ≠ [] :=
  event_precondition site cs a hne hev

/-- The value `wait_top_k_nonempty_lines(k)` returns (it feeds the intent parser) is chunk- and schedule-invariant:
    whenever the waiter can resume it returns the first k non-empty, non-comment lines of the WHOLE LLM text. -/
theorem returned_chunk_invariant (site : Site) (text : Str) (cs : List Str) (a : Nat)
    (hflat : cs.flatten = text) (hne : ∀ c ∈ cs, c ≠ []) (hev : eventSetAt true site cs a = true) :
    waiterReturn true site cs a = returned site.k text := by
  subst hflat
  exact waiterReturn_eq site cs a hne hev

/-- USAGE STATEMENT without the waiter hypothesis: the only assumption on the schedule is that the waiter resumed
    because its event was set (`eventSetAt`, a computed flag of the model, compared with the real
    `top_k_nonempty_lines_event.is_set()` on every run).  Adds the returned value. -/
theorem usage_chunk_invariant_event (site : Site) (hS : NonemptyStops site.stop) (text : Str) (cs : List Str)
    (a b endPos : Nat) (hflat : cs.flatten = text) (hne : ∀ c ∈ cs, c ≠ [])
    (hend : endPos = 0 ∨ ((endPos = 1 ∨ endPos = 2) ∧ cs.drop (a + b) = []))
    (hev : eventSetAt true site cs a = true) :
    ∃ rest, dropTopK site.k none text = some rest ∧
      deliveredItems (consumerItems (usageRun true true site cs a b endPos)) = spec site.cfg rest .llmEnd ∧
      (usageRun true true site cs a b endPos).st.completion = spec site.cfg rest .llmEnd ∧
      (usageRun true true site cs a b endPos).st.finished = true ∧
      waiterReturn true site cs a = returned site.k text := by
  obtain ⟨r0, hr0, hne0⟩ := event_precondition site cs a hne hev
  obtain ⟨rest, h1, h2, h3, h4⟩ := usage_chunk_invariant site hS text cs a b endPos r0 hflat hne hend hr0 hne0
  exact ⟨rest, h1, h2, h3, h4, returned_chunk_invariant site text cs a hflat hne hev⟩

/-- non-vacuity: FakeLLM's tokens of tests/test_streaming.py::test_streaming_single_llm_call — the event is set after
    6 tokens (not after 5), the waiter returns the two intent lines -/
example :
    let site : Site := ⟨"  \"".toList, "\"".toList, ["\"\n".toList], 2⟩
    let cs := ["  express ", "greeting\nbot ", "express ", "greeting\n ", " ", "\"Hi, ", "how ", "are ", "you?\""].map String.toList
    eventSetAt true site cs 6 = true ∧ eventSetAt true site cs 5 = false ∧
      waiterReturn true site cs 6 = "  express greeting\nbot express greeting".toList := by
  decide

/-- The whitespace class of the model is Python's: the table the translator reads from the running CPython
    (`chr(c).isspace()` for all of Unicode) is exactly this one — ASCII blanks, \x1c–\x1f, NEL, NBSP, U+1680,
    U+2000–U+200A, U+2028/9, U+202F, U+205F, U+3000 (finite fact about generated data, `decide`). -/
theorem ws_table_pinned : NemoVerif.Generated.C18.wsCodes =
    [9, 10, 11, 12, 13, 28, 29, 30, 31, 32, 133, 160, 5760, 8192, 8193, 8194, 8195, 8196, 8197, 8198, 8199, 8200,
     8201, 8202, 8232, 8233, 8239, 8287, 12288] := by decide

/-- a line of no-break / ideographic / line-separator blanks is an EMPTY line for the waiter (as for `str.strip()`) -/
example : qualLines "\u00a0\u3000\u2028\n x\n# c\ny".toList = 2 ∧
    returned 2 "\u00a0\u3000\u2028\n\u00a0x\n# c\ny\nz".toList = "\u00a0x\ny".toList := by decide

/-! ### Configuration changed while the stream runs: the orders the actions really perform (phase 4) -/

theorem opNames_append (xs ys : List Op) : opNames (xs ++ ys) = opNames xs ++ opNames ys := by
  induction xs with
  | nil => rfl
  | cons x xs ih => cases x <;> simp [opNames, ih]

theorem opNames_tokens (cs : List Str) : opNames (cs.map Op.token) = [] := by
  induction cs with
  | nil => rfl
  | cons c cs ih => simpa [opNames] using ih

/-- The op sequence `usage_chunk_invariant` quantifies over has, for every chunking and schedule, exactly the
    handler operations generate_intent_steps_message + generate_bot_message perform, in the order the translator
    read from the source (enable_buffering, wait_top_k_nonempty_lines, set_pattern AFTER tokens were buffered,
    set_pipe_to, `.stop =`, disable_buffering; tokens and on_llm_end interleave anywhere).  A reordered or
    additional call in generation.py breaks this theorem (or the translator's shape check). -/
theorem generated_protocol_ok (site : Site) (cs : List Str) (a b endPos : Nat) :
    opNames (usageOps NemoVerif.Generated.C18.stopBeforeDisable site cs a b endPos) =
      NemoVerif.Generated.C18.singleCallProtocol := by
  have hsb : NemoVerif.Generated.C18.stopBeforeDisable = true := by decide
  rw [hsb]
  simp only [usageOps, opNames_append, opNames_tokens]
  have hp : NemoVerif.Generated.C18.singleCallProtocol =
      ["enable_buffering", "wait_top_k_nonempty_lines", "set_pattern", "set_pipe_to", "stop=", "disable_buffering"] := by decide
  rw [hp]
  by_cases h2 : endPos = 2 <;> by_cases h1 : endPos = 1 <;> by_cases h0 : endPos = 0 <;> simp [opNames, h0, h1, h2]

/-- `usage_chunk_invariant_event` for the configurations the library really uses (no hypothesis on the stop
    sequences or k left: `generated_sites_ok`) -/
theorem usage_invariant_generated_event (site : Site) (hs : site ∈ generatedSites) (text : Str) (cs : List Str)
    (a b endPos : Nat) (hflat : cs.flatten = text) (hne : ∀ c ∈ cs, c ≠ [])
    (hend : endPos = 0 ∨ ((endPos = 1 ∨ endPos = 2) ∧ cs.drop (a + b) = []))
    (hev : eventSetAt true site cs a = true) :
    ∃ rest, dropTopK site.k none text = some rest ∧
      deliveredItems (consumerItems (usageRun true true site cs a b endPos)) = spec site.cfg rest .llmEnd ∧
      (usageRun true true site cs a b endPos).st.completion = spec site.cfg rest .llmEnd ∧
      (usageRun true true site cs a b endPos).st.finished = true ∧
      waiterReturn true site cs a = returned site.k text :=
  usage_chunk_invariant_event site (generated_sites_ok.2 site hs).1 text cs a b endPos hflat hne hend hev

/-- Why the protocol matters (*witness*, `decide`): `set_pattern` on a handler that is NOT buffering, after text
    already went through it, is schedule-dependent — the same text `P:x"` with the same pattern gives `x` when the
    pattern is set first and `P:x` (prefix left in) when one token slipped through before.  The library never does this: in the
    single-call mode every token before `set_pattern` is buffered (`generated_protocol_ok`: `enable_buffering` comes
    first), in the direct mode `set_pattern` precedes the LLM call (`generated_direct_protocol_ok`). -/
theorem unbuffered_set_pattern_mid_stream_counterexample :
    let p := "P:".toList
    let q := "\"".toList
    delivered (execOps true [Op.setPattern p q, Op.token "P:".toList, Op.token "x\"".toList, Op.llmEnd] H0).st = "x".toList ∧
    delivered (execOps true [Op.token "P:".toList, Op.setPattern p q, Op.token "x\"".toList, Op.llmEnd] H0).st = "P:x".toList := by
  decide

/-- direct mode: `set_pattern` before the first token, the utterance pushed once more after the LLM call -/
theorem generated_direct_protocol_ok (site : Site) (cs : List Str) (again : Str) :
    opNames (directOps site cs again) = NemoVerif.Generated.C18.directProtocol.filter (· != "llm_call") := by
  have hp : NemoVerif.Generated.C18.directProtocol = ["set_pattern", "llm_call", "push_chunk"] := by decide
  rw [hp]
  simp [directOps, opNames_append, opNames_tokens, opNames]

end NemoVerif.C18
