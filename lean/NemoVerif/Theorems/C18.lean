/-
  C18 — streaming output does not depend on how the LLM text is chunked.
  Property theorems only (helper lemmas: Lemmas/Stream.lean; model: Models/Stream.lean — the handler
  as repaired by fixes/C18-streaming-chunk-invariance.diff; the unrepaired code and its kernel-checked
  counterexamples: Models/StreamAsIs.lean and the `as_is_counterexample_*` theorems below).

  All theorems are unbounded: ∀ configuration (prefix, suffix, any number of non-empty stop
  sequences), ∀ text, ∀ chunking into non-empty tokens, ∀ end-of-stream protocol.
-/
import NemoVerif.Lemmas.Stream
import NemoVerif.Lemmas.StreamAsIs
namespace NemoVerif.C18
open NemoVerif.Stream

/-- MAIN STATEMENT.  For every chunking `cs` of `text` the concatenation of the delivered chunks and
    the final `completion` both equal `spec cfg text e`: the text with the prefix removed, cut at the
    first stop sequence, with the suffix removed. -/
theorem chunk_invariant (cfg : Cfg) (hS : NonemptyStops cfg.stop) (text : Str) (cs : List Str) (e : EndProto)
    (hflat : cs.flatten = text) (hne : ∀ c ∈ cs, c ≠ []) :
    delivered (run cfg cs e) = spec cfg text e ∧ (run cfg cs e).completion = spec cfg text e := by
  subst hflat
  exact run_eq_spec hS cs hne e

/-- non-vacuity: the library's own configuration, a text with the suffix and a stop sequence, a chunking
    that splits inside the prefix, the suffix and the stop sequence -/
example :
    let cfg : Cfg := { pfx := "  \"".toList, suffix := "\"".toList, stop := ["\"\n".toList] }
    NonemptyStops cfg.stop ∧
      delivered (run cfg [" ".toList, " \"Hi".toList, " there\"".toList, "\nuser".toList] .llmEnd) = "Hi there".toList := by
  refine ⟨by intro s hs; simp at hs; subst hs; simp, by decide⟩

/-- The property as a statement about two chunkings: same text ⇒ same delivered text and same completion. -/
theorem chunking_independent (cfg : Cfg) (hS : NonemptyStops cfg.stop) (cs₁ cs₂ : List Str) (e : EndProto)
    (h : cs₁.flatten = cs₂.flatten) (h₁ : ∀ c ∈ cs₁, c ≠ []) (h₂ : ∀ c ∈ cs₂, c ≠ []) :
    delivered (run cfg cs₁ e) = delivered (run cfg cs₂ e) ∧ (run cfg cs₁ e).completion = (run cfg cs₂ e).completion := by
  have a := chunk_invariant cfg hS _ cs₁ e rfl h₁
  have b := chunk_invariant cfg hS _ cs₂ e h.symm h₂
  exact ⟨a.1.trans b.1.symm, a.2.trans b.2.symm⟩

/-- `completion` is exactly what was delivered. -/
theorem completion_eq_delivered (cfg : Cfg) (hS : NonemptyStops cfg.stop) (cs : List Str) (e : EndProto)
    (hne : ∀ c ∈ cs, c ≠ []) : (run cfg cs e).completion = delivered (run cfg cs e) := by
  have a := chunk_invariant cfg hS _ cs e rfl hne
  exact a.2.trans a.1.symm

/-- When the text starts with the prefix the result does not depend on the end-of-stream protocol either. -/
theorem spec_with_prefix (cfg : Cfg) (t : Str) (e : EndProto) :
    spec cfg (cfg.pfx ++ t) e = stripSuffix cfg.suffix ((cutStop cfg.stop t).getD t) := by
  by_cases hp : cfg.pfx = []
  · simp [spec, hp, cutAndStrip]
  · have : cfg.pfx.isPrefixOf (cfg.pfx ++ t) = true := List.isPrefixOf_iff_prefix.2 (List.prefix_append _ _)
    simp [spec, hp, this, cutAndStrip]

/-- Meaning of "cut at the first stop sequence" (1): `cutStop` answers `u` iff a stop sequence starts
    right after `u` and after no shorter prefix of the text. -/
theorem cut_is_earliest (S : List Str) (t u : Str) :
    cutStop S t = some u ↔
      ∃ r, t = u ++ r ∧ stopHere S r = true ∧ ∀ u' r', t = u' ++ r' → stopHere S r' = true → u.length ≤ u'.length :=
  cutStop_some_iff S t u

/-- Meaning of "cut at the first stop sequence" (2): `none` iff no stop sequence occurs anywhere. -/
theorem no_cut_iff_no_stop (S : List Str) (t : Str) :
    cutStop S t = none ↔ ∀ u r, t = u ++ r → stopHere S r = false :=
  cutStop_none_iff S t

/-- Hold-back safety: a text that does not end inside a pattern can be released — whatever follows,
    the first stop sequence of the whole text is the one already visible, or lies in what follows. -/
theorem release_is_safe (S : List Str) (hS : NonemptyStops S) (a b : Str) (h : holds S a = false) :
    cutStop S (a ++ b) = match cutStop S a with
      | some u => some u
      | none => (cutStop S b).map (a ++ ·) :=
  cutStop_append hS b (holds_false_iff.1 h)

/-! ### The handler as it is in the unpatched tree (`Models/StreamAsIs.lean`) violates the property.

Each theorem refutes a universally quantified statement by one concrete witness; the concrete
evaluation is a finite fact checked by `decide` (kernel evaluation of the as-is model; `overflow = false`
in every witness, i.e. the re-entrancy bound 64 is not what produces the difference).  The same
witnesses are in harness/corpus/C18 and are replayed against the real code on every run. -/

open NemoVerif.StreamAsIs

/-- finding "prefix-and-suffix-in-one-chunk": `P:ab"` in one chunk delivers `ab"`, in three chunks `ab` -/
theorem as_is_counterexample_prefix_and_suffix_in_one_chunk :
    ¬ ∀ (cfg : Cfg) (cs₁ cs₂ : List Str) (e : EndProto), NonemptyStops cfg.stop → cs₁.flatten = cs₂.flatten →
        (∀ c ∈ cs₁, c ≠ []) → (∀ c ∈ cs₂, c ≠ []) →
        deliveredA (runA cfg 64 cs₁ e) = deliveredA (runA cfg 64 cs₂ e) := by
  intro h
  have := h ⟨"P:".toList, "\"".toList, []⟩ ["P:ab\"".toList] ["P:".toList, "ab".toList, "\"".toList] .empty
    (by intro s hs; simp at hs) (by decide) (by decide) (by decide)
  revert this
  decide

/-- the two results of the witness above, spelled out -/
theorem as_is_witness_prefix_and_suffix_in_one_chunk :
    let cfg : Cfg := ⟨"P:".toList, "\"".toList, []⟩
    deliveredA (runA cfg 64 ["P:ab\"".toList] .empty) = "ab\"".toList ∧
    deliveredA (runA cfg 64 ["P:".toList, "ab".toList, "\"".toList] .empty) = "ab".toList ∧
    (runA cfg 64 ["P:ab\"".toList] .empty).overflow = false := by decide

/-- finding "stop-sequence-in-text": with stop `S`, text `abSx` in one chunk delivers `ab` but ends with
    `completion = "abab"`; chunks `a`,`bSx` end with `"abb"` -/
theorem as_is_counterexample_completion_duplicated :
    ¬ ∀ (cfg : Cfg) (cs : List Str) (e : EndProto), NonemptyStops cfg.stop → (∀ c ∈ cs, c ≠ []) →
        (runA cfg 64 cs e).completion = deliveredA (runA cfg 64 cs e) := by
  intro h
  have := h ⟨[], [], ["S".toList]⟩ ["abSx".toList] .empty (by intro s hs; simp at hs; subst hs; simp) (by decide)
  revert this
  decide

theorem as_is_witness_completion_duplicated :
    let cfg : Cfg := ⟨[], [], ["S".toList]⟩
    (runA cfg 64 ["abSx".toList] .empty).completion = "abab".toList ∧
    (runA cfg 64 ["a".toList, "bSx".toList] .empty).completion = "abb".toList ∧
    deliveredA (runA cfg 64 ["abSx".toList] .empty) = "ab".toList ∧
    deliveredA (runA cfg 64 ["a".toList, "bSx".toList] .empty) = "ab".toList ∧
    (runA cfg 64 ["abSx".toList] .empty).overflow = false := by decide

/-- finding "stop-split-after-prefix-chunk": prefix `P:`, stop `ST`, text `P:abSTx`: chunks `P:abS`,`Tx`
    deliver `abS`, one chunk delivers `ab` -/
theorem as_is_counterexample_stop_split_after_prefix_chunk :
    ¬ ∀ (cfg : Cfg) (cs₁ cs₂ : List Str) (e : EndProto), NonemptyStops cfg.stop → cs₁.flatten = cs₂.flatten →
        (∀ c ∈ cs₁, c ≠ []) → (∀ c ∈ cs₂, c ≠ []) →
        deliveredA (runA cfg 64 cs₁ e) = deliveredA (runA cfg 64 cs₂ e) := by
  intro h
  have := h ⟨"P:".toList, [], ["ST".toList]⟩ ["P:abS".toList, "Tx".toList] ["P:abSTx".toList] .llmEnd
    (by intro s hs; simp at hs; subst hs; simp) (by decide) (by decide) (by decide)
  revert this
  decide

theorem as_is_witness_stop_split_after_prefix_chunk :
    let cfg : Cfg := ⟨"P:".toList, [], ["ST".toList]⟩
    deliveredA (runA cfg 64 ["P:abS".toList, "Tx".toList] .llmEnd) = "abS".toList ∧
    deliveredA (runA cfg 64 ["P:abSTx".toList] .llmEnd) = "ab".toList := by decide

/-- finding "several-stops-not-earliest": stops `x`,`b` (in this order), text `abx`: one chunk is cut at
    `x`, the re-entrant call then cuts the doubled text `abab` at `b` and nothing is delivered
    (`completion = "a"`); chunks `a`,`bx` deliver `a` -/
theorem as_is_counterexample_several_stops_not_earliest :
    ¬ ∀ (cfg : Cfg) (cs₁ cs₂ : List Str) (e : EndProto), NonemptyStops cfg.stop → cs₁.flatten = cs₂.flatten →
        (∀ c ∈ cs₁, c ≠ []) → (∀ c ∈ cs₂, c ≠ []) →
        deliveredA (runA cfg 64 cs₁ e) = deliveredA (runA cfg 64 cs₂ e) := by
  intro h
  have := h ⟨[], [], ["x".toList, "b".toList]⟩ ["abx".toList] ["a".toList, "bx".toList] .empty
    (by intro s hs; simp at hs; rcases hs with rfl | rfl <;> simp) (by decide) (by decide) (by decide)
  revert this
  decide

theorem as_is_witness_several_stops_not_earliest :
    let cfg : Cfg := ⟨[], [], ["x".toList, "b".toList]⟩
    deliveredA (runA cfg 64 ["abx".toList] .empty) = [] ∧
    (runA cfg 64 ["abx".toList] .empty).completion = "a".toList ∧
    deliveredA (runA cfg 64 ["a".toList, "bx".toList] .empty) = "a".toList := by decide

/-- What IS chunk-invariant in the unpatched handler (unbounded): configurations without prefix and
    without stop sequences — there the as-is model coincides with the repaired one step by step
    (`runA_nostop`), so `chunk_invariant` carries over, for every re-entrancy bound.  The hypotheses
    exclude exactly the regions of the four findings (each needs a prefix or a stop sequence).
    Full statement (false for the as-is model, see the counterexamples above):
      ∀ cfg, NonemptyStops cfg.stop → … → deliveredA (runA cfg fuel cs e) = spec cfg text e ∧ completion = spec cfg text e -/
theorem as_is_chunk_invariant_partial (cfg : Cfg) (hp : cfg.pfx = []) (hs : cfg.stop = []) (fuel : Nat)
    (text : Str) (cs : List Str) (e : EndProto) (hflat : cs.flatten = text) (hne : ∀ c ∈ cs, c ≠ []) :
    deliveredA (runA cfg fuel cs e) = spec cfg text e ∧ (runA cfg fuel cs e).completion = spec cfg text e ∧
      (runA cfg fuel cs e).overflow = false := by
  have h := chunk_invariant cfg (by rw [hs]; intro s h'; cases h') text cs e hflat hne
  rw [runA_nostop hp hs]
  exact ⟨h.1, h.2, rfl⟩

/-- non-vacuity of `as_is_chunk_invariant_partial`: suffix-only configuration, suffix split over two chunks -/
example : deliveredA (runA ⟨[], "\"]".toList, []⟩ 3 ["ab\"".toList, "]".toList] .none) = "ab".toList := by decide

/-- the repaired model on the same four witnesses (instances of `chunk_invariant`, evaluated) -/
example :
    delivered (run ⟨"P:".toList, "\"".toList, []⟩ ["P:ab\"".toList] .empty) = "ab".toList ∧
    (run ⟨[], [], ["S".toList]⟩ ["abSx".toList] .empty).completion = "ab".toList ∧
    delivered (run ⟨"P:".toList, [], ["ST".toList]⟩ ["P:abS".toList, "Tx".toList] .llmEnd) = "ab".toList ∧
    delivered (run ⟨[], [], ["x".toList, "b".toList]⟩ ["abx".toList] .empty) = "a".toList := by decide

end NemoVerif.C18
