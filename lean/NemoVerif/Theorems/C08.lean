/-
  C08 — flow calls bind parameters, defaults and return values; locals are private.
  Property theorems only (helper lemmas: Lemmas/Bind.lean; model: Models/Bind.lean).

  `ev` is the argument dict of the StartFlow event as `create_flow_instance` / `_start_flow` receive
  it, `ua` the user-written part of it (positional `$i` keys and named arguments evaluated in the
  caller).  `specVal ev k i p` is the statement's rule: positional `i` if `i < k`, else the named
  argument, else the declared default evaluated in the empty context, else None.
-/
import NemoVerif.Lemmas.Bind
import NemoVerif.Lemmas.BindHeap
import NemoVerif.Lemmas.BindHeapEntries
import NemoVerif.Lemmas.BindSurplus
import NemoVerif.Lemmas.BindProgress
import NemoVerif.Lemmas.BindActivate
namespace NemoVerif.C08
open NemoVerif NemoVerif.Bind

/-- **Binding** (event level, every signature, every well-formed call with `k ≤ n` positionals and
    any set of named arguments): both functions succeed and parameter `i` holds the statement's
    value — in the callee's context and in `arguments` (what FlowStarted/FlowFinished carry). -/
theorem bind_spec (fid : String) (params rets : List Param) (ev : Ctx) (k : Nat)
    (h : WellFormed params rets ev k) :
    ∃ f0 f, createFlowInstance fid params rets ev = .ok f0 ∧ startFlow false ev f0 = .ok f ∧
      (∀ i (hi : i < params.length), lookup (.name params[i].name) f.context = some (specVal ev k i params[i])) ∧
      (∀ i (hi : i < params.length), lookup (argKey params[i].name) f.arguments = some (specVal ev k i params[i])) :=
  bind_spec_core fid params rets ev k h

/-- non-vacuity: `flow f $a $b=2 $c` called as `f(10, c=30)` -/
example : WellFormed [⟨"a", none⟩, ⟨"b", some (.lit (.int 2))⟩, ⟨"c", none⟩] []
    [(.pos 0, .int 10), (.name "c", .int 30), (.name "flow_id", .str "f"),
     (.name "source_flow_instance_uid", .str "m"), (.name "source_head_uid", .str "h")] 1 := by
  refine ⟨by decide, by simp [lookup], by simp, by simp [lookup], by simp [lookup], by simp, ?_, ?_⟩
  · intro i hi; have : i = 0 := by omega
    subst this; simp [lookup]
  · intro i hi
    have : (Key.pos 0 = Key.pos i) = False := by
      simp only [Key.pos.injEq, eq_iff_iff, iff_false]; omega
    simp [lookup, this]

/-- **Binding at call level**, full strength (the REPAIRED binding of
    `fixes/C08-reserved-parameter-names-v2.diff`; no restriction on parameter names).  For the StartFlow
    event the interpreter builds from the user's arguments `ua` (adding flow_id, flow_instance_uid,
    activated, source_flow_instance_uid, source_head_uid, flow_hierarchy_position), parameter `i` holds
    the statement's value computed from `ua` alone: positional `i`, else the caller's named argument
    (which travels under `flow_argument_key`), else the declared default, else None. -/
theorem bind_spec_call (params rets : List Param) (ua : Ctx) (k : Nat) (form : CallForm) (flow : String)
    (n caller : Nat) (h : WellFormedCall params rets ua k) :
    ∃ f0 f, createFlowInstance flow params rets (startArgs ua form flow n caller) = .ok f0 ∧
      startFlow false (startArgs ua form flow n caller) f0 = .ok f ∧
      ∀ i (hi : i < params.length), lookup (.name params[i].name) f.context = some (specVal ua k i params[i]) := by
  obtain ⟨f0, f, h1, h2, h3, _⟩ := bind_spec_core flow params rets _ k (wellFormed_of_call params rets ua k form flow n caller h)
  refine ⟨f0, f, h1, h2, fun i hi => ?_⟩
  rw [h3 i hi, specVal_startArgs]

/-- non-vacuity of `WellFormedCall`, with reserved parameter names: `f(10, flow_id=30)` for
    `flow f $a $activated=2 $flow_id` (the user's `flow_id=` travels under the key `"$flow_id"`) -/
example : WellFormedCall [⟨"a", none⟩, ⟨"activated", some (.lit (.int 2))⟩, ⟨"flow_id", none⟩] []
    [(.pos 0, .int 10), (.arg "flow_id", .int 30)] 1 := by
  refine ⟨by decide, by simp [lookup], by simp, by simp, ?_, ?_⟩
  · intro i hi; have : i = 0 := by omega
    subst this; simp [lookup]
  · intro i hi
    have : (Key.pos 0 = Key.pos i) = False := by
      simp only [Key.pos.injEq, eq_iff_iff, iff_false]; omega
    simp [lookup, this]

/-- the repaired binding on the former counterexample: `flow fa $flow_id="dflt"` called as `await fa`
    binds the declared default (finite fact, by evaluation) -/
theorem reserved_name_repaired_witness :
    ∃ f0 f, createFlowInstance "fa" [⟨"flow_id", some (.lit (.str "dflt"))⟩] [] (startArgs [] .await "fa" 1 0) = .ok f0 ∧
      startFlow false (startArgs [] .await "fa" 1 0) f0 = .ok f ∧
      lookup (.name "flow_id") f.context = some (.str "dflt") := by
  refine ⟨_, _, rfl, rfl, ?_⟩
  simp [startFlow, startArgs, matchArgs, Bind.set, lookup, bindNamed, bindPos, bindRet, startLoop, keys,
    Param.dfltVal, eval, has, argKey, reservedNames, paramOfKey]

/-- Kernel-checked counterexample for the code as it is WITHOUT the repair (finding
    `reserved-parameter-name`, open until the fix is applied): `flow fa $flow_id="dflt"` called as
    `await fa` binds `$flow_id` to the flow's own name, while the statement's value is the declared
    default. (finite fact, by evaluation) -/
theorem reserved_name_as_is_counterexample :
    ∃ f0 f, createFlowInstanceAsIs "fa" [⟨"flow_id", some (.lit (.str "dflt"))⟩] [] (startArgs [] .await "fa" 1 0) = .ok f0 ∧
      startFlow false (startArgs [] .await "fa" 1 0) f0 = .ok f ∧
      lookup (.name "flow_id") f.context = some (.str "fa") ∧
      specVal [] 0 0 ⟨"flow_id", some (.lit (.str "dflt"))⟩ = .str "dflt" := by
  refine ⟨_, _, rfl, rfl, ?_, ?_⟩ <;>
    simp [startFlow, startArgs, matchArgs, Bind.set, lookup, bindNamedAsIs, bindPosAsIs, bindRet, startLoop, keys,
      specVal, namedVal, Param.dfltVal, eval, has, argKey, reservedNames, paramOfKey]

/-- **Named/positional clash** (observed behaviour, documented): when parameter `i` is given both
    positionally and by name, the positional value is bound (context and `arguments`), whatever the
    named value is. -/
theorem named_positional_clash (fid : String) (params rets : List Param) (ev : Ctx) (k : Nat)
    (h : WellFormed params rets ev k) (i : Nat) (hi : i < params.length) (hik : i < k)
    (w : Val) (_hnamed : lookup (argKey params[i].name) ev = some w) :
    ∃ f0 f v, createFlowInstance fid params rets ev = .ok f0 ∧ startFlow false ev f0 = .ok f ∧
      lookup (.pos i) ev = some v ∧ lookup (.name params[i].name) f.context = some v ∧
      lookup (argKey params[i].name) f.arguments = some v := by
  obtain ⟨f0, f, h1, h2, h3, h4⟩ := bind_spec_core fid params rets ev k h
  obtain ⟨v, hv⟩ := Option.isSome_iff_exists.1 (h.pos i hik)
  refine ⟨f0, f, v, h1, h2, hv, ?_, ?_⟩
  · rw [h3 i hi]; simp [specVal, hik, hv]
  · rw [h4 i hi]; simp [specVal, hik, hv]

/-- **Defaults are evaluated in the empty context**: a default that mentions a variable is None,
    whatever the caller's (or anybody's) variables are — no caller local can leak into a callee
    through a default. -/
theorem default_ignores_every_context (n y : String) : (Param.mk n (some (.var y))).dfltVal = .none := by
  simp [Param.dfltVal, eval, evalVar, has, lookup]

/-- **Surplus positionals** (observed behaviour, not part of the statement): `flow f $a` called with
    two positionals is NOT rejected (`_start_flow` enumerates `arguments`, which also holds `$0`),
    with three it is. (finite facts, by evaluation) -/
theorem surplus_positional_witness :
    (∃ f0, createFlowInstance "f" [⟨"a", none⟩] []
        [(.pos 0, .int 0), (.pos 1, .int 1), (.name "source_flow_instance_uid", .str "m"), (.name "source_head_uid", .str "h")] = .ok f0 ∧
      (startFlow false
        [(.pos 0, .int 0), (.pos 1, .int 1), (.name "source_flow_instance_uid", .str "m"), (.name "source_head_uid", .str "h")] f0).isOk = true) ∧
    (∃ f0, createFlowInstance "f" [⟨"a", none⟩] []
        [(.pos 0, .int 0), (.pos 1, .int 1), (.pos 2, .int 2), (.name "source_flow_instance_uid", .str "m"), (.name "source_head_uid", .str "h")] = .ok f0 ∧
      startFlow false
        [(.pos 0, .int 0), (.pos 1, .int 1), (.pos 2, .int 2), (.name "source_flow_instance_uid", .str "m"), (.name "source_head_uid", .str "h")] f0 = .error .tooMany) := by
  refine ⟨⟨_, rfl, ?_⟩, ⟨_, rfl, ?_⟩⟩ <;>
    simp [startFlow, Bind.set, lookup, bindNamed, bindPos, bindRet, startLoop, keys, has, Except.isOk, Except.toBool,
      argKey, reservedNames, paramOfKey]

/-! ### `activate`: which running activation may serve a call (`_get_reference_activated_flow_instance`) -/

/-- **An activation is reused iff all parameter values agree** (every signature, every pair of calls).
    `ev0` (well-formed, `k0` positionals) created the running instance `f0`; `ev` (`k` contiguous
    positionals, no parameter given twice) is a later `activate` call of the same flow.  The comparison
    loop of `_get_reference_activated_flow_instance` succeeds, and it says "same parameters" exactly
    when, for EVERY parameter, the value the statement gives the first call (`specVal ev0 ..`:
    positional | named | declared default | None) is Python-equal to the value it gives the second —
    and the second call does not omit a parameter that has no default (the code as it is never serves
    such a call by a running activation: it starts another instance, which is allowed).
    In particular (→): a call is attached to a running activation only if that activation runs with
    the call's own parameter values; an omitted parameter counts with its DECLARED DEFAULT, never with
    whatever the running instance holds. -/
theorem activation_reuse_iff_same_parameters (fid : String) (params rets : List Param)
    (ev0 : Ctx) (k0 : Nat) (h0 : WellFormed params rets ev0 k0) (ev : Ctx) (k : Nat) (h : CallShape params ev k) :
    ∃ f0 b, createFlowInstance fid params rets ev0 = .ok f0 ∧ sameParams ev f0.arguments params 0 = .ok b ∧
      (b = true ↔ ∀ i (hi : i < params.length),
          pyEq (specVal ev0 k0 i params[i]) (specVal ev k i params[i]) = true ∧
          (Omitted ev k i params[i] → params[i].dflt.isSome = true)) := by
  obtain ⟨f0, f, h1, h2, _, h4⟩ := bind_spec_core fid params rets ev0 k0 h0
  have ha : f.arguments = f0.arguments := startFlow_arguments ev0 f0 f h2
  obtain ⟨b, hb, hiff⟩ := sameParams_spec ev f0.arguments k params 0
    (fun i => specVal ev0 k0 i ((params[i]?).getD ⟨"", none⟩))
    (fun i hi => by rw [← ha, h4 i hi]; simp [hi])
    (fun i hi hik => by
      rw [Nat.zero_add] at hik ⊢
      exact ⟨h.pos i hik, h.noclash i hi hik⟩)
    h.nopos
  refine ⟨f0, b, h1, hb, ?_⟩
  rw [hiff]
  constructor
  · intro hh i hi
    have := hh i hi
    simpa [Agrees, hi] using this
  · intro hh i hi
    have := hh i hi
    simpa [Agrees, hi] using this

/-- non-vacuity: `flow f $a $b=2`; the activation was created by `activate f(1)`; the later call
    `activate f(1, b=2)` has the shape the theorem asks for (`k = 1`, `b` named) -/
example : CallShape [⟨"a", none⟩, ⟨"b", some (.lit (.int 2))⟩] [(.pos 0, .int 1), (.name "b", .int 2)] 1 := by
  refine ⟨by decide, ?_, ?_, ?_⟩
  · intro i hi; have : i = 0 := by omega
    subst this; simp [lookup]
  · intro i hi
    have : (Key.pos 0 = Key.pos i) = False := by
      simp only [Key.pos.injEq, eq_iff_iff, iff_false]; omega
    simp [lookup, this]
  · intro i hi hik; have : i = 0 := by omega
    subst this; simp [lookup, argKey, reservedNames]

/-- **The seeded blind spot, as a kernel-checked fact** (finite fact, by evaluation):
    `flow watcher $tag="default" $level=1`; a running activation created by
    `activate watcher("custom", 7)` does NOT have the parameters of a later `activate watcher`
    (both omitted parameters count with their declared defaults), while an activation created by
    `activate watcher` does — also for `activate watcher(level=1)` and `activate watcher("default")`. -/
theorem omitted_parameter_counts_as_its_default_witness :
    let params : List Param := [⟨"tag", some (.lit (.str "default"))⟩, ⟨"level", some (.lit (.int 1))⟩]
    let explicit : Ctx := [(.name "tag", .str "custom"), (.name "level", .int 7), (.pos 0, .str "custom"), (.pos 1, .int 7)]
    let dflt : Ctx := [(.name "tag", .str "default"), (.name "level", .int 1)]
    sameParams [(.name "flow_id", .str "watcher"), (.name "activated", .bool true)] explicit params 0 = .ok false ∧
    sameParams [(.name "flow_id", .str "watcher"), (.name "activated", .bool true)] dflt params 0 = .ok true ∧
    sameParams [(.name "level", .int 1), (.name "flow_id", .str "watcher")] dflt params 0 = .ok true ∧
    sameParams [(.pos 0, .str "default"), (.name "flow_id", .str "watcher")] dflt params 0 = .ok true ∧
    sameParams [(.pos 0, .str "default"), (.name "flow_id", .str "watcher")] explicit params 0 = .ok false := by
  simp [sameParams, paramMatches, lookup, has, argKey, reservedNames, pyEq, Val.scalarEq, eval]

/-- observed behaviour, mirrored (finite fact, by evaluation): a parameter WITHOUT default that the
    call omits never matches — `flow f $a`, `activate f` twice gives two instances holding None —
    and Python's `==` decides "agree": an activation started with `1` serves `activate f(True)`. -/
theorem omitted_without_default_never_matches_witness :
    sameParams [(.name "flow_id", .str "f")] [(.name "a", .none)] [⟨"a", none⟩] 0 = .ok false ∧
    sameParams [(.name "a", .none), (.name "flow_id", .str "f")] [(.name "a", .none)] [⟨"a", none⟩] 0 = .ok true ∧
    sameParams [(.pos 0, .bool true)] [(.name "a", .int 1), (.pos 0, .int 1)] [⟨"a", none⟩] 0 = .ok true ∧
    sameParams [(.pos 0, .dict [("j", .int 2), ("k", .int 1)])] [(.name "a", .dict [("k", .int 1), ("j", .int 2)])] [⟨"a", none⟩] 0 = .ok true := by
  simp [sameParams, paramMatches, lookup, has, argKey, reservedNames, pyEq, pyEqKvs, Val.scalarEq]

/-- **The lookup over the running instances** (any list of instances, each holding values `vss a`
    for the parameters — true of everything `create_flow_instance` makes): it never raises; the
    instance it returns is a reference instance at that position whose every parameter agrees with
    the call; and when it returns None, no reference instance agrees in all parameters. -/
theorem activation_lookup_exact (params : List Param) (ev : Ctx) (k : Nat) (h : CallShape params ev k)
    (l : List ActInst) (vss : ActInst → Nat → Val)
    (hl : ∀ a ∈ l, ∀ i (hi : i < params.length), lookup (argKey params[i].name) a.arguments = some (vss a i)) :
    ∃ r, refActivated params ev l 0 = .ok r ∧
      (∀ j, r = some j → ∃ a, l[j]? = some a ∧ isReference a = true ∧
          ∀ i (hi : i < params.length), Agrees ev k i params[i] (vss a i)) ∧
      (r = none → ∀ a ∈ l, isReference a = true →
          ¬ ∀ i (hi : i < params.length), Agrees ev k i params[i] (vss a i)) := by
  have spec : ∀ a ∈ l, ∃ b, sameParams ev a.arguments params 0 = .ok b ∧
      (b = true ↔ ∀ i (hi : i < params.length), Agrees ev k i params[i] (vss a i)) := by
    intro a ha
    obtain ⟨b, hb, hiff⟩ := sameParams_spec ev a.arguments k params 0 (vss a) (hl a ha)
      (fun i hi hik => by
        rw [Nat.zero_add] at hik ⊢
        exact ⟨h.pos i hik, h.noclash i hi hik⟩) h.nopos
    refine ⟨b, hb, ?_⟩
    rw [hiff]
    constructor <;> intro hh i hi <;> simpa using hh i hi
  obtain ⟨r, hr⟩ := refActivated_total params ev l 0 (fun a ha p hp => by
    obtain ⟨i, hi, rfl⟩ := List.getElem_of_mem hp
    rw [hl a ha i hi]; rfl)
  refine ⟨r, hr, ?_, ?_⟩
  · intro j hj
    subst hj
    obtain ⟨_, a, ha, href, hs⟩ := refActivated_some params ev l 0 j hr
    refine ⟨a, by simpa using ha, href, ?_⟩
    obtain ⟨b, hb, hiff⟩ := spec a (List.mem_of_getElem? (by simpa using ha))
    rw [hs] at hb
    injection hb with hb
    exact hiff.1 hb.symm
  · intro hn a ha href hall
    subst hn
    have hs := refActivated_none params ev l 0 hr a ha href
    obtain ⟨b, hb, hiff⟩ := spec a ha
    rw [hs] at hb
    injection hb with hb
    have := hiff.2 hall
    rw [← hb] at this
    cases this

/-- **Every `activate` call gets an instance that runs with the call's own values** (the StartFlow
    branch of `_process_internal_events_without_default_matchers`, any state): for a well-formed
    `activate f(..)` issued by a live flow other than `f`, whatever instances of `f` exist, the event
    is never ignored and never fails; EITHER it is served by a running reference instance every
    parameter of which is Python-equal to the value the statement gives THIS call (positional | named |
    declared default | None, evaluated in the caller), OR a new instance is created whose parameters
    are exactly those values (`bind_spec_call`). -/
theorem activate_call_runs_with_its_own_values (params rets : List Param) (ua : Ctx) (k : Nat) (flow : String)
    (n caller : Nat) (h : WellFormedCall params rets ua k)
    (hnoclash : ∀ i (hi : i < params.length), i < k → lookup (argKey params[i].name) ua = none)
    (l : List ActInst) (vss : ActInst → Nat → Val)
    (hl : ∀ a ∈ l, ∀ i (hi : i < params.length), lookup (argKey params[i].name) a.arguments = some (vss a i))
    (src : Source) (hlive : src.done = false) (hother : (flow == src.flowId) = false) :
    ∃ d, startDecision flow params (startArgs ua .activate flow n caller) (some l) src = .ok d ∧
      ((∃ j a, d = .reuse j ∧ l[j]? = some a ∧ isReference a = true ∧
          ∀ i (hi : i < params.length), pyEq (vss a i) (specVal ua k i params[i]) = true) ∨
       (d = .create none ∧
        ∃ f0 f, createFlowInstance flow params rets (startArgs ua .activate flow n caller) = .ok f0 ∧
          startFlow false (startArgs ua .activate flow n caller) f0 = .ok f ∧
          ∀ i (hi : i < params.length), lookup (.name params[i].name) f.context = some (specVal ua k i params[i]))) := by
  have hshape : CallShape params (startArgs ua .activate flow n caller) k :=
    callShape_startArgs params ua k .activate flow n caller ⟨h.kle, h.pos, h.nopos, hnoclash⟩
  obtain ⟨r, hr, hsome, _⟩ := activation_lookup_exact params _ k hshape l vss hl
  simp only [startDecision, startArgs_activated, Option.getD_some, truthy, hr, hother, hlive, Bool.false_and,
    Bool.or_self, Bool.false_eq_true, if_false, Bool.not_false, if_true]
  cases r with
  | none =>
    refine ⟨_, rfl, Or.inr ⟨rfl, ?_⟩⟩
    exact bind_spec_call params rets ua k .activate flow n caller h
  | some j =>
    obtain ⟨a, ha, href, hag⟩ := hsome j rfl
    refine ⟨_, rfl, Or.inl ⟨j, a, rfl, ha, href, fun i hi => ?_⟩⟩
    have := (hag i hi).1
    rwa [specVal_startArgs] at this

/-- **One `activate` call in a history**: whatever instances of the flow exist (each holding a value for
    every parameter), the StartFlow event of a well-formed `activate f(..)` from a live flow other than
    `f` succeeds; afterwards every instance still holds a value for every parameter, every earlier
    instance is still there with the arguments it was started with, and SOME instance runs with the
    values the statement gives this call (`Serves`). -/
theorem activate_step_serves (params rets : List Param) (flow : String) (src : Source) (hlive : src.done = false)
    (hother : (flow == src.flowId) = false) (l : List ActInst) (hl : ∀ a ∈ l, HoldsAll params a.arguments)
    (c : ActCall) (h : WellFormedCall params rets c.ua c.k)
    (hnoclash : ∀ i (hi : i < params.length), i < c.k → lookup (argKey params[i].name) c.ua = none) :
    ∃ l', activateStep flow params rets src l c = .ok l' ∧ (∀ a ∈ l', HoldsAll params a.arguments) ∧
      (∀ a ∈ l, ∃ a' ∈ l', a'.arguments = a.arguments) ∧ (∃ a' ∈ l', Serves params a' c.ua c.k) := by
  obtain ⟨d, hd, hcases⟩ := activate_call_runs_with_its_own_values params rets c.ua c.k flow c.uid c.caller h hnoclash l
    (valOf params) (fun a ha i hi => holdsAll_valOf params a (hl a ha) i hi) src hlive hother
  rcases hcases with ⟨j, a, rfl, ha, _, hag⟩ | ⟨rfl, _⟩
  · refine ⟨bump j l, by simp [activateStep, activateStepEv, hd], ?_, fun a0 ha0 => bump_mem j l a0 ha0, ?_⟩
    · intro a' ha'
      obtain ⟨a0, h0, e⟩ := mem_bump j l a' ha'
      rw [e]; exact hl a0 h0
    · have ham : a ∈ l := List.mem_of_getElem? ha
      obtain ⟨a', ha', e⟩ := bump_mem j l a ham
      refine ⟨a', ha', serves_congr params a a' c.ua c.k e fun i hi => ?_⟩
      exact ⟨_, holdsAll_valOf params a (hl a ham) i hi, Or.inr (hag i hi)⟩
  · obtain ⟨f0, f, h1, h2, _, h4⟩ := bind_spec_core flow params rets _ c.k
      (wellFormed_of_call params rets c.ua c.k .activate flow c.uid c.caller h)
    have hargs : f.arguments = f0.arguments := startFlow_arguments _ f0 f h2
    have hnew : ∀ i (hi : i < params.length),
        lookup (argKey params[i].name) f0.arguments = some (specVal c.ua c.k i params[i]) := by
      intro i hi; rw [← hargs, h4 i hi, specVal_startArgs]
    refine ⟨l ++ [{ activated := 1, parentAlive := true, parentSameFlow := false, arguments := f0.arguments }],
      by simp only [activateStep, activateStepEv, hd, h1], ?_, fun a0 ha0 => ⟨a0, by simp [ha0], rfl⟩, ?_⟩
    · intro a' ha'
      rcases List.mem_append.1 ha' with hm | hm
      · exact hl a' hm
      · simp only [List.mem_singleton] at hm
        subst hm
        intro p hp
        obtain ⟨i, hi, rfl⟩ := List.getElem_of_mem hp
        simp [hnew i hi]
    · exact ⟨{ activated := 1, parentAlive := true, parentSameFlow := false, arguments := f0.arguments }, by simp,
        fun i hi => ⟨_, hnew i hi, Or.inl rfl⟩⟩

/-- **Whole histories** (any number of `activate` calls of one flow, explicit / omitted / equal /
    different arguments in any order, any instances already running; by induction on the history):
    every StartFlow event succeeds, and at the end, for EVERY call of the history, some instance of
    the flow runs with the parameter values the statement gives that call — positional | named |
    declared default | None, evaluated in the caller (exactly those values for the instance the call
    created, Python-equal ones when the call was attached to an activation that already ran). -/
theorem every_activate_call_has_its_instance (params rets : List Param) (flow : String) (src : Source)
    (hlive : src.done = false) (hother : (flow == src.flowId) = false) :
    ∀ (cs : List ActCall) (l : List ActInst), (∀ a ∈ l, HoldsAll params a.arguments) →
    (∀ c ∈ cs, WellFormedCall params rets c.ua c.k ∧
      ∀ i (hi : i < params.length), i < c.k → lookup (argKey params[i].name) c.ua = none) →
    ∃ l', activateAll flow params rets src l cs = .ok l' ∧ (∀ a ∈ l, ∃ a' ∈ l', a'.arguments = a.arguments) ∧
      ∀ c ∈ cs, ∃ a' ∈ l', Serves params a' c.ua c.k
  | [], l, _, _ => ⟨l, rfl, fun a ha => ⟨a, ha, rfl⟩, by simp⟩
  | c :: cs, l, hl, hcs => by
    obtain ⟨hw, hn⟩ := hcs c (by simp)
    obtain ⟨l1, h1, hl1, hkeep1, a1, ha1, hs1⟩ := activate_step_serves params rets flow src hlive hother l hl c hw hn
    obtain ⟨l', h2, hkeep2, hserve⟩ := every_activate_call_has_its_instance params rets flow src hlive hother cs l1 hl1
      (fun c' hc' => hcs c' (by simp [hc']))
    refine ⟨l', by simp [activateAll, h1, h2], ?_, ?_⟩
    · intro a ha
      obtain ⟨a', ha', e⟩ := hkeep1 a ha
      obtain ⟨a'', ha'', e'⟩ := hkeep2 a' ha'
      exact ⟨a'', ha'', by rw [e', e]⟩
    · intro c' hc'
      rcases List.mem_cons.1 hc' with rfl | hm
      · obtain ⟨a'', ha'', e⟩ := hkeep2 a1 ha1
        exact ⟨a'', ha'', serves_congr params a1 a'' c'.ua c'.k e hs1⟩
      · exact hserve c' hm

/-- the demo history of the seeded change, by evaluation (finite fact): `flow watcher $tag="default" $level=1`,
    `activate watcher("custom", 7)` then `activate watcher` leaves TWO instances, the second one holding
    the declared defaults -/
theorem explicit_then_omitted_history_witness :
    (match activateAll "watcher" [⟨"tag", some (.lit (.str "default"))⟩, ⟨"level", some (.lit (.int 1))⟩] []
        { flowId := "main", done := false, activated := 1 } []
        [{ ua := [(.pos 0, .str "custom"), (.pos 1, .int 7)], k := 2, uid := 1, caller := 0 },
         { ua := [], k := 0, uid := 2, caller := 0 }] with
     | .ok [a, b] =>
       lookup (.name "tag") a.arguments = some (.str "custom") ∧ lookup (.name "level") a.arguments = some (.int 7) ∧
       lookup (.name "tag") b.arguments = some (.str "default") ∧ lookup (.name "level") b.arguments = some (.int 1)
     | _ => False) := by
  simp [activateAll, activateStep, activateStepEv, startDecision, refActivated, isReference, sameParams, paramMatches, startArgs, matchArgs,
    createFlowInstance, startCtx, bindNamed, bindPos, bindRet, Bind.set, lookup, has, truthy, argKey, reservedNames,
    Param.dfltVal, eval, pyEq, Val.scalarEq]

/-- non-vacuity of the hypotheses on the running instances: the instance `create_flow_instance`
    makes for `activate f(1)` (`flow f $a $b=2`) holds a value for both parameters -/
example : ∃ f0, createFlowInstance "f" [⟨"a", none⟩, ⟨"b", some (.lit (.int 2))⟩] []
      (startArgs [(.pos 0, .int 1)] .activate "f" 1 0) = .ok f0 ∧
    lookup (argKey "a") f0.arguments = some (.int 1) ∧ lookup (argKey "b") f0.arguments = some (.int 2) := by
  refine ⟨_, rfl, ?_, ?_⟩ <;>
    simp [startArgs, matchArgs, Bind.set, lookup, bindNamed, bindPos, Param.dfltVal, eval, argKey, reservedNames]

/-- **Return value reaches the caller**: after `return v` in the callee, the Finished event carries
    `return_value = v` (whatever the callee's parameters are called), the caller's expanded
    `$x = $ref.arguments.return_value` performs the assignment of `v`, and reading `$x` in the caller
    afterwards yields `v` (also when the caller declared `$x` global). -/
theorem return_reaches_caller (uid : Val) (f : Inst) (v : Val) (x : String) (g c : Ctx) :
    captureReturn x (finishedArgs uid { f with context := returnCtx v f.context }) g c = some (assignCtx x v g c) ∧
    evalVar (assignCtx x v g c).1 (assignCtx x v g c).2 x = v := by
  refine ⟨?_, evalVar_assignCtx x v g c⟩
  simp [captureReturn, lookup_return_finishedArgs]

/-- **Locals are private, one assignment**: an `Assignment` executed by instance `u` leaves every
    other instance untouched, and changes the global context only when `u` declared the key global
    (then `u`'s own context is untouched instead). -/
theorem locals_private_step (s : St) (u w : Nat) (key : String) (v : Val) (hw : w ≠ u) :
    let r := assignCtx key v s.globals (s.ctxOf u)
    findInst w (s.setCtx u r.1 r.2).insts = findInst w s.insts ∧
    (has (globalKey key) (s.ctxOf u) = false → r.1 = s.globals) ∧
    (has (globalKey key) (s.ctxOf u) = true → r.2 = s.ctxOf u) := by
  refine ⟨setCtx_frame s u w _ _ hw, ?_, ?_⟩ <;> intro h <;> simp [assignCtx, h]

/-- **Locals are private, whole executions** (frame theorem of the mini interpreter, by induction on
    the execution): whatever statements instance `u` executes — including everything the flows it
    calls, transitively, execute, parameter binding and return-value assignment — the context and
    arguments of every other existing instance `w` (caller, sibling, earlier callee) are unchanged.
    Applied with `u :=` a callee it says the caller is untouched; with `u :=` the caller it says
    siblings are untouched. -/
theorem locals_private (flows : List (String × FlowDef)) (fuel : Nat) (s : St) (u : Nat) (body : List Stmt) (w : Nat)
    (hfresh : Fresh s) (hw : w ≠ u) (hlt : w < s.next) :
    findInst w (exec flows fuel s u body).1.insts = findInst w s.insts :=
  (exec_good flows fuel s u body w hfresh hw hlt).1

/-- **Global context, whole executions** (by induction on the execution): a global variable `k`
    that no flow instance has declared `global` by the end of the execution — contexts never lose
    keys, so: that no instance declared at any time — has the value it had before.  Only keys
    declared `global` by some instance can change; in particular, same-named *local* assignments in
    any caller, callee or sibling never reach the global context. -/
theorem globals_private (flows : List (String × FlowDef)) (fuel : Nat) (s : St) (u : Nat) (body : List Stmt)
    (hu : (findInst u s.insts).isSome) (k : String)
    (hk : ¬ DeclaredIn (exec flows fuel s u body).1 k) :
    lookup (.name k) (exec flows fuel s u body).1.globals = lookup (.name k) s.globals :=
  (exec_gstep flows fuel s u body hu).2 k hk

/-- non-vacuity: after `$g = 1` in an instance that did not declare `$g`, nobody has declared it -/
example : ¬ DeclaredIn (exec [] 5 { insts := [(0, { flowId := "main", arguments := [], context := [] })], next := 1 } 0
    [.assign "g" (.lit (.int 1))]).1 "g" := by
  rintro ⟨w, f, hf, hk⟩
  simp [exec, St.evalIn, St.ctxOf, St.setCtx, findInst, replaceInst, assignCtx, has, lookup, eval, globalKey, Bind.set] at hf hk
  obtain ⟨_, rfl⟩ := hf
  simp [lookup] at hk

/-- non-vacuity: a state with two instances having a same-named variable -/
example : Fresh { insts := [(0, { flowId := "main", arguments := [], context := [(.name "v", .int 1)] }),
                            (1, { flowId := "fa", arguments := [], context := [(.name "v", .int 2)] })], next := 2 } := by
  intro x hx
  simp [uids] at hx
  rcases hx with h | h <;> simp [h]

/-- Kernel-checked counterexample for the code as it is (open finding
    `inplace-mutation-of-passed-container`), in the reference-semantics side model: the callee's
    parameter refers to the caller's list object, so the callee's in-place `append` shows through the
    caller's variable. (finite fact, by evaluation) -/
theorem inplace_alias_as_is_counterexample :
    Heap.read (Heap.appendInPlace (Heap.bindByRef { heap := [(0, [.int 1])], vars := [((0, "l"), 0)] } 0 1 "l" "l") 1 "l" (.int 9)) 0 "l"
      = some [.int 1, .int 9] ∧
    Heap.read { heap := [(0, [.int 1])], vars := [((0, "l"), 0)] } 0 "l" = some [.int 1] := by
  constructor <;> simp [Heap.read, Heap.appendInPlace, Heap.bindByRef, Heap.addrOf, Heap.cell, Heap.updCell]

/-- `…_partial` companion: where two variables do not share an object (the hypothesis excludes exactly
    the finding's region), an in-place mutation through one is invisible through the other — for every
    heap, instances and variables. -/
theorem inplace_private_partial (s : Heap.HSt) (u w : Nat) (x y : String) (v : Val)
    (h : Heap.addrOf w y s.vars ≠ Heap.addrOf u x s.vars) :
    Heap.read (Heap.appendInPlace s u x v) w y = Heap.read s w y :=
  Heap.read_appendInPlace_of_no_sharing s u w x y v h

/-- non-vacuity: caller and callee variables with distinct objects -/
example : Heap.addrOf 0 "l" [((0, "l"), 0), ((1, "l"), 1)] ≠ Heap.addrOf 1 "l" [((0, "l"), 0), ((1, "l"), 1)] := by
  simp [Heap.addrOf]

/-! ## Reference semantics: defaults are fresh objects, locals are private under in-place mutation

  `hexec` (Models/BindHeap.lean) is `exec` over a heap: contexts, `arguments` and events hold addresses,
  `($x.append(..))` mutates the cell `$x` refers to, `create_flow_instance` / `_start_flow` (the very
  functions of the value model) move addresses.  A declared default is evaluated per instance
  (`allocDefaults`). -/

/-- **Defaults are fresh, one call** (every heap, i.e. every earlier history; every signature; every
    well-formed call): an OMITTED parameter — not among the `k` positionals, not named — is bound to its
    declared default: the callee's entry context read in the heap of that moment shows
    `params[i].dfltVal`, and a declared default is a NEW object (an address beyond every cell that existed
    before the call: nothing any earlier instance did, or will do through its own variables, can reach it). -/
theorem defaults_fresh_call (h : Heap) (params rets : List Param) (ua : Ctx) (k : Nat) (form : CallForm)
    (flow : String) (n caller : Nat) (hwf : WellFormedCall params rets ua k) :
    ∃ f0 f, createFlowInstance flow (allocDefaults h params).2 (allocDefaults (allocDefaults h params).1 rets).2
          (startArgs ua form flow n caller) = .ok f0 ∧
      startFlow false (startArgs ua form flow n caller) f0 = .ok f ∧
      ∀ i (hi : i < params.length), k ≤ i → lookup (argKey params[i].name) ua = none →
        lookup (.name params[i].name) (derefCtx (allocDefaults (allocDefaults h params).1 rets).1 f.context)
          = some params[i].dfltVal ∧
        (params[i].dflt.isSome → ∃ a, h.length ≤ a ∧ lookup (.name params[i].name) f.context = some (addr a)) :=
  Bind.defaults_fresh_call h params rets ua k form flow n caller hwf

/-- non-vacuity: `flow collect $item $bucket=[]` called as `collect("a")` (one positional, `$bucket` omitted) -/
example : WellFormedCall [⟨"item", none⟩, ⟨"bucket", some (.lit (.list []))⟩] [] [(.pos 0, addr 0)] 1 ∧
    lookup (argKey "bucket") [(.pos 0, addr 0)] = none := by
  refine ⟨⟨by decide, by simp [lookup], by simp, by simp, ?_, ?_⟩, by simp [lookup, argKey, reservedNames]⟩
  · intro i hi; have : i = 0 := by omega
    subst this; simp [lookup]
  · intro i hi
    have : (Key.pos 0 = Key.pos i) = False := by
      simp only [Key.pos.injEq, eq_iff_iff, iff_false]; omega
    simp [lookup, this]

/-- **Return members are fresh, one call** (any heap, any signature, any well-formed call; member names
    distinct and none named like a parameter): every return member starts in the callee's entry context as its
    declared default, and a declared default is a NEW object — whatever earlier instances did to theirs. -/
theorem return_members_fresh_call (h : Heap) (params rets : List Param) (ua : Ctx) (k : Nat) (form : CallForm)
    (flow : String) (n caller : Nat) (hwf : WellFormedCall params rets ua k) (hrn : (pnames rets).Nodup) :
    ∃ f0 f, createFlowInstance flow (allocDefaults h params).2 (allocDefaults (allocDefaults h params).1 rets).2
          (startArgs ua form flow n caller) = .ok f0 ∧
      startFlow false (startArgs ua form flow n caller) f0 = .ok f ∧
      ∀ j (hj : j < rets.length),
        lookup (.name rets[j].name) (derefCtx (allocDefaults (allocDefaults h params).1 rets).1 f.context) = some rets[j].dfltVal ∧
        (rets[j].dflt.isSome → ∃ a, h.length ≤ a ∧ lookup (.name rets[j].name) f.context = some (addr a)) :=
  return_members_fresh_call_core h params rets ua k form flow n caller hwf hrn

/-- non-vacuity: `flow fa $a -> $r=[]` called as `fa(x)` -/
example : WellFormedCall [⟨"a", none⟩] [⟨"r", some (.lit (.list []))⟩] [(.pos 0, addr 0)] 1 ∧
    (pnames [⟨"r", some (.lit (.list []))⟩]).Nodup := by
  refine ⟨⟨by decide, by simp [lookup], by simp [pnames], by simp, ?_, ?_⟩, by simp [pnames]⟩
  · intro i hi; have : i = 0 := by omega
    subst this; simp [lookup]
  · intro i hi
    have : (Key.pos 0 = Key.pos i) = False := by
      simp only [Key.pos.injEq, eq_iff_iff, iff_false]; omega
    simp [lookup, this]

/-- **Defaults are fresh, every call of every history** (induction over whole executions of `hexec`, from
    ANY state — any heap, any instances, whatever was mutated before): every callee entry recorded during
    the execution obeys the statement's rule `EntryOK`: if the call is well-formed for the callee's
    signature, each omitted parameter shows its declared default in the entry context. -/
theorem defaults_fresh (flows : List (String × HFlowDef)) (fuel : Nat) (s : HSt) (u : Nat) (body : List HStmt) :
    ∀ e ∈ (hexec flows fuel s u body).1.entries, e ∈ s.entries ∨ EntryOK flows e :=
  hexec_entriesOK flows fuel s u body

/-- **Return members are fresh, every call of every history** (induction over whole executions of `hexec`, from any
    state): every callee entry recorded obeys `EntryRetOK` — for a well-formed call of a flow whose return members
    have distinct names, each return member shows its declared default in the entry context. -/
theorem return_members_fresh (flows : List (String × HFlowDef)) (fuel : Nat) (s : HSt) (u : Nat) (body : List HStmt) :
    ∀ e ∈ (hexec flows fuel s u body).1.entries, e ∈ s.entries ∨ EntryRetOK flows e :=
  hexec_entriesRetOK flows fuel s u body

/-- … in particular for every call of a whole program -/
theorem defaults_fresh_program (flows : List (String × HFlowDef)) (fuel : Nat) (main : List HStmt) :
    ∀ e ∈ (runMainH flows fuel main).1.entries, EntryOK flows e := by
  intro e he
  simp only [runMainH] at he
  split at he
  · simp at he
  · rcases hexec_entriesOK flows fuel _ 0 main e he with h | h
    · simp at h
    · exact h

/-- **Locals are private under in-place mutation** (frame theorem of `hexec`, induction over whole
    executions).  `A` is any region of addresses closed for the running instance `u` (`Pre`: what `u`'s
    variables and `arguments` refer to, what the globals refer to, everything not yet allocated).
    Whatever `u` executes — in-place method calls, assignments, calls with everything the callees execute,
    return-value capture — every other existing instance `w` keeps its context and `arguments`, and every
    variable of `w` that refers to an object OUTSIDE the region (a value that was not passed across) shows
    the same value afterwards. -/
theorem locals_private_mut {A : Nat → Prop} (flows : List (String × HFlowDef)) (fuel : Nat) (s : HSt) (u : Nat)
    (body : List HStmt) (hpre : Pre A s u) (w : Nat) (hw : w ≠ u) (hlt : w < s.st.next) :
    findInst w (hexec flows fuel s u body).1.st.insts = findInst w s.st.insts ∧
    ∀ y a, lookup y (s.st.ctxOf w) = some (addr a) → ¬ A a →
      lookup y (derefCtx (hexec flows fuel s u body).1.heap ((hexec flows fuel s u body).1.st.ctxOf w))
        = lookup y (derefCtx s.heap (s.st.ctxOf w)) := by
  have r := hexec_frame flows fuel s u body hpre
  have hfi := r.others w hw hlt
  refine ⟨hfi, fun y a hy ha => ?_⟩
  have hctx : (hexec flows fuel s u body).1.st.ctxOf w = s.st.ctxOf w := by simp only [St.ctxOf, hfi]
  rw [hctx, lookup_derefCtx, lookup_derefCtx, hy]
  simp only [Option.map_some, deref_addr, List.getD_eq_getElem?_getD, r.heap a ha]

/-- non-vacuity of `Pre`: `main` (instance 0) holds the list in cell 1, a waiting instance 1 holds its own
    list in cell 0; the region "everything but cell 0" is closed for instance 0 -/
example : Pre (fun a => a ≠ 0)
    { st := { insts := [(0, { flowId := "main", arguments := [], context := [(.name "v", addr 1)] }),
                        (1, { flowId := "fa", arguments := [], context := [(.name "v", addr 0)] })], next := 2 },
      heap := [.list [.int 1], .list [.int 2]] } 0 := by
  refine ⟨?_, by decide, ?_, ⟨_, rfl, ?_, AllVals.nil _⟩, AllVals.nil _⟩
  · intro x hx
    simp [uids] at hx
    rcases hx with h | h <;> simp [h]
  · intro a ha; simp at ha; omega
  · intro kv hkv
    simp only [List.mem_singleton] at hkv
    subst hkv
    exact PA.addr (by decide)

/-- the addresses a context holds -/
def Holds (c : Ctx) (a : Nat) : Prop := ∃ kv ∈ c, kv.2 = addr a

/-- no immediate dict among the values of a context (user values are boxed) -/
def NoImmDict (c : Ctx) : Prop := ∀ kv ∈ c, isDict kv.2 = false

theorem allVals_of_holds {A : Nat → Prop} {c : Ctx} (hd : NoImmDict c) (h : ∀ a, Holds c a → A a) : AllVals (PA A) c :=
  fun kv hkv => ⟨fun a e => h a ⟨kv, hkv, e⟩, hd kv hkv⟩

/-- **What an instance can reach is all it can touch** (corollary of the frame theorem): let instance `n`
    run any `body` from a state `s`.  Every heap cell that `n` does not hold in its context or `arguments`,
    that no global variable holds, and that already exists, has the same content afterwards — whatever `n`
    and the flows it calls execute.  With `n` := a callee at its entry: a callee can change only the objects it
    was passed, the global ones, and the ones it creates itself; everything else of the caller and of every
    other instance is out of its reach. -/
theorem reach_is_all_it_can_touch (flows : List (String × HFlowDef)) (fuel : Nat) (s : HSt) (n : Nat) (body : List HStmt)
    (f : Inst) (hf : findInst n s.st.insts = some f) (hfresh : Fresh s.st) (hlt : n < s.st.next)
    (hdc : NoImmDict f.context) (hda : NoImmDict f.arguments) (hdg : NoImmDict s.st.globals)
    (a : Nat) (ha : a < s.heap.length)
    (hc : ¬ Holds f.context a) (harg : ¬ Holds f.arguments a) (hg : ¬ Holds s.st.globals a) :
    (hexec flows fuel s n body).1.heap[a]? = s.heap[a]? := by
  let A : Nat → Prop := fun x => Holds f.context x ∨ Holds f.arguments x ∨ Holds s.st.globals x ∨ s.heap.length ≤ x
  have hpre : Pre A s n :=
    ⟨hfresh, hlt, fun x hx => Or.inr (Or.inr (Or.inr hx)),
     ⟨f, hf, allVals_of_holds hdc (fun x hx => Or.inl hx), allVals_of_holds hda (fun x hx => Or.inr (Or.inl hx))⟩,
     allVals_of_holds hdg (fun x hx => Or.inr (Or.inr (Or.inl hx)))⟩
  refine (hexec_frame flows fuel s n body hpre).heap a ?_
  rintro (h | h | h | h)
  · exact hc h
  · exact harg h
  · exact hg h
  · omega

/-- non-vacuity: instance 1 holds cell 0 only; cell 1 (instance 0's list) is out of its reach -/
example : ¬ Holds [(Key.name "v", addr 0)] 1 ∧ NoImmDict [(Key.name "v", addr 0)] := by
  constructor
  · rintro ⟨kv, hkv, e⟩
    simp only [List.mem_singleton] at hkv
    subst hkv
    simp [addr] at e
  · intro kv hkv
    simp only [List.mem_singleton] at hkv
    subst hkv
    rfl

/-! ### passed containers: exact characterisation of the sharing the code has (open finding) -/

/-- a bare variable evaluates to the object it refers to (no copy, heap untouched) — unless it holds a
    dict, which `eval_expression` shallow-copies (`AttributeDict(val)`) -/
theorem bare_variable_is_the_object (h : Heap) (g c : Ctx) (x : String) (hnd : isDict (deref h (evalVar g c x)) = false) :
    evalH h g c (.var x) = (h, evalVar g c x) := by
  simp [evalH, hnd]

/-- **A passed object is shared** (every signature, every well-formed call, every heap): positional
    argument `i` reaches the callee's parameter `i` as the SAME address the caller supplied — the callee's
    variable and whatever the caller's expression referred to are one object. -/
theorem passed_container_is_shared (h : Heap) (params rets : List Param) (ua : Ctx) (k : Nat) (form : CallForm)
    (flow : String) (n caller : Nat) (hwf : WellFormedCall params rets ua k) :
    ∃ f0 f, createFlowInstance flow (allocDefaults h params).2 (allocDefaults (allocDefaults h params).1 rets).2
          (startArgs ua form flow n caller) = .ok f0 ∧
      startFlow false (startArgs ua form flow n caller) f0 = .ok f ∧
      ∀ i (hi : i < params.length), i < k →
        lookup (.name params[i].name) f.context = some ((lookup (.pos i) ua).getD .none) := by
  have hwf' := wellFormedCall_allocDefaults params rets ua k h (allocDefaults h params).1 hwf
  obtain ⟨f0, f, h1, h2, h3, _⟩ := bind_spec_core flow _ _ _ k (wellFormed_of_call _ _ ua k form flow n caller hwf')
  refine ⟨f0, f, h1, h2, fun i hi hik => ?_⟩
  obtain ⟨hi', hname, _, _⟩ := allocDefaults_spec params h i hi
  have := h3 i hi'
  rw [hname, specVal_startArgs] at this
  rw [this]
  simp [specVal, hik]

/-- **An in-place mutation is seen through exactly the aliases**: after the object at address `a` was
    mutated, a variable holding address `b` shows the new content iff `b = a`; every other object is
    unchanged. -/
theorem inplace_seen_exactly_by_aliases (h : Heap) (a b : Nat) (cell' : Val) (ha : a < h.length) :
    deref (h.set a cell') (addr b) = if b = a then cell' else deref h (addr b) := by
  simp only [deref_addr, List.getD_eq_getElem?_getD]
  by_cases hb : b = a
  · subst hb; simp [ha]
  · simp [hb, List.getElem?_set_ne (Ne.symm hb)]

/-- Kernel-checked counterexample for the code as it is (open finding
    `inplace-mutation-of-passed-container`) in the heap interpreter: instance 1's parameter `$l` and
    instance 0's variable `$l` are one object (that is what passing `$l` produces —
    `passed_container_is_shared`); instance 1 executes `($l.append(9))`; instance 0's `$l` shows `[1, 9]`.
    (finite fact, by evaluation) -/
theorem inplace_alias_as_is_counterexample_exec :
    let s : HSt := { st := { insts := [(0, { flowId := "main", arguments := [], context := [(.name "l", addr 0)] }),
                                       (1, { flowId := "fa", arguments := [(.name "l", addr 0)], context := [(.name "l", addr 0)] })], next := 2 },
                     heap := [.list [.int 1]] }
    let s' := (hexec [] 3 s 1 [.mut "l" [] (.append (.lit (.int 9))) "_"]).1
    lookup (.name "l") (derefCtx s.heap (s.st.ctxOf 0)) = some (.list [.int 1]) ∧
    lookup (.name "l") (derefCtx s'.heap (s'.st.ctxOf 0)) = some (.list [.int 1, .int 9]) := by
  constructor <;>
    simp [hexec, St.ctxOf, findInst, derefCtx, deref, addr, lookup, evalVar, has, globalKey, mutAt, mutTop, Meth.evalF,
      Bind.evalF, alloc, assignCtx, HSt.setCtx, St.setCtx, replaceInst, Bind.set]

/-! ## Progress of the caller -/

/-- callee side: `return e` ends the callee's run, and its `_return_value` is the value of `e` in the
    callee's own context -/
theorem return_ends_run (flows : List (String × FlowDef)) (fuel : Nat) (s : St) (n : Nat) (e : Expr) (rest : List Stmt)
    (f : Inst) (hf : findInst n s.insts = some f) :
    exec flows (fuel + 1) s n (.ret e :: rest) = (s.setCtx n s.globals (returnCtx (s.evalIn n e) (s.ctxOf n)), .finished) ∧
    lookup returnKey ((s.setCtx n s.globals (returnCtx (s.evalIn n e) (s.ctxOf n))).ctxOf n) = some (s.evalIn n e) := by
  refine ⟨by simp only [exec], ?_⟩
  rw [ctxOf_of_find (find_setCtx_self s n _ _ f hf)]
  simp [returnCtx, lookup_set_eq]

/-- **Progress of the caller** (`$x = await flow(..)`), partial: explicit hypotheses for the two
    internal-event matches.  If the callee's synchronous run ends `finished` with `_return_value = v`,
    the caller's `match FlowStarted(<call arguments>)` (pattern evaluated after the callee's run, as the
    code does) accepts the callee's FlowStarted event (`handshake`) and `match $ref.Finished()` accepts its
    FlowFinished event (`finishedMatch`), then the `await` RETURNS: the caller goes on with the statements
    after the call, in the state the callee left, with `$x` bound to `v` — reading `$x` there yields `v`.

    Full statement (not proved): the two match hypotheses hold whenever the call is well-formed and the
    argument values contain no regex / comparison objects and are not changed by the callee's run —
    reflexivity of the C04 matcher on such values is missing; both hypotheses are evaluated by the model on
    every generated program and compared with what the real interpreter did (the caller's later events). -/
theorem await_progress_partial (flows : List (String × FlowDef)) (fuel : Nat) (s : St) (u : Nat) (x flow : String)
    (pos : List Expr) (named : List (String × Expr)) (rest : List Stmt) (d : FlowDef) (f0 f1 f2 : Inst) (s2 : St) (v : Val)
    (hd : findFlow flow flows = some d)
    (hc : createFlowInstance flow d.params d.rets
        (startArgs (userArgs s.globals (s.ctxOf u) pos named) .await flow s.next u) = .ok f0)
    (hs : startFlow false (startArgs (userArgs s.globals (s.ctxOf u) pos named) .await flow s.next u) f0 = .ok f1)
    (hrun : exec flows fuel { s with insts := s.insts ++ [(s.next, f1)], next := s.next + 1 } s.next d.body = (s2, .finished))
    (hf2 : findInst s.next s2.insts = some f2)
    (hhs : handshake (matchArgs (userArgs s2.globals (s2.ctxOf u) pos named) flow s.next) s.next f2 = true)
    (hfm : finishedMatch s.next f2 = true)
    (hret : lookup returnKey f2.context = some v) :
    exec flows (fuel + 1) s u (.call .await (some x) flow pos named :: rest) =
      exec flows fuel (s2.setCtx u (assignCtx x v s2.globals (s2.ctxOf u)).1 (assignCtx x v s2.globals (s2.ctxOf u)).2) u rest ∧
    evalVar (assignCtx x v s2.globals (s2.ctxOf u)).1 (assignCtx x v s2.globals (s2.ctxOf u)).2 x = v := by
  refine ⟨?_, evalVar_assignCtx x v _ _⟩
  have hfin : lookup (.name "return_value") (finishedArgs (uidVal s.next) f2) = some v := by
    simp [finishedArgs, hret, lookup_set_eq]
  simp only [exec, hd, hc, hs, hrun, hf2, Option.getD_some, hhs, hfm, captureReturn, hfin]
  simp

/-- the callee instance of `flow fa: return 7` (uid 1, called from instance 0) after its run -/
def pf : Inst := { flowId := "fa", arguments := [], context := [(returnKey, .int 7)], parent := some (uidVal 0) }

theorem pf_handshake : handshake (matchArgs (userArgs [] [] [] []) "fa" 1) 1 pf = true := by
  simp [handshake, evMatches, flowObj, matchArgs, userArgs, posArgs, update, Bind.set, toDict, keyStr, uidVal, pf,
    Match.refEvent, Match.FlowObj.matchEvent, Match.eventScore, Match.eventCore, Generated.C04.evFlowStarted,
    Generated.C04.internalEventsAll, Generated.C04.argumentFilter, Generated.C04.evStartFlow, Generated.C04.evFlowFinished,
    Generated.C04.evFlowFailed, Match.dictUpdate, Match.lookup, Match.score, Match.scoreDict, Val.isInstanceOfTypeOf,
    Val.pyType, PyType.isSub, Val.scalarEq]

theorem pf_finished : finishedMatch 1 pf = true := by
  simp [finishedMatch, evMatches, flowObj, toDict, keyStr, pf, lookup, returnKey,
    Match.refEvent, Match.FlowObj.matchEvent, Match.eventScore, Match.eventCore, Generated.C04.evFlowStarted,
    Generated.C04.internalEventsAll, Generated.C04.argumentFilter, Generated.C04.evStartFlow, Generated.C04.evFlowFinished,
    Generated.C04.evFlowFailed, Match.dictUpdate, Match.lookup, Match.score, Match.scoreDict, Val.isInstanceOfTypeOf,
    Val.pyType, PyType.isSub, Val.scalarEq, Match.setKey]

def s0 : St := { insts := [(0, { flowId := "main", arguments := [], context := [] })], next := 1 }
def fl : List (String × FlowDef) := [("fa", { params := [], rets := [], body := [.ret (.lit (.int 7))] })]

def f0 : Inst := { flowId := "fa", arguments := [], context := [] }
def f1 : Inst := { flowId := "fa", arguments := [], context := [], parent := some (uidVal 0) }
def s2 : St := { insts := [(0, { flowId := "main", arguments := [], context := [] }), (1, pf)], next := 2 }

/-- non-vacuity of `await_progress_partial`: `flow fa: return 7`, `main: $x = await fa` — all hypotheses hold
    (the two matches evaluated through the C04 matcher model) -/
example :
    findFlow "fa" fl = some { params := [], rets := [], body := [.ret (.lit (.int 7))] } ∧
    createFlowInstance "fa" [] [] (startArgs (userArgs s0.globals (s0.ctxOf 0) [] []) .await "fa" s0.next 0) = .ok f0 ∧
    startFlow false (startArgs (userArgs s0.globals (s0.ctxOf 0) [] []) .await "fa" s0.next 0) f0 = .ok f1 ∧
    exec fl 1 { s0 with insts := s0.insts ++ [(s0.next, f1)], next := s0.next + 1 } s0.next [.ret (.lit (.int 7))] = (s2, .finished) ∧
    findInst s0.next s2.insts = some pf ∧
    handshake (matchArgs (userArgs s2.globals (s2.ctxOf 0) [] []) "fa" s0.next) s0.next pf = true ∧
    finishedMatch s0.next pf = true ∧ lookup returnKey pf.context = some (.int 7) := by
  refine ⟨by simp [findFlow, fl], rfl, ?_, ?_, ?_, ?_, pf_finished, by simp [pf, lookup]⟩
  · simp [startFlow, startArgs, matchArgs, userArgs, posArgs, update, Bind.set, lookup, has, startLoop, keys, s0, f0, f1, uidVal]
  · simp [exec, s0, s2, f1, pf, St.setCtx, St.ctxOf, findInst, replaceInst, returnCtx, St.evalIn, eval, Bind.set, returnKey]
  · simp [s0, s2, findInst]
  · simpa [s0, s2, St.ctxOf, findInst] using pf_handshake
/-- **Progress of the caller, full strength for flows without parameters** (`$x = await f`): if the callee's
    synchronous run ends `finished` with `_return_value = v`, the `await` RETURNS: the caller continues with the
    statements after the call, in the state the callee left, and `$x` reads `v`.  The two internal-event matches
    are proved to succeed (`handshake_noargs`, `finishedMatch_noargs`: symbolic evaluation of the C04 matcher model
    for every flow name, uid, callee context and returned value), using that `exec` never changes an instance's
    `flowId` / `arguments` (`exec_sameShape`, induction over whole executions). -/
theorem await_progress_noargs (flows : List (String × FlowDef)) (fuel : Nat) (s : St) (u : Nat) (x flow : String)
    (rest : List Stmt) (body : List Stmt) (s2 : St) (v : Val) (hfresh : Fresh s)
    (hd : findFlow flow flows = some { params := [], rets := [], body := body })
    (hrun : exec flows fuel { s with insts := s.insts ++ [(s.next, { flowId := flow, arguments := [], context := [], parent := some (uidVal u) })], next := s.next + 1 }
        s.next body = (s2, .finished))
    (hret : lookup returnKey (s2.ctxOf s.next) = some v) :
    exec flows (fuel + 1) s u (.call .await (some x) flow [] [] :: rest) =
      exec flows fuel (s2.setCtx u (assignCtx x v s2.globals (s2.ctxOf u)).1 (assignCtx x v s2.globals (s2.ctxOf u)).2) u rest ∧
    evalVar (assignCtx x v s2.globals (s2.ctxOf u)).1 (assignCtx x v s2.globals (s2.ctxOf u)).2 x = v :=
  await_progress_noargs_core flows fuel s u x flow rest body s2 v hfresh hd hrun hret

/-- non-vacuity: `flow fa: return 7`, `main: $x = await fa` from the initial state -/
example : Fresh s0 ∧ findFlow "fa" fl = some { params := [], rets := [], body := [.ret (.lit (.int 7))] } ∧
    exec fl 1 { s0 with insts := s0.insts ++ [(s0.next, { flowId := "fa", arguments := [], context := [], parent := some (uidVal 0) })], next := s0.next + 1 }
      s0.next [.ret (.lit (.int 7))] = (s2, .finished) ∧
    lookup returnKey (s2.ctxOf s0.next) = some (.int 7) := by
  refine ⟨?_, by simp [findFlow, fl], ?_, ?_⟩
  · intro x hx; simp [uids, s0] at hx; simp [hx, s0]
  · simp [exec, s0, s2, pf, St.setCtx, St.ctxOf, findInst, replaceInst, returnCtx, St.evalIn, eval, Bind.set, returnKey]
  · simp [s0, s2, pf, St.ctxOf, findInst, lookup]

/-! ## Surplus positional arguments (observed behaviour, outside the statement): exact characterisation -/

/-- **Surplus positionals, exactly** (every signature with distinct names, every number `k` of contiguous
    positionals): the code as it is rejects the call iff `k > 2·n` — `_start_flow` enumerates
    `FlowState.arguments`, which holds the `n` parameter keys AND the `min k n` keys `$i` the second loop of
    `create_flow_instance` added, so its "one more than the last index" check only fires beyond `2n`.  For
    `n < k ≤ 2n` the call is accepted (the caller then waits forever: FlowStarted lacks `$n…`). -/
theorem surplus_positionals_exact (fid : String) (params rets : List Param) (ev : Ctx) (k : Nat)
    (h : PositionalCall params ev k) :
    ∃ f0, createFlowInstance fid params rets ev = .ok f0 ∧
      (2 * params.length < k → startFlow false ev f0 = .error .tooMany) ∧
      (k ≤ 2 * params.length → ∃ f, startFlow false ev f0 = .ok f) :=
  surplus_core fid params rets ev k h

/-- non-vacuity: `flow f $a` called with two positionals -/
example : PositionalCall [⟨"a", none⟩]
    [(.pos 0, .int 0), (.pos 1, .int 1), (.name "source_flow_instance_uid", .str "m"), (.name "source_head_uid", .str "h")] 2 := by
  refine ⟨by decide, by simp [lookup], by simp [lookup], by simp [lookup], ?_, ?_⟩
  · intro i hi
    have : i = 0 ∨ i = 1 := by omega
    rcases this with e | e <;> subst e <;> simp [lookup]
  · intro i hi
    have h0 : (Key.pos 0 = Key.pos i) = False := by
      simp only [Key.pos.injEq, eq_iff_iff, iff_false]; omega
    have h1 : (Key.pos 1 = Key.pos i) = False := by
      simp only [Key.pos.injEq, eq_iff_iff, iff_false]; omega
    simp [lookup, h0, h1]

/-- … and where the accepted surplus value goes: `flow f $a` called as `f(0, 1)` — the second positional
    lands in the callee's context under the key `$0` (the loop of `_start_flow` walks on over the `$i` keys of
    `arguments`). (finite fact, by evaluation) -/
theorem surplus_lands_under_positional_key_witness :
    ∃ f0 f, createFlowInstance "f" [⟨"a", none⟩] []
        [(.pos 0, .int 0), (.pos 1, .int 1), (.name "source_flow_instance_uid", .str "m"), (.name "source_head_uid", .str "h")] = .ok f0 ∧
      startFlow false
        [(.pos 0, .int 0), (.pos 1, .int 1), (.name "source_flow_instance_uid", .str "m"), (.name "source_head_uid", .str "h")] f0 = .ok f ∧
      lookup (.name "a") f.context = some (.int 0) ∧ lookup (.pos 0) f.context = some (.int 1) := by
  refine ⟨_, _, rfl, rfl, ?_, ?_⟩ <;>
    simp [Bind.set, lookup, bindNamed, bindPos, bindRet, startLoop, keys, argKey, reservedNames, paramOfKey, Param.dfltVal]

/-! ## Restart of an activated flow (open finding, fix proposed) -/

/-- Kernel-checked counterexample for the code as it is (open finding
    `default-not-reevaluated-on-activated-restart`): `flow fa $b=[]`, `activate fa` (argument omitted).  The
    first instance is bound to a fresh `[]` (cell 0); it executes `($b.append(1))`; when it finishes the
    interpreter restarts the flow with `FlowState.start_event` (`restartArgs`), which carries `b` = the
    finished instance's object: the restarted instance's `$b` is cell 0 = `[1]`, although a fresh default
    was allocated for it (cell 1 = `[]`, unused) and `defaults_fresh_call` would give `[]` for a call that
    omits `b`. (finite fact, by evaluation) -/
theorem restart_reuses_default_object_as_is_counterexample :
    let params : List Param := [⟨"b", some (.lit (.list []))⟩]
    let first : Inst := { flowId := "fa", arguments := [(.name "b", addr 0)], context := [(.name "b", addr 0)] }
    let heap : Heap := [.list [.int 1]]                      -- after `($b.append(1))`
    let ps := allocDefaults heap params
    ∃ f0 f, createFlowInstance "fa" ps.2 [] (restartArgs first (.str "#2") (.str "#0")) = .ok f0 ∧
      startFlow false (restartArgs first (.str "#2") (.str "#0")) f0 = .ok f ∧
      lookup (.name "b") (derefCtx ps.1 f.context) = some (.list [.int 1]) ∧
      (params[0]'(by decide)).dfltVal = .list [] := by
  refine ⟨_, _, rfl, rfl, ?_, ?_⟩ <;>
    simp [restartArgs, update, Bind.set, lookup, bindNamed, bindPos, bindRet, startLoop, keys, allocDefaults,
      derefCtx, deref, addr, argKey, reservedNames, Param.dfltVal, eval]

/-- the same scenario with the proposed repair (`restartArgsRepaired`, `default_argument_keys = ["b"]`): the
    restarted instance is bound to the fresh default. (finite fact, by evaluation) -/
theorem restart_repaired_witness :
    let params : List Param := [⟨"b", some (.lit (.list []))⟩]
    let first : Inst := { flowId := "fa", arguments := [(.name "b", addr 0)], context := [(.name "b", addr 0)] }
    let heap : Heap := [.list [.int 1]]
    let ps := allocDefaults heap params
    ∃ f0 f, createFlowInstance "fa" ps.2 [] (restartArgsRepaired first [.name "b"] (.str "#2") (.str "#0")) = .ok f0 ∧
      startFlow false (restartArgsRepaired first [.name "b"] (.str "#2") (.str "#0")) f0 = .ok f ∧
      lookup (.name "b") (derefCtx ps.1 f.context) = some (.list []) := by
  refine ⟨_, _, rfl, rfl, ?_⟩
  simp [restartArgsRepaired, update, Bind.set, lookup, bindNamed, bindPos, bindRet, startLoop, keys, allocDefaults,
    derefCtx, deref, addr, argKey, reservedNames, Param.dfltVal, eval]

end NemoVerif.C08
