import NemoVerif.Lemmas.Bind
namespace NemoVerif.C08
open NemoVerif NemoVerif.Bind

theorem placeholder (k : Key) (v : Val) (c : Ctx) : lookup k (set k v c) = some v := lookup_set_eq k v c

end NemoVerif.C08
