/-
  C12 — compiled flows are closed: every jump target exists and only primitives remain.
  Property theorems only (helper lemmas live in Lemmas/{Closed,V1Compile,Expand}.lean).

  Three layers:
   (A) the two CHECKERS that the harness runs (through the driver) on the output of the real compilers for
       every generated program and every shipped .co file are proved to decide the declarative properties
       (`closed_checker_correct`, `offsets_checker_correct`), and the declarative property is proved to have
       the run-time meaning "no label look-up of `slide` fails" (`closed_safe`, `closed_reachable_safe`);
   (B) the Colang 1.0 compiler model produces in-bounds offsets for EVERY item tree (`v1_offsets_in_bounds`);
   (C) the Colang 2.x expansion model (if / elif / else, while / break / continue) produces closed programs with
       pairwise distinct labels for EVERY statement list (`expand_closed`, `expand_labels_nodup`).
-/
import NemoVerif.Lemmas.Closed
import NemoVerif.Lemmas.V1Compile
import NemoVerif.Lemmas.V1Load
import NemoVerif.Lemmas.Expand
import NemoVerif.Lemmas.ExpandPath
import NemoVerif.Lemmas.ExpandInPlace
import NemoVerif.Lemmas.ExpandNames
namespace NemoVerif.C12
open NemoVerif NemoVerif.Closed NemoVerif.V1Compile NemoVerif.Expand

/-! ## (A) Colang 2.x: the verified checker -/

/-- The executable checker decides closedness (for any label type with decidable equality). -/
theorem closed_checker_correct {L : Type} [DecidableEq L] (p : List (Prim L)) : closed p = true ↔ Closed p :=
  closed_iff p

/-- `initialize_flow`'s label table answers with the position of the LAST `Label l` (duplicates are allowed,
    the last occurrence wins exactly like `element_labels.update`), and finds every defined label. -/
theorem label_lookup_last {L : Type} [DecidableEq L] (p : List (Prim L)) (l : L) (h : Prim.label l ∈ p) :
    ∃ i, lookupLabel p l = some i ∧ i < p.length ∧ p[i]? = some (.label l) ∧
      ∀ j, i < j → p[j]? ≠ some (.label l) :=
  lookupLabel_of_mem p l h

/-- Run-time meaning of "closed", one step: for a closed program and a head that is inside the flow and whose
    failure-handler stack only holds defined labels, the look-ups performed by `slide` for Goto / ForkHead / Abort /
    Break / Continue never raise `KeyError`, never hit the "Invalid label" fall-through, and every continuing head
    is again inside the flow (`pos ≤ len`) with a stack of defined labels. -/
theorem closed_safe {L : Type} [DecidableEq L] (p : List (Prim L)) (hc : Closed p) (h : Head L) (hh : HeadOK p h) (c : Bool) :
    match step p h c with
    | .next hs => ∀ h' ∈ hs, HeadOK p h'
    | .keyError => False
    | .invalidLabel => False
    | _ => True :=
  step_safe p hc h hh c

/-- Run-time meaning of "closed", all executions: from the start of a closed flow, along every sequence of steps
    and every outcome of the conditions, no look-up ever fails. -/
theorem closed_reachable_safe {L : Type} [DecidableEq L] (p : List (Prim L)) (hc : Closed p) (h : Head L)
    (hr : Reach p h) (c : Bool) : step p h c ≠ .keyError ∧ step p h c ≠ .invalidLabel ∧ h.pos ≤ p.length := by
  have hok := reach_ok p hc h hr
  have := closed_safe p hc h hok c
  refine ⟨?_, ?_, hok.1⟩
  · intro hk; rw [hk] at this; exact this
  · intro hk; rw [hk] at this; exact this

/-- an unconditional `Goto` (`Prim.jump`, expression = the constant True) never falls through: the step does not depend on
    the outcome of any condition, and on a closed program it lands right behind the (last) label it names -/
theorem jump_unconditional {L : Type} [DecidableEq L] (p : List (Prim L)) (hc : Closed p) (h : Head L) (l : L)
    (hp : p[h.pos]? = some (.jump l)) :
    step p h true = step p h false ∧
    ∃ i, lookupLabel p l = some i ∧ p[i]? = some (.label l) ∧ step p h true = .next [{ h with pos := i + 1 }] := by
  obtain ⟨i, h1, _, h3, _⟩ := lookupLabel_of_mem p l (hc.targets _ (List.mem_of_getElem? hp) l (by simp [Prim.targets]))
  refine ⟨by unfold step; simp [hp], i, h1, h3, ?_⟩
  unfold step; simp [hp, h1]

/-- non-vacuity: the loop template (finite fact) -/
example : (step ([.label "b", .goto "e", .jump "b", .label "e"] : List (Prim String)) ⟨2, [], []⟩ false) = .next [⟨1, [], []⟩] ∧
    (step ([.label "b", .goto "e", .jump "b", .label "e"] : List (Prim String)) ⟨1, [], []⟩ false) = .next [⟨2, [], []⟩] := by
  decide

/-- a jump lands right behind the label it names -/
theorem closed_jump_lands {L : Type} [DecidableEq L] (p : List (Prim L)) (hc : Closed p) (e : Prim L) (he : e ∈ p)
    (l : L) (hl : l ∈ e.targets) : ∃ i, lookupLabel p l = some i ∧ i + 1 ≤ p.length ∧ p[i]? = some (.label l) := by
  obtain ⟨i, h1, h2, h3, _⟩ := lookupLabel_of_mem p l (hc.targets e he l hl)
  exact ⟨i, h1, h2, h3⟩

/-- non-vacuity: the `when`-shaped program with a DUPLICATE end label is closed, its jump resolves to the last copy
    (finite fact, by evaluation) -/
example : closed ([.beginScope "s", .fork "f" ["a"], .label "a", .catchFail (some "fail"), .goto "end", .label "end",
    .merge "f", .catchFail none, .endScope "s", .goto "end", .label "fail", .abort, .label "end"] : List (Prim String)) = true ∧
    lookupLabel ([.label "end", .goto "end", .label "end"] : List (Prim String)) "end" = some 2 := by
  decide

/-- the checker rejects a dangling goto, a left-over composite, a merge without fork, an unopened / unclosed scope
    (finite facts, by evaluation) -/
example : closed ([.goto "x"] : List (Prim String)) = false ∧
    closed ([.composite "if"] : List (Prim String)) = false ∧
    closed ([.specOp "await" false false] : List (Prim String)) = false ∧
    closed ([.merge "f"] : List (Prim String)) = false ∧
    closed ([.endScope "s", .beginScope "s"] : List (Prim String)) = false ∧
    closed ([.fork "f" ["a"], .label "b"] : List (Prim String)) = false := by
  decide

/-! ### Open finding `2.x:scope-reopened` (known_findings.json): scopes per execution path

  Full statement one would like (NOT true for the code as it is):
      ∀ p, Closed p → ∀ h, Reach p h → ∀ c, step p h c ≠ .scopeError
  i.e. no head ever meets `BeginScope(n)` while it still holds `n`.  `Closed` pairs BeginScope / EndScope on the
  linear element order only; `_expand_when_stmt_element` closes the scope on every case path but not on the else
  path, so inside a loop the same BeginScope is met again.  The program below is the real expansion (labels
  shortened) of  `while c: when Ev(): <then>  else: <else>`. -/

def whenElseInLoop : List (Prim String) := Closed.whenElseInLoop

example : whenElseInLoop =
  [.label "wb", .goto "we",
   .beginScope "s", .fork "cf" ["init_a"],
   .label "init_a", .catchFail (some "fail_a"), .fork "gf" ["group_a_0"],
   .label "group_a_0", .specOp "match" false false, .jump "case_a",
   .label "case_a", .merge "cf", .catchFail none, .endScope "s", .specOp "send" false false, .jump "when_end",
   .label "fail_a", .waitHeads 1, .catchFail none, .jump "when_else",
   .label "when_else", .waitHeads 1, .jump "when_else_stmt",
   .label "when_else_stmt", .specOp "send" false false,
   .label "when_end",
   .jump "wb", .label "we"] := rfl

/-- The code as it is: the expansion of `when … else` inside `while` passes the (linear) closedness check, and yet
    the head that took the else branch reaches the BeginScope again while still holding the scope —
    `slide` raises "Scope … already opened in this head" (concrete witness, by evaluation). -/
theorem when_else_scope_as_is_counterexample :
    closed whenElseInLoop = true ∧
    ∃ h, Reach whenElseInLoop h ∧ step whenElseInLoop h true = .scopeError := by
  refine ⟨by decide, ?_⟩
  have hp : runPath whenElseInLoop { pos := 0, handlers := [], scopes := [] }
      [(true, 0), (false, 0), (true, 0), (true, 0), (true, 0), (true, 0), (true, 0), (true, 0), (false, 0),
       (true, 0), (true, 0), (true, 0), (true, 0), (true, 0), (true, 0), (true, 0), (true, 0), (true, 0), (false, 0)]
      = some { pos := 2, handlers := [], scopes := ["s"] } := by decide
  exact ⟨_, runPath_reach _ _ _ _ Reach.start hp, by decide⟩

/-- Partial statement, excluding exactly the finding's region (programs that open scopes: `when`, await-groups):
    a program without BeginScope never raises the scope error. -/
theorem scope_safe_partial {L : Type} [DecidableEq L] (p : List (Prim L)) (hns : ∀ n, Prim.beginScope n ∉ p)
    (h : Head L) (c : Bool) : step p h c ≠ .scopeError := by
  unfold step
  cases hp : p[h.pos]? with
  | none => simp
  | some e =>
    have hmem : e ∈ p := List.mem_of_getElem? hp
    cases e with
    | beginScope n => exact absurd hmem (hns n)
    | goto l =>
      cases c with
      | true => simp only [if_true]; cases lookupLabel p l <;> simp
      | false => simp
    | jump l => simp only; cases lookupLabel p l <;> simp
    | fork u ls => simp only; cases lookupAll p ls <;> simp
    | abort => simp only; cases h.handlers <;> simp [jumpTo] <;> (rename_i l _; cases lookupLabel p l <;> simp)
    | brk o => cases o <;> simp [jumpTo] <;> (rename_i l; cases lookupLabel p l <;> simp)
    | cont o => cases o <;> simp [jumpTo] <;> (rename_i l; cases lookupLabel p l <;> simp)
    | catchFail o => cases o <;> simp <;> cases h.handlers <;> simp
    | specOp op g rv =>
      cases c with
      | true => simp
      | false => simp only; cases h.handlers <;> simp <;> (rename_i l _; cases lookupLabel p l <;> simp)
    | _ => simp

/-- non-vacuity of `scope_safe_partial`'s hypothesis: a loop program without scopes -/
example : ∀ n, Prim.beginScope n ∉ ([.label "b", .goto "e", .brk (some "e"), .goto "b", .label "e"] : List (Prim String)) := by
  intro n; simp

/-! ### Path-level safety ("every opened scope is closed on every path") by a checked certificate

  `pathSafe p fuel` searches a finite set of heads and CHECKS that it contains the start head, is closed under every
  step of the look-up model and contains no failing step.  The check is the proof: -/

/-- If the path checker accepts a program then on EVERY execution (any branch outcomes, any fork child, success or
    failure of every match) no label look-up fails and no head meets `BeginScope(n)` while it still holds `n`
    (the `ColangRuntimeError` "Scope … already opened in this head" of the when/else defect). -/
theorem path_checker_sound {L : Type} [DecidableEq L] (p : List (Prim L)) (fuel : Nat) (hs : pathSafe p fuel = true)
    (h : Head L) (hr : Reach p h) (c : Bool) :
    step p h c ≠ .keyError ∧ step p h c ≠ .invalidLabel ∧ step p h c ≠ .scopeError :=
  (closedUnder_sound p _ hs h hr).2 c

/-- the unrepaired `when … else` in a loop is rejected by the path checker, the repaired expansion (model of /repo
    3c50707, with a flow-starting case, nested in a loop) is accepted (finite facts, by evaluation) -/
example : pathSafe whenElseInLoop 500 = false ∧
    pathSafe (expandFlow [.whileS [.whenS [[[⟨.ev, false⟩, ⟨.flow, true⟩]], [[⟨.action, false⟩]]] [[.brk], [.send]] [.cont] true]]) 2000 = true := by
  decide

/-! ## (A) Colang 1.0: the verified checker -/

/-- The executable checker decides "every relative jump / branch offset lands inside the flow, the fields `slide`
    reads without default are present, no raw sub-structure and no unresolved label / goto is left". -/
theorem offsets_checker_correct (es : List Elem) : v1Closed es = true ↔ OffsetsInBounds es ∧ Resolved es :=
  v1Closed_iff es

/-- what `OffsetsInBounds` says, spelled out for the offsets `slide` adds to the head -/
theorem offsets_in_bounds_meaning (es : List Elem) (h : OffsetsInBounds es) (i : Nat) (e : Elem) (hi : es[i]? = some e) :
    (∀ off, e.absolute = false → e.next = some off → 0 ≤ (i : Int) + off ∧ (i : Int) + off ≤ es.length) ∧
    (∀ off, e.nextElse = some off → 0 ≤ (i : Int) + off ∧ (i : Int) + off ≤ es.length) ∧
    (∀ off, e.onBreak = some off → 0 ≤ (i : Int) + off ∧ (i : Int) + off ≤ es.length) ∧
    (∀ off, e.onContinue = some off → 0 ≤ (i : Int) + off ∧ (i : Int) + off ≤ es.length) ∧
    (∀ off ∈ e.branchHeads, 0 ≤ (i : Int) + off ∧ (i : Int) + off < es.length) := by
  have hk := h i e hi
  simp only [Nat.zero_add] at hk
  refine ⟨?_, hk.nextElse, hk.onBreak, hk.onContinue, hk.heads⟩
  intro off ha hn
  have := hk.next off hn
  rw [ha] at this
  exact this

/-! ## (B) Colang 1.0: the compiler model -/

/-- `_extract_elements` (if / else, while with break / continue offsets, branch blocks, any, return, label, goto):
    every offset lands in `[0, len]`, every branch head strictly inside — for ALL item trees. -/
theorem v1_extract_in_bounds (items : List Item) : OffsetsInBounds (compile items) :=
  compile_ok items

/-- `parse_flow_elements` = `_extract_elements` ; `_resolve_gotos` ; `_process_ellipsis`: whenever the compiler
    accepts the flow (no undefined / duplicate checkpoint), the result passes the checker's property. -/
theorem v1_offsets_in_bounds (items : List Item) (es : List Elem) (h : compileFull items = .ok es) :
    OffsetsInBounds es ∧ Resolved es := by
  unfold compileFull at h
  cases hr : resolveGotos (compile items) with
  | error m => rw [hr] at h; cases h
  | ok es0 =>
    rw [hr] at h
    cases h
    obtain ⟨h1, h2⟩ := resolveGotos_ok _ _ hr (compile_ok items)
    exact processEllipsis_ok es0 h1 h2

/-- `v1_goto_resolved`: in every flow `parse_flow_elements` accepts, a `goto n` at index `i` of the extracted list
    has a checkpoint `label n` at some index `k` of the same flow, and in the result it is the relative jump with
    `i + _next = k` — it lands exactly on (the jump that replaced) its label.  In particular a goto to an undefined
    checkpoint is never left dangling: the flow is rejected (`v1_undefined_goto_rejected`). -/
theorem v1_goto_resolved (items : List Item) (es : List Elem) (h : compileFull items = .ok es) (i : Nat) (e : Elem)
    (hi : (compile items)[i]? = some e) (hg : e.kind = .goto) :
    ∃ (n : String) (k : Nat) (e' lab : Elem), e.name = some n ∧ es[i]? = some e' ∧ e'.kind = .jump ∧
      e'.absolute = false ∧ e'.next = some ((k : Int) - (i : Int)) ∧ (i : Int) + ((k : Int) - (i : Int)) = k ∧
      (compile items)[k]? = some lab ∧ lab.kind = .label ∧ lab.name = some n := by
  unfold compileFull at h
  cases hr : resolveGotos (compile items) with
  | error m => rw [hr] at h; cases h
  | ok es0 =>
    rw [hr] at h
    cases h
    obtain ⟨n, k, e', lab, h1, h2, h3, h4, h5, h6, h7⟩ := resolveGotos_lands _ _ hr i e hi hg
    have hab : e'.absolute = false := by
      have hok := (resolveGotos_ok _ _ hr (compile_ok items)).1
      -- the source goto is not absolute (only `return` is), `_resolve_gotos` does not touch the flag
      cases hb : e'.absolute with
      | false => rfl
      | true =>
        exfalso
        have hsrc := (compile_ok items) i e hi
        cases hbe : e.absolute with
        | true => have := hsrc.absJump hbe; rw [hg] at this; cases this
        | false =>
          -- e' = { e with kind := jump, next := .. } : same flag
          have := resolveGotos_flag _ _ hr i e e' hi h2
          rw [this, hbe] at hb; cases hb
    exact ⟨n, k, e', lab, h1, processEllipsis_keeps_jump es0 i e' h2 h3, h3, hab, h4, by omega, h5, h6, h7⟩

/-- a goto whose checkpoint is not defined in the flow makes the compiler reject the flow -/
theorem v1_undefined_goto_rejected (items : List Item) (i : Nat) (e : Elem) (n : String)
    (hi : (compile items)[i]? = some e) (hg : e.kind = .goto) (hn : e.name = some n)
    (hundef : ∀ (k : Nat) (lab : Elem), (compile items)[k]? = some lab → lab.kind = .label → lab.name ≠ some n) :
    ∃ m, compileFull items = .error m := by
  cases hc : compileFull items with
  | error m => exact ⟨m, rfl⟩
  | ok es =>
    obtain ⟨n', k, _, lab, h1, _, _, _, _, _, h5, h6, h7⟩ := v1_goto_resolved items es hc i e hi hg
    rw [hn] at h1; cases h1
    exact absurd h7 (hundef k lab h5 h6)

/-- Flows added at run time (`_process_start_flow`, multi-step generation): the generated body is compiled like any flow
    and a `start_flow` element is inserted IN FRONT of the already computed offsets — all offsets are relative (absolute
    jumps are `-1`), so the result still passes the checker's property. -/
theorem v1_dynamic_flow_in_bounds (items : List Item) (es : List Elem) (h : dynamicFlow items = .ok es) :
    OffsetsInBounds es ∧ Resolved es := by
  unfold dynamicFlow at h
  cases hc : compileFull items with
  | error m => rw [hc] at h; cases h
  | ok es0 =>
    rw [hc] at h
    cases h
    obtain ⟨h1, h2⟩ := v1_offsets_in_bounds items es0 hc
    exact prepend_plain_ok es0 h1 h2

/-! ### phase 5 — the flow the RUNTIME holds (`RuntimeV1_0._load_flow_config`) -/

/-- `v1_loaded_leading_meta`: for a flow with a flow-level `meta` element (subflow / extension / priority / any `meta`
    statement of the flow body — `_parse_meta` hoists it to position 0), the elements the runtime holds after
    `_load_flow_config` sliced it off are EXACTLY what `parse_flow_elements` returns for the flow without it: relative
    offsets do not depend on where the flow starts, and nothing refers to the position of the removed element. -/
theorem v1_loaded_leading_meta (rest : List Item) : loadedFlow (.simple "meta" :: rest) = compileFull rest := by
  unfold loadedFlow
  rw [compileFull_meta_cons]
  cases compileFull rest with
  | error m => rfl
  | ok es => simp [Except.map, loadFlow, isMeta, metaElem, metaKind]

/-- `v1_loaded_other_unchanged`: a flow that does not begin with a `meta` item is held by the runtime exactly as
    `parse_flow_elements` returned it — in particular a `meta` element at the head of an `if` / `while` / `when` block,
    which the offsets spanning it count, is NOT removed. -/
theorem v1_loaded_other_unchanged (items : List Item) (h : ∀ rest, items ≠ .simple "meta" :: rest) :
    loadedFlow items = compileFull items := by
  unfold loadedFlow
  cases hc : compileFull items with
  | error m => rfl
  | ok es =>
    cases items with
    | nil =>
      have : compileFull [] = .ok [] := rfl
      rw [this] at hc
      cases hc
      rfl
    | cons it rest =>
      obtain ⟨c, cs, hcc, hmeta⟩ := compile_cons_head it rest
      obtain ⟨e, r, he, hm⟩ := compileFull_head _ c cs es hcc hc
      subst he
      cases hme : isMeta e with
      | true => exact absurd (by rw [hmeta (hm hme)]) (h rest)
      | false => simp [loadFlow, hme]

/-- `v1_loaded_in_bounds` (the C12 statement for Colang 1.0 on what the runtime EXECUTES): for every item tree the
    loader accepts, every relative jump / else / break / continue / branch offset of the flow held in
    `runtime.flow_configs` lands inside that flow, and no label / goto is left. -/
theorem v1_loaded_in_bounds (items : List Item) (es : List Elem) (h : loadedFlow items = .ok es) :
    OffsetsInBounds es ∧ Resolved es := by
  by_cases hm : ∃ rest, items = .simple "meta" :: rest
  · obtain ⟨rest, rfl⟩ := hm
    rw [v1_loaded_leading_meta] at h
    exact v1_offsets_in_bounds rest es h
  · have h' : ∀ rest, items ≠ .simple "meta" :: rest := fun rest he => hm ⟨rest, he⟩
    rw [v1_loaded_other_unchanged items h'] at h
    exact v1_offsets_in_bounds items es h

/-- `v1_dynamic_loaded_in_bounds`: a flow added at run time goes through the same loader (`_process_start_flow` calls
    `_load_flow_config` on `start_flow :: parse_flow_elements body`); its first element is the `start_flow` element, so the
    loader keeps the list as it is — also when the generated body begins with a `meta` / `priority` statement — and every
    offset of the flow the runtime holds is in bounds. -/
theorem v1_dynamic_loaded_in_bounds (items : List Item) (es : List Elem) (h : dynamicFlow items = .ok es) :
    loadFlow es = es ∧ OffsetsInBounds (loadFlow es) ∧ Resolved (loadFlow es) := by
  have hb := v1_dynamic_flow_in_bounds items es h
  unfold dynamicFlow at h
  cases hc : compileFull items with
  | error m => rw [hc] at h; cases h
  | ok es0 =>
    rw [hc] at h
    cases h
    have : loadFlow (startFlowElem :: es0) = startFlowElem :: es0 := by
      simp [loadFlow, isMeta, startFlowElem, metaKind]
    rw [this]
    exact ⟨rfl, hb⟩

/-- non-vacuity: a subflow-like flow (leading meta) that STARTS with a loop whose body has its own meta element and an
    `if` with a nested meta that ENDS the flow: accepted, the loader removes exactly the leading element (7 of 8 stay),
    the nested meta elements are still there (finite fact, by evaluation) -/
example : (match loadedFlow [.simple "meta", .whileS [.simple "meta", .simple "set"], .ifS [.simple "meta", .simple "run_action"] []] with
    | .ok es => v1Closed es && es.length == 7 && (es.filter isMeta).length == 2
    | .error _ => false) = true := by
  decide

/-- `filter_all_meta_counterexample` (seeded change C12-d; NOT the code as it is): a loader that filters out EVERY
    `meta` element after the offsets were computed does not preserve the property — for `user …; if …: meta; bot …`
    the compiled flow is in bounds, the filtered flow has an `if` whose `_next_else` lands on `len + 1`. -/
theorem filter_all_meta_counterexample :
    ∃ items es, compileFull items = .ok es ∧ v1Closed es = true ∧ v1Closed (loadFlowFilterAll es) = false :=
  ⟨[.simple "UserIntent", .ifS [.simple "meta", .simple "run_action"] []],
   [{ kind := .simple "UserIntent" }, { kind := .ifK, nextElse := some 3 }, { kind := .simple "meta" }, { kind := .simple "run_action" }],
   rfl, by decide, by decide⟩

/-- non-vacuity: a generated body with a loop and a break (finite fact, by evaluation) -/
example : (match dynamicFlow [.simple "UserIntent", .whileS [.ifS [.simple "break"] [], .simple "run_action"]] with
    | .ok es => v1Closed es && es.length == 7
    | .error _ => false) = true := by
  decide

/-- non-vacuity: a backward and a forward goto (finite fact, by evaluation) -/
example : (match compileFull [.label "a", .goto "b", .simple "user", .label "b", .goto "a"] with
    | .ok es => es.map (·.next) == [some 1, some 2, none, some 1, some (-4)]
    | .error _ => false) = true ∧
    (match compileFull [.goto "nowhere"] with | .ok _ => false | .error _ => true) = true := by
  decide

/-- non-vacuity: a nested while / if-else / break / goto program compiles and passes (finite fact, by evaluation) -/
example : (match compileFull [.label "top", .whileS [.ifS [.simple "break"] [.simple "continue"], .simple "user"],
      .branches [[.simple "user"], [.simple "user", .goto "top"]], .ret] with
    | .ok es => v1Closed es && es.length == 15
    | .error _ => false) = true := by
  decide

/-- the checker rejects an off-by-one `_next_else` that leaves the flow and a branch head on the end (finite facts) -/
example : v1Closed [{ kind := .ifK, nextElse := some 2 }] = false ∧
    v1Closed [{ kind := .branch, branchHeads := [1] }] = false ∧
    v1Closed [{ kind := .ifK }] = false ∧ v1Closed [{ kind := .goto, name := some "x" }] = false := by
  decide

/-! ## (C) Colang 2.x: the expansion model

  Source language: if / elif / else, while / break / continue, `match` / `send` / `start` / `await` of single specs and
  of and/or groups (fork / merge / wait templates), `activate` / `deactivate`, NLD assignment, `when / or when / else`
  (with the repaired else path of /repo 3c50707: MergeHeads + EndScope).  `wfList` only asks for what the parser
  guarantees (a `when` has ≥ 1 case, one then-body per case, every case ≥ 1 group). -/

/-- The expansion of ANY well-formed statement list (arbitrary nesting) is closed: every goto / fork / failure-handler /
    break / continue target is a label of the same flow (a `break` / `continue` outside any loop keeps `label = None`),
    only primitives remain, every MergeHeads has its ForkHead before it, every EndScope a BeginScope before it and every
    BeginScope an EndScope after it. -/
theorem expand_closed (ss : List Stmt) (hwf : wfList ss = true) : Closed (expandFlow ss) :=
  closed_of_inv _ 0 (expand_inv none ss 0 hwf)

/-- hence the proved checker accepts it … -/
theorem expand_checker_accepts (ss : List Stmt) (hwf : wfList ss = true) : closed (expandFlow ss) = true :=
  (closed_checker_correct _).2 (expand_closed ss hwf)

/-- … and no label look-up of `slide` / `run_to_completion` fails on any execution of the expanded flow. -/
theorem expand_safe (ss : List Stmt) (hwf : wfList ss = true) (h : Head Lbl) (hr : Reach (expandFlow ss) h) (c : Bool) :
    step (expandFlow ss) h c ≠ .keyError ∧ step (expandFlow ss) h c ≠ .invalidLabel ∧ h.pos ≤ (expandFlow ss).length :=
  closed_reachable_safe _ (expand_closed ss hwf) h hr c

/-- Fresh-label lemma for the uid counter: every label defined while expanding `ss` from counter value `c` carries a
    counter value in `[c, c')` where `c'` is the counter afterwards — labels of consecutive / nested expansions (and of
    the several copies the compiler makes of a then- / else-body) never collide. -/
theorem expand_labels_fresh (cb : Option (Lbl × Lbl)) (ss : List Stmt) (hwf : wfList ss = true) (c : Nat) (l : Lbl)
    (h : Prim.label l ∈ (expand cb ss c).1) : c ≤ l.2 ∧ l.2 < (expand cb ss c).2 :=
  (expand_inv cb ss c hwf).fresh l h

/-- every template on its own: the fork / merge / wait templates (match and-groups, or-groups, await or-groups with
    their scope) over arbitrary closed branch bodies are closed pieces -/
theorem fork_template_closed (v : Variant) (pre : Nat → String) (gens : List Gen) (hg : ∀ g ∈ gens, GenOK [] g) (c : Nat) :
    Closed (forkTemplate v pre gens c).1 :=
  closed_of_inv _ c (forkTemplate_ok [] v pre gens hg c)

/-! ### Re-compilation of the same parsed flow (phase 4) — open finding `2.x:dangling-target@recompiled-ast`

  C12 speaks about every compiled flow the runtime ever executes.  The parsed flows of a `RailsConfig` are compiled once per
  runtime created from it, and `expand_elements` writes the loop labels INTO the parsed `Break` / `Continue` elements
  (`Models/ExpandInPlace.lean`: `expandA ip`, the label slots of the AST are state; `recompile ip ss k sl c` = the
  `k+1`-st compilation).  Full statement one would like for the code as it is (`ip = true`) — NOT true:
      ∀ ss, wfList ss → ∀ k sl c, Unlabelled sl → Closed (recompile true ss k sl c).1 -/

/-- The code as it is: the first compilation of `while c: if d: break` is closed, the second compilation of the same
    parsed flow is not — the `Break` keeps the `_while_end_` label of the first compilation, which the second one does
    not define (finite witness, by evaluation; replayed on the real code by harness/corpus/C12/runtime_histories.json). -/
theorem recompile_as_is_counterexample :
    wfList [.whileS [.ifS [.brk] []]] = true ∧
    closed (recompile true [.whileS [.ifS [.brk] []]] 0 [none] 0).1 = true ∧
    closed (recompile true [.whileS [.ifS [.brk] []]] 1 [none] 0).1 = false ∧
    (recompile true [.whileS [.ifS [.brk] []]] 1 [none] 0).1 =
      [.label ("_while_begin_", 3), .goto ("_while_end_", 3), .goto ("if_end_label_", 5),
       .brk (some ("_while_end_", 0)), .label ("if_end_label_", 5), .jump ("_while_begin_", 3), .label ("_while_end_", 3)] := by
  decide

/-- Both modes: the FIRST compilation of a freshly parsed flow (no label set) is the expansion `Models/Expand.lean`
    describes, so everything proved about `expand` holds for it. -/
theorem recompile_first_is_expand (ip : Bool) (ss : List Stmt) (sl : Slots) (c : Nat) (h : Unlabelled sl) :
    (recompile ip ss 0 sl c).1 = (expand none ss c).1 :=
  recompile_first ip ss sl c h

/-- The repaired compiler (fixes/C12-loop-exit-label-in-place.diff: the label goes into a NEW Break / Continue element):
    EVERY compilation of the same parsed flow — the first, the second, the `k+1`-st, from whatever value the uid counter
    has reached — is closed, for every well-formed program of the modelled grammar. -/
theorem recompile_closed (ss : List Stmt) (hwf : wfList ss = true) (k : Nat) (sl : Slots) (c : Nat) (h : Unlabelled sl) :
    Closed (recompile false ss k sl c).1 :=
  recompile_repaired_closed ss hwf k sl c h

/-- non-vacuity: the witness program of the finding, third compilation, repaired mode (finite fact, by evaluation) -/
example : wfList [.whileS [.ifS [.brk] [.cont]]] = true ∧ Unlabelled [none, none] ∧
    closed (recompile false [.whileS [.ifS [.brk] [.cont]]] 2 [none, none] 0).1 = true ∧
    (recompile false [.whileS [.ifS [.brk] [.cont]]] 2 [none, none] 0).1.contains (.brk (some ("_while_end_", 6))) = true := by
  refine ⟨by decide, ?_, by decide, by decide⟩
  intro o ho; simpa using ho

/-- The repaired compiler leaves the parsed AST exactly as it found it (whatever labels the slots hold): no compilation
    can change what another runtime, which shares the parsed elements, executes (history class `@clobbered`). -/
theorem recompile_repaired_ast_unchanged (cb : Option (Lbl × Lbl)) (ss : List Stmt) (sl : Slots) (c : Nat)
    (h : nslots ss ≤ sl.length) : (expandA false cb ss sl c).2.1 ++ (expandA false cb ss sl c).2.2 = sl :=
  expandA_repaired_ast_unchanged cb ss sl c h

/-- The code as it is only FILLS slots: a label that is set in the parsed AST is never changed by a later compilation
    (`Keeps`), so the flows an earlier runtime compiled keep their targets — the defect hits the later runtime only. -/
theorem recompile_as_is_labels_kept (cb : Option (Lbl × Lbl)) (ss : List Stmt) (sl : Slots) (c : Nat)
    (h : nslots ss ≤ sl.length) : Keeps sl ((expandA true cb ss sl c).2.1 ++ (expandA true cb ss sl c).2.2) :=
  expandA_as_is_labels_kept cb ss sl c h

/-- non-vacuity: two exits, one slot already labelled (finite facts, by evaluation) -/
example : nslots [.whileS [.ifS [.brk] [.cont]]] ≤ [some ("_while_end_", 0), none].length ∧
    (expandA true none [.whileS [.ifS [.brk] [.cont]]] [some ("_while_end_", 0), none] 7).2.1 =
      [some ("_while_end_", 0), some ("_while_begin_", 7)] := by
  decide

/-- Partial statement for the code AS IT IS, excluding exactly the finding's region (`exitFree false ss`: no `break` /
    `continue` under a `while`, directly or through `if`): every compilation of the same parsed flow is closed. -/
theorem recompile_as_is_closed_partial (ss : List Stmt) (hwf : wfList ss = true) (he : exitFree false ss = true)
    (k : Nat) (sl : Slots) (c : Nat) (h : Unlabelled sl) : Closed (recompile true ss k sl c).1 :=
  recompile_as_is_exitFree_closed ss hwf he k sl c h

/-- non-vacuity: a `break` outside any loop (its label stays None) and a loop without exits (finite facts) -/
example : wfList [.ifS [.brk] [], .whileS [.send, .awaitG [[⟨.flow, false⟩], [⟨.action, false⟩]]]] = true ∧
    exitFree false [.ifS [.brk] [], .whileS [.send, .awaitG [[⟨.flow, false⟩], [⟨.action, false⟩]]]] = true ∧
    exitFree false [.whileS [.ifS [.brk] []]] = false := by decide

/-! ### Names of generated labels against user labels (phase 4)

  `FlowConfig.element_labels` is ONE name space for the labels the compiler generates and the labels the user writes
  (`my_label:`).  The model keeps generated labels as `(prefix, uid)`; `render` is the name.  `stems` lists the fixed
  beginnings of all generated names.  Hypothesis on user labels, explicit and executable: `userLabelOK u` — no stem is a
  prefix of `u` (run by the harness, through the driver, on every user label of every real program; the stems are checked
  against every generated label of the real compiler). -/

/-- every label defined by ANY expansion (any nesting, any loop context, any counter value) has a name that begins with
    one of the reserved stems -/
theorem expand_labels_stemmed (cb : Option (Lbl × Lbl)) (ss : List Stmt) (c : Nat) (l : Lbl)
    (h : Prim.label l ∈ (expand cb ss c).1) : Stemmed (render l) :=
  stemmed_render l (expand_lab cb ss c l h)

/-- fresh-name discipline: a user label that respects `userLabelOK` is different from the name of every label the
    expansion of a flow defines and from the name of every jump / fork / failure-handler / loop-exit target it emits —
    a generated label never captures a user `goto`, a generated jump never lands on a user label. -/
theorem expand_labels_avoid_user (ss : List Stmt) (hwf : wfList ss = true) (u : String) (hu : userLabelOK u = true) :
    (∀ l, Prim.label l ∈ expandFlow ss → render l ≠ u) ∧
    (∀ e ∈ expandFlow ss, ∀ l ∈ e.targets, render l ≠ u) := by
  have key : ∀ l, Prim.label l ∈ expandFlow ss → render l ≠ u := by
    intro l hl heq
    exact userLabelOK_sound u hu (heq ▸ expand_labels_stemmed none ss 0 l hl)
  exact ⟨key, fun e he l hl => key l ((expand_closed ss hwf).targets e he l hl)⟩

/-- non-vacuity: ordinary user labels satisfy the discipline, a label that imitates a generated one does not
    (finite facts, by evaluation) -/
example : userLabelOK "lbl_0" = true ∧ userLabelOK "start_over" = true ∧ userLabelOK "_while_end_7" = false ∧
    userLabelOK "group_label" = false := by
  decide

/-! ### Path-level safety of ALL expansions (phase 3)

  Full statement aimed at:
      expand_path_safe : wfList ss → ∀ h, Reach (expandFlow ss) h → ∀ c,
        step (expandFlow ss) h c ∉ {keyError, invalidLabel, scopeError}
  i.e. on every execution path no look-up fails and no head meets `BeginScope(n)` while it still holds `n` ("every opened
  scope is closed on every path and never re-opened while open").  Proved below for every program WITHOUT `when`
  (`whenFreeList`): arbitrary nesting of if / elif / else, while / break / continue, match / send / start / await of specs
  and and/or groups — including the scope-opening `await <or-group>` template inside loops —, activate / deactivate, NLD.
  Method: every generated piece carries a state annotation (handler stack + open scopes, ONE state per position; all
  statements are entered and left with the state of the enclosing statement list, fork-template branches run in
  `(failure_label :: h, [scope ::] s)`); `annot_sound` (any closed program with a consistent annotation is path-safe) is
  generic in the program.  For `when` the annotation needs unconditional `Goto`s to be modelled as such (today `step`
  explores both outcomes of every Goto; after a then-body the fall-through of `goto when_end` into `failure_case_…` would
  carry a second state) and the per-case / per-group label duplicates; programs with `when` are covered per program by
  `path_checker_sound` on the real output. -/

/-- generic: a program with a consistent state annotation starting in `([], [])` never raises the scope error -/
theorem annotation_sound {L : Type} [DecidableEq L] (ap : List (APrim L)) (ex : St L) (hch : Chain (LabSt ap) ap ex)
    (h0 : entryOf ap ex = ⟨[], []⟩) (h : Head L) (hr : Reach (ap.map Prod.fst) h) (c : Bool) :
    step (ap.map Prod.fst) h c ≠ .scopeError :=
  (annot_sound ap ex hch h0 h hr).2 c

/-- `expand_path_safe` for all `when`-free programs (the hypothesis `whenFreeList` excludes exactly the region left open) -/
theorem expand_path_safe_partial (ss : List Stmt) (hwf : wfList ss = true) (hnw : whenFreeList ss = true)
    (h : Head Lbl) (hr : Reach (expandFlow ss) h) (c : Bool) :
    step (expandFlow ss) h c ≠ .keyError ∧ step (expandFlow ss) h c ≠ .invalidLabel ∧
    step (expandFlow ss) h c ≠ .scopeError := by
  obtain ⟨h1, h2, _⟩ := expand_safe ss hwf h hr c
  obtain ⟨ap, he, hch, h0⟩ := expandFlow_annotated ss hwf hnw
  refine ⟨h1, h2, ?_⟩
  have := annotation_sound ap ⟨[], []⟩ hch h0 h (by rw [he]; exact hr) c
  rw [he] at this
  exact this

/-- non-vacuity: an `await (a or (b and c))` inside a loop inside an `if` — opens a scope on every iteration (finite fact) -/
example : wfList [.ifS [.whileS [.awaitG [[⟨.flow, false⟩], [⟨.action, true⟩, ⟨.flow, false⟩]], .brk]] []] = true ∧
    whenFreeList [.ifS [.whileS [.awaitG [[⟨.flow, false⟩], [⟨.action, true⟩, ⟨.flow, false⟩]], .brk]] []] = true ∧
    (expandFlow [.ifS [.whileS [.awaitG [[⟨.flow, false⟩], [⟨.action, true⟩, ⟨.flow, false⟩]], .brk]] []]).any
      (fun e => e == .beginScope ("scope_", 6)) = true := by
  decide

/-- `break` / `continue` are resolved to the labels of the innermost enclosing loop, also through `if` (finite fact) -/
example : expandFlow [.whileS [.ifS [.brk] [.whileS [.cont]]], .brk] =
    [.label ("_while_begin_", 0), .goto ("_while_end_", 0),
     .goto ("if_else_body_label_", 1), .brk (some ("_while_end_", 0)), .jump ("if_end_label_", 2), .label ("if_else_body_label_", 1),
     .label ("_while_begin_", 3), .goto ("_while_end_", 3), .cont (some ("_while_begin_", 3)), .jump ("_while_begin_", 3), .label ("_while_end_", 3),
     .label ("if_end_label_", 2),
     .jump ("_while_begin_", 0), .label ("_while_end_", 0), .brk none] := by
  decide

/-- non-vacuity of `wfList` and a look at the repaired `when … else` inside a loop: closed, and (finite fact) the path that
    made the unrepaired compiler's output raise "Scope … already opened" now ends in `EndScope` before the loop repeats -/
example : wfList [.whileS [.whenS [[[⟨.ev, false⟩]]] [[.send]] [.send] true]] = true ∧
    closed (expandFlow [.whileS [.whenS [[[⟨.ev, false⟩]]] [[.send]] [.send] true]]) = true ∧
    (expandFlow [.whileS [.whenS [[[⟨.ev, false⟩]]] [[.send]] [.send] true]]).filter (fun e => e == .endScope ("scope_", 1))
      = [.endScope ("scope_", 1), .endScope ("scope_", 1)] := by
  decide

end NemoVerif.C12
